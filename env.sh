# Toolchain pin for building and running the checker (sourced by setup.sh and run.sh).
# go1.26.8 is pre-installed; x/tools v0.50.0 is in the module cache. The caller's
# GOTOOLCHAIN/GOFLAGS must not matter, so everything is set explicitly.
export PATH=/opt/veriftools/go1.26.8/bin:$PATH
export GOTOOLCHAIN=local GOFLAGS=-mod=mod GOPROXY=off GOSUMDB=off GONOSUMDB='*' GONOSUMCHECK=1
unset GOWORK

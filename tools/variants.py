#!/usr/bin/env python3
"""Self-test of the checker: apply single-instance breakages (variants) to scratch
copies of /repo and require that the property's check reports a violation.

usage: variants.py [--property Cxx] [--id ID] [--jobs N] [--repo /repo] [--list]
A variant is {id, property, file, old, new, [count], [expect_rule], [note]} or
{id, property, patch: <path to unified diff>}. A variant whose anchor text no longer
exists in the tree is skipped and listed. Exit 0 iff every applicable variant
compiles and is reported; exit 3 otherwise (checker defect, never a VIOLATION)."""
import argparse, json, os, shutil, subprocess, sys, tempfile, glob, concurrent.futures as cf

VERIF = os.path.dirname(os.path.dirname(os.path.abspath(__file__)))

def load_variants():
    """Hand-written single-instance breakages (variants/*.json), the confirmed seeded changes (seeded/<id>-<k>),
    the reverse of every fix commit (variants/fixes, attributed through known_findings.txt) and the
    behaviour-preserving refactorings (neutral/*, which every check must pass silently; likewise feature/*: small behaviour-changing but property-preserving features)."""
    import re
    out = []
    for f in sorted(glob.glob(os.path.join(VERIF, 'variants', '*.json'))):
        for v in json.load(open(f)):
            v['_src'] = os.path.basename(f)
            out.append(v)
    for d in sorted(glob.glob(os.path.join(VERIF, 'seeded', 'C*-*'))):
        meta = json.load(open(os.path.join(d, 'meta.json')))
        out.append({'id': 'seed-' + os.path.basename(d), 'property': meta['property'], 'patches': [os.path.join('seeded', os.path.basename(d), 'patch.diff')], 'note': meta.get('title', ''), '_src': 'seeded'})
    fixes = {}
    kf = os.path.join(VERIF, 'known_findings.txt')
    if os.path.exists(kf):
        for line in open(kf):
            m = re.match(r'fixed: property=(C\d+) (\w+) (.*)', line)
            if m:
                fixes[m.group(2)] = (m.group(1), m.group(3))
    for f in sorted(glob.glob(os.path.join(VERIF, 'variants', 'fixes', 'revert-*.diff'))):
        c = re.search(r'revert-(\w+)\.diff', f).group(1)
        if c not in fixes:
            continue
        patches = [os.path.join('variants', 'fixes', os.path.basename(f))]
        if c == '3af0dae':
            patches.insert(0, os.path.join('variants', 'fixes', 'revert-5e96f31.diff'))
        out.append({'id': 'revert-fix-' + c, 'property': fixes[c][0], 'patches': patches, 'note': fixes[c][1], '_src': 'fixes'})
    for d in sorted(glob.glob(os.path.join(VERIF, 'neutral', '*')) + glob.glob(os.path.join(VERIF, 'feature', '*'))):
        if os.path.exists(os.path.join(d, 'patch.diff')):
            out.append({'id': 'neutral-' + os.path.basename(d), 'property': '*', 'patches': [os.path.join(os.path.basename(os.path.dirname(d)), os.path.basename(d), 'patch.diff')], 'expect': 'silent', '_src': 'neutral'})
    return out

def load_known_limitations():
    out = {}
    p = os.path.join(VERIF, 'known_limitations.txt')
    if os.path.exists(p):
        for line in open(p):
            line = line.strip()
            if line and not line.startswith('#'):
                k, _, why = line.partition(' ')
                out[k] = why
    return out

KNOWN_LIMITATIONS = load_known_limitations()

def run_one(v, repo, prop=None):
    d = tempfile.mkdtemp(prefix='samlvar.', dir=os.environ.get('VERIF_SCRATCH', '/tmp'))
    try:
        for name in ('go.mod', 'go.sum'):
            shutil.copy(os.path.join(repo, name), d)
        shutil.copytree(os.path.join(repo, 'pkg'), os.path.join(d, 'pkg'))
        if 'patch' in v or 'patches' in v:
            for pf in v.get('patches') or [v['patch']]:
                p = subprocess.run(['patch', '-p1', '-s', '-d', d, '-i', os.path.join(VERIF, pf)], capture_output=True, text=True)
                if p.returncode != 0:
                    return v, 'skipped', 'patch does not apply: ' + p.stdout.strip()[:200]
        else:
            edits = v.get('edits') or [v]
            for e in edits:
                path = os.path.join(d, e['file'])
                if not os.path.exists(path):
                    return v, 'skipped', 'file missing: ' + e['file']
                s = open(path).read()
                if e['old'] not in s:
                    return v, 'skipped', 'anchor text not found in ' + e['file']
                s = s.replace(e['old'], e['new'], e.get('count', 1))
                open(path, 'w').write(s)
        cmd = [os.path.join(VERIF, 'bin', 'samlcheck'), '-property', prop or v['property'], '-repo', d, '-verif', VERIF, '-no-evidence']
        p = subprocess.run(cmd, capture_output=True, text=True)
        out = p.stdout + p.stderr
        if p.returncode == 2:
            return v, 'invalid', 'variant does not load/type-check: ' + out.strip()[-300:]
        viol = [l for l in out.splitlines() if l.startswith('VIOLATION')]
        if v.get('expect') == 'silent':
            if p.returncode == 0 and not viol:
                return v, 'silent-ok', 'neutral edit, no report'
            if v['id'].replace('neutral-', '') in KNOWN_LIMITATIONS:
                return v, 'known-limitation', KNOWN_LIMITATIONS[v['id'].replace('neutral-', '')][:200]
            return v, 'FALSE-ALARM', (viol[0] if viol else out.strip())[:300]
        if p.returncode == 1 and viol:
            if v.get('expect_rule') and not any(('rule=' + v['expect_rule']) in l for l in viol):
                return v, 'wrong-rule', viol[0][:300]
            return v, 'caught', viol[0][:300]
        return v, 'MISSED', out.strip()[-300:]
    finally:
        shutil.rmtree(d, ignore_errors=True)

def main():
    ap = argparse.ArgumentParser()
    ap.add_argument('--property'); ap.add_argument('--id'); ap.add_argument('--jobs', type=int, default=6)
    ap.add_argument('--repo', default='/repo'); ap.add_argument('--list', action='store_true'); ap.add_argument('--json')
    a = ap.parse_args()
    vs = load_variants()
    if a.property: vs = [v for v in vs if v['property'] in (a.property, '*')]
    if a.id: vs = [v for v in vs if v['id'] == a.id]
    if a.list:
        for v in vs: print(v['property'], v['id'], v.get('note', ''))
        return 0
    res = []
    with cf.ThreadPoolExecutor(max_workers=a.jobs) as ex:
        for v, st, msg in ex.map(lambda v: run_one(v, a.repo, a.property if v['property'] == '*' else None), vs):
            res.append({'id': v['id'], 'property': a.property if v['property'] == '*' and a.property else v['property'], 'status': st, 'msg': msg})
            print(f"{st:10s} {v['property']} {v['id']}: {msg[:160]}")
    bad = [r for r in res if r['status'] in ('MISSED', 'invalid', 'wrong-rule', 'FALSE-ALARM')]
    print(f"variants: {len(res)} run, {sum(r['status']=='caught' for r in res)} caught, {sum(r['status']=='skipped' for r in res)} skipped, {sum(r['status']=='known-limitation' for r in res)} known limitations, {len(bad)} bad")
    if a.json:
        json.dump(res, open(a.json, 'w'), indent=1)
    return 3 if bad else 0

if __name__ == '__main__':
    sys.exit(main())

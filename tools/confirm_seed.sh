#!/bin/sh
# usage: confirm_seed.sh <ID> <k>   -- independently confirms a seeded change from /tmp/seeds/<ID>/<k> in a scratch worktree:
#   patch applies; full suite passes with it; demo fails with it; demo passes without it. Copies it to /verif/seeded/<ID>-<k>/ on success.
ID=$1; K=$2; BASE=${3:-/tmp/seeds}; TAG=${4:-}; S=$BASE/$ID/$K; V=/verif
[ -f $S/patch.diff ] && [ -f $S/demo_test.go ] && [ -f $S/meta.json ] || { echo "$ID/$K: incomplete"; exit 2; }
export GOFLAGS=-mod=mod GOPROXY=off
WT=/tmp/wt/confirm-$ID-$TAG$K
git -C /repo worktree add -q --detach $WT HEAD || exit 2
trap 'git -C /repo worktree remove --force $WT >/dev/null 2>&1' EXIT
cd $WT
DIR=$(python3 -c "import json;print(json.load(open('$S/meta.json'))['demo_pkg_dir'])")
RUN=$(python3 -c "import json;print(json.load(open('$S/meta.json'))['demo_run'])")
git apply $S/patch.diff || { echo "$ID/$K: patch does not apply"; exit 1; }
go build ./... || { echo "$ID/$K: does not compile"; exit 1; }
out=$(go test -vet=off -count=1 ./... 2>&1); echo "$out" | grep -q "^FAIL\|^--- FAIL\|^panic" && { echo "$ID/$K: existing suite FAILS with patch"; exit 1; }
cp $S/demo_test.go $DIR/zz_seed_demo_test.go
if sh -c "$RUN" >/tmp/wt/confirm-$ID-$K.with.log 2>&1; then echo "$ID/$K: demo PASSES with patch (not a demonstration)"; exit 1; fi
git checkout -q -- . ; git clean -fdq ; cp $S/demo_test.go $DIR/zz_seed_demo_test.go
if ! sh -c "$RUN" >/tmp/wt/confirm-$ID-$K.without.log 2>&1; then echo "$ID/$K: demo FAILS without patch"; tail -5 /tmp/wt/confirm-$ID-$K.without.log; exit 1; fi
rm -f /tmp/wt/confirm-$ID-$K.with.log /tmp/wt/confirm-$ID-$K.without.log
mkdir -p $V/seeded/$ID-$TAG$K && cp $S/patch.diff $S/demo_test.go $V/seeded/$ID-$TAG$K/ && python3 - <<PY
import json
m=json.load(open('$S/meta.json'))
m['confirmed']={'by':'tools/confirm_seed.sh in a scratch worktree of /repo HEAD','ran':['git apply patch.diff','go build ./...','go test -vet=off -count=1 ./... (passes with patch)', m['demo_run']+' (fails with patch, passes without)']}
json.dump(m,open('$V/seeded/$ID-$TAG$K/meta.json','w'),indent=1)
PY
echo "$ID/$K: CONFIRMED"

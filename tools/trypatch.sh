#!/bin/sh
# usage: trypatch.sh <property[,property]> <patch file> [more patch files]  -- applies patches to a scratch copy of /repo and runs the check
P="$1"; shift
V=$(cd "$(dirname "$0")/.." && pwd)
D=$(mktemp -d /tmp/samltry.XXXXXX)
cp /repo/go.mod /repo/go.sum "$D"/ && cp -r /repo/pkg "$D"/pkg
for f in "$@"; do f=$(readlink -f "$f"); patch -p1 -s -d "$D" -i "$f" || { echo "patch $f does not apply"; rm -rf "$D"; exit 3; }; done
. "$V/env.sh"
"$V/bin/samlcheck" -property "$P" -repo "$D" -verif "$V" -no-evidence
rc=$?
rm -rf "$D"
exit $rc

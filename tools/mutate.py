#!/usr/bin/env python3
"""Mutation sweep used to EVALUATE the checker (development aid, not a registered check and not evidence).

For every first-order mutant of /repo's non-test sources (tools/mutgen): does it compile, does the existing test
suite still pass (a "survivor" - the kind of change the properties are about), and which property checks report it?
Survivors that no check reports are listed for manual triage: each is either behaviour-preserving / irrelevant to
the twenty properties, or a gap in the rules.

usage: mutate.py [--repo /repo] [--jobs 8] [--out DIR] [--files substr,substr] [--ops OP,OP] [--limit N] [--ids M0001,M0002]
Scratch copies live in fixed per-worker directories below /tmp/samlmut (so the go build/test caches are reused)
and are removed at the end.
"""
import argparse, json, os, shutil, subprocess, sys, time, concurrent.futures as cf, threading, queue

VERIF = os.path.dirname(os.path.dirname(os.path.abspath(__file__)))
SCRATCH = os.environ.get('VERIF_MUT_SCRATCH', '/tmp/samlmut')

def sh(cmd, cwd=None, env=None, timeout=600):
    try:
        p = subprocess.run(cmd, cwd=cwd, env=env, capture_output=True, text=True, timeout=timeout)
        return p.returncode, p.stdout + p.stderr
    except subprocess.TimeoutExpired:
        return 124, 'timeout'

def repo_env():
    e = dict(os.environ)
    e['PATH'] = ':'.join(p for p in e.get('PATH', '').split(':') if 'go1.26.8' not in p)
    for k in ('GOTOOLCHAIN', 'GOSUMDB', 'GOWORK', 'GONOSUMDB', 'GONOSUMCHECK'):
        e.pop(k, None)
    e['GOFLAGS'] = '-mod=mod'
    e['GOPROXY'] = 'off'
    return e

def checker_env():
    e = dict(os.environ)
    e['PATH'] = '/opt/veriftools/go1.26.8/bin:' + e.get('PATH', '')
    e.update(GOTOOLCHAIN='local', GOFLAGS='-mod=mod', GOPROXY='off', GOSUMDB='off')
    e.pop('GOWORK', None)
    return e

def prepare(wdir, repo):
    os.makedirs(wdir, exist_ok=True)
    for n in ('go.mod', 'go.sum'):
        shutil.copy(os.path.join(repo, n), wdir)
    subprocess.run(['rsync', '-a', '--delete', os.path.join(repo, 'pkg') + '/', os.path.join(wdir, 'pkg') + '/'], check=True)

def run_mutant(m, wdir, repo, samlcheck):
    prepare(wdir, repo)
    path = os.path.join(wdir, m['file'])
    src = open(path, 'rb').read()
    new = src[:m['start']] + m['repl'].encode() + src[m['end']:]
    open(path, 'wb').write(new)
    res = dict(m)
    rc, out = sh(['go', 'build', './...'], cwd=wdir, env=repo_env())
    if rc != 0:
        res['state'] = 'nocompile'
        return res
    if m.get('_known_state'):
        res['state'] = m['_known_state']
    else:
        rc, out = sh(['go', 'vet', './...'], cwd=wdir, env=repo_env())
        res['vet'] = 'ok' if rc == 0 else 'flagged'
        rc, out = sh(['go', 'test', '-vet=off', '-timeout', '120s', './...'], cwd=wdir, env=repo_env(), timeout=300)
        res['state'] = 'survived' if rc == 0 else 'killed'
    rc, out = sh([samlcheck, '-property', 'all', '-repo', wdir, '-verif', VERIF, '-no-evidence'], env=checker_env(), timeout=300)
    if rc == 2:
        res['check'] = 'invalid'
        res['check_out'] = out[-400:]
    else:
        props = {}
        for l in out.splitlines():
            if l.startswith('VIOLATION'):
                f = dict(x.split('=', 1) for x in l.split()[1:] if '=' in x)
                props.setdefault(f.get('property', '?'), []).append(f.get('rule', ''))
        res['check'] = 'flagged' if props else 'silent'
        res['flagged_by'] = {k: sorted(set(v)) for k, v in props.items()}
    return res

def main():
    ap = argparse.ArgumentParser()
    ap.add_argument('--repo', default='/repo')
    ap.add_argument('--jobs', type=int, default=8)
    ap.add_argument('--out', default=os.path.join(VERIF, 'mutation'))
    ap.add_argument('--files', default='')
    ap.add_argument('--ops', default='')
    ap.add_argument('--ids', default='')
    ap.add_argument('--limit', type=int, default=0)
    ap.add_argument('--recheck', default='', help='results.jsonl of an earlier sweep: only its silent survivors are re-analysed (tests are not re-run)')
    a = ap.parse_args()
    os.makedirs(a.out, exist_ok=True)
    mutgen = os.path.join(SCRATCH, 'mutgen')
    os.makedirs(SCRATCH, exist_ok=True)
    rc, out = sh(['go', 'build', '-o', mutgen, '.'], cwd=os.path.join(VERIF, 'tools', 'mutgen'), env=repo_env())
    if rc != 0:
        print(out); sys.exit(2)
    samlcheck = os.path.join(SCRATCH, 'samlcheck')
    rc, out = sh(['go', 'build', '-o', samlcheck, '.'], cwd=os.path.join(VERIF, 'checker'), env=checker_env())
    if rc != 0:
        print(out); sys.exit(2)
    p = subprocess.run([mutgen, a.repo], capture_output=True, text=True)
    muts = [json.loads(l) for l in p.stdout.splitlines()]
    if a.files:
        muts = [m for m in muts if any(s in m['file'] for s in a.files.split(','))]
    if a.ops:
        muts = [m for m in muts if m['op'] in a.ops.split(',')]
    if a.ids:
        muts = [m for m in muts if m['id'] in a.ids.split(',')]
    if a.recheck:
        prev = {}
        for l in open(a.recheck):
            r = json.loads(l)
            prev[(r['file'], r['start'], r['end'], r['repl'])] = r
        keep = []
        for m in muts:
            r = prev.get((m['file'], m['start'], m['end'], m['repl']))
            if r and r.get('state') == 'survived' and r.get('check') == 'silent':
                m['_known_state'] = 'survived'
                keep.append(m)
        muts = keep
    if a.limit:
        muts = muts[:a.limit]
    print(f'{len(muts)} mutants, {a.jobs} workers', flush=True)
    q = queue.Queue()
    for i in range(a.jobs):
        q.put(os.path.join(SCRATCH, f'w{i}'))
    results = []
    lock = threading.Lock()
    outf = open(os.path.join(a.out, 'results.jsonl'), 'w')
    def work(m):
        w = q.get()
        try:
            r = run_mutant(m, w, a.repo, samlcheck)
        except Exception as e:
            r = dict(m); r['state'] = 'error'; r['err'] = str(e)
        finally:
            q.put(w)
        with lock:
            results.append(r)
            outf.write(json.dumps(r) + '\n'); outf.flush()
            if len(results) % 50 == 0:
                print(f'{len(results)}/{len(muts)}', flush=True)
        return r
    t0 = time.time()
    with cf.ThreadPoolExecutor(a.jobs) as ex:
        list(ex.map(work, muts))
    outf.close()
    shutil.rmtree(SCRATCH, ignore_errors=True)
    # summary
    import collections
    st = collections.Counter((r.get('state'), r.get('check')) for r in results)
    lines = ['# Mutation sweep (evaluation of the checker; not evidence)', '',
             f'{len(results)} mutants in {time.time()-t0:.0f}s', '']
    for k, v in sorted(st.items(), key=str):
        lines.append(f'- {k}: {v}')
    lines += ['', '## Survivors (suite passes) that no check reports', '', '| id | file:line | func | op | change | vet |', '|---|---|---|---|---|---|']
    for r in results:
        if r.get('state') == 'survived' and r.get('check') == 'silent':
            lines.append(f"| {r['id']} | {r['file']}:{r['line']} | {r['func']} | {r['op']} | {r['desc'].replace('|', '¦')} | {r.get('vet','')} |")
    lines += ['', '## Checker could not analyse', '']
    for r in results:
        if r.get('check') == 'invalid':
            lines.append(f"- {r['id']} {r['file']}:{r['line']} {r['op']} {r['desc']}: {r.get('check_out','')[-200:]}")
    open(os.path.join(a.out, 'SUMMARY.md'), 'w').write('\n'.join(lines) + '\n')
    print('\n'.join(lines[:12]))

if __name__ == '__main__':
    main()

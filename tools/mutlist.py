#!/usr/bin/env python3
"""usage: mutlist.py <results.jsonl> <file substring>  -- lists silent survivors of one file, sorted by line"""
import json,sys
rs=[json.loads(l) for l in open(sys.argv[1])]
sel=[r for r in rs if r.get('state')=='survived' and r.get('check')=='silent' and sys.argv[2] in r['file']]
sel.sort(key=lambda r:(r['file'],r['line'],r['start']))
for r in sel:
    print(f"{r['id']} {r['file'].split('/')[-1]}:{r['line']} {r['func']} {r['op']}: {r['desc']}")

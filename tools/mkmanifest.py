#!/usr/bin/env python3
"""Regenerates /verif/MANIFEST.json from the table below (single source of truth)."""
import json, os
V = os.path.dirname(os.path.dirname(os.path.abspath(__file__)))
CLAIMS = json.load(open(f'{V}/tools/claims.json'))
props = [json.loads(l) for l in open(f'{V}/properties.jsonl')]
checks, na = [], []
for p in props:
    pid = p['id']
    c = CLAIMS.get(pid)
    if not c or c.get('not_applicable'):
        na.append({"property_id": pid, "reason": (c or {}).get('not_applicable', 'check not built yet (build in progress; DESIGN.md section 8)')})
        continue
    checks.append({
        "property_id": pid,
        "quick_cmd": f"./run.sh {pid} quick",
        "thorough_cmd": f"./run.sh {pid} thorough",
        "evidence_file": f"/verif/evidence/{pid}.json",
        "replay_cmd_template": "./bin/samlcheck -replay {path}",
        "engine": "samlcheck",
        "level_claimed": {"category": "other", "text": c['text'], "design_ref": c.get('design_ref', f"DESIGN.md section 4, {pid}")},
        "level_note": c['note'],
        "technique": c['technique'],
    })
m = {
 "version": 1,
 "setup_cmd": "./setup.sh",
 "hooks": {"guard": "verif", "enable": "no hooks are needed: the checker only reads /repo's source (go/packages with the repository's own go.mod); the tag 'verif' guards nothing",
           "baseline_off_cmd": "cd /repo && go test -vet=off -count=1 ./...", "source_commits": [], "add_only": True},
 "engines": [{"name": "samlcheck", "path": "/verif/checker", "serves_properties": [c['property_id'] for c in checks],
              "kind_free_text": "repository-specific static analyser (go/packages + go/types + go/ssa of x/tools v0.50.0, built with go1.26.8): chain model, dominance/path facts with typed atoms, value-flow provenance, effect and who-may-write rules; no execution of the library"}],
 "checks": checks,
 "not_applicable": na,
 "notes": "All claims are at level 'other': structural necessary conditions of each property decided from the source for all inputs/schedules; DESIGN.md section 4 lists per property what is and is not decided. known_findings.txt lists genuine defects that are recorded rather than repaired.",
}
json.dump(m, open(f'{V}/MANIFEST.json', 'w'), indent=1)
print(len(checks), 'claimed;', len(na), 'not applicable')

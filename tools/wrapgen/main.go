// wrapgen: development aid (not a registered check). Rewrites one function of a scratch copy of the repository into
// "<name>Impl" plus a wrapper with the original name that hands its parameters on - the most common behaviour-
// preserving refactoring around an anchor function. The checks must stay silent on the result.
//
// usage: wrapgen -dir <package dir> -func [Recv.]Name
package main

import (
	"bytes"
	"flag"
	"fmt"
	"go/ast"
	"go/format"
	"go/parser"
	"go/token"
	"os"
	"path/filepath"
	"strings"
)

func main() {
	dir := flag.String("dir", "", "package directory")
	fn := flag.String("func", "", "[Recv.]Name")
	flag.Parse()
	recv, name := "", *fn
	if i := strings.Index(*fn, "."); i >= 0 {
		recv, name = (*fn)[:i], (*fn)[i+1:]
	}
	fset := token.NewFileSet()
	pkgs, err := parser.ParseDir(fset, *dir, func(fi os.FileInfo) bool { return !strings.HasSuffix(fi.Name(), "_test.go") }, parser.ParseComments)
	if err != nil {
		fmt.Fprintln(os.Stderr, err)
		os.Exit(2)
	}
	for _, pkg := range pkgs {
		for path, f := range pkg.Files {
			for _, d := range f.Decls {
				fd, ok := d.(*ast.FuncDecl)
				if !ok || fd.Name.Name != name || fd.Body == nil {
					continue
				}
				r := ""
				if fd.Recv != nil && len(fd.Recv.List) == 1 {
					t := fd.Recv.List[0].Type
					if st, ok := t.(*ast.StarExpr); ok {
						t = st.X
					}
					if id, ok := t.(*ast.Ident); ok {
						r = id.Name
					}
				}
				if r != recv {
					continue
				}
				if fd.Type.TypeParams != nil {
					fmt.Fprintln(os.Stderr, "generic function: skipped")
					os.Exit(3)
				}
				// name every parameter
				var args []string
				n := 0
				for _, p := range fd.Type.Params.List {
					if len(p.Names) == 0 {
						p.Names = []*ast.Ident{ast.NewIdent(fmt.Sprintf("p%d", n))}
					}
					for _, id := range p.Names {
						if id.Name == "_" {
							id.Name = fmt.Sprintf("p%d", n)
						}
						a := id.Name
						if _, isEll := p.Type.(*ast.Ellipsis); isEll {
							a += "..."
						}
						args = append(args, a)
						n++
					}
				}
				recvName := ""
				if fd.Recv != nil {
					if len(fd.Recv.List[0].Names) == 0 || fd.Recv.List[0].Names[0].Name == "_" {
						fd.Recv.List[0].Names = []*ast.Ident{ast.NewIdent("recv0")}
					}
					recvName = fd.Recv.List[0].Names[0].Name
				}
				var sig bytes.Buffer
				format.Node(&sig, fset, &ast.FuncDecl{Recv: fd.Recv, Name: ast.NewIdent(name), Type: stripResultNames(fd.Type)})
				call := name + "Impl(" + strings.Join(args, ", ") + ")"
				if recvName != "" {
					call = recvName + "." + call
				}
				body := "\t" + call + "\n"
				if fd.Type.Results != nil && len(fd.Type.Results.List) > 0 {
					body = "\treturn " + call + "\n"
				}
				wrapper := sig.String() + " {\n" + body + "}\n"
				fd.Name.Name = name + "Impl"
				var out bytes.Buffer
				if err := format.Node(&out, fset, f); err != nil {
					fmt.Fprintln(os.Stderr, err)
					os.Exit(2)
				}
				out.WriteString("\n" + wrapper)
				src, err := format.Source(out.Bytes())
				if err != nil {
					fmt.Fprintln(os.Stderr, err)
					os.Exit(2)
				}
				if err := os.WriteFile(path, src, 0o644); err != nil {
					fmt.Fprintln(os.Stderr, err)
					os.Exit(2)
				}
				fmt.Println("wrapped", filepath.Base(path), *fn)
				return
			}
		}
	}
	fmt.Fprintln(os.Stderr, "function not found:", *fn)
	os.Exit(3)
}

func stripResultNames(ft *ast.FuncType) *ast.FuncType {
	if ft.Results == nil {
		return ft
	}
	nt := &ast.FuncType{Params: ft.Params}
	rl := &ast.FieldList{}
	for _, f := range ft.Results.List {
		k := len(f.Names)
		if k == 0 {
			k = 1
		}
		for i := 0; i < k; i++ {
			rl.List = append(rl.List, &ast.Field{Type: f.Type})
		}
	}
	nt.Results = rl
	return nt
}

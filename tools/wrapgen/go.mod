module wrapgen

go 1.23

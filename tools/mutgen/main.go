// mutgen enumerates first-order mutants of the non-test, non-mock Go sources below <repo>/pkg.
// It is a development aid for evaluating the checker (tools/mutate.py): it is not part of any registered check.
// Output: JSON lines {id,file,line,op,desc,start,end,repl}; a mutant is "replace bytes [start,end) of file by repl".
package main

import (
	"encoding/json"
	"fmt"
	"go/ast"
	"go/parser"
	"go/token"
	"os"
	"path/filepath"
	"strings"
)

type mutant struct {
	ID    string `json:"id"`
	File  string `json:"file"`
	Line  int    `json:"line"`
	Func  string `json:"func"`
	Op    string `json:"op"`
	Desc  string `json:"desc"`
	Start int    `json:"start"`
	End   int    `json:"end"`
	Repl  string `json:"repl"`
}

var swapOp = map[token.Token]string{
	token.EQL: "!=", token.NEQ: "==", token.LSS: "<=", token.LEQ: "<", token.GTR: ">=", token.GEQ: ">",
	token.LAND: "||", token.LOR: "&&",
}

func main() {
	repo := os.Args[1]
	enc := json.NewEncoder(os.Stdout)
	n := 0
	filepath.Walk(filepath.Join(repo, "pkg"), func(path string, fi os.FileInfo, err error) error {
		if err != nil || fi.IsDir() || !strings.HasSuffix(path, ".go") || strings.HasSuffix(path, "_test.go") {
			return nil
		}
		if strings.Contains(path, "/mock/") || strings.HasSuffix(path, ".mock.go") {
			return nil
		}
		src, _ := os.ReadFile(path)
		fset := token.NewFileSet()
		f, perr := parser.ParseFile(fset, path, src, parser.ParseComments)
		if perr != nil {
			return nil
		}
		rel, _ := filepath.Rel(repo, path)
		off := func(p token.Pos) int { return fset.Position(p).Offset }
		text := func(n ast.Node) string { return string(src[off(n.Pos()):off(n.End())]) }
		curFunc := ""
		emit := func(node ast.Node, op, desc string, s, e int, repl string) {
			n++
			enc.Encode(mutant{ID: fmt.Sprintf("M%04d", n), File: rel, Line: fset.Position(node.Pos()).Line, Func: curFunc, Op: op, Desc: desc, Start: s, End: e, Repl: repl})
		}
		short := func(s string) string {
			s = strings.Join(strings.Fields(s), " ")
			if len(s) > 70 {
				s = s[:70] + "…"
			}
			return s
		}
		for _, d := range f.Decls {
			fd, ok := d.(*ast.FuncDecl)
			if !ok || fd.Body == nil {
				continue
			}
			curFunc = fd.Name.Name
			if fd.Recv != nil && len(fd.Recv.List) > 0 {
				curFunc = strings.TrimPrefix(string(src[off(fd.Recv.List[0].Type.Pos()):off(fd.Recv.List[0].Type.End())]), "*") + "." + curFunc
			}
			// result types of enclosing function literals / decl, innermost last
			type fnctx struct{ lastIsErr bool; nres int }
			var stack []fnctx
			push := func(ft *ast.FuncType) {
				c := fnctx{}
				if ft.Results != nil {
					for _, fl := range ft.Results.List {
						k := len(fl.Names)
						if k == 0 {
							k = 1
						}
						c.nres += k
					}
					last := ft.Results.List[len(ft.Results.List)-1]
					if id, ok := last.Type.(*ast.Ident); ok && id.Name == "error" {
						c.lastIsErr = true
					}
				}
				stack = append(stack, c)
			}
			var visit func(n ast.Node)
			visitList := func(l []ast.Stmt) {
				for _, s := range l {
					visit(s)
				}
			}
			visit = func(n ast.Node) {
				if n == nil {
					return
				}
				switch x := n.(type) {
				case *ast.FuncLit:
					push(x.Type)
					visit(x.Body)
					stack = stack[:len(stack)-1]
					return
				case *ast.IfStmt:
					c := text(x.Cond)
					emit(x, "COND-NEG", "if "+short(c)+" -> negated", off(x.Cond.Pos()), off(x.Cond.End()), "!("+c+")")
					emit(x, "COND-FALSE", "if "+short(c)+" -> never", off(x.Cond.Pos()), off(x.Cond.End()), "("+c+") && false")
					emit(x, "COND-TRUE", "if "+short(c)+" -> always", off(x.Cond.Pos()), off(x.Cond.End()), "("+c+") || true")
				case *ast.BinaryExpr:
					if r, ok := swapOp[x.Op]; ok {
						emit(x, "BINOP", short(text(x))+" : "+x.Op.String()+" -> "+r, off(x.OpPos), off(x.OpPos)+len(x.Op.String()), r)
					}
					if x.Op == token.LAND || x.Op == token.LOR {
						emit(x, "DROP-LEFT", short(text(x))+" : drop left operand", off(x.Pos()), off(x.End()), text(x.Y))
						emit(x, "DROP-RIGHT", short(text(x))+" : drop right operand", off(x.Pos()), off(x.End()), text(x.X))
					}
					if x.Op == token.EQL || x.Op == token.NEQ {
						if bl, ok := x.Y.(*ast.BasicLit); ok && bl.Kind == token.STRING && bl.Value != `""` {
							emit(x, "STR-CMP", short(text(x))+" : compared literal -> \"\"", off(bl.Pos()), off(bl.End()), `""`)
						}
						if bl, ok := x.Y.(*ast.BasicLit); ok && bl.Kind == token.INT {
							v := "1"
							if bl.Value != "0" {
								v = "0"
							}
							emit(x, "INT-CMP", short(text(x))+" : compared literal -> "+v, off(bl.Pos()), off(bl.End()), v)
						}
					}
				case *ast.ExprStmt:
					if _, ok := x.X.(*ast.CallExpr); ok {
						emit(x, "STMT-DEL", "delete call "+short(text(x)), off(x.Pos()), off(x.End()), "")
					}
				case *ast.AssignStmt:
					if x.Tok == token.ASSIGN || x.Tok == token.ADD_ASSIGN {
						emit(x, "STMT-DEL", "delete assignment "+short(text(x)), off(x.Pos()), off(x.End()), "")
					}
					if x.Tok == token.ASSIGN && len(x.Lhs) == 2 && len(x.Rhs) == 2 {
						emit(x, "ASSIGN-SWAP", "swap right-hand sides "+short(text(x)), off(x.Rhs[0].Pos()), off(x.Rhs[1].End()), text(x.Rhs[1])+", "+text(x.Rhs[0]))
					}
				case *ast.IncDecStmt:
					emit(x, "STMT-DEL", "delete "+short(text(x)), off(x.Pos()), off(x.End()), "")
				case *ast.BranchStmt:
					if x.Tok == token.BREAK || x.Tok == token.CONTINUE {
						emit(x, "BRANCH-DEL", "delete "+x.Tok.String(), off(x.Pos()), off(x.End()), "")
					}
					if x.Tok == token.BREAK && x.Label == nil {
						emit(x, "BRANCH-SWAP", "break -> continue", off(x.Pos()), off(x.End()), "continue")
					}
				case *ast.DeferStmt:
					emit(x, "STMT-DEL", "delete "+short(text(x)), off(x.Pos()), off(x.End()), "")
				case *ast.ReturnStmt:
					if len(stack) > 0 {
						c := stack[len(stack)-1]
						if c.lastIsErr && len(x.Results) == c.nres && c.nres > 0 {
							last := x.Results[len(x.Results)-1]
							if id, ok := last.(*ast.Ident); !ok || id.Name != "nil" {
								emit(x, "RET-NIL", short(text(x))+" : error result -> nil", off(last.Pos()), off(last.End()), "nil")
							}
						}
						if c.nres == 1 && len(x.Results) == 1 {
							if id, ok := x.Results[0].(*ast.Ident); ok && (id.Name == "true" || id.Name == "false") {
								r := "true"
								if id.Name == "true" {
									r = "false"
								}
								emit(x, "RET-BOOL", short(text(x))+" -> "+r, off(id.Pos()), off(id.End()), r)
							}
						}
					}
				case *ast.CallExpr:
					for i := 0; i+1 < len(x.Args); i++ {
						a, b := text(x.Args[i]), text(x.Args[i+1])
						if a == b {
							continue
						}
						emit(x, "ARG-SWAP", short(text(x.Fun))+": swap args "+short(a)+" / "+short(b), off(x.Args[i].Pos()), off(x.Args[i+1].End()), b+", "+a)
					}
				case *ast.CompositeLit:
					var kvs []*ast.KeyValueExpr
					for _, e := range x.Elts {
						if kv, ok := e.(*ast.KeyValueExpr); ok {
							kvs = append(kvs, kv)
						}
					}
					for i := 0; i+1 < len(kvs); i++ {
						a, b := text(kvs[i].Value), text(kvs[i+1].Value)
						if a == b {
							continue
						}
						// swap the two values (keeps keys): replace range [v_i.start, v_{i+1}.end)
						mid := string(src[off(kvs[i].Value.End()):off(kvs[i+1].Value.Pos())])
						emit(kvs[i], "FIELD-SWAP", "swap values of "+short(text(kvs[i].Key))+" / "+short(text(kvs[i+1].Key)), off(kvs[i].Value.Pos()), off(kvs[i+1].Value.End()), b+mid+a)
					}
					for _, kv := range kvs {
						if _, isLit := kv.Value.(*ast.CompositeLit); isLit {
							continue
						}
						if u, ok := kv.Value.(*ast.UnaryExpr); ok {
							if _, isLit := u.X.(*ast.CompositeLit); isLit {
								continue
							}
						}
					}
				case *ast.IndexExpr:
					if bl, ok := x.Index.(*ast.BasicLit); ok && bl.Kind == token.INT && bl.Value == "0" {
						emit(x, "INDEX", short(text(x))+" : [0] -> [1]", off(bl.Pos()), off(bl.End()), "1")
					}
				case *ast.BasicLit:
					_ = x
				}
				// generic descent
				switch x := n.(type) {
				case *ast.BlockStmt:
					visitList(x.List)
				default:
					ast.Inspect(n, func(c ast.Node) bool {
						if c == nil || c == n {
							return true
						}
						visit(c)
						return false
					})
				}
			}
			push(fd.Type)
			visit(fd.Body)
		}
		return nil
	})
	fmt.Fprintf(os.Stderr, "mutgen: %d mutants\n", n)
}

#!/bin/sh
# usage: muttry.sh <property list|all> <mutant id>...   -- rebuilds the diff of each mutant (from mutation/results-run1.jsonl) and runs the checks on it
P="$1"; shift
V=$(cd "$(dirname "$0")/.." && pwd)
for id in "$@"; do
python3 - "$id" "$V" <<'PY'
import json,sys,subprocess
for l in open(sys.argv[2]+'/mutation/results-run1.jsonl'):
    r=json.loads(l)
    if r['id']==sys.argv[1]:
        src=open('/repo/'+r['file'],'rb').read()
        open('/tmp/mutsrc.go','wb').write(src[:r['start']]+r['repl'].encode()+src[r['end']:])
        d=subprocess.run(['diff','-u','/repo/'+r['file'],'/tmp/mutsrc.go'],capture_output=True,text=True).stdout
        d=d.replace('--- /repo/','--- a/').replace('+++ /tmp/mutsrc.go','+++ b/'+r['file'])
        open('/tmp/%s.diff'%r['id'],'w').write(d)
        print('==',r['id'],r['file'],r['line'],r['op'],r['desc'])
PY
"$V/tools/trypatch.sh" "$P" /tmp/$id.diff | grep -v "^KNOWN\| 0 violations" | cut -c1-320
done

#!/bin/sh
# usage: scratch.sh <dir> <patch...>  -- (re)creates a scratch copy of /repo with patches applied (for debugging dumps); caller removes it
D="$1"; shift
rm -rf "$D"; mkdir -p "$D"; cp /repo/go.mod /repo/go.sum "$D"/ && cp -r /repo/pkg "$D"/pkg
for f in "$@"; do patch -p1 -s -d "$D" -i "$(readlink -f "$f")" || exit 3; done

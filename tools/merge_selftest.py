#!/usr/bin/env python3
"""Adds the self-test summary of a thorough run to the evidence file."""
import json, sys, os
V = os.path.dirname(os.path.dirname(os.path.abspath(__file__)))
p = sys.argv[1]
ev = json.load(open(f'{V}/evidence/{p}.json'))
st = json.load(open(f'{V}/evidence/selftest-{p}.json'))
ev['coverage']['selftest_variants'] = len(st)
ev['coverage']['selftest_caught'] = sum(1 for r in st if r['status'] == 'caught')
ev['coverage']['selftest_silent_ok'] = sum(1 for r in st if r['status'] == 'silent-ok')
ev['coverage']['selftest_skipped'] = [r['id'] for r in st if r['status'] == 'skipped']
ev['coverage']['selftest_samples'] = st[:5]
ev['coverage']['explanation'] += f" Thorough tier: {len(st)} single-instance breakages/neutral refactorings of the repository were applied to scratch copies and re-analysed; {ev['coverage']['selftest_caught']} breakages reported, {ev['coverage']['selftest_silent_ok']} neutral edits silent."
json.dump(ev, open(f'{V}/evidence/{p}.json', 'w'), indent=1)

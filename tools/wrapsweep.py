#!/usr/bin/env python3
"""Development aid (not a registered check): for every top-level function / method of the module's non-test, non-mock
sources, make a scratch copy in which the function is renamed to <name>Impl and a wrapper with the original name hands
its parameters on (tools/wrapgen), and run all checks on it. Such a copy behaves exactly like the original, so every
VIOLATION is a false alarm of the machinery. usage: wrapsweep.py [--jobs N] [--only substr]"""
import argparse, os, re, shutil, subprocess, tempfile, concurrent.futures as cf, json
V = os.path.dirname(os.path.dirname(os.path.abspath(__file__)))
REPO = os.environ.get('VERIF_REPO', '/repo')
def env():
    e = dict(os.environ); e['PATH'] = '/opt/veriftools/go1.26.8/bin:' + e['PATH']
    e.update(GOTOOLCHAIN='local', GOFLAGS='-mod=mod', GOPROXY='off', GOSUMDB='off'); e.pop('GOWORK', None); return e
def funcs():
    out = []
    for root, _, files in os.walk(os.path.join(REPO, 'pkg')):
        if '/mock' in root: continue
        for f in files:
            if not f.endswith('.go') or f.endswith('_test.go'): continue
            src = open(os.path.join(root, f)).read()
            for m in re.finditer(r'^func (?:\((?:\w+ )?\*?(\w+)\) )?(\w+)\(', src, re.M):
                recv, name = m.group(1), m.group(2)
                if name in ('init', 'main'): continue
                out.append((os.path.relpath(root, REPO), (recv + '.' if recv else '') + name))
    return sorted(set(out))
def run(item):
    d, fn = item
    t = tempfile.mkdtemp(prefix='samlwrap.', dir='/tmp')
    try:
        for n in ('go.mod', 'go.sum'): shutil.copy(os.path.join(REPO, n), t)
        shutil.copytree(os.path.join(REPO, 'pkg'), os.path.join(t, 'pkg'))
        q = subprocess.run([os.path.join(V, 'bin', 'wrapgen'), '-dir', os.path.join(t, d), '-func', fn], capture_output=True, text=True, env=env())
        if q.returncode != 0: return item, 'skip', q.stderr.strip()[:100]
        q = subprocess.run([os.path.join(V, 'bin', 'samlcheck'), '-property', 'all', '-repo', t, '-verif', V, '-no-evidence'], capture_output=True, text=True, env=env())
        if q.returncode == 2: return item, 'noload', (q.stdout + q.stderr)[-300:]
        viol = [l for l in q.stdout.splitlines() if l.startswith('VIOLATION')]
        return item, ('alarm' if viol else 'ok'), viol
    finally:
        shutil.rmtree(t, ignore_errors=True)
def main():
    ap = argparse.ArgumentParser(); ap.add_argument('--jobs', type=int, default=12); ap.add_argument('--only', default=''); a = ap.parse_args()
    items = [i for i in funcs() if a.only in i[0] + ':' + i[1]]
    res = {}
    with cf.ThreadPoolExecutor(max_workers=a.jobs) as ex:
        for item, st, info in ex.map(run, items):
            res[item[0] + ':' + item[1]] = (st, info)
            if st != 'ok':
                print(st, item[0], item[1])
                if st == 'alarm':
                    for l in info[:3]: print('    ', l[:260])
                elif st != 'skip': print('    ', info)
    n = {k: sum(1 for v in res.values() if v[0] == k) for k in ('ok', 'alarm', 'skip', 'noload')}
    print('functions:', len(items), n)
    json.dump({k: v for k, v in res.items()}, open('/tmp/wrapsweep.json', 'w'), indent=0)
if __name__ == '__main__': main()

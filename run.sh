#!/bin/sh
# usage: run.sh <property id> [quick|thorough]
# Decides one property on /repo's current working tree by static analysis.
# exit 0: holds (KNOWN-FINDING lines allowed); exit 1: VIOLATION line(s); exit 2: infrastructure/self-test failure.
cd "$(dirname "$0")" || exit 2
. ./env.sh
PROP="$1"; TIER="${2:-${VERIF_TIER:-quick}}"
REPO="${VERIF_REPO:-/repo}"
mkdir -p bin evidence
(cd checker && go build -o ../bin/samlcheck .) || { echo "cannot build checker" >&2; exit 2; }
./bin/samlcheck -property "$PROP" -tier "$TIER" -repo "$REPO" -verif "$(pwd)"
rc=$?
if [ "$TIER" = thorough ] && [ $rc -eq 0 ]; then
  # self-test: the rules must fire on single-instance breakages applied to scratch copies
  python3 tools/variants.py --property "$PROP" --repo "$REPO" --jobs 8 --json "evidence/selftest-$PROP.json" > "evidence/selftest-$PROP.log" 2>&1
  st=$?
  tail -1 "evidence/selftest-$PROP.log"
  if [ $st -ne 0 ]; then
    echo "self-test of the checker failed (see evidence/selftest-$PROP.log)" >&2
    grep -E '^(MISSED|invalid|wrong-rule|FALSE-ALARM)' "evidence/selftest-$PROP.log" >&2
    exit 2
  fi
  python3 tools/merge_selftest.py "$PROP" || exit 2
fi
exit $rc

#!/bin/sh
# Builds the checker offline from files on disk only.
set -e
cd "$(dirname "$0")"
. ./env.sh
mkdir -p bin evidence
(cd checker && go build -o ../bin/samlcheck .)
echo "setup ok: $(./bin/samlcheck -version 2>/dev/null || true)"

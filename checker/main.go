package main

import (
	"fmt"
	"os"

	"golang.org/x/tools/go/packages"
	"golang.org/x/tools/go/ssa"
	"golang.org/x/tools/go/ssa/ssautil"
)

func main() {
	cfg := &packages.Config{Mode: packages.LoadAllSyntax, Dir: os.Args[1], Tests: false, BuildFlags: []string{"-mod=readonly"}}
	pkgs, err := packages.Load(cfg, "./...")
	if err != nil {
		panic(err)
	}
	n := packages.PrintErrors(pkgs)
	prog, spkgs := ssautil.AllPackages(pkgs, ssa.InstantiateGenerics)
	prog.Build()
	fmt.Println(len(pkgs), n, len(spkgs))
}

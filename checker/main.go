package main

import (
	"flag"
	"fmt"
	"os"
	"path/filepath"
	"runtime/debug"
	"sort"
	"strconv"
	"strings"
	"time"

	"golang.org/x/tools/go/ssa"
)

type propFunc func(cx *Ctx, r *Report)

// Ctx bundles the program views shared by all rules.
type Ctx struct {
	W    *World
	Fx   *Facts
	Tier string

	routesMemo []routeInfo
	hscope     map[*ssa.Function]bool
	vfMemo     map[string]*VFlow
	chMemo     map[string]*Chain
	c20ok      int
	c20why     string
	emitMemo   map[*ssa.Function]*emitSummary
}

var registry = map[string]propFunc{}

func register(id string, f propFunc) { registry[id] = f }

func main() {
	prop := flag.String("property", "", "property id (C01..C20) or 'all'")
	tier := flag.String("tier", "quick", "quick|thorough")
	repo := flag.String("repo", "/repo", "repository working tree to analyse")
	verif := flag.String("verif", "/verif", "verification directory (evidence, known findings)")
	dump := flag.String("dump", "", "debug: chain:<funcKey> | funcs | paths:<funcKey>")
	noEvidence := flag.Bool("no-evidence", false, "do not write evidence (used by self-tests on scratch copies)")
	version := flag.Bool("version", false, "print version")
	replay := flag.String("replay", "", "re-evaluate the obligation recorded in this violation file")
	flag.Parse()
	if *version {
		fmt.Println("samlcheck 1")
		return
	}
	if *replay != "" {
		os.Exit(doReplay(*replay, *repo, *verif))
	}
	defer func() {
		if e := recover(); e != nil {
			fmt.Fprintf(os.Stderr, "samlcheck: internal error: %v\n%s\n", e, debug.Stack())
			os.Exit(2)
		}
	}()
	w, err := loadWorld(*repo)
	if err != nil {
		fmt.Fprintln(os.Stderr, "samlcheck: infrastructure failure:", err)
		os.Exit(2)
	}
	cx := &Ctx{W: w, Fx: newFacts(w), Tier: *tier}
	w.fx = cx.Fx
	if *dump != "" {
		doDump(cx, *dump)
		return
	}
	var ids []string
	if *prop == "all" {
		for id := range registry {
			ids = append(ids, id)
		}
		sort.Strings(ids)
	} else {
		for _, id := range strings.Split(*prop, ",") {
			if _, ok := registry[id]; !ok {
				fmt.Fprintf(os.Stderr, "samlcheck: no check for property %q\n", id)
				os.Exit(2)
			}
			ids = append(ids, id)
		}
	}
	kfs, err := loadKnownFindings(filepath.Join(*verif, "known_findings.txt"))
	if err != nil {
		fmt.Fprintln(os.Stderr, "samlcheck:", err)
		os.Exit(2)
	}
	seed, _ := strconv.Atoi(os.Getenv("VERIF_SEED"))
	exit := 0
	for _, id := range ids {
		t0 := time.Now()
		r := newReport(id, *tier)
		registry[id](cx, r)
		info := runInfo{Packages: len(w.Pkgs), Files: w.NFiles, Functions: len(w.Funcs), WallS: time.Since(startTime).Seconds(), Seed: seed, VerifDir: *verif}
		if len(ids) > 1 {
			info.WallS = time.Since(t0).Seconds()
		}
		var code int
		if *noEvidence {
			code = r.finishNoEvidence(kfs)
		} else {
			code = r.finish(info, kfs)
		}
		if code > exit {
			exit = code
		}
	}
	os.Exit(exit)
}

// finishNoEvidence prints violations only (scratch-copy self tests).
func (r *Report) finishNoEvidence(kfs []knownFinding) int {
	n := 0
	for _, o := range r.Obl {
		if o.Verdict != "violation" && o.Verdict != "undecided" {
			continue
		}
		known := false
		if o.Verdict == "violation" {
			for _, kf := range kfs {
				if kf.Property == r.Property && kf.Rule == o.Rule && kf.Key == o.Key {
					known = true
				}
			}
		}
		if known {
			fmt.Printf("KNOWN-FINDING: property=%s rule=%s key=%s\n", r.Property, o.Rule, o.Key)
			continue
		}
		n++
		fmt.Printf("VIOLATION property=%s replay=- rule=%s key=%s at %s: %s\n", r.Property, o.Rule, o.Key, o.Pos, o.Detail)
	}
	fmt.Printf("%s: %d obligations, %d violations\n", r.Property, len(r.Obl), n)
	if n > 0 {
		return 1
	}
	return 0
}

func doDump(cx *Ctx, what string) {
	w := cx.W
	switch {
	case what == "tags":
		w.dumpTags()
	case what == "funcs":
		for _, f := range w.Funcs {
			fmt.Println(w.FuncKey(f), w.FnPos(f))
		}
	case strings.HasPrefix(what, "chain:"):
		fn := w.Func(strings.TrimPrefix(what, "chain:"))
		if fn == nil {
			fmt.Println("no such function")
			return
		}
		ch, err := w.extractChain(cx.Fx, fn)
		if err != nil {
			fmt.Println("error:", err)
			return
		}
		for _, s := range ch.Steps {
			fmt.Printf("%d %s %q at %s\n", s.Idx, s.Kind, s.Name, s.Pos)
			roles := []string{}
			for k := range s.Role {
				roles = append(roles, k)
			}
			sort.Strings(roles)
			for _, k := range roles {
				for _, f := range s.Role[k] {
					fmt.Printf("    %-9s %s\n", k, w.FuncKey(f))
				}
			}
		}
	case strings.HasPrefix(what, "paths:"):
		dumpBoolPaths(cx, strings.TrimPrefix(what, "paths:"))
	case strings.HasPrefix(what, "vf:"):
		// vf:<entryKey>:<Owner.Field>  or vf:<entryKey>:call:<calleeSubstring>:<argIdx>
		parts := strings.SplitN(strings.TrimPrefix(what, "vf:"), ":", 2)
		fn := w.Func(parts[0])
		if fn == nil {
			fmt.Println("no such function")
			return
		}
		vf := cx.newVFlow(parts[0], fn)
		if strings.HasPrefix(parts[1], "call:") {
			q := strings.Split(strings.TrimPrefix(parts[1], "call:"), ":")
			idx, _ := strconv.Atoi(q[1])
			ls, sites := vf.CallArgSources(func(c ssa.CallInstruction) bool { return strings.Contains(calleeName(c), q[0]) }, idx)
			fmt.Println(len(sites), "sites;", ls)
			return
		}
		i := strings.LastIndex(parts[1], ".")
		ls, sites := vf.FieldStoreSources(parts[1][:i], parts[1][i+1:])
		ls = vf.Deep(ls)
		fmt.Println(len(sites), "store sites")
		for _, k := range ls.keys() {
			fmt.Printf("   %s  fl=%d\n", k, ls[k])
		}
	case strings.HasPrefix(what, "facts:"):
		fn := w.Func(strings.TrimPrefix(what, "facts:"))
		if fn == nil {
			fmt.Println("no such function")
			return
		}
		for _, b := range fn.Blocks {
			fmt.Printf("block %d (%s): %v\n", b.Index, b.Comment, atomStrings(cx.Fx.AtomsAtBlock(b)))
			for _, in := range b.Instrs {
				if v, ok := in.(interface{ Name() string }); ok {
					fmt.Printf("    %s = %s", v.Name(), in.String())
				} else {
					fmt.Printf("    %s", in.String())
				}
				fmt.Println()
			}
		}
	}
}

func doReplay(path, repo, verif string) int {
	b, err := os.ReadFile(path)
	if err != nil {
		fmt.Fprintln(os.Stderr, err)
		return 2
	}
	// a replay re-runs the property's check and reports whether the same (rule,key) still fails
	s := string(b)
	get := func(k string) string {
		i := strings.Index(s, `"`+k+`": "`)
		if i < 0 {
			return ""
		}
		rest := s[i+len(k)+5:]
		j := strings.Index(rest, `"`)
		return rest[:j]
	}
	prop, rule, key := get("property"), get("rule"), get("key")
	f, ok := registry[prop]
	if !ok {
		fmt.Fprintln(os.Stderr, "unknown property in replay file")
		return 2
	}
	w, err := loadWorld(repo)
	if err != nil {
		fmt.Fprintln(os.Stderr, err)
		return 2
	}
	cx := &Ctx{W: w, Fx: newFacts(w), Tier: "quick"}
	w.fx = cx.Fx
	r := newReport(prop, "quick")
	f(cx, r)
	for _, o := range r.Obl {
		if o.Rule == rule && o.Key == key && (o.Verdict == "violation" || o.Verdict == "undecided") {
			fmt.Printf("VIOLATION property=%s replay=%s\n  rule=%s key=%s at %s: %s\n", prop, path, rule, key, o.Pos, o.Detail)
			return 1
		}
	}
	fmt.Printf("obligation rule=%s key=%s no longer fails\n", rule, key)
	return 0
}

func dumpBoolPaths(cx *Ctx, key string) {
	fn := cx.W.Func(key)
	if fn == nil {
		fmt.Println("no such function")
		return
	}
	if fn.Signature.Results().Len() == 1 && fn.Signature.Results().At(0).Type().String() == "bool" {
		t, f, ok := cx.Fx.boolPaths(fn, 4096)
		fmt.Println("ok:", ok)
		for _, p := range t {
			fmt.Println("TRUE :", atomsString(p.Atoms))
		}
		for _, p := range f {
			fmt.Println("FALSE:", atomsString(p.Atoms))
		}
		return
	}
	aps, ok := cx.Fx.atomPaths(fn, 4096)
	fmt.Println("ok:", ok)
	for _, p := range aps {
		rv := ""
		if p.Ret != nil {
			for _, r := range p.Ret.Results {
				rv += cx.Fx.path(r) + " "
			}
		}
		fmt.Println("RET", rv, ":", atomsString(p.Atoms))
	}
}

package main

import (
	"fmt"
	"go/ast"
	"go/constant"
	"go/token"
	"go/types"
	"sort"
	"strings"

	"golang.org/x/tools/go/ssa"
)

// ---------------------------------------------------------------------------
// Linear proof of a bounds check (third local proof of R-BCE).
//
// The comparisons that hold on every path reaching the index / slice instruction (the edge facts of the
// dominating branches, fnInfo.facts) are read as linear inequalities over SSA integer values:
//
//     term ::= constant | len(v) | v (any other integer SSA value, opaque) | term + term | term - term | c * term
//
// SSA values are immutable, so such a fact cannot be invalidated by a store. With the axioms len(v) >= 0, the
// negation of each obligation of the instruction
//
//     x[i]        0 <= i,  i <= len(x) - 1
//     x[lo:hi]    0 <= lo, lo <= hi, hi <= len(x)          (absent lo = 0, absent hi = len(x))
//
// is added and the system is shown to have no rational solution by Fourier-Motzkin elimination (no rational
// solution implies no integer solution). Nothing is executed and no solver is involved; the procedure is a
// fixed, terminating elimination over at most a few dozen inequalities, and gives up (no proof) beyond that.
// Wrap-around of machine integers inside the index arithmetic is not modelled.
// ---------------------------------------------------------------------------

type linForm struct {
	co map[string]int64 // variable -> coefficient
	c  int64            // constant; the form means  sum(co*var) + c
}

func (a linForm) add(b linForm, k int64) linForm {
	out := linForm{co: map[string]int64{}, c: a.c + k*b.c}
	for v, x := range a.co {
		out.co[v] = x
	}
	for v, x := range b.co {
		out.co[v] += k * x
		if out.co[v] == 0 {
			delete(out.co, v)
		}
	}
	return out
}

func (a linForm) scale(k int64) linForm { return linForm{co: map[string]int64{}}.add(a, k) }

type linProver struct {
	names  map[ssa.Value]string
	lens   map[string]bool
	nonneg map[string]bool // range indexes: phi(-1, i) + 1
	n      int
}

func (p *linProver) varOf(v ssa.Value) string {
	if s, ok := p.names[v]; ok {
		return s
	}
	p.n++
	s := fmt.Sprintf("v%d", p.n)
	p.names[v] = s
	return s
}

func isIntType(t types.Type) bool {
	b, ok := t.Underlying().(*types.Basic)
	return ok && b.Info()&types.IsInteger != 0
}

// form linearises an integer SSA value.
func (p *linProver) form(v ssa.Value, depth int) linForm {
	one := func(name string) linForm { return linForm{co: map[string]int64{name: 1}} }
	if depth > 12 {
		return one(p.varOf(v))
	}
	switch x := v.(type) {
	case *ssa.Const:
		if x.Value != nil && x.Value.Kind() == constant.Int {
			if n, ok := constant.Int64Val(x.Value); ok {
				return linForm{co: map[string]int64{}, c: n}
			}
		}
	case *ssa.BinOp:
		// the index of a range loop: phi(-1, this) + 1 - never negative
		if x.Op == token.ADD {
			if phi, isPhi := x.X.(*ssa.Phi); isPhi && len(phi.Edges) >= 2 {
				if c1, ok1 := constInt(x.Y); ok1 && c1 == 1 {
					okInd := true
					for _, e := range phi.Edges {
						if e == ssa.Value(x) {
							continue
						}
						if c, ok := constInt(e); !ok || c != -1 {
							okInd = false
						}
					}
					if okInd {
						name := p.varOf(v)
						if p.nonneg == nil {
							p.nonneg = map[string]bool{}
						}
						p.nonneg[name] = true
						return one(name)
					}
				}
			}
		}
		switch x.Op {
		case token.ADD:
			return p.form(x.X, depth+1).add(p.form(x.Y, depth+1), 1)
		case token.SUB:
			return p.form(x.X, depth+1).add(p.form(x.Y, depth+1), -1)
		case token.MUL:
			if c, ok := constInt(x.X); ok && c > -1024 && c < 1024 {
				return p.form(x.Y, depth+1).scale(c)
			}
			if c, ok := constInt(x.Y); ok && c > -1024 && c < 1024 {
				return p.form(x.X, depth+1).scale(c)
			}
		}
	case *ssa.Call:
		if b, ok := x.Call.Value.(*ssa.Builtin); ok && b.Name() == "len" && len(x.Call.Args) == 1 {
			return one(p.lenVar(x.Call.Args[0]))
		}
	case *ssa.Convert:
		// int <-> int of the same kind only (no truncation)
		if isIntType(x.Type()) && isIntType(x.X.Type()) && types.Identical(x.Type().Underlying(), x.X.Type().Underlying()) {
			return p.form(x.X, depth+1)
		}
	}
	return one(p.varOf(v))
}

func (p *linProver) lenVar(x ssa.Value) string {
	// two loads of the same field path (`for i := range m.List { m.List[i] }`) read the same slice when nothing in
	// the function stores to that field (module code never edits the decoded / configuration objects it walks; the
	// function itself is checked here)
	if ld, ok := x.(*ssa.UnOp); ok && ld.Op == token.MUL && gFacts != nil {
		if fa, isFA := ld.X.(*ssa.FieldAddr); isFA && ld.Parent() != nil {
			fv := fieldVar(fa.X.Type(), fa.Field)
			stored := false
			for _, st := range gFacts.info(ld.Parent()).stores {
				if fa2, ok2 := st.Addr.(*ssa.FieldAddr); ok2 && fieldVar(fa2.X.Type(), fa2.Field) == fv {
					stored = true
				}
			}
			if !stored {
				if pth := gFacts.path(ld); pth != "" && !strings.Contains(pth, "rec@") {
					s := "len(path:" + pth + ")"
					p.lens[s] = true
					return s
				}
			}
		}
	}
	// len of a constant string is that constant; otherwise a non-negative variable tied to the SSA value
	s := "len(" + p.varOf(x) + ")"
	p.lens[s] = true
	return s
}

// leq0 facts: each linForm f means f <= 0.
func (p *linProver) factsOf(cond ssa.Value, pol bool, out *[]linForm) {
	for {
		u, ok := cond.(*ssa.UnOp)
		if !ok || u.Op != token.NOT {
			break
		}
		cond, pol = u.X, !pol
	}
	b, ok := cond.(*ssa.BinOp)
	if !ok || !isIntType(b.X.Type()) || !isIntType(b.Y.Type()) {
		return
	}
	op := b.Op
	if !pol {
		switch op {
		case token.EQL:
			op = token.NEQ
		case token.NEQ:
			op = token.EQL
		case token.LSS:
			op = token.GEQ
		case token.LEQ:
			op = token.GTR
		case token.GTR:
			op = token.LEQ
		case token.GEQ:
			op = token.LSS
		default:
			return
		}
	}
	x, y := p.form(b.X, 0), p.form(b.Y, 0)
	d := x.add(y, -1) // x - y
	switch op {
	case token.EQL:
		*out = append(*out, d, d.scale(-1))
	case token.LEQ:
		*out = append(*out, d)
	case token.LSS:
		*out = append(*out, d.add(linForm{c: 1}, 1))
	case token.GEQ:
		*out = append(*out, d.scale(-1))
	case token.GTR:
		*out = append(*out, d.scale(-1).add(linForm{c: 1}, 1))
	}
}

// infeasible: the system {f <= 0} has no rational solution (Fourier-Motzkin).
func infeasible(sys []linForm) bool {
	for round := 0; round < 64; round++ {
		vars := map[string]bool{}
		for _, f := range sys {
			if len(f.co) == 0 && f.c > 0 {
				return true
			}
			for v := range f.co {
				vars[v] = true
			}
		}
		if len(vars) == 0 {
			return false
		}
		names := make([]string, 0, len(vars))
		for v := range vars {
			names = append(names, v)
		}
		sort.Strings(names)
		// eliminate the variable producing the fewest new inequalities
		best, bestCost := "", 1<<30
		for _, v := range names {
			pos, neg := 0, 0
			for _, f := range sys {
				if f.co[v] > 0 {
					pos++
				} else if f.co[v] < 0 {
					neg++
				}
			}
			if cost := pos*neg - pos - neg; cost < bestCost {
				best, bestCost = v, cost
			}
		}
		var next, ps, ns []linForm
		for _, f := range sys {
			switch {
			case f.co[best] > 0:
				ps = append(ps, f)
			case f.co[best] < 0:
				ns = append(ns, f)
			default:
				next = append(next, f)
			}
		}
		for _, a := range ps {
			for _, b := range ns {
				ca, cb := a.co[best], -b.co[best]
				if ca > 1<<20 || cb > 1<<20 {
					return false
				}
				next = append(next, a.scale(cb).add(b, ca))
			}
		}
		if len(next) > 400 {
			return false
		}
		sys = next
	}
	return false
}

// ssaBoundsAt: the SSA instruction with a bounds check at AST position pos (the '[').
func (cx *Ctx) ssaBoundsAt(pos token.Pos) ssa.Instruction {
	for _, fn := range cx.W.Funcs {
		for _, b := range fn.Blocks {
			for _, in := range b.Instrs {
				switch x := in.(type) {
				case *ssa.IndexAddr, *ssa.Index, *ssa.Slice, *ssa.Lookup:
					if x.Pos() == pos {
						return in
					}
				}
			}
		}
	}
	return nil
}

// bceLinearProof proves the bounds check of an index or slice expression from the dominating integer comparisons.
func (cx *Ctx) bceLinearProof(n ast.Node) (bool, string) {
	var lb token.Pos
	switch x := n.(type) {
	case *ast.IndexExpr:
		lb = x.Lbrack
	case *ast.SliceExpr:
		lb = x.Lbrack
	default:
		return false, "not an index or slice expression"
	}
	in := cx.ssaBoundsAt(lb)
	if in == nil {
		return false, "no SSA instruction with a bounds check at this position"
	}
	p := &linProver{names: map[ssa.Value]string{}, lens: map[string]bool{}}
	zero := linForm{co: map[string]int64{}}
	var goals []linForm // each goal g means g <= 0 must hold
	var what []string
	lenOf := func(x ssa.Value) (linForm, bool) {
		t := x.Type().Underlying()
		if pt, ok := t.(*types.Pointer); ok {
			if at, ok := pt.Elem().Underlying().(*types.Array); ok {
				return linForm{co: map[string]int64{}, c: at.Len()}, true
			}
			return zero, false
		}
		switch tt := t.(type) {
		case *types.Array:
			return linForm{co: map[string]int64{}, c: tt.Len()}, true
		case *types.Slice:
			// make([]T, n): the length is n
			if ms, isMS := x.(*ssa.MakeSlice); isMS {
				return p.form(ms.Len, 0), true
			}
			return linForm{co: map[string]int64{p.lenVar(x): 1}}, true
		case *types.Basic:
			if tt.Info()&types.IsString != 0 {
				return linForm{co: map[string]int64{p.lenVar(x): 1}}, true
			}
		}
		return zero, false
	}
	switch x := in.(type) {
	case *ssa.IndexAddr, *ssa.Index, *ssa.Lookup:
		var base, idx ssa.Value
		switch y := x.(type) {
		case *ssa.IndexAddr:
			base, idx = y.X, y.Index
		case *ssa.Index:
			base, idx = y.X, y.Index
		case *ssa.Lookup:
			base, idx = y.X, y.Index
			if _, isMap := y.X.Type().Underlying().(*types.Map); isMap {
				return false, "map lookup"
			}
		}
		l, ok := lenOf(base)
		if !ok {
			return false, "length of the indexed value is not modelled"
		}
		i := p.form(idx, 0)
		goals = append(goals, i.scale(-1), i.add(l, -1).add(linForm{c: 1}, 1)) // -i <= 0 ; i - len + 1 <= 0
		what = append(what, "0 <= index", "index < len")
	case *ssa.Slice:
		l, ok := lenOf(x.X)
		if !ok {
			return false, "length of the sliced value is not modelled"
		}
		if x.Max != nil {
			return false, "three-index slice"
		}
		lo, hi := zero, l
		if x.Low != nil {
			lo = p.form(x.Low, 0)
		}
		if x.High != nil {
			hi = p.form(x.High, 0)
		}
		goals = append(goals, lo.scale(-1), lo.add(hi, -1), hi.add(l, -1))
		what = append(what, "0 <= low", "low <= high", "high <= len")
	}
	var facts []linForm
	fi := cx.Fx.info(in.Parent())
	nf := 0
	for _, e := range fi.facts[in.Block()] {
		before := len(facts)
		p.factsOf(e.Cond, e.Pol, &facts)
		if len(facts) > before {
			nf++
		}
	}
	for lv := range p.lens {
		facts = append(facts, linForm{co: map[string]int64{lv: -1}}) // -len <= 0
	}
	for nv := range p.nonneg {
		facts = append(facts, linForm{co: map[string]int64{nv: -1}}) // -i <= 0
	}
	for gi, g := range goals {
		// negation of g <= 0 over the integers: g >= 1, i.e. -g + 1 <= 0
		sys := append(append([]linForm{}, facts...), g.scale(-1).add(linForm{c: 1}, 1))
		if !infeasible(sys) {
			return false, fmt.Sprintf("%s does not follow from the %d integer comparisons that dominate the expression", what[gi], nf)
		}
	}
	return true, fmt.Sprintf("%d obligations (%v) follow from the %d integer comparisons dominating the expression and len >= 0 (linear elimination)", len(goals), what, nf)
}

// bceAlwaysFails: the comparisons dominating the index instruction contradict its bounds check: whenever the
// instruction is reached it panics. (The compiler reports such a check nowhere: its prove pass turns it into an
// unconditional panic, which -d=ssa/check_bce does not list.)
func (cx *Ctx) bceAlwaysFails(in ssa.Instruction) bool {
	p := &linProver{names: map[ssa.Value]string{}, lens: map[string]bool{}}
	var base, idx ssa.Value
	switch y := in.(type) {
	case *ssa.IndexAddr:
		base, idx = y.X, y.Index
	case *ssa.Index:
		base, idx = y.X, y.Index
	default:
		return false
	}
	var l linForm
	t := base.Type().Underlying()
	if pt, ok := t.(*types.Pointer); ok {
		t = pt.Elem().Underlying()
	}
	switch tt := t.(type) {
	case *types.Array:
		l = linForm{co: map[string]int64{}, c: tt.Len()}
	case *types.Slice:
		l = linForm{co: map[string]int64{p.lenVar(base): 1}}
	case *types.Basic:
		if tt.Info()&types.IsString == 0 {
			return false
		}
		l = linForm{co: map[string]int64{p.lenVar(base): 1}}
	default:
		return false
	}
	i := p.form(idx, 0)
	var sys []linForm
	nf := 0
	for _, e := range cx.Fx.info(in.Parent()).facts[in.Block()] {
		before := len(sys)
		p.factsOf(e.Cond, e.Pol, &sys)
		if len(sys) > before {
			nf++
		}
	}
	if nf == 0 {
		return false
	}
	for lv := range p.lens {
		sys = append(sys, linForm{co: map[string]int64{lv: -1}})
	}
	// in-bounds: -i <= 0 and i - len + 1 <= 0
	sys = append(sys, i.scale(-1), i.add(l, -1).add(linForm{c: 1}, 1))
	return infeasible(sys)
}

package main

import (
	"fmt"
	"go/token"
	"go/types"
	"sort"
	"strings"

	"golang.org/x/tools/go/ssa"
)

func init() { register("C15", checkC15) }

// perRequestScope: functions that run while a request is served: the routed handlers, the middleware
// closures mux applies per request, the issuer closures and the probe closures - and everything they reach.
func (cx *Ctx) perRequestScope() (map[*ssa.Function]bool, []string) {
	w := cx.W
	m := map[*ssa.Function]bool{}
	var entries []string
	for _, rt := range cx.routes() {
		w.refClosure(rt.Handler, m)
		entries = append(entries, w.FuncKey(rt.Handler))
	}
	for _, k := range []string{"provider.intercept$1", "provider.(*IssuerInterceptor).Handler$1", "provider.(*IssuerInterceptor).HandlerFunc$1", "provider.(*IssuerInterceptor).setIssuerCtx",
		"provider.issuerFromForwardedOrHost$1$1", "provider.StaticIssuer$1$1", "provider.ReadyStorage$1"} {
		if f := w.Func(k); f != nil {
			w.refClosure(f, m)
			entries = append(entries, k)
		}
	}
	vf := cx.newVFlowFns(m) // adds methods of values handed out as interfaces (AttributeSetter)
	return vf.scope, entries
}

func sharedSafeGlobalType(t types.Type) bool {
	if p, ok := t.(*types.Pointer); ok {
		t = p.Elem()
	}
	switch u := t.Underlying().(type) {
	case *types.Basic:
		return true
	case *types.Signature:
		return true
	case *types.Interface:
		return isErrorType(t)
	case *types.Struct:
		_ = u
		n := namedOf(t)
		if n != nil && n.Obj().Pkg() != nil {
			switch n.Obj().Pkg().Path() + "." + n.Obj().Name() {
			case "regexp.Regexp", "html/template.Template", "errors.errorString", "strings.Replacer":
				return true
			}
			if p := n.Obj().Pkg().Path(); p == "sync" || p == "sync/atomic" {
				return true // synchronised by construction; what is done with them is judged by R-POOL / R-EFFECT
			}
		}
	}
	return false
}

// deeplyImmutable: values of type t cannot be changed through a copy of them (no pointers, maps, slices, channels
// or interfaces inside): basic types, strings, functions, and structs / arrays of such.
func deeplyImmutable(t types.Type, depth int) bool {
	if depth > 4 {
		return false
	}
	switch u := t.Underlying().(type) {
	case *types.Basic, *types.Signature:
		return true
	case *types.Struct:
		for i := 0; i < u.NumFields(); i++ {
			if !deeplyImmutable(u.Field(i).Type(), depth+1) {
				return false
			}
		}
		return true
	case *types.Array:
		return deeplyImmutable(u.Elem(), depth+1)
	}
	return false
}

func isInitFunc(fn *ssa.Function) bool {
	return fn.Parent() == nil && (fn.Synthetic == "package initializer" || fn.Name() == "init" || strings.HasPrefix(fn.Name(), "init#"))
}

// readOnlyTable: the package-level variable g is a lookup table: a map, slice or array of deeply immutable
// elements that is filled by the package initialiser and, in every other function of the module, only ever loaded
// and then looked up, indexed, ranged over or measured - never stored to, updated, re-sliced, appended to, handed to
// a call or kept. Concurrent reads of such a table need no synchronisation.
func (cx *Ctx) readOnlyTable(g *ssa.Global) (bool, string) {
	et := g.Type().(*types.Pointer).Elem()
	switch u := et.Underlying().(type) {
	case *types.Map:
		if !deeplyImmutable(u.Elem(), 0) || !deeplyImmutable(u.Key(), 0) {
			return false, "its elements can be modified through the table"
		}
	case *types.Slice:
		if !deeplyImmutable(u.Elem(), 0) {
			return false, "its elements can be modified through the table"
		}
	case *types.Array:
		if !deeplyImmutable(u.Elem(), 0) {
			return false, "its elements can be modified through the table"
		}
	default:
		return false, "not a table"
	}
	onlyLoads := func(v ssa.Value) bool {
		for _, ref := range nonDebugRefs(v) {
			if u, ok := ref.(*ssa.UnOp); !ok || u.Op != token.MUL {
				return false
			}
		}
		return true
	}
	for _, fn := range cx.W.Funcs {
		if isInitFunc(fn) {
			continue
		}
		for _, b := range fn.Blocks {
			for _, in := range b.Instrs {
				var ops [12]*ssa.Value
				uses := false
				for _, op := range in.Operands(ops[:0]) {
					if op != nil && *op == ssa.Value(g) {
						uses = true
					}
				}
				if !uses {
					continue
				}
				ld, ok := in.(*ssa.UnOp)
				if !ok || ld.Op != token.MUL {
					return false, "it is written or its address is taken at " + cx.W.InstrPos(in)
				}
				if why := cx.readOnlyUse(ld, onlyLoads, 0, map[ssa.Value]bool{}); why != "" {
					return false, why
				}
			}
		}
	}
	return true, ""
}

// readOnlyUse: "" when every use of the table value v looks it up, ranges over it, takes its length, reads an element,
// or hands it to something that does no more than that - a library search (slices.Contains, slices.Index...,
// strings.Join) or a module function whose parameter is in turn used read-only (also from the function literals that
// capture it).
func (cx *Ctx) readOnlyUse(v ssa.Value, onlyLoads func(ssa.Value) bool, depth int, seen map[ssa.Value]bool) string {
	if seen[v] {
		return ""
	}
	seen[v] = true
	if depth > 4 {
		return "it is handed on too deep to follow (" + v.Name() + ")"
	}
	pos := func(in ssa.Instruction) string { return cx.W.InstrPos(in) }
	for _, ref := range nonDebugRefs(v) {
		switch x := ref.(type) {
		case *ssa.Lookup:
			if x.X != v {
				return "it is used as a key at " + pos(x)
			}
		case *ssa.Range:
		case *ssa.Index:
		case *ssa.IndexAddr:
			if !onlyLoads(x) {
				return "an element is written or its address kept at " + pos(x)
			}
		case *ssa.Phi:
			if why := cx.readOnlyUse(x, onlyLoads, depth, seen); why != "" {
				return why
			}
		case *ssa.Store:
			// kept in a local variable (a parameter a function literal captures): the uses of that variable
			cell, isCell := x.Addr.(*ssa.Alloc)
			if !isCell || x.Val != v {
				return "it is stored at " + pos(x)
			}
			for _, cr := range nonDebugRefs(cell) {
				switch y := cr.(type) {
				case *ssa.Store:
					if y.Addr != ssa.Value(cell) {
						return "the address of the variable holding it is kept at " + pos(y)
					}
				case *ssa.UnOp:
					if why := cx.readOnlyUse(y, onlyLoads, depth, seen); why != "" {
						return why
					}
				case *ssa.MakeClosure:
					lit, _ := y.Fn.(*ssa.Function)
					if lit == nil {
						return "it is captured at " + pos(y)
					}
					for i, bnd := range y.Bindings {
						if bnd != ssa.Value(cell) || i >= len(lit.FreeVars) {
							continue
						}
						for _, fr := range nonDebugRefs(lit.FreeVars[i]) {
							ld, isLd := fr.(*ssa.UnOp)
							if !isLd || ld.Op != token.MUL {
								return "the captured variable holding it is written at " + pos(fr)
							}
							if why := cx.readOnlyUse(ld, onlyLoads, depth+1, seen); why != "" {
								return why
							}
						}
					}
				default:
					return "the variable holding it is used in a way that may modify it at " + pos(cr)
				}
			}
		case *ssa.Call:
			if bi, isB := x.Call.Value.(*ssa.Builtin); isB {
				if bi.Name() != "len" && bi.Name() != "cap" {
					return "it is handed to " + bi.Name() + " at " + pos(x)
				}
				continue
			}
			n := calleeName(x)
			if i := strings.Index(n, "["); i >= 0 {
				n = n[:i]
			}
			switch n {
			case "slices.Contains", "slices.Index", "slices.ContainsFunc", "slices.IndexFunc", "strings.Join":
				continue
			}
			g := calleeOf(x)
			if g == nil || g.Blocks == nil || g.Pkg == nil || !isModulePath(g.Pkg.Pkg.Path()) || x.Call.IsInvoke() {
				return "it is handed to a call at " + pos(x)
			}
			for i, a := range x.Call.Args {
				if a != v || i >= len(g.Params) {
					continue
				}
				if why := cx.readOnlyUse(g.Params[i], onlyLoads, depth+1, seen); why != "" {
					return why
				}
			}
		default:
			return "it is used in a way that may modify or keep it at " + pos(ref)
		}
	}
	return ""
}

func checkC15(cx *Ctx, r *Report) {
	w, fx := cx.W, cx.Fx
	cx.checkContextKeys(r)
	// storage is asked with the request's context (which carries the issuer in effect)
	cx.checkStorageContext(r)
	cx.checkStorageIsTheApplications(r)
	r.Clauses = []string{
		"R-EFFECT: every store (field, element, map update, captured variable) in code that runs per request targets an object allocated during that request (or a decode target / the setter object handed to storage); no store targets the provider objects (handler receivers and what they load), router-time captures, package variables or storage-owned objects, and no mutating call is made on a shared sync.Map / sync.Pool-backed object whose contents outlive the request",
		"no goroutine is started and no channel is used by per-request code; package-level variables read by per-request code are immutable values (basic, error, func) or objects documented safe for concurrent use (regexp, html/template)",
		"the issuer travels in the request context: IssuerFromContext reads only ctx.Value(issuerKey), set from issuerFromRequest(r) on a new request value",
		"message IDs: every Id of an emitted message is the result of its own NewID() call; NewID is Sprintf(\"_%s\", uuid.New()) - an NCName start character followed by a fresh random UUID",
	}
	r.NotDec = []string{"races inside storage implementations, the standard library or dependencies", "actual distinctness of random UUIDs"}
	r.Assume = []string{"html/template.Template.Execute and regexp.Regexp are safe for concurrent use (documented)", "gorilla/mux applies middleware per request"}
	scope, entries := cx.perRequestScope()
	r.Extra["per_request_entries"] = entries
	r.Check(len(cx.routes()) >= 8, "R-ROUTES", "#routes", "", fmt.Sprintf("%d routed handlers", len(cx.routes())), fmt.Sprintf("only %d routed handlers found", len(cx.routes())))
	vf := cx.newVFlowFns(scope)
	var fns []*ssa.Function
	for f := range vf.scope {
		fns = append(fns, f)
	}
	sort.Slice(fns, func(i, j int) bool { return w.FuncKey(fns[i]) < w.FuncKey(fns[j]) })
	// receivers of methods callable from outside on per-request objects (models.AttributeSetter on *Attributes)
	setterRecv := func(l string) bool {
		return strings.HasPrefix(l, "param:provider.(*Attributes).") && (strings.Contains(l, "/#0.") || strings.HasSuffix(l, "/#0") || strings.Contains(l, "/#0["))
	}
	setterArg := func(l string) bool {
		return strings.HasPrefix(l, "param:provider.(*Attributes).") && !setterRecv(l)
	}
	classify := func(l string) (shared bool, why string) {
		switch {
		case strings.HasPrefix(l, "alloc:"):
			base, _ := splitAllocLabel(l)
			if strings.HasSuffix(base, "@make") || vf.allocByLabel(base) != nil {
				return false, ""
			}
			return true, "an object allocated outside per-request code (" + l + ")"
		case strings.HasPrefix(l, "decoded:"), strings.HasPrefix(l, "const:"), strings.HasPrefix(l, "via:"), strings.HasPrefix(l, "expr:"):
			return false, ""
		case setterRecv(l):
			return false, ""
		case setterArg(l):
			return true, "a value storage handed to the attribute setter (" + l + "), which storage may share between users"
		case strings.HasPrefix(l, "global:"):
			return true, "the package variable " + strings.TrimPrefix(l, "global:")
		case strings.HasPrefix(l, "ext:iface:provider."), strings.HasPrefix(l, "ext:(*sync."), strings.HasPrefix(l, "dyncall:"):
			return true, "an object owned by storage or a shared container (" + l + ")"
		case strings.HasPrefix(l, "ext:"):
			return false, "" // result of a library constructor / accessor called by this request
		case strings.HasPrefix(l, "param:"):
			return true, "provider-wide state reached through " + strings.TrimPrefix(l, "param:")
		}
		return true, "an object of unknown origin (" + l + ")"
	}
	// localOnly: judged from the enclosing function alone (its own body and what it calls), the target can only be
	// an object that function allocates - whatever its callers do. (The provider-wide analysis merges the instances
	// of a helper's allocations over all its callers: getMetadata blanks the values of an Attributes object it has
	// just built, GetSAML also serves objects that carry values handed in by storage.)
	localOnly := func(fn *ssa.Function, addr ssa.Value) bool {
		root := fn
		for root.Parent() != nil {
			root = root.Parent()
		}
		lvf := cx.vflow(w.FuncKey(root))
		if lvf == nil {
			return false
		}
		ls := lvf.objLabels(addr, 0)
		if len(ls) == 0 {
			return false
		}
		for l := range ls {
			switch {
			case strings.HasPrefix(l, "alloc:"):
				base, _ := splitAllocLabel(l)
				if !strings.HasSuffix(base, "@make") && lvf.allocByLabel(base) == nil {
					return false
				}
			case strings.HasPrefix(l, "const:"), strings.HasPrefix(l, "via:"), strings.HasPrefix(l, "expr:"):
			default:
				return false
			}
		}
		return true
	}
	nStores := 0
	for _, fn := range fns {
		for _, b := range fn.Blocks {
			for _, in := range b.Instrs {
				var addr ssa.Value
				what := ""
				switch x := in.(type) {
				case *ssa.Store:
					addr, what = x.Addr, "store"
				case *ssa.MapUpdate:
					addr, what = x.Map, "map update"
				case *ssa.Go:
					r.Fail("R-EFFECT", w.FuncKey(fn)+":go", w.InstrPos(x), "per-request code starts a goroutine: the sequential reasoning about the request's objects no longer holds")
					continue
				case *ssa.Send, *ssa.Select:
					r.Fail("R-EFFECT", w.FuncKey(fn)+":chan", w.InstrPos(in), "per-request code communicates over a channel")
					continue
				case ssa.CallInstruction:
					// mutating calls on shared containers
					n := calleeName(x)
					if mutatesArg0[n] && len(x.Common().Args) > 0 {
						nStores++
						bad := ""
						for l := range vf.objLabels(x.Common().Args[0], 0) {
							if sh, why := classify(l); sh {
								bad = why
							}
						}
						key := w.FuncKey(fn) + ":" + shortCallee(n) + "(" + fx.T(fx.path(x.Common().Args[0])) + ")"
						if bad != "" && localOnly(fn, x.Common().Args[0]) {
							bad = "" // clear(values) on an object the enclosing function has just built (see localOnly)
						}
						if bad != "" {
							r.Fail("R-EFFECT", key, w.InstrPos(x), fmt.Sprintf("%s re-arranges / overwrites in place %s: concurrent requests share it", shortCallee(n), bad))
						} else {
							r.Ok("R-EFFECT", key, w.InstrPos(x), "in-place operation on an object of this request")
						}
					}
					if n == "builtin:append" && len(x.Common().Args) > 1 {
						// append onto a slice somebody else owns (a value list storage handed to the attribute setter, a
						// list read from a storage-owned object): with spare capacity the new elements are written into
						// the owner's backing array, where another session's append overwrites them
						for l := range vf.objLabels(x.Common().Args[0], 0) {
							if sh, why := classify(l); sh && !localOnly(fn, x.Common().Args[0]) {
								r.Fail("R-EFFECT", w.FuncKey(fn)+":append-onto-foreign-slice", w.InstrPos(x), "append onto "+why+" can write into its backing array: concurrent requests share it")
							}
						}
					}
					if n == "builtin:append" && len(x.Common().Args) > 0 {
						// append into a re-slice (x[:0], x[:k]) writes into x's backing array
						for _, rs := range reslicesOf(x.Common().Args[0], map[ssa.Value]bool{}) {
							for l := range vf.objLabels(rs.X, 0) {
								if sh, why := classify(l); sh {
									r.Fail("R-EFFECT", w.FuncKey(fn)+":append-into-reslice", w.InstrPos(x), "append into a re-slice of "+why+" overwrites its elements: concurrent requests share it")
								}
							}
						}
					}
					if strings.HasPrefix(n, "(*sync/atomic.Pointer[") || strings.HasPrefix(n, "(*sync/atomic.Value).") {
						// an object published through a shared atomic pointer / value is seen by every later request
						switch n[strings.LastIndex(n, ".")+1:] {
						case "Store", "Swap", "CompareAndSwap":
							for l := range vf.objLabels(x.Common().Args[0], 0) {
								if sh, why := classify(l); sh {
									r.Fail("R-EFFECT", w.FuncKey(fn)+":"+shortCallee(n), w.InstrPos(x), "per-request code publishes an object through an atomic pointer / value that is "+why+": later replies can carry what this request produced")
								}
							}
						}
					}
					if strings.HasPrefix(n, "(*sync.Map).") || strings.HasPrefix(n, "(*sync.Pool).") {
						m := n[strings.LastIndex(n, ".")+1:]
						switch m {
						case "Store", "LoadOrStore", "Delete", "Swap", "CompareAndSwap", "CompareAndDelete", "LoadAndDelete", "Clear":
							ls := vf.objLabels(x.Common().Args[0], 0)
							for l := range ls {
								if sh, why := classify(l); sh {
									r.Fail("R-EFFECT", w.FuncKey(fn)+":"+shortCallee(n), w.InstrPos(x), "per-request code writes to a sync.Map that is "+why+": later replies depend on earlier requests")
								}
							}
						}
					}
					continue
				default:
					continue
				}
				// plain local variables
				if al, ok := addr.(*ssa.Alloc); ok && vf.scope[al.Parent()] {
					continue
				}
				nStores++
				key := w.FuncKey(fn) + ":" + strings.TrimPrefix(fx.path(addr), "&")
				var roots LabelSet
				if fv, ok := addr.(*ssa.FreeVar); ok {
					roots = LabelSet{}
					if cell := fx.ownerCell(fv); cell != nil {
						if vf.scope[cell.Parent()] {
							continue
						}
						roots.add("alloc-outside:"+w.FuncKey(cell.Parent())+"/"+fx.cellName(cell), 0)
					} else {
						roots.add("opaque:freevar", 0)
					}
				} else {
					roots = vf.objLabels(addr, 0)
				}
				bad := ""
				for l := range roots {
					if strings.HasPrefix(l, "alloc-outside:") {
						bad = "a variable captured when the router / provider was built (" + strings.TrimPrefix(l, "alloc-outside:") + ")"
						continue
					}
					if sh, why := classify(l); sh {
						bad = why
					}
				}
				if bad != "" && localOnly(fn, addr) {
					bad = ""
				}
				if bad != "" {
					r.Fail("R-EFFECT", key, w.InstrPos(in), fmt.Sprintf("%s in per-request code targets %s: concurrent requests share it", what, bad))
				} else {
					r.Ok("R-EFFECT", key, w.InstrPos(in), "targets an object of this request")
				}
			}
		}
	}
	r.Extra["stores_examined"] = nStores
	if nStores < 60 {
		r.Fail("R-EFFECT", "#stores", "", fmt.Sprintf("only %d stores examined in per-request code (the pinned tree has more than 60)", nStores))
	}
	// positive control: the known construction-time writers are seen by the same classification
	nCtl := 0
	for _, k := range []string{"provider.WithCustomTimeFormat$1", "provider.WithAllowInsecure$1", "provider.WithHttpInterceptors$1"} {
		f := w.Func(k)
		if f == nil {
			continue
		}
		cvf := cx.newVFlow(k, f)
		for _, st := range fx.info(f).stores {
			if _, isAl := st.Addr.(*ssa.Alloc); isAl {
				continue
			}
			for l := range cvf.objLabels(st.Addr, 0) {
				if strings.HasPrefix(l, "param:") {
					nCtl++
				}
			}
		}
		r.Check(!scope[f], "R-EFFECT", "control:"+k, w.FnPos(f), "construction-time writer, not reachable from per-request code", "the option closure "+k+" (which writes provider state) is reachable from per-request code")
	}
	r.Check(nCtl >= 2, "R-EFFECT", "control:#shared-writers-recognised", "", fmt.Sprintf("the classification recognises %d stores of the Option closures as provider-wide state", nCtl), "positive control failed: the Option closures' stores to the provider are not classified as shared state")

	// --- package variables read by per-request code -------------------------------------------------
	seenG := map[string]bool{}
	for _, fn := range fns {
		for _, b := range fn.Blocks {
			for _, in := range b.Instrs {
				var ops [12]*ssa.Value
				for _, op := range in.Operands(ops[:0]) {
					if op == nil || *op == nil {
						continue
					}
					g, ok := (*op).(*ssa.Global)
					if !ok || g.Pkg == nil || !isModulePath(g.Pkg.Pkg.Path()) {
						continue
					}
					k := shortPkg(g.Pkg.Pkg.Path()) + "." + g.Name()
					if seenG[k] {
						continue
					}
					seenG[k] = true
					et := g.Type().(*types.Pointer).Elem()
					if !sharedSafeGlobalType(et) {
						if ok, _ := cx.readOnlyTable(g); ok {
							r.Ok("R-GLOBAL", k, w.InstrPos(in), "lookup table of immutable elements ("+et.String()+"): filled by the package initialiser, only looked up / ranged over everywhere else in the module")
							continue
						}
					}
					r.Check(sharedSafeGlobalType(et), "R-GLOBAL", k, w.InstrPos(in), "immutable value or concurrency-safe object ("+et.String()+")", "per-request code uses the package-level variable "+k+" of type "+et.String()+", a mutable object shared by all requests without synchronisation")
				}
			}
		}
	}
	// pooled buffers must not escape
	cx.checkPoolEscape(r)

	// --- issuer in the context ---------------------------------------------------------------------
	if f := w.Func("provider.IssuerFromContext"); f != nil {
		lvf := cx.newVFlow("IssuerFromContext", f)
		ls := LabelSet{}
		for _, ret := range returnsOf(f) {
			ls.addAll(lvf.Labels(ret.Results[0]), 0)
		}
		r.checkSources("R-VFG", "IssuerFromContext", w.FnPos(f), ls, []string{"ext:iface:context.Context.Value#0"}, []string{"ext:iface:context.Context.Value#0"}, true)
	} else {
		r.Fail("R-VFG", "IssuerFromContext", "", "anchor not found")
	}
	if f := w.Func("provider.(*IssuerInterceptor).setIssuerCtx"); f != nil {
		lvf := cx.newVFlow("setIssuerCtx", f)
		ls, sites := lvf.CallArgSources(matchCallee("context.WithValue"), 2)
		if len(sites) == 0 {
			r.Fail("R-VFG", "setIssuerCtx:value", w.FnPos(f), "the issuer is no longer put into the request context")
		} else {
			r.checkSources("R-VFG", "setIssuerCtx:value", w.InstrPos(sites[0]), ls, []string{"dyncall:param:provider.(*IssuerInterceptor).setIssuerCtx/#0.issuerFromRequest#0"}, []string{"dyncall:*issuerFromRequest#0"}, true)
		}
		// next.ServeHTTP gets the new request
		okNew := false
		for _, c := range callsIn(f) {
			if c.Common().IsInvoke() && c.Common().Method.Name() == "ServeHTTP" {
				for _, l := range lvf.Labels(c.Common().Args[1]).leaves() {
					if strings.Contains(l, "WithContext") {
						okNew = true
					}
				}
			}
		}
		r.Check(okNew, "R-VFG", "setIssuerCtx:request", w.FnPos(f), "the handler chain receives r.WithContext(...)", "the issuer is stored somewhere other than a per-request copy of the request")
	}
	// --- IDs -------------------------------------------------------------------------------------------
	cx.checkIDs(r, vf, 6)
}

// checkPoolEscape: a function that returns objects to a sync.Pool must not hand out values that alias them.
func (cx *Ctx) checkPoolEscape(r *Report) {
	w := cx.W
	n := 0
	for _, fn := range w.Funcs {
		hasPut := false
		for _, c := range callsIn(fn) {
			if calleeName(c) == "(*sync.Pool).Put" {
				hasPut = true
			}
		}
		if !hasPut {
			continue
		}
		n++
		lvf := cx.newVFlow(w.FuncKey(fn), fn)
		bad := ""
		for _, ret := range returnsOf(fn) {
			for _, res := range ret.Results {
				for _, l := range lvf.Labels(res).leaves() {
					if strings.HasPrefix(l, "ext:(*sync.Pool).Get") {
						bad = "returns a value that aliases an object it has put back into a sync.Pool (" + l + ") at " + w.InstrPos(ret)
					}
				}
			}
		}
		r.Check(bad == "", "R-POOL", w.FuncKey(fn), w.FnPos(fn), "nothing derived from the pooled object is returned", w.FuncKey(fn)+" "+bad+": a concurrent or later request overwrites the data")
	}
	// a pooled object must be emptied on every path before it is reused: Reset() right after Get, or right before every Put
	for _, fn := range w.Funcs {
		for _, c := range callsIn(fn) {
			if calleeName(c) != "(*sync.Pool).Get" {
				continue
			}
			n++
			okReset := false
			blk := c.Block()
			after := false
			for _, in := range blk.Instrs {
				if in == ssa.Instruction(c.(*ssa.Call)) {
					after = true
					continue
				}
				if !after {
					continue
				}
				if c2, ok := in.(ssa.CallInstruction); ok {
					nm := calleeName(c2)
					if strings.HasSuffix(nm, ").Reset") || strings.HasSuffix(nm, ".Reset") || strings.HasSuffix(nm, ").Truncate") {
						okReset = true
					}
					if !okReset && nm != "(*sync.Pool).Get" {
						break
					}
				}
			}
			if !okReset {
				// or every Put in the function is immediately preceded by a Reset
				allPut := true
				nPut := 0
				for _, p := range callsIn(fn) {
					if calleeName(p) != "(*sync.Pool).Put" {
						continue
					}
					nPut++
					prevReset := false
					for _, in := range p.Block().Instrs {
						if in == ssa.Instruction(p.(ssa.Instruction)) {
							break
						}
						if c2, ok := in.(ssa.CallInstruction); ok {
							prevReset = strings.HasSuffix(calleeName(c2), ").Reset") || strings.HasSuffix(calleeName(c2), ").Truncate")
						}
					}
					if !prevReset {
						allPut = false
					}
				}
				okReset = allPut && nPut > 0
			}
			r.Check(okReset, "R-POOL", w.FuncKey(fn)+":reset", w.InstrPos(c), "the pooled object is reset before reuse", "an object taken from a sync.Pool is not reset right after Get (nor before every Put): what a previous request left in it (e.g. after a failed template execution) becomes part of this request's reply")
		}
	}
	if n == 0 {
		r.Ok("R-POOL", "#pools", "", "no sync.Pool in the module")
	}
}

// checkIDs: every Id field of an emitted message is the result of a NewID() call of its own, and NewID is
// Sprintf("_%s", uuid.New()).
func (cx *Ctx) checkIDs(r *Report, vf *VFlow, minSinks int) {
	w := cx.W
	nid := w.Func("provider.NewID")
	if nid == nil {
		r.Fail("R-ID", "provider.NewID", "", "anchor not found")
		return
	}
	lvf := cx.newVFlow("NewID", nid)
	ls := LabelSet{}
	for _, ret := range returnsOf(nid) {
		ls.addAll(lvf.Deep(lvf.Labels(ret.Results[0])), 0)
	}
	okSrc := true
	fmtOK := false
	for _, l := range ls.leaves() {
		switch {
		case l == "ext:uuid.New#0":
		case strings.HasPrefix(l, "const:"):
			f := strings.TrimPrefix(l, "const:")
			_, concat := ls["via:concat"]
			if len(f) > 0 && (f[0] == '_' || f[0] >= 'a' && f[0] <= 'z' || f[0] >= 'A' && f[0] <= 'Z') && (strings.Count(f, "%") == 1 || concat && strings.Count(f, "%") == 0) {
				fmtOK = true // a format with one verb, or a constant prefix put in front by concatenation
			} else {
				okSrc = false
			}
		default:
			okSrc = false
		}
	}
	_, hasNew := ls["ext:uuid.New#0"]
	r.Check(okSrc && fmtOK && hasNew, "R-ID", "provider.NewID", w.FnPos(nid), "Sprintf of a constant format starting with an NCName start character applied to uuid.New()", "NewID is no longer a constant NCName-start prefix plus a fresh uuid.New(): "+ls.String())
	// Id sinks
	type idSink struct{ owner, field string }
	n := 0
	for _, s := range []idSink{{"samlp.ResponseType", "Id"}, {"saml.AssertionType", "Id"}, {"samlp.LogoutResponseType", "Id"}, {"md.EntityDescriptorType", "Id"}, {"md.IDPSSODescriptorType", "Id"}, {"md.AttributeAuthorityDescriptorType", "Id"}} {
		_, sites := vf.FieldStoreSources(s.owner, s.field)
		seenCall := map[ssa.Value]string{}
		for _, st := range sites {
			n++
			key := s.owner + "." + s.field + "@" + w.FuncKey(st.Parent())
			// the stored value must be (a parameter fed only by) a direct NewID() call
			calls := cx.directNewIDCalls(vf, st.Val, nid, 0)
			if len(calls) == 0 {
				r.Fail("R-ID", key, w.InstrPos(st), "the message Id is not the result of a NewID() call: "+vf.Labels(st.Val).String())
				continue
			}
			dup := ""
			for _, c := range calls {
				if prev, ok := seenCall[c]; ok && prev != key {
					dup = prev
				}
				seenCall[c] = key
			}
			r.Check(dup == "", "R-ID", key, w.InstrPos(st), fmt.Sprintf("Id <- NewID() (%d call site(s))", len(calls)), "the same NewID() result is used for two Id fields ("+dup+")")
		}
	}
	if n < minSinks {
		r.Fail("R-ID", "#id-sinks", "", fmt.Sprintf("only %d Id stores of emitted messages found", n))
	}
	// response and assertion Ids of one message come from different calls
	mk := w.Func("provider.makeAssertion")
	if mk != nil {
		ok := false
		for _, c := range callsIn(mk) {
			if calleeOf(c) == nid {
				ok = true
			}
		}
		r.Check(ok, "R-ID", "makeAssertion:own-NewID", w.FnPos(mk), "the assertion Id comes from a NewID() call inside makeAssertion (distinct from the response's)", "makeAssertion no longer draws its own Id")
	}
}

// directNewIDCalls: the NewID() calls a value comes from, following parameters to in-scope call sites; nil if some
// source is not a NewID() call.
func (cx *Ctx) directNewIDCalls(vf *VFlow, v ssa.Value, nid *ssa.Function, depth int) []ssa.Value {
	if depth > 6 {
		return nil
	}
	switch x := v.(type) {
	case *ssa.Call:
		if calleeOf(x) == nid {
			return []ssa.Value{x}
		}
		return nil
	case *ssa.Parameter:
		fn := x.Parent()
		idx := -1
		for i, p := range fn.Params {
			if p == x {
				idx = i
			}
		}
		var out []ssa.Value
		cs := vf.callers[fn]
		if len(cs) == 0 {
			return nil
		}
		for _, c := range cs {
			sub := cx.directNewIDCalls(vf, c.Common().Args[idx], nid, depth+1)
			if len(sub) == 0 {
				return nil
			}
			out = append(out, sub...)
		}
		return out
	}
	return nil
}

// mutatesArg0: library functions that re-arrange or overwrite their first argument in place.
var mutatesArg0 = map[string]bool{
	"sort.Slice": true, "sort.SliceStable": true, "sort.Sort": true, "sort.Stable": true, "sort.Strings": true, "sort.Ints": true, "sort.Float64s": true,
	"slices.Sort": true, "slices.SortFunc": true, "slices.SortStableFunc": true, "slices.Reverse": true, "builtin:copy": true, "builtin:clear": true,
	"math/rand.Shuffle": false,
}

// reslicesOf: the re-slice expressions (x[:k]) the slice value v may be, looking through phis and appends.
func reslicesOf(v ssa.Value, seen map[ssa.Value]bool) []*ssa.Slice {
	if seen[v] {
		return nil
	}
	seen[v] = true
	switch x := v.(type) {
	case *ssa.Slice:
		if _, isSlice := x.X.Type().Underlying().(*types.Slice); isSlice && (x.High != nil || x.Low != nil) {
			return []*ssa.Slice{x}
		}
	case *ssa.Phi:
		var out []*ssa.Slice
		for _, e := range x.Edges {
			out = append(out, reslicesOf(e, seen)...)
		}
		return out
	case *ssa.Call:
		if b, ok := x.Call.Value.(*ssa.Builtin); ok && b.Name() == "append" && len(x.Call.Args) > 0 {
			return reslicesOf(x.Call.Args[0], seen)
		}
	}
	return nil
}

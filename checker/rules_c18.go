package main

import (
	"fmt"
	"go/types"
	"reflect"
	"sort"
	"strings"

	"golang.org/x/tools/go/ssa"
)

func init() { register("C18", checkC18) }

var emittedTypes = []string{"samlp.ResponseType", "samlp.LogoutResponseType", "samlp.StatusType", "samlp.StatusCodeType", "saml.AssertionType", "saml.NameIDType", "saml.SubjectType",
	"saml.SubjectConfirmationType", "saml.SubjectConfirmationDataType", "saml.ConditionsType", "saml.AudienceRestrictionType", "saml.AttributeStatementType", "saml.AttributeType",
	"saml.AuthnStatementType", "saml.AuthnContextType", "soap.ResponseEnvelope", "soap.ResponseBody", "xml_dsig.SignatureType", "xml_dsig.SignatureValueType", "xml_dsig.KeyInfoType", "xml_dsig.X509DataType",
	"xml_dsig.SignedInfoType", "xml_dsig.ReferenceType", "md.EntityDescriptorType", "md.IDPSSODescriptorType", "md.AttributeAuthorityDescriptorType", "md.EndpointType", "md.KeyDescriptorType"}

func checkC18(cx *Ctx, r *Report) {
	w, fx := cx.W, cx.Fx
	r.Clauses = []string{
		"an unrecognised encoding identifier is an error, never a pass-through: InflateAndDecode returns data only under encoding == \"\" or == DEFLATE",
		"inflated data is returned complete or not at all: what is read through the size limiter is compared with the bound the limiter was given, and the over-long case is an error (no silent truncation)",
		"the send functions write the serialisation of the message they are handed: the bytes given to xml.Write, the SAMLResponse form field and the SAMLResponse slot of the redirect query derive from the message parameter (through Marshal / DeflateAndBase64 / base64) and from nothing kept in the reply object or elsewhere",
		"the serialised text is not edited: what xml.Marshal returns is what the encoder wrote into its buffer (no replacement, trimming or re-formatting of the XML text, which could turn escaped data back into markup); each value of the redirect query is URL-encoded exactly once",
		"messages are typed trees only: everything handed to the XML encoder in handler-reachable code is one of the module's wire structs; no reply is assembled by string formatting; no wire struct implements a custom XML/text marshaller; no field tagged innerxml / comment / cdata of a wire struct is ever written by module code",
		"the encode tables of the emitted types equal the schema table (the same struct decodes and encodes, so what the library writes it reads back under the same names)",
		"encoder close order in DeflateAndBase64: on every success path the flate writer is closed before the base64 encoder and both before the buffer is read; every error edge returns; the result does not alias a pooled buffer",
	}
	r.NotDec = []string{"round-trip identity for all strings and replacement of illegal characters (encoding/xml, compress/flate: run-time values)", "agreement with third-party XML parsers"}
	r.Assume = []string{"encoding/xml escapes character data and attribute values of string fields"}
	cx.checkInflateCases(r, "R-GUARD")
	// inflated data is handed on complete or not at all: the limiter's bound and the over-long test agree
	if cx.checkDecompressors(r) == 0 {
		r.Fail("R-BOUND", "#decompressors", "", "no decompressing reader found in the module")
	}

	scope := cx.handlerScope()
	seenH := map[*ssa.Function]bool{}
	cx.checkFieldFidelity(r, scope)
	cx.checkSendsWhatItIsGiven(r)
	// a reply is one document: every routed handler performs exactly one reply act on every path (an error text
	// after a document that was already written makes the body ill-formed)
	cx.requireC20(r) // the chain runs one error callback per request: without that, one reply act per callback is not one document per reply
	for _, rt := range cx.routes() {
		if strings.Contains(rt.Handler.Synthetic, "bound method wrapper") {
			for _, c := range callsIn(rt.Handler) {
				if f := calleeOf(c); f != nil {
					rt.Handler = f
				}
			}
		}
		k := w.FuncKey(rt.Handler)
		if k == kSSO || k == kLogout || k == kAttr {
			if ch := cx.chain(r, k); ch != nil {
				checkChainHandlerEmit(cx, r, "R-EMIT", k, ch)
			}
			continue
		}
		if seenH[rt.Handler] {
			continue
		}
		switch k {
		case kMeta, kCert, kCallback, "provider.healthHandler", "provider.readyHandler$1":
		default:
			continue // a wrapper around the routed handlers (metrics, logging): it replies through the handler it wraps
		}
		seenH[rt.Handler] = true
		cx.checkEmitExactlyOne(r, "R-EMIT", "handler:"+k, rt.Handler)
	}
	cx.checkBuildRedirectQuery(r) // the redirect query is part of the wire encoding: each value escaped exactly once
	cx.checkMarshalUntouched(r)
	// --- what reaches the encoder --------------------------------------------------------------------
	isWire := func(t types.Type) bool {
		n := namedOf(t)
		return n != nil && n.Obj().Pkg() != nil && isXMLModelPkg(n.Obj().Pkg())
	}
	nEnc := 0
	encKinds := map[string]bool{}
	for _, fn := range w.sortedFuncs(scope) {
		for _, c := range callsIn(fn) {
			var arg ssa.Value
			switch {
			case calleeOf(c) != nil && (w.FuncKey(calleeOf(c)) == "xml.Marshal" || w.FuncKey(calleeOf(c)) == "xml.WriteXMLMarshalled"):
				arg = c.Common().Args[len(c.Common().Args)-1]
			case calleeName(c) == "(*encoding/xml.Encoder).Encode" || calleeName(c) == "encoding/xml.Marshal" || calleeName(c) == "encoding/xml.MarshalIndent":
				arg = c.Common().Args[len(c.Common().Args)-1]
				if calleeName(c) == "(*encoding/xml.Encoder).Encode" {
					arg = c.Common().Args[1]
				}
				if _, isParam := arg.(*ssa.Parameter); isParam {
					continue // the module's own Marshal / WriteXMLMarshalled: judged at their call sites
				}
			default:
				continue
			}
			nEnc++
			key := "encode@" + w.FuncKey(fn) + ":" + w.InstrPos(c)
			if mi, ok := arg.(*ssa.MakeInterface); ok {
				encKinds[typeKey(mi.X.Type())] = true
				r.Check(isWire(mi.X.Type()), "R-TYPED", key, w.InstrPos(c), "encodes "+typeKey(mi.X.Type()), "a value of type "+mi.X.Type().String()+" (not one of the module's wire structs) is handed to the XML encoder")
			} else if prm, isP := arg.(*ssa.Parameter); isP && len(fx.argsOf[prm]) > 0 {
				// an interface-typed parameter of a helper: every caller hands over a wire struct
				bad := ""
				var kinds []string
				for _, a := range fx.argsOf[prm] {
					mi, isMI := a.(*ssa.MakeInterface)
					if !isMI || !isWire(mi.X.Type()) {
						bad = "a caller of " + w.FuncKey(fn) + " hands something to the XML encoder that is not one of the module's wire structs (" + fx.path(a) + ")"
					} else {
						kinds = append(kinds, typeKey(mi.X.Type()))
						encKinds[typeKey(mi.X.Type())] = true
					}
				}
				r.Check(bad == "", "R-TYPED", key, w.InstrPos(c), "encodes "+strings.Join(kinds, " / ")+" (handed in by the callers)", bad)
			} else {
				r.Undecided("R-TYPED", key, w.InstrPos(c), "the encoded value's static type is not visible")
			}
		}
	}
	// (what is counted is the kinds of message that reach the encoder: sites may be shared by several kinds)
	if len(encKinds) < 4 {
		r.Fail("R-TYPED", "#encode-sites", "", fmt.Sprintf("only %d kinds of message reach the XML encoder in handler-reachable code (%d sites): response, logout response, SOAP envelope and metadata are expected", len(encKinds), nEnc))
	} else {
		r.Ok("R-TYPED", "#encode-sites", "", fmt.Sprintf("%d kinds of message at %d encoder call sites", len(encKinds), nEnc))
	}
	// --- no reply by string formatting ------------------------------------------------------------------
	hdr := "<?xml version=\"1.0\" encoding=\"UTF-8\"?>\n"
	for _, fn := range w.sortedFuncs(scope) {
		for _, c := range callsIn(fn) {
			n := calleeName(c)
			args := c.Common().Args
			toWriter := func(v ssa.Value) bool {
				if isResponseWriter(v.Type()) {
					return true
				}
				if mi, ok := v.(*ssa.MakeInterface); ok && isResponseWriter(mi.X.Type()) {
					return true
				}
				if ci, ok := v.(*ssa.ChangeInterface); ok && isResponseWriter(ci.X.Type()) {
					return true
				}
				return false
			}
			switch n {
			case "fmt.Fprintf", "fmt.Fprint", "fmt.Fprintln", "io.WriteString":
				if len(args) > 1 && toWriter(args[0]) {
					f, isC := constString(args[1])
					if !isC || strings.Contains(f, "<") {
						r.Fail("R-TYPED", "format-reply@"+w.FuncKey(fn), w.InstrPos(c), "markup is written to the reply by string formatting: data in it is not escaped and can change the element structure")
					}
				}
			}
			if c.Common().IsInvoke() && c.Common().Method.Name() == "Write" && isResponseWriter(c.Common().Value.Type()) {
				lvf := cx.newVFlow(w.FuncKey(fn), fn)
				for _, l := range lvf.Deep(lvf.Labels(args[0])).leaves() {
					if strings.HasPrefix(l, "const:") && strings.Contains(l, "<") && strings.TrimPrefix(l, "const:") != hdr {
						r.Fail("R-TYPED", "literal-markup@"+w.FuncKey(fn), w.InstrPos(c), "literal markup other than the XML declaration is written to the reply")
					}
				}
			}
		}
	}
	r.Ok("R-TYPED", "no-formatted-markup", "", "no fmt.Fprint*/io.WriteString of markup to the reply writer in handler-reachable code")
	// --- no custom marshallers, no raw-markup fields written -----------------------------------------------
	nRaw := 0
	for _, p := range w.Pkgs {
		if !isXMLModelPkg(p.Types) {
			continue
		}
		for _, name := range p.Types.Scope().Names() {
			tn, ok := p.Types.Scope().Lookup(name).(*types.TypeName)
			if !ok {
				continue
			}
			st, ok := tn.Type().Underlying().(*types.Struct)
			if !ok {
				continue
			}
			for i := 0; i < st.NumFields(); i++ {
				tag := reflect.StructTag(st.Tag(i)).Get("xml")
				if strings.Contains(tag, ",innerxml") || strings.Contains(tag, ",comment") || strings.Contains(tag, ",cdata") {
					nRaw++
					fv := st.Field(i)
					writers := 0
					for _, fn := range w.Funcs {
						for _, s := range fx.info(fn).stores {
							if fa, ok := s.Addr.(*ssa.FieldAddr); ok && fieldVar(fa.X.Type(), fa.Field) == fv {
								writers++
								r.Fail("R-TYPED", "raw-field-writer:"+name+"."+fv.Name()+"@"+w.FuncKey(fn), w.InstrPos(s), "module code writes the raw-markup field "+name+"."+fv.Name()+" ("+tag+"): its content is emitted unescaped")
							}
						}
					}
					if writers == 0 {
						r.Ok("R-TYPED", "raw-field:"+shortPkg(p.PkgPath)+"."+name+"."+fv.Name(), "", "tagged "+tag+", never written by module code")
					}
				}
			}
		}
	}
	r.Extra["raw_markup_fields"] = nRaw
	cx.checkNoCustomMarshallers(r)
	// --- tags of the emitted types ---------------------------------------------------------------------------
	cx.checkTags(r, "R-TAG", emittedTypes...)

	// --- DeflateAndBase64 -------------------------------------------------------------------------------------
	df := w.Func("xml.DeflateAndBase64")
	if df == nil {
		r.Fail("R-ORDER", "xml.DeflateAndBase64", "", "anchor not found")
		return
	}
	aps, ok := fx.atomPaths(df, 4096)
	if !ok {
		r.Undecided("R-ORDER", "xml.DeflateAndBase64", w.FnPos(df), "too many paths")
		return
	}
	bad := ""
	nOK := 0
	for i := range aps {
		p := &aps[i]
		isNil, nonNil := fx.errNilness(p, fx.retVal(p, 1))
		if nonNil {
			continue
		}
		if !isNil {
			bad = "a return whose error is of unknown nil-ness"
			continue
		}
		nOK++
		order := []string{}
		for _, in := range p.Instrs() {
			c, ok := in.(ssa.CallInstruction)
			if !ok {
				continue
			}
			switch n := calleeName(c); {
			case n == "(*compress/flate.Writer).Write":
				order = append(order, "write")
			case n == "(*compress/flate.Writer).Close":
				order = append(order, "flate-close")
			case c.Common().IsInvoke() && c.Common().Method.Name() == "Close":
				order = append(order, "b64-close")
			case n == "(*bytes.Buffer).Bytes" || n == "(*bytes.Buffer).String":
				order = append(order, "read")
			}
		}
		if strings.Join(order, ",") != "write,flate-close,b64-close,read" {
			bad = "a success path performs " + strings.Join(order, ",") + " instead of write, close the flate writer, close the base64 encoder, read the buffer: the encoded data is truncated"
		}
	}
	r.Check(bad == "" && nOK > 0, "R-ORDER", "xml.DeflateAndBase64:close-order", w.FnPos(df), "write -> flate Close -> base64 Close -> read on every success path", bad)
	cx.checkErrPropagation(r, "R-ERR", "xml.DeflateAndBase64", df)
	cx.checkPoolEscape(r)
	r.Min("R-TAG", 100)
}

// textAltering: library calls whose result is an edited copy of their string operand. A value that passes through
// one of them on its way into a field of an emitted message no longer decodes to what the caller supplied.
func textAltering(l string) bool {
	l = strings.TrimPrefix(strings.TrimPrefix(l, "via:"), "ext:")
	for _, p := range []string{"strings.Map", "strings.Replace", "strings.ReplaceAll", "strings.Trim", "strings.TrimSpace", "strings.TrimLeft", "strings.TrimRight", "strings.TrimPrefix", "strings.TrimSuffix",
		"strings.TrimFunc", "strings.ToLower", "strings.ToUpper", "strings.ToValidUTF8", "strings.Title", "strings.Fields", "strings.Split", "strings.SplitN", "strings.Join", "strings.Repeat",
		"(*strings.Replacer).Replace", "(*regexp.Regexp).Replace", "html.EscapeString", "html.UnescapeString", "url.QueryEscape", "url.QueryUnescape", "url.PathEscape", "url.PathUnescape",
		"bytes.Map", "bytes.Replace", "bytes.ReplaceAll", "bytes.Trim", "bytes.ToValidUTF8", "unicode.", "norm.", "strconv.Quote", "template.HTMLEscapeString", "template.JSEscapeString", "xml.EscapeText"} {
		if strings.HasPrefix(l, p) {
			return true
		}
	}
	return false
}

// freeTextFields: fields of emitted messages that carry text supplied by the caller of the constructor (a request's
// ID, an error text, user attributes, the audience) - as opposed to URLs and identifiers the IdP composes itself,
// whose construction legitimately trims and joins path segments.
var freeTextFields = map[string]bool{
	"samlp.StatusType.StatusMessage": true, "samlp.StatusCodeType.Value": true, "samlp.ResponseType.InResponseTo": true, "samlp.LogoutResponseType.InResponseTo": true,
	"saml.SubjectConfirmationDataType.InResponseTo": true, "saml.AttributeType.AttributeValue": true, "saml.AttributeType.Name": true, "saml.AttributeType.FriendlyName": true,
	"saml.AttributeType.NameFormat": true, "saml.AudienceRestrictionType.Audience": true, "saml.NameIDType.Format": true,
}

// checkFieldFidelity (R-VFG): text stored, in handler-reachable code, into the free-text fields of the emitted
// message types is not edited on the way (trimmed, mapped, replaced, case-folded, escaped by hand).
func (cx *Ctx) checkFieldFidelity(r *Report, scope map[*ssa.Function]bool) {
	w := cx.W
	emitted := map[string]bool{}
	for _, t := range emittedTypes {
		emitted[t] = true
	}
	vf := cx.newVFlowFns(scope)
	n := 0
	for _, fn := range w.sortedFuncs(scope) {
		for _, st := range cx.Fx.info(fn).stores {
			fa, ok := st.Addr.(*ssa.FieldAddr)
			if !ok || !emitted[fieldOwner(fa.X.Type())] {
				continue
			}
			fv := fieldVar(fa.X.Type(), fa.Field)
			if !freeTextFields[fieldOwner(fa.X.Type())+"."+fv.Name()] {
				continue
			}
			if !isStringType(fv.Type()) {
				if sl, isSl := fv.Type().Underlying().(*types.Slice); !isSl || !isStringType(sl.Elem()) {
					continue
				}
			}
			n++
			key := fieldOwner(fa.X.Type()) + "." + fv.Name() + "@" + w.FuncKey(fn)
			bad := ""
			for l := range vf.Deep(vf.Labels(st.Val)) {
				if textAltering(l) {
					bad = strings.TrimPrefix(strings.TrimPrefix(l, "via:"), "ext:")
				}
			}
			if bad != "" {
				r.Fail("R-VFG", "fidelity:"+key, w.InstrPos(st), "the value stored into "+fieldOwner(fa.X.Type())+"."+fv.Name()+" passes through "+bad+": the field no longer decodes to the value that was put in")
			}
		}
	}
	r.Check(n >= 8, "R-VFG", "fidelity:#stores", "", fmt.Sprintf("%d stores of string values into fields of emitted message types examined: none is edited on the way", n), fmt.Sprintf("only %d stores into fields of emitted message types found", n))
}

// checkSendsWhatItIsGiven (R-VFG): in sendBackResponse / sendBackLogoutResponse everything that becomes the message
// part of the reply is computed from the message parameter. A copy cached in the Response object (or anywhere else)
// can belong to another message: the reply would then decode to field values nobody put into the message sent.
func (cx *Ctx) checkSendsWhatItIsGiven(r *Report) {
	w := cx.W
	for _, s := range []struct {
		key   string
		param int
		form  string
	}{{"provider.(*Response).sendBackResponse", 3, "provider.authResponseForm"}, {"provider.(*LogoutResponse).sendBackLogoutResponse", 2, "provider.LogoutResponseForm"}} {
		fn := w.Func(s.key)
		if fn == nil {
			r.Fail("R-VFG", s.key+":message-bytes", "", "anchor not found")
			continue
		}
		lvf := cx.newVFlow("sends:"+s.key, fn)
		msg := fmt.Sprintf("param:%s/#%d", s.key, s.param)
		allowed := []string{msg, msg + ".*", msg + "[*", "const:*", "global:base64.StdEncoding", "via:*", "alloc:*"}
		sinks := map[string]LabelSet{}
		if ls, sites := lvf.CallArgSources(matchFnKey(w, "xml.Write"), 1); len(sites) > 0 {
			sinks["xml.Write"] = ls
		}
		if ls, sites := lvf.FieldStoreSources(s.form, "SAMLResponse"); len(sites) > 0 {
			sinks["form.SAMLResponse"] = ls
		}
		if ls, sites := lvf.CallArgSources(matchFnKey(w, "provider.BuildRedirectQuery"), 0); len(sites) > 0 {
			sinks["redirect.SAMLResponse"] = ls
		}
		if len(sinks) == 0 {
			r.Fail("R-VFG", s.key+":message-bytes", w.FnPos(fn), "no place found where the message is written")
			continue
		}
		// what is marshalled is the message parameter
		if ls, sites := lvf.CallArgSources(matchFnKey(w, "xml.Marshal"), 0); len(sites) == 0 {
			r.Fail("R-VFG", s.key+":marshals-parameter", w.FnPos(fn), "the message parameter is no longer marshalled here")
		} else {
			r.checkSources("R-VFG", s.key+":marshals-parameter", w.InstrPos(sites[0]), ls, []string{msg}, []string{msg}, true)
		}
		var names []string
		for k := range sinks {
			names = append(names, k)
		}
		sort.Strings(names)
		for _, k := range names {
			ls := lvf.Deep(sinks[k])
			var bad []string
			has := false
			for _, l := range ls.leaves() {
				if l == "const:zero" {
					continue
				}
				if l == msg || strings.HasPrefix(l, msg+".") || strings.HasPrefix(l, msg+"[") {
					has = true
				}
				if !matchAny(allowed, l) {
					bad = append(bad, l)
				}
			}
			_ = has
			r.Check(len(bad) == 0, "R-VFG", s.key+":message-bytes:"+k, w.FnPos(fn), "derived from the message parameter only", fmt.Sprintf("what is written as the message can come from %v instead of (only) the message handed to the function", bad))
		}
	}
}

// checkMarshalUntouched (R-VFG): the bytes xml.Marshal / WriteXMLMarshalled hand on are the encoder's output as it is.
// Any text-level rewriting of the serialised document (strings.Replacer, ReplaceAll, regular expressions, trimming)
// works on markup and data alike: an escaped quote or ampersand of a field value can become structure.
func (cx *Ctx) checkMarshalUntouched(r *Report) {
	w := cx.W
	for _, k := range []string{"xml.Marshal", "xml.WriteXMLMarshalled", "xml.Write"} {
		fn := w.Func(k)
		if fn == nil {
			r.Fail("R-VFG", k+":untouched", "", "anchor not found")
			continue
		}
		lvf := cx.newVFlow("untouched:"+k, fn)
		ls := LabelSet{}
		for _, ret := range returnsOf(fn) {
			if len(ret.Results) > 0 && k == "xml.Marshal" {
				ls.addAll(lvf.Labels(ret.Results[0]), 0)
			}
		}
		for _, c := range callsIn(fn) {
			if c.Common().IsInvoke() && isResponseWriter(c.Common().Value.Type()) && c.Common().Method.Name() == "Write" {
				ls.addAll(lvf.Labels(c.Common().Args[0]), 0)
			}
		}
		var vias []string
		for _, l := range lvf.Deep(ls).keys() {
			if strings.HasPrefix(l, "via:") {
				switch l {
				case "via:(*bytes.Buffer).Bytes", "via:(*bytes.Buffer).String", "via:convert":
				default:
					vias = append(vias, l)
				}
			}
			if strings.HasPrefix(l, "ext:") && k == "xml.Marshal" {
				vias = append(vias, l) // the result of a library call other than the buffer accessors
			}
		}
		r.Check(len(vias) == 0, "R-VFG", k+":untouched", w.FnPos(fn), "the serialised document is handed on as the encoder wrote it", "the serialised XML text is rewritten before it is handed on ("+strings.Join(vias, ", ")+"): replacements on the text cannot tell markup from escaped data")
	}
}

// checkNoCustomMarshallers (R-TYPED, shared with C03 and C04): no wire struct has a hand-written XML / text
// (un)marshaller. encoding/xml's own encoding escapes every string, is the same whether a value is reached through a
// pointer or by value, and is what the decoder reverses; a custom method changes the text (trimming, CDATA), and one
// with a pointer receiver runs only where the value is addressable - the bytes that get signed and the bytes that
// get sent then differ.
func (cx *Ctx) checkNoCustomMarshallers(r *Report) {
	w := cx.W
	n := 0
	for _, p := range w.Pkgs {
		if !isXMLModelPkg(p.Types) {
			continue
		}
		for _, name := range p.Types.Scope().Names() {
			tn, ok := p.Types.Scope().Lookup(name).(*types.TypeName)
			if !ok {
				continue
			}
			ms := types.NewMethodSet(types.NewPointer(tn.Type()))
			for i := 0; i < ms.Len(); i++ {
				switch ms.At(i).Obj().Name() {
				case "MarshalXML", "MarshalXMLAttr", "MarshalText", "UnmarshalXML", "UnmarshalXMLAttr", "UnmarshalText":
					n++
					r.Fail("R-TYPED", "custom-marshaller:"+shortPkg(p.PkgPath)+"."+name+"."+ms.At(i).Obj().Name(), w.Pos(ms.At(i).Obj().Pos()), "wire struct "+name+" has a hand-written "+ms.At(i).Obj().Name()+": its encoding is no longer the escaping, symmetric encoding of encoding/xml")
				}
			}
		}
	}
	if n == 0 {
		r.Ok("R-TYPED", "no-custom-marshallers", "", "no wire struct implements a custom XML/text (un)marshaller")
	}
}

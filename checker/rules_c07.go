package main

import (
	"fmt"
	"go/token"
	"go/types"
	"strings"

	"golang.org/x/tools/go/ssa"
)

func init() { register("C07", checkC07) }

func checkC07(cx *Ctx, r *Report) {
	w, fx := cx.W, cx.Fx
	cx.checkReceivedValuesUnchanged(r)
	// a request that makes the handler panic is not accepted: the panic discipline on the three request handlers (shared with C09)
	cx.checkNoPanicOnRequestPaths(r, kSSO, kLogout, kAttr)
	cx.checkRequestTimeLayout(r)
	cx.checkVerifierRefusals(r)
	r.Clauses = []string{
		"C07 is a liveness property over all serialisations; acceptance itself is not decided. Decided are necessary conditions whose violation provably rejects some conformant request:",
		"decode tables: every field of the request types the handlers read (AuthnRequest, LogoutRequest, AttributeQuery, SOAP envelope, NameID, Subject, Conditions, Signature and children, SP metadata) is decoded under the schema's name / namespace / kind",
		"sibling transport handling: both functions that extract SAMLRequest apply the DEFLATE default when the message arrived in the query and SAMLEncoding is absent",
		"no over-strict decoding or time check: the decoders reject only what InflateAndDecode / encoding/xml reject (plus the absent AttributeQuery); the time check rejects only an unparseable bound or a bound on the wrong side of now",
		"verified octets are the received octets: the string handed to the redirect verifier is not rebuilt by re-encoding decoded values",
		"certificates are compared modulo white space; key descriptors without 'use' count as signing keys; the value base64-decoded for POST verification is a base64 form value",
		"the descriptor a request's Destination is compared with is built during that request for that request's issuer (not cached from another host's request), and its locations come from the configured endpoints and the request's issuer only",
		"R-REJECT: every path on which a validation step of the SSO, logout or attribute-query chain (or a helper of package provider it calls) refuses a request carries a reason from the conformance table - a callee's verdict (storage, decoder, verifier), a required part absent/empty, Version != 2.0, Issuer != registered entity ID, no subject alternative, unsupported transport - so no step refuses for a condition a conformant request may satisfy",
	}
	r.NotDec = []string{"acceptance of every conformant serialisation (all prefix styles, timestamp precisions, KeyInfo layouts, percent-encoding styles): a liveness property over parsers and run-time values", "which fractional-second precisions time.Parse accepts for the layout"}
	r.Assume = []string{"encoding/xml ignores namespace prefixes and attribute order"}

	// --- reasons for refusing a request ----------------------------------------------------------------
	cx.checkRejectReasons(r)
	// --- the locations a Destination is compared with are those advertised to this request's host --------
	for _, d := range []struct{ hk, short, fn, typ string }{
		{kSSO, "sso", "provider.verifyRequestDestinationOfAuthRequest", "md.IDPSSODescriptorType"},
		{kAttr, "attr", "provider.verifyRequestDestinationOfAttrQuery", "md.AttributeAuthorityDescriptorType"},
	} {
		vf := cx.vflow(d.hk)
		if vf == nil {
			continue
		}
		cx.checkDestinationContent(r, d.hk, d.short, d.fn)
		lsm, msites := vf.CallArgSources(matchFnKey(w, d.fn), 0)
		if len(msites) == 0 {
			r.Fail("R-VFG", d.short+":destination:metadata", "", d.fn+" is not called from the chain")
			continue
		}
		r.checkSources("R-VFG", d.short+":destination:metadata", w.InstrPos(msites[0]), lsm, []string{"alloc:{" + d.typ + "}*"}, []string{"alloc:{" + d.typ + "}*"}, false)
		lc, cs := vf.CallArgSources(matchFnKey(w, "provider.(*IdentityProvider).GetMetadata"), 1)
		if len(cs) > 0 {
			r.checkSources("R-VFG", d.short+":destination:context", w.InstrPos(cs[0]), lc, []string{"ext:(*http.Request).Context#0"}, []string{"ext:(*http.Request).Context#0"}, true)
		}
	}
	// --- "no supported binding" is a legitimate refusal only if the binding is the documented selection's -----
	cx.checkSelectionResultsOnly(r)
	// --- decode tables ---------------------------------------------------------------------------------
	cx.checkTags(r, "R-TAG", "samlp.AuthnRequestType", "samlp.LogoutRequestType", "samlp.AttributeQueryType", "samlp.NameIDPolicyType", "saml.NameIDType", "saml.SubjectType", "saml.ConditionsType", "saml.AttributeType",
		"soap.AttributeQueryEnvelope", "soap.AttributeQueryBody", "xml_dsig.SignatureType", "xml_dsig.SignatureValueType", "xml_dsig.KeyInfoType", "xml_dsig.X509DataType",
		"md.EntityDescriptorType", "md.SPSSODescriptorType", "md.IndexedEndpointType", "md.EndpointType", "md.KeyDescriptorType")
	cx.checkReachableNamespaces(r, "R-TAG", "samlp.AuthnRequestType", "samlp.LogoutRequestType", "samlp.AttributeQueryType", "soap.AttributeQueryEnvelope", "md.EntityDescriptorType")
	// siblings agree on the RequestAbstractType attributes
	for _, f := range []string{"Id", "Version", "IssueInstant", "Destination", "Consent", "Issuer", "Signature", "Extensions"} {
		var tags []string
		for _, t := range []string{"AuthnRequestType", "LogoutRequestType", "AttributeQueryType"} {
			tg, ok := w.xmlTagOf("samlp", t, f)
			if !ok {
				tg = "<missing>"
			}
			tags = append(tags, normTag(tg))
		}
		r.Check(tags[0] == tags[1] && tags[1] == tags[2], "R-SIB", "request-types:"+f, "", "the three request types declare "+f+" as "+tags[0], fmt.Sprintf("the request types disagree on %s: %v", f, tags))
	}

	// --- DEFLATE default in both extractors ---------------------------------------------------------------
	for _, ex := range []struct{ fn, form string }{{"provider.getAuthRequestFromRequest", "provider.AuthRequestForm"}, {"provider.getLogoutRequestFromRequest", "provider.LogoutRequestForm"}} {
		fn := w.Func(ex.fn)
		if fn == nil {
			r.Fail("R-SIB", ex.fn, "", "anchor not found")
			continue
		}
		okDefault := false
		why := "no store of the DEFLATE identifier into " + ex.form + ".Encoding"
		// the extractor itself, or a parser of its package it shares with its sibling and whose Encoding it copies
		// (`form, err := parseSAMLRequestForm(r); ...; Encoding: form.Encoding`)
		type encStore struct {
			st    *ssa.Store
			owner string
		}
		var cands []encStore
		for _, st := range fx.info(fn).stores {
			if fa, ok := st.Addr.(*ssa.FieldAddr); ok && fieldOwner(fa.X.Type()) == ex.form && fname(fieldVar(fa.X.Type(), fa.Field)) == "Encoding" {
				cands = append(cands, encStore{st, ex.form})
				// the value copied from another form object: the stores into that object's Encoding count
				if ld, isLd := st.Val.(*ssa.UnOp); isLd {
					if fa2, isFA := ld.X.(*ssa.FieldAddr); isFA && fname(fieldVar(fa2.X.Type(), fa2.Field)) == "Encoding" {
						owner2 := fieldOwner(fa2.X.Type())
						for g := range w.scopeOf(fn) {
							if g.Pkg != fn.Pkg {
								continue
							}
							for _, st2 := range fx.info(g).stores {
								if fa3, ok3 := st2.Addr.(*ssa.FieldAddr); ok3 && fieldOwner(fa3.X.Type()) == owner2 && fname(fieldVar(fa3.X.Type(), fa3.Field)) == "Encoding" {
									cands = append(cands, encStore{st2, owner2})
								}
							}
						}
					}
				}
			}
		}
		lookupInHelper := false
		for _, cand := range cands {
			st := cand.st
			if cs, ok := constString(st.Val); !ok || "const:"+cs != cDeflate {
				continue
			}
			pts, okp := fx.atomPathsTo(st.Block(), 1024)
			if !okp {
				continue
			}
			all := len(pts) > 0
			for _, p := range pts {
				encEmpty, fromQuery := false, false
				_ = lookupInHelper
				for _, a := range p.Atoms {
					if a.Op == "EMPTY" && !a.Neg && strings.HasSuffix(a.A, ".Encoding") {
						encEmpty = true
					}
					// arrived in the query: the comma-ok of URL.Query()["SAMLRequest"], or binding == Redirect (set from the same lookup)
					if a.Op == "TRUE" && !a.Neg && strings.Contains(a.A, "#1") {
						fromQuery = true
					}
					// the binding computed by a helper from the same lookup
					if a.Op == "EQ" && !a.Neg && (a.A == cRedirect || a.B == cRedirect) {
						fromQuery = true
					}
					// the lookup in a predicate of its own: `hasQueryParameter(r, "SAMLRequest")`
					if strings.HasPrefix(a.Op, "CALL:") && !a.Neg {
						if c, isC := stripNot(a.Cond).(*ssa.Call); isC && cx.fromSAMLRequestQuery(c, 0) {
							fromQuery = true
							lookupInHelper = true
						}
					}
				}
				if !encEmpty || !fromQuery {
					all = false
					why = "the DEFLATE default is not applied exactly when SAMLEncoding is absent and the message came in the query (" + atomsString(p.Atoms) + ")"
				}
			}
			if all {
				okDefault = true
			}
		}
		// the same decision taken by a helper: `Encoding: requestEncoding(FormValue("SAMLEncoding"), fromQuery)` whose
		// returns are DEFLATE exactly under (encoding parameter empty and query flag true) and the encoding parameter
		// itself otherwise
		if !okDefault {
			if why2, ok := cx.deflateDefaultByHelper(fn, ex.form); ok {
				okDefault = true
			} else if why2 != "" {
				why = why2
			}
		}
		// the query lookup is for SAMLRequest
		hasLookup := lookupInHelper
		for g := range w.scopeOf(fn) {
			for _, b := range g.Blocks {
				for _, in := range b.Instrs {
					if lk, ok := in.(*ssa.Lookup); ok {
						if k, ok := constString(lk.Index); ok && k == "SAMLRequest" {
							hasLookup = true
						}
					}
				}
			}
		}
		r.Check(okDefault && hasLookup, "R-SIB", ex.fn+":deflate-default", w.FnPos(fn), "DEFLATE is assumed when SAMLEncoding is absent and SAMLRequest came in the query", "redirect-binding requests without SAMLEncoding are not inflated: "+why)
	}

	// --- decoders are not stricter than encoding/xml ----------------------------------------------------------
	for _, dk := range []string{"xml.DecodeAuthNRequest", "xml.DecodeLogoutRequest", "xml.DecodeAttributeQuery"} {
		cx.checkDecoderNotStricter(r, dk)
	}
	// time check: every rejection is an unparseable bound or a bound on the wrong side
	if fn := w.Func("provider.checkIfRequestTimeIsStillValid$1"); fn != nil {
		if worker, _ := timeCheckWorker(fn); worker != nil {
			fn = worker // the check proper, called with the bounds and the current time
		}
		aps, ok := fx.atomPaths(fn, 8192)
		bad := ""
		if !ok {
			bad = "too many paths"
		}
		for i := range aps {
			p := &aps[i]
			_, nonNil := fx.errNilness(p, fx.retVal(p, 0))
			if !nonNil {
				continue
			}
			reason := false
			for _, a := range p.Atoms {
				if a.Op == "NIL" && a.Neg && strings.HasSuffix(a.A, "time.Parse#1") {
					reason = true
				}
				if strings.HasPrefix(a.Op, "CALL:(time.Time).") {
					reason = true // either outcome of a comparison with now (`!t.After(now)` for `t.Equal(now) || t.Before(now)`)
				}
			}
			// the last decision on the path must be that reason
			if len(p.Atoms) > 0 {
				last := p.Atoms[len(p.Atoms)-1]
				if !(last.Op == "NIL" && last.Neg && strings.HasSuffix(last.A, "time.Parse#1")) && !strings.HasPrefix(last.Op, "CALL:(time.Time).") {
					reason = false
				}
			}
			if !reason {
				bad = "a request is rejected for a reason other than an unparseable bound or a bound on the wrong side of now (" + atomsString(p.Atoms) + "): timestamps time.Parse accepts are refused"
			}
		}
		// the only parser is time.Parse
		for _, c := range callsIn(fn) {
			if f := calleeOf(c); f != nil && f.Pkg != nil && isModulePath(f.Pkg.Pkg.Path()) {
				bad = "the time check calls " + w.FuncKey(f) + " before / instead of time.Parse"
			}
			if n := calleeName(c); strings.HasPrefix(n, "(*regexp.Regexp).") || strings.HasPrefix(n, "regexp.") {
				bad = "timestamps are pre-validated with a regular expression (" + shortCallee(n) + ")"
			}
		}
		r.Check(bad == "", "R-STRICT", "checkIfRequestTimeIsStillValid", w.FnPos(fn), "rejects only unparseable bounds and bounds on the wrong side of now", bad)
	} else {
		r.Fail("R-STRICT", "checkIfRequestTimeIsStillValid", "", "anchor not found")
	}

	// --- verified octets = received octets --------------------------------------------------------------------------
	if vr := w.Func("serviceprovider.(*ServiceProvider).ValidateRedirectSignature"); vr != nil {
		lvf := cx.newVFlow("ValidateRedirectSignature", vr)
		ls, sites := lvf.CallArgSources(matchFnKey(w, "signature.ValidateRedirect"), 1)
		if len(sites) == 0 {
			r.Fail("R-VFG", "ValidateRedirectSignature:octets", w.FnPos(vr), "the redirect verifier is no longer called")
		} else if _, re := lvf.Deep(ls)["via:url.QueryEscape"]; re {
			// The recorded finding is exactly "each decoded value is passed through url.QueryEscape and joined by
			// the parameter names". Anything else done to the rebuilt octets (another rewriting step, other
			// constants) refuses further conformant signers and is a violation of its own, not the known one.
			var extra []string
			for _, l := range lvf.Deep(ls).keys() {
				switch {
				case strings.HasPrefix(l, "via:"):
					switch l {
					case "via:url.QueryEscape", "via:fmt.Sprintf", "via:concat", "via:strings.Builder", "via:strings.Join":
					default:
						extra = append(extra, l)
					}
				case strings.HasPrefix(l, "const:"):
					rest := strings.TrimPrefix(l, "const:")
					for _, tok := range []string{"SAMLRequest=", "RelayState=", "SigAlg=", "%s", "&", "zero"} {
						rest = strings.ReplaceAll(rest, tok, "")
					}
					if rest != "" {
						extra = append(extra, l)
					}
				}
			}
			if len(extra) > 0 {
				r.Fail("R-VFG", "serviceprovider.(*ServiceProvider).ValidateRedirectSignature#re-encoding:"+strings.Join(extra, ","), w.InstrPos(sites[0]), "the octets verified are rebuilt from the decoded parameter values and rewritten further ("+strings.Join(extra, ", ")+"): besides the signers the plain QueryEscape re-encoding already refuses, signers whose encoding this rewriting changes (e.g. '+' for a space) are refused too")
			}
			r.Fail("R-VFG", "serviceprovider.(*ServiceProvider).ValidateRedirectSignature#re-encoding", w.InstrPos(sites[0]), "the octets verified are rebuilt with url.QueryEscape from the decoded parameter values instead of being the raw query substrings received: a conformant signer that percent-encodes differently (lower-case hex, %20 for space) is refused")
		} else {
			r.Ok("R-VFG", "serviceprovider.(*ServiceProvider).ValidateRedirectSignature#re-encoding", w.InstrPos(sites[0]), "the verified octets are not re-encoded")
		}
	} else {
		r.Fail("R-VFG", "ValidateRedirectSignature:octets", "", "anchor not found")
	}
	// --- a request is not refused over a Destination it does not name or that is the advertised one -----------------
	cx.checkDestinationAccepts(r, "provider.verifyRequestDestinationOfAuthRequest")
	cx.checkDestinationAccepts(r, "provider.verifyRequestDestinationOfAttrQuery")
	// --- every advertised binding reaches its handler: no route matcher that excludes GET or POST ---------------------
	cx.checkRouteMatchers(r)
	// --- the verifier compares the received signature with the digest of the received octets (not swapped) ---------
	cx.checkVerifierArguments(r)
	// --- base64 text is decoded as received, with the standard encoding --------------------------------------------------
	cx.checkBase64Decoding(r)
	// --- the octets verified have the shape the binding prescribes -----------------------------------------------------
	cx.checkRedirectOctetsShape(r)
	// --- certificate comparison ---------------------------------------------------------------------------------------
	nCmp := 0
	for _, fn := range w.Funcs {
		for _, b := range fn.Blocks {
			for _, in := range b.Instrs {
				bo, ok := in.(*ssa.BinOp)
				if !ok || (bo.Op != token.EQL && bo.Op != token.NEQ) {
					continue
				}
				isCertLoad := func(v ssa.Value) bool {
					ld, ok := v.(*ssa.UnOp)
					if !ok {
						return false
					}
					fa, ok := ld.X.(*ssa.FieldAddr)
					return ok && fieldOwner(fa.X.Type()) == "xml_dsig.X509DataType" && fname(fieldVar(fa.X.Type(), fa.Field)) == "X509Certificate"
				}
				if isCertLoad(bo.X) && isCertLoad(bo.Y) {
					nCmp++
					r.Fail("R-NORM", "certificate-compare@"+w.FuncKey(fn), w.InstrPos(bo), "two X509Certificate texts are compared byte for byte: base64 content may be wrapped and indented, so a request carrying the registered certificate with line breaks is refused")
				}
			}
		}
	}
	if cc := w.Func("provider.checkCertificate$1"); cc != nil {
		// the comparison that decides goes through a white-space normaliser
		okN := false
		var ccBlocks []*ssa.BasicBlock
		for _, g := range cx.privateHelpers(cc) {
			ccBlocks = append(ccBlocks, g.Blocks...)
		}
		for _, b := range ccBlocks {
			for _, in := range b.Instrs {
				if bo, ok := in.(*ssa.BinOp); ok && bo.Op == token.EQL {
					cx1, ok1 := bo.X.(*ssa.Call)
					cy1, ok2 := bo.Y.(*ssa.Call)
					if ok1 && ok2 && calleeOf(cx1) != nil && calleeOf(cx1) == calleeOf(cy1) && cx.isWhitespaceNormalizer(calleeOf(cx1)) {
						okN = true
					}
					// the normalised texts may be kept in locals or a slice first (normalised once, compared often)
					if isStringType(bo.X.Type()) && cx.passesNormalizer(bo.X, 0) && cx.passesNormalizer(bo.Y, 0) {
						okN = true
					}
				}
			}
		}
		r.Check(okN && nCmp == 0, "R-NORM", "checkCertificate:normalised", w.FnPos(cc), "both certificate texts pass the same white-space normaliser before being compared", "checkCertificate does not compare the certificates modulo white space")
	}
	// key descriptors without use are signing keys
	if gc := w.Func("xml.GetCertsFromKeyDescriptors"); gc != nil {
		sawEmpty, sawSigning := false, false
		for _, c := range callsIn(gc) {
			call, ok := c.(*ssa.Call)
			if !ok {
				continue
			}
			if b, isB := call.Call.Value.(*ssa.Builtin); !isB || b.Name() != "append" {
				continue
			}
			pts, _ := fx.atomPathsTo(call.Block(), 4096)
			for _, p := range pts {
				for _, atoms := range fx.altExpansions(p.Atoms, 16) {
					for _, a := range atoms {
						if a.Neg || !strings.HasSuffix(a.A+"|"+a.B, ".Use") && !strings.Contains(a.A+"|"+a.B, ".Use|") && !strings.HasSuffix(a.TA+"|"+a.TB, ".Use") && !strings.Contains(a.TA+"|"+a.TB, ".Use|") {
							continue
						}
						if a.Op == "EMPTY" {
							sawEmpty = true
						}
						if a.Op == "EQ" && (a.A == "const:signing" || a.B == "const:signing") {
							sawSigning = true
						}
					}
				}
			}
		}
		r.Check(sawEmpty && sawSigning, "R-NORM", "GetCertsFromKeyDescriptors:use", w.FnPos(gc), "certificates are taken from descriptors with use=\"signing\" and from descriptors without use", "key descriptors without a use attribute (valid for signing and encryption) are not taken as signing keys: requests signed with them are refused")
	} else {
		r.Fail("R-NORM", "GetCertsFromKeyDescriptors:use", "", "anchor not found")
	}
	// --- representation agreement -------------------------------------------------------------------------------------
	for _, e := range []struct{ key, short string }{{kSSO, "sso"}, {kAttr, "attr"}} {
		vf := cx.vflow(e.key)
		if vf == nil {
			continue
		}
		ls := LabelSet{}
		n := 0
		for _, c := range w.callsTo(vf.scope, matchCallee("(*encoding/base64.Encoding).DecodeString")) {
			if w.FuncKey(c.Parent()) == "provider.verifyPostSignature$1" {
				n++
				ls.addAll(vf.Labels(c.Common().Args[1]), 0)
			}
		}
		if n == 0 {
			continue
		}
		raw := false
		for _, l := range ls.leaves() {
			if strings.Contains(l, "ReadAll") {
				raw = true
			}
		}
		if raw {
			r.Fail("R-VFG", "provider.(*IdentityProvider).attributeQueryHandleFunc#verifyPostSignature-input", "", "the attribute-query handler hands the raw SOAP body (not base64) to verifyPostSignature, which base64-decodes its input first: every AttributeQuery carrying a signature value is answered with an error instead of being verified")
		} else {
			r.Ok("R-VFG", e.short+":verifyPostSignature-input", "", "the value base64-decoded before verification is a base64 transport value")
		}
	}
	r.Min("R-TAG", 100)
}

// isWhitespaceNormalizer: f(s string) string whose result is built from strings.Fields / ReplaceAll of white
// space / a \s regexp on its parameter.
func (cx *Ctx) isWhitespaceNormalizer(f *ssa.Function) bool {
	if f == nil || f.Blocks == nil || f.Signature.Params().Len() != 1 || f.Signature.Results().Len() != 1 {
		return false
	}
	for _, c := range callsIn(f) {
		switch calleeName(c) {
		case "strings.Fields", "(*regexp.Regexp).ReplaceAllString":
			return true
		case "strings.Map":
			return true
		}
	}
	return false
}

// checkBase64Decoding (R-B64): every base64 decoding in the module's request paths uses encoding/base64.StdEncoding
// (the RFC 4648 alphabet with padding, which also skips the line breaks MIME-style encoders insert) on the text as it
// was received. Any other Encoding (RawStdEncoding, URLEncoding, Strict) or a rewriting of the text before decoding
// (trimming padding, removing characters) refuses base64 a conformant peer may send - padded, wrapped, or both.
func (cx *Ctx) checkBase64Decoding(r *Report) {
	w := cx.W
	n := 0
	for _, fn := range w.Funcs {
		var lvf *VFlow
		for _, c := range callsIn(fn) {
			name := calleeName(c)
			encIdx, txtIdx := -1, -1
			switch name {
			case "(*encoding/base64.Encoding).DecodeString", "(*encoding/base64.Encoding).Decode", "(*encoding/base64.Encoding).AppendDecode":
				encIdx, txtIdx = 0, 1
				if name == "(*encoding/base64.Encoding).Decode" {
					txtIdx = 2
				}
			case "encoding/base64.NewDecoder":
				encIdx = 0
			default:
				continue
			}
			n++
			key := w.FuncKey(fn) + ":" + shortCallee(name)
			args := c.Common().Args
			std := false
			if ld, ok := args[encIdx].(*ssa.UnOp); ok && ld.Op == token.MUL {
				if g, isG := ld.X.(*ssa.Global); isG && g.Pkg != nil && g.Pkg.Pkg.Path() == "encoding/base64" && g.Name() == "StdEncoding" {
					std = true
				}
			}
			if !std {
				r.Fail("R-B64", key, w.InstrPos(c), "base64 text of a request is decoded with an encoding other than base64.StdEncoding: padded or line-wrapped base64, which conformant peers send, is refused")
				continue
			}
			if txtIdx >= 0 && txtIdx < len(args) {
				if lvf == nil {
					lvf = cx.newVFlow("b64:"+w.FuncKey(fn), fn)
				}
				var vias []string
				for _, l := range lvf.Deep(lvf.Labels(args[txtIdx])).keys() {
					if strings.HasPrefix(l, "via:") && !harmlessB64Rewrite(lvf.scope, strings.TrimPrefix(l, "via:")) {
						vias = append(vias, l)
					}
				}
				if len(vias) > 0 {
					r.Fail("R-B64", key, w.InstrPos(c), "the base64 text is rewritten before it is decoded ("+strings.Join(vias, ", ")+"): text a conformant peer may send (padding, line breaks) no longer decodes")
					continue
				}
			}
			// xs:base64Binary content of an XML document (certificates in KeyInfo and in metadata) may be wrapped and
			// indented with blanks and tabs; the Go decoder skips CR and LF only. Where the decoded bytes are parsed as a
			// certificate, the text therefore has to lose all white space first.
			if txtIdx >= 0 && txtIdx < len(args) && fnParsesCertificates(fn) {
				stripped := false
				for _, l := range lvf.Deep(lvf.Labels(args[txtIdx])).keys() {
					if strings.HasPrefix(l, "via:") && removesAllWhitespace(lvf.scope, strings.TrimPrefix(l, "via:")) {
						stripped = true
					}
					// a library call that is not a transparent transformer shows as a leaf: ext:<callee>(<constants>)#0
					for _, nm := range []string{"(*regexp.Regexp).ReplaceAllString", "strings.Fields", "strings.Map", "strings.FieldsFunc"} {
						if strings.HasPrefix(l, "ext:"+nm+"(") || strings.HasPrefix(l, "ext:"+nm+"#") {
							if removesAllWhitespace(lvf.scope, nm) {
								stripped = true
							}
						}
					}
				}
				// strings.NewReplacer(" ", "", "\t", "", "\n", "", "\r", "").Replace(text)
				for _, l := range lvf.Deep(lvf.Labels(args[txtIdx])).keys() {
					if strings.HasPrefix(l, "ext:(*strings.Replacer).Replace") && replacerStripsWhitespace(w) {
						stripped = true
					}
				}
				if !stripped {
					r.Fail("R-B64", key+":certificate-whitespace", w.InstrPos(c), "certificate text is base64-decoded without all white space being removed first: the decoder skips line breaks only, so a certificate published in indented (pretty-printed) metadata or KeyInfo - legal xs:base64Binary - cannot be read and the provider's correctly signed requests are refused")
					continue
				}
				r.Ok("R-B64", key+":certificate-whitespace", w.InstrPos(c), "all white space is removed from certificate text before decoding")
			}
			r.Ok("R-B64", key, w.InstrPos(c), "base64.StdEncoding on the text as received")
		}
	}
	r.Check(n >= 3, "R-B64", "#decode-sites", "", fmt.Sprintf("%d base64 decoding sites", n), fmt.Sprintf("only %d base64 decoding sites found (3 expected: request message, POST signature input, redirect signature value)", n))
}

// fnParsesCertificates: fn hands decoded bytes to crypto/x509.
func fnParsesCertificates(fn *ssa.Function) bool {
	for _, c := range callsIn(fn) {
		switch calleeName(c) {
		case "crypto/x509.ParseCertificate", "crypto/x509.ParseCertificates":
			return true
		}
	}
	return false
}

// removesAllWhitespace: the transformer (by short name), at every call in scope, deletes every white-space character:
// a regular expression made of white-space classes replaced by "", strings.Fields (joined again), or strings.Map.
func removesAllWhitespace(scope map[*ssa.Function]bool, via string) bool {
	switch via {
	case "strings.Fields", "strings.Map", "strings.FieldsFunc":
		return true
	case "(*regexp.Regexp).ReplaceAllString":
		return harmlessB64Rewrite(scope, via)
	}
	return false
}

// harmlessB64Rewrite: every call of the transformer (by short name) in scope can only remove text that valid base64
// never contains: a prefix / suffix / replaced string with a character outside the base64 alphabet and padding
// (PEM armour), a cut set made of such characters only, or a regular expression of white-space classes. Removing
// '=' or alphabet characters is not harmless.
func harmlessB64Rewrite(scope map[*ssa.Function]bool, via string) bool {
	inAlphabet := func(c rune) bool {
		return c >= 'A' && c <= 'Z' || c >= 'a' && c <= 'z' || c >= '0' && c <= '9' || c == '+' || c == '/' || c == '='
	}
	hasOutside := func(s string) bool {
		for _, c := range s {
			if !inAlphabet(c) {
				return true
			}
		}
		return false
	}
	allOutside := func(s string) bool {
		for _, c := range s {
			if inAlphabet(c) {
				return false
			}
		}
		return s != ""
	}
	found := false
	for fn := range scope {
		for _, c := range callsIn(fn) {
			if shortCallee(calleeName(c)) != via {
				continue
			}
			found = true
			args := c.Common().Args
			switch calleeName(c) {
			case "strings.TrimPrefix", "strings.TrimSuffix":
				if k, ok := constString(args[1]); !ok || !hasOutside(k) {
					return false
				}
			case "strings.Trim", "strings.TrimLeft", "strings.TrimRight":
				if k, ok := constString(args[1]); !ok || !allOutside(k) {
					return false
				}
			case "strings.TrimSpace":
			case "strings.ReplaceAll", "strings.Replace":
				k, ok := constString(args[1])
				k2, ok2 := constString(args[2])
				if !ok || !ok2 || !hasOutside(k) || k2 != "" {
					return false
				}
			case "(*regexp.Regexp).ReplaceAllString":
				k2, ok2 := constString(args[2])
				if !ok2 || k2 != "" {
					return false
				}
				// the expression: a package-level regexp.MustCompile of white-space classes
				pat := ""
				if ld, isLd := args[0].(*ssa.UnOp); isLd {
					if g, isG := ld.X.(*ssa.Global); isG {
						for _, m := range g.Pkg.Members {
							f, isF := m.(*ssa.Function)
							if !isF || f.Name() != "init" {
								continue
							}
							for _, st := range callsIn(f) {
								_ = st
							}
							for _, b := range f.Blocks {
								for _, in := range b.Instrs {
									if s, isS := in.(*ssa.Store); isS && s.Addr == ssa.Value(g) {
										if mc, isC := s.Val.(*ssa.Call); isC && calleeName(mc) == "regexp.MustCompile" {
											pat, _ = constString(mc.Call.Args[0])
										}
									}
								}
							}
						}
					}
				}
				if pat == "" {
					return false
				}
				for _, ch := range pat {
					if !strings.ContainsRune(`\s+*[]rnt `, ch) {
						return false
					}
				}
			default:
				return false
			}
		}
	}
	return found
}

// checkRedirectOctetsShape: the string ValidateRedirectSignature verifies is SAMLRequest=<request>[&RelayState=<relay
// state>]&SigAlg=<algorithm> - the values in these positions, and the RelayState part exactly when a RelayState was
// received (HTTP-Redirect binding, 3.4.4.1). Any other shape makes every correct signature fail.
func (cx *Ctx) checkRedirectOctetsShape(r *Report) {
	w := cx.W
	vr := w.Func("serviceprovider.(*ServiceProvider).ValidateRedirectSignature")
	if vr == nil {
		r.Fail("R-VFG", "ValidateRedirectSignature:shape", "", "anchor not found")
		return
	}
	lvf := cx.newVFlow("octets-shape", vr)
	par := func(i int) string { return fmt.Sprintf("param:%s/#%d", w.FuncKey(vr), i) }
	n, withRS, withoutRS := 0, 0, 0
	// every string that is turned into the octets to verify (Sprintf, concatenation or a Builder alike)
	var cands []ssa.Instruction
	// (in the function itself or in a helper it calls: the construction may have been extracted)
	for _, g := range w.sortedFuncs(lvf.scope) {
		if g.Pkg != vr.Pkg {
			continue
		}
		for _, b := range g.Blocks {
			for _, in := range b.Instrs {
				if cv, ok := in.(*ssa.Convert); ok && isStringType(cv.X.Type()) {
					if _, isSl := cv.Type().Underlying().(*types.Slice); isSl {
						cands = append(cands, cv)
					}
				}
			}
		}
	}
	// ... or octets put together by appending to a byte slice: what the verifier is handed
	type octCand struct {
		at ssa.Instruction
		v  ssa.Value
	}
	var ocands []octCand
	for _, ci := range cands {
		ocands = append(ocands, octCand{ci, ci.(*ssa.Convert).X})
	}
	for _, g := range w.sortedFuncs(lvf.scope) {
		if g.Pkg != vr.Pkg {
			continue
		}
		for _, c := range callsIn(g) {
			if f := calleeOf(c); f != nil && w.FuncKey(f) == "signature.ValidateRedirect" && len(c.Common().Args) > 1 {
				a := c.Common().Args[1]
				if cc, isCall := a.(*ssa.Call); isCall {
					if b, isB := cc.Call.Value.(*ssa.Builtin); isB && b.Name() == "append" {
						ocands = append(ocands, octCand{c.(ssa.Instruction), a})
					}
				}
				if _, isPhi := a.(*ssa.Phi); isPhi {
					ocands = append(ocands, octCand{c.(ssa.Instruction), a})
				}
			}
		}
	}
	for _, oc := range ocands {
		ci := oc.at
		call := ci
		// the converted string may be chosen among several (a local assigned in both arms of a test): each
		// alternative is judged with the atoms holding where it is chosen
		for _, alt := range cx.strPartAlts(oc.v, ci) {
			parts := mergeLits(alt.Parts)
			if len(parts) == 0 || !parts[0].IsLit || !strings.HasPrefix(parts[0].Lit, "SAMLRequest=") {
				continue
			}
			n++
			format := ""
			for _, p := range parts {
				if p.IsLit {
					format += p.Lit
				}
			}
			var desc []string
			for _, p := range mergeLits(parts) {
				if p.IsLit {
					desc = append(desc, p.Lit)
					continue
				}
				src := "?"
				ls := lvf.Deep(lvf.Labels(p.Val)).leaves()
				var ps []string
				for _, l := range ls {
					if strings.HasPrefix(l, "param:") {
						ps = append(ps, l)
					}
				}
				if len(ps) == 1 {
					for i := 1; i <= 4; i++ {
						if ps[0] == par(i) {
							src = fmt.Sprintf("<#%d>", i)
						}
					}
				}
				desc = append(desc, src)
			}
			got := strings.Join(desc, "")
			hasRS := strings.Contains(format, "RelayState=")
			want := "SAMLRequest=<#1>&SigAlg=<#3>"
			if hasRS {
				want = "SAMLRequest=<#1>&RelayState=<#2>&SigAlg=<#3>"
			}
			bad := ""
			if got != want {
				bad = "the verified string is " + got + ", the binding prescribes " + want
			}
			// the RelayState part exactly when one was received
			present, absent := false, false
			for _, a := range alt.Atoms {
				if a.Op != "EMPTY" {
					continue
				}
				subj := emptySubject(a)
				if subj == nil {
					continue
				}
				for _, l := range lvf.Deep(lvf.Labels(subj)).leaves() {
					if l == par(2) {
						if a.Neg {
							present = true
						} else {
							absent = true
						}
					}
				}
			}
			if bad == "" && hasRS && !present {
				bad = "the RelayState part is included on a path that has not found a RelayState: requests without RelayState fail verification"
			}
			if bad == "" && !hasRS && !absent {
				bad = "the RelayState part is left out on a path that has not found the RelayState empty: requests with RelayState fail verification"
			}
			if hasRS {
				withRS++
			} else {
				withoutRS++
			}
			r.Check(bad == "", "R-VFG", "ValidateRedirectSignature:shape@"+w.InstrPos(call)+alt.Tag, w.InstrPos(call), want, bad)
		}
	}
	r.Check(withRS >= 1 && withoutRS >= 1, "R-VFG", "ValidateRedirectSignature:shape#", w.FnPos(vr), fmt.Sprintf("%d templates", n), "the verified string is not built in the two prescribed shapes (with and without RelayState)")
}

// checkRequestTimeLayout: the timestamps of an AuthnRequest's Conditions are parsed with a layout that accepts every
// precision a conformant peer may send: a compile-time constant whose fractional part, if any, is written with 9s
// (time.Parse then takes any number of fractional digits). The time format the provider is configured with for the
// messages it WRITES may have a fixed-width fraction (".000"), which rejects every other precision.
func (cx *Ctx) checkRequestTimeLayout(r *Report) {
	w := cx.W
	n := 0
	for f := range w.scopeOf(w.Func(kSSO)) {
		for _, c := range callsIn(f) {
			g := calleeOf(c)
			if g == nil || w.FuncKey(g) != "provider.checkIfRequestTimeIsStillValid" || len(c.Common().Args) < 3 {
				continue
			}
			n++
			layout, isC := constString(c.Common().Args[2])
			ok := isC
			if isC {
				if i := strings.Index(layout, "."); i >= 0 && i+1 < len(layout) && layout[i+1] == '0' {
					ok = false
				}
			}
			r.Check(ok, "R-STRICT", "sso:conditions-layout@"+w.FuncKey(f), w.InstrPos(c), "parsed with a constant layout that accepts every fractional precision", "the Conditions of an AuthnRequest are parsed with a layout that is not a lenient compile-time constant (e.g. the configurable output time format): with a fixed-width fraction configured, timestamps of any other precision are refused")
		}
	}
	if n == 0 {
		r.Ok("R-STRICT", "sso:conditions-layout", "", "no call of the time check in the SSO handler's scope (judged by C06)")
	}
	// the logout handler parses the request's instants with the provider's time format: what the constructor puts there
	// by default has to accept every fractional precision too (a default written with zeros accepts exactly that many
	// digits and turns away requests with second or microsecond precision)
	if ni := w.Func("provider.NewIdentityProvider"); ni != nil {
		lvf := cx.newVFlow("NewIdentityProvider:timeformat", ni)
		ls, sites := lvf.FieldStoreSources("provider.IdentityProvider", "TimeFormat")
		bad := ""
		for _, l := range lvf.Deep(ls).leaves() {
			if !strings.HasPrefix(l, "const:") {
				continue
			}
			layout := strings.TrimPrefix(l, "const:")
			if i := strings.Index(layout, "."); i >= 0 && i+1 < len(layout) && layout[i+1] == '0' {
				bad = "the default time format " + layout + " has a fixed-width fraction: it is also the layout LogoutRequest instants are parsed with, requests with any other precision are refused"
			}
		}
		if len(sites) > 0 {
			r.Check(bad == "", "R-STRICT", "slo:default-time-layout", w.InstrPos(sites[0]), "the default time format accepts every fractional precision when used for parsing", bad)
		}
	}
}

// checkVerifierRefusals: the signature-verification helpers (packages signature and serviceprovider) refuse a message
// only for what a verifier has to refuse: a callee's verdict (parser, base64, the cryptographic check), a part that is
// absent (nil / empty / no certificate), a key of another type than the algorithm needs, or an algorithm that is not
// supported. A refusal decided by anything else - the position of the Signature among the child tokens, the length of
// a value - turns away correctly signed messages in one of their legal serialisations.
func (cx *Ctx) checkVerifierRefusals(r *Report) {
	w, fx := cx.W, cx.Fx
	var roots []*ssa.Function
	for _, k := range []string{"serviceprovider.(*ServiceProvider).ValidatePostSignature", "serviceprovider.(*ServiceProvider).ValidateRedirectSignature"} {
		if f := w.Func(k); f != nil {
			roots = append(roots, f)
		} else {
			r.Fail("R-REJECT", "verifier:"+k, "", "anchor not found")
		}
	}
	n := 0
	for _, fn := range w.sortedFuncs(w.scopeOf(roots...)) {
		pk := shortPkg(fn.Pkg.Pkg.Path())
		if pk != "signature" && pk != "serviceprovider" {
			continue
		}
		res := fn.Signature.Results()
		if res.Len() == 0 || !isErrorTypeT(res.At(res.Len()-1).Type()) {
			continue
		}
		aps, ok := fx.atomPaths(fn, 8192)
		if !ok {
			continue
		}
		n++
		bad := ""
		for i := range aps {
			p := &aps[i]
			rv := fx.retVal(p, res.Len()-1)
			if rv == nil || !isFreshError(fx.throughIdentity(rv)) {
				continue // nil, or a callee's verdict handed on
			}
			if len(p.Atoms) == 0 {
				continue
			}
			// the decision that led here: the last condition of the path that belongs to this function
			var last *Atom
			for j := len(p.Atoms) - 1; j >= 0; j-- {
				if in, isIn := p.Atoms[j].Cond.(ssa.Instruction); isIn && in.Parent() == fn {
					last = &p.Atoms[j]
					break
				}
			}
			if last == nil {
				continue
			}
			okReason := false
			switch {
			case last.Op == "NIL" && !last.Neg, last.Op == "EMPTY" && !last.Neg:
				okReason = true // a part is absent / empty
			case last.Op == "NIL" && last.Neg:
				// an error found non-nil: a callee's verdict, reported with an error made here
				if x, _, isNT := nilTest(last.Cond); isNT && isErrorType(x.Type()) {
					okReason = true
				}
			case last.Op == "TRUE" && last.Neg:
				// `key, ok := pub.(*rsa.PublicKey); if !ok`, or a boolean verdict of a library verifier
				okReason = true
			case strings.HasPrefix(last.Op, "CALL:") && last.Neg:
				okReason = true // a boolean verdict (dsa.Verify, bytes.Equal ...) found false
			case (last.Op == "EQ" || last.Op == "LT") && (strings.HasPrefix(last.A, "const:") || strings.HasPrefix(last.B, "const:")):
				// a comparison with a constant: none of the supported algorithm identifiers (strings; the default
				// case of a switch), or a property of the signature's numbers (math/big) - not of the document's layout
				if bo, isB := stripNot(last.Cond).(*ssa.BinOp); isB {
					for _, o := range []ssa.Value{bo.X, bo.Y} {
						if _, isK := o.(*ssa.Const); isK {
							continue
						}
						if isStringType(o.Type()) && last.Op == "EQ" && last.Neg {
							okReason = true
						}
						if c, isC := o.(*ssa.Call); isC && strings.Contains(calleeName(c), "math/big.") {
							okReason = true
						}
					}
				}
			case last.Op == "LT" && strings.Contains(last.A+last.B, "len("):
				okReason = true // nothing left in a list (no certificate, no key descriptor)
			}
			if !okReason {
				// a property of what a codec of the signature value returned (trailing bytes after the ASN.1 structure)
				if sv := emptySubject(*last); sv != nil {
					var c *ssa.Call
					switch y := sv.(type) {
					case *ssa.Call:
						c = y
					case *ssa.Extract:
						c, _ = y.Tuple.(*ssa.Call)
					}
					if c != nil {
						if nm := calleeName(c); strings.HasPrefix(nm, "encoding/asn1.") || strings.HasPrefix(nm, "encoding/base64.") || strings.Contains(nm, "math/big.") {
							okReason = true
						}
					}
				}
			}
			if !okReason {
				// what remains is judged by what the condition looks at: a property of the values the verifier was
				// given (length of the signature, size of the key) is its business; the layout of the document tree
				// (position of an element among the child tokens, number of children, white-space nodes) is not -
				// the same signed content may be serialised with other white space
				if !mentionsTreeLayout(last.Cond, 0) {
					okReason = true
				}
			}
			if !okReason {
				bad = "refuses under " + last.String() + " at " + w.InstrPos(p.Ret)
			}
		}
		r.Check(bad == "", "R-REJECT", "verifier:"+w.FuncKey(fn), w.FnPos(fn), "refuses only for a callee's verdict, an absent part, a key type or an unsupported algorithm", w.FuncKey(fn)+" "+bad+": that is not a reason a verifier has - correctly signed messages in another legal serialisation are turned away")
	}
	r.Check(n >= 3, "R-REJECT", "verifier:#functions", "", fmt.Sprintf("%d verification helpers examined", n), fmt.Sprintf("only %d verification helpers found", n))
}

// mentionsTreeLayout: the condition is computed from the layout of an etree document: Index(), the Child token list,
// counts of children - anything but finding / not finding an element.
func mentionsTreeLayout(v ssa.Value, depth int) bool {
	if v == nil || depth > 6 {
		return false
	}
	switch x := v.(type) {
	case *ssa.Call:
		nm := calleeName(x)
		if strings.Contains(nm, "etree.") && (strings.HasSuffix(nm, ").Index") || strings.HasSuffix(nm, ").ChildElements") || strings.HasSuffix(nm, ").NextSibling") || strings.HasSuffix(nm, ").PrevSibling")) {
			return true
		}
		if b, ok := x.Call.Value.(*ssa.Builtin); ok && (b.Name() == "len" || b.Name() == "cap") {
			return mentionsTreeLayout(x.Call.Args[0], depth+1)
		}
		return false
	case *ssa.UnOp:
		return mentionsTreeLayout(x.X, depth+1)
	case *ssa.BinOp:
		return mentionsTreeLayout(x.X, depth+1) || mentionsTreeLayout(x.Y, depth+1)
	case *ssa.FieldAddr:
		if fieldOwner(x.X.Type()) == "etree.Element" && fname(fieldVar(x.X.Type(), x.Field)) == "Child" {
			return true
		}
		return mentionsTreeLayout(x.X, depth+1)
	case *ssa.IndexAddr:
		return mentionsTreeLayout(x.X, depth+1)
	case *ssa.Index:
		return mentionsTreeLayout(x.X, depth+1)
	case *ssa.TypeAssert:
		return mentionsTreeLayout(x.X, depth+1)
	case *ssa.Extract:
		return mentionsTreeLayout(x.Tuple, depth+1)
	case *ssa.Phi:
		for _, e := range x.Edges {
			if e != v && mentionsTreeLayout(e, depth+1) {
				return true
			}
		}
	}
	return false
}

// fromSAMLRequestQuery: v is true exactly when SAMLRequest is a key of the URL query: the comma-ok of the lookup, or
// the result of a module function that returns nothing else.
func (cx *Ctx) fromSAMLRequestQuery(v ssa.Value, depth int) bool {
	return cx.fromSAMLRequestQueryB(v, depth, nil)
}

// (bind: the arguments standing for the parameters of the helper being read - `hasQueryParameter(r, "SAMLRequest")`)
func (cx *Ctx) fromSAMLRequestQueryB(v ssa.Value, depth int, bind map[*ssa.Parameter]ssa.Value) bool {
	if depth > 3 {
		return false
	}
	switch x := v.(type) {
	case *ssa.Extract:
		if lk, ok := x.Tuple.(*ssa.Lookup); ok && x.Index == 1 {
			idx := lk.Index
			if p, isP := idx.(*ssa.Parameter); isP && bind[p] != nil {
				idx = bind[p]
			}
			if k, ok := constString(idx); ok && k == "SAMLRequest" {
				return strings.HasSuffix(calleeNameOfValue(lk.X), "(*net/url.URL).Query")
			}
		}
	case *ssa.Call:
		g := calleeOf(x)
		if g == nil || g.Blocks == nil || g.Pkg == nil || !isModulePath(g.Pkg.Pkg.Path()) {
			return false
		}
		rets := returnsOf(g)
		if len(rets) == 0 {
			return false
		}
		nb := map[*ssa.Parameter]ssa.Value{}
		for i, p := range g.Params {
			if i < len(x.Call.Args) {
				a := x.Call.Args[i]
				if q, isP := a.(*ssa.Parameter); isP && bind[q] != nil {
					a = bind[q]
				}
				nb[p] = a
			}
		}
		for _, ret := range rets {
			if len(ret.Results) != 1 || !cx.fromSAMLRequestQueryB(ret.Results[0], depth+1, nb) {
				return false
			}
		}
		return true
	}
	return false
}

func calleeNameOfValue(v ssa.Value) string {
	if c, ok := v.(*ssa.Call); ok {
		return calleeName(c)
	}
	return ""
}

// deflateDefaultByHelper: see the call site. Returns ("", true) when the form's Encoding is the result of such a
// helper, (reason, false) when a helper computes it differently, ("", false) when there is no such helper.
func (cx *Ctx) deflateDefaultByHelper(fn *ssa.Function, form string) (string, bool) {
	fx := cx.Fx
	for _, st := range fx.info(fn).stores {
		fa, ok := st.Addr.(*ssa.FieldAddr)
		if !ok || fieldOwner(fa.X.Type()) != form || fname(fieldVar(fa.X.Type(), fa.Field)) != "Encoding" {
			continue
		}
		call, ok := st.Val.(*ssa.Call)
		if !ok {
			continue
		}
		g := calleeOf(call)
		if g == nil || g.Blocks == nil || g.Pkg != fn.Pkg {
			continue
		}
		encIdx, flagIdx := -1, -1
		for i, a := range call.Call.Args {
			if c, isC := a.(*ssa.Call); isC && len(c.Call.Args) > 0 {
				if k, isK := constString(c.Call.Args[len(c.Call.Args)-1]); isK && k == "SAMLEncoding" {
					encIdx = i
				}
			}
			if cx.fromSAMLRequestQuery(a, 0) {
				flagIdx = i
			}
		}
		if encIdx < 0 || flagIdx < 0 {
			return "the helper computing the encoding is not given the SAMLEncoding parameter and whether SAMLRequest came in the query", false
		}
		aps, okp := fx.atomPaths(g, 256)
		if !okp {
			return "", false
		}
		sawDeflate := false
		for i := range aps {
			p := &aps[i]
			rv := fx.retVal(p, 0)
			encEmpty, encNonEmpty, flagTrue, flagFalse := false, false, false, false
			for _, a := range p.Atoms {
				c := stripNot(a.Cond)
				switch a.Op {
				case "EMPTY":
					if bo, isB := c.(*ssa.BinOp); isB && (bo.X == ssa.Value(g.Params[encIdx]) || bo.Y == ssa.Value(g.Params[encIdx]) || unLen(bo.X) == ssa.Value(g.Params[encIdx])) {
						if a.Neg {
							encNonEmpty = true
						} else {
							encEmpty = true
						}
					}
				case "TRUE":
					if c == ssa.Value(g.Params[flagIdx]) {
						if a.Neg {
							flagFalse = true
						} else {
							flagTrue = true
						}
					}
				}
			}
			cs, isK := constString(rv)
			switch {
			case isK && "const:"+cs == cDeflate:
				sawDeflate = true
				if !encEmpty || !flagTrue {
					return "the DEFLATE default is not applied exactly when SAMLEncoding is absent and the message came in the query (" + atomsString(p.Atoms) + ")", false
				}
			case rv == ssa.Value(g.Params[encIdx]):
				if !encNonEmpty && !flagFalse {
					return "a request without SAMLEncoding that came in the query can keep the empty encoding (" + atomsString(p.Atoms) + ")", false
				}
			default:
				return "the helper computing the encoding returns something other than DEFLATE or the encoding received", false
			}
		}
		if sawDeflate {
			return "", true
		}
		return "the helper computing the encoding never returns DEFLATE", false
	}
	return "", false
}

// checkDecoderNotStricter (R-STRICT, shared with C13): a request decoder refuses only what InflateAndDecode /
// encoding/xml refuse (the attribute-query decoder also an envelope without query). A decoder that turns away a
// document it could decode - for a missing Issuer, say - takes the decoded request (and its ID, which the refusal has
// to echo) away from the handler.
func (cx *Ctx) checkDecoderNotStricter(r *Report, dk string) {
	w, fx := cx.W, cx.Fx
	{
		fn := w.Func(dk)
		if fn == nil {
			r.Fail("R-STRICT", dk, "", "anchor not found")
			return
		}
		fn = throughDelegation(fn) // DecodeX(...) { return decodeInto[X](...) }
		aps, ok := fx.atomPaths(fn, 1024)
		if !ok {
			r.Undecided("R-STRICT", dk, w.FnPos(fn), "too many paths")
			return
		}
		bad := ""
		for i := range aps {
			p := &aps[i]
			ev := fx.retVal(p, 1)
			if isNilConst(ev) {
				continue
			}
			if isFreshError(ev) {
				// a rejection of the decoder's own: only the absent AttributeQuery is one
				okOwn := false
				for _, a := range p.Atoms {
					if a.Op == "NIL" && !a.Neg && strings.HasSuffix(a.A, ".Body.AttributeQuery") {
						okOwn = true
					}
				}
				if !okOwn {
					bad = "the decoder rejects input with an error of its own at " + w.InstrPos(p.Ret) + " (" + atomsString(p.Atoms) + "): requests encoding/xml accepts are refused"
				}
				continue
			}
			// propagated error of InflateAndDecode / Unmarshal / Decode
			okProp := decoderErrorOK(w, ev, fn.Pkg, 0)
			if !okProp {
				bad = "the decoder returns an error that is not the one of InflateAndDecode / encoding/xml at " + w.InstrPos(p.Ret)
			}
		}
		// only the expected decoding calls
		for _, c := range callsIn(fn) {
			n := calleeName(c)
			if strings.HasPrefix(n, "(*encoding/xml.Decoder).") && n != "(*encoding/xml.Decoder).Decode" {
				bad = "the decoder drives encoding/xml token by token (" + shortCallee(n) + "): it can reject documents Unmarshal accepts (e.g. trailing white space or comments)"
			}
		}
		r.Check(bad == "", "R-STRICT", dk, w.FnPos(fn), "rejects only what InflateAndDecode / encoding/xml reject", bad)
	}
}

// replacerStripsWhitespace: every strings.NewReplacer of the module's non-mock code that maps anything to "" maps at
// least blank, tab, CR and LF to "" (a replacer used to strip white space strips all of it).
func replacerStripsWhitespace(w *World) bool {
	found := false
	for _, fn := range w.Funcs {
		for _, c := range callsIn(fn) {
			if calleeName(c) != "strings.NewReplacer" {
				continue
			}
			// the variadic arguments: stores of constants into the backing array
			removed := map[string]bool{}
			var consts []string
			if len(c.Common().Args) == 1 {
				if sl, ok := c.Common().Args[0].(*ssa.Slice); ok {
					if al, ok := sl.X.(*ssa.Alloc); ok {
						type kv struct {
							idx int64
							val string
						}
						var kvs []kv
						for _, ref := range nonDebugRefs(al) {
							ia, isIA := ref.(*ssa.IndexAddr)
							if !isIA {
								continue
							}
							i, okI := constInt(ia.Index)
							for _, r2 := range nonDebugRefs(ia) {
								if st, isSt := r2.(*ssa.Store); isSt && okI {
									if k, isK := constString(st.Val); isK {
										kvs = append(kvs, kv{i, k})
									}
								}
							}
						}
						consts = make([]string, len(kvs))
						for _, e := range kvs {
							if int(e.idx) < len(consts) {
								consts[e.idx] = e.val
							}
						}
					}
				}
			}
			for i := 0; i+1 < len(consts); i += 2 {
				if consts[i+1] == "" {
					removed[consts[i]] = true
				}
			}
			if len(removed) == 0 {
				continue
			}
			if !(removed[" "] && removed["\t"] && removed["\n"] && removed["\r"]) {
				return false
			}
			found = true
		}
	}
	return found
}

// passesNormalizer: every value v can hold is the result of a white-space normaliser - directly, or kept in a local, a
// phi or the elements of a slice made in the function.
func (cx *Ctx) passesNormalizer(v ssa.Value, depth int) bool {
	if depth > 6 {
		return false
	}
	switch x := v.(type) {
	case *ssa.Call:
		f := calleeOf(x)
		return f != nil && cx.isWhitespaceNormalizer(f)
	case *ssa.Parameter:
		// a parameter of a private helper (`containsCertificate(certs, cert)`): what every call site hands in
		vs := cx.Fx.throughWrapperParams(x, 0)
		if len(vs) == 1 && vs[0] == ssa.Value(x) {
			return false
		}
		for _, a := range vs {
			if !cx.passesNormalizer(a, depth+1) {
				return false
			}
		}
		return len(vs) > 0
	case *ssa.Phi:
		for _, e := range x.Edges {
			if !cx.passesNormalizer(e, depth+1) {
				return false
			}
		}
		return len(x.Edges) > 0
	case *ssa.UnOp:
		if x.Op != token.MUL {
			return false
		}
		switch a := x.X.(type) {
		case *ssa.Alloc:
			st := cx.Fx.storesToCell(a)
			for _, s := range st {
				if !cx.passesNormalizer(s, depth+1) {
					return false
				}
			}
			return len(st) > 0
		case *ssa.IndexAddr:
			// elements of a slice made here: everything stored into its elements
			base := a.X
			if prm, isP := base.(*ssa.Parameter); isP {
				// the slice handed to a private helper
				vs := cx.Fx.throughWrapperParams(prm, 0)
				if len(vs) == 1 && vs[0] != ssa.Value(prm) {
					base = vs[0]
				}
			}
			if _, isMS := base.(*ssa.MakeSlice); !isMS {
				return false
			}
			n := 0
			for _, ref := range nonDebugRefs(base) {
				ia, isIA := ref.(*ssa.IndexAddr)
				if !isIA {
					continue
				}
				for _, r2 := range nonDebugRefs(ia) {
					if st, isSt := r2.(*ssa.Store); isSt && st.Addr == ssa.Value(ia) {
						n++
						if !cx.passesNormalizer(st.Val, depth+1) {
							return false
						}
					}
				}
			}
			return n > 0
		}
	}
	return false
}

package main

import (
	"fmt"
	"go/constant"
	"go/token"
	"go/types"
	"os"
	"sort"
	"strings"

	"golang.org/x/tools/go/ssa"
)

// ---------------------------------------------------------------------------
// R-VFG: value provenance inside the scope of one entry point.
//
// labels(v) answers "where can the value v come from?" by walking the SSA
// def-use graph backwards: through cells (captured locals), parameters (to the
// arguments of the in-scope call sites, dynamic closure calls resolved),
// results of module functions (to their return operands), struct fields
// (allocation-site sensitive: a load through a pointer that may denote an
// allocation made in scope sees the stores made through pointers to the same
// allocation; a load through an object that comes from outside - a storage
// result, a decoder target, an unknown parameter - is a leaf naming the access
// path), phis, conversions and a whitelist of transparent transformers.
// Leaves:
//   const:<v>                       constant
//   ext:<callee>#<i>[.f[.g][]]      result i of a call leaving the module (or an access path below it)
//   decoded:<T>[.f...]              field of an object filled by encoding/xml
//   param:<fn>/<name>[.f...]        parameter of a function without in-scope caller (entry point, callback from outside)
//   global:<pkg>.<name>             package variable
//   alloc:<fn>/<site>               address of an allocation (pointer-valued queries)
//   func:<key>                      function value
//   opaque:<what>                   anything the walker does not model (reported, never silently dropped)
// Flag bit 1 on a label: the value passed a transformer on the way (so it is
// "derived from", not "an unchanged copy of" the leaf); via:<callee> labels name
// the transformers met.
// ---------------------------------------------------------------------------

type LabelSet map[string]uint8

const flTransformed = 1

func (ls LabelSet) add(l string, fl uint8) { ls[l] |= fl }
func (ls LabelSet) addAll(o LabelSet, fl uint8) {
	for k, v := range o {
		ls[k] |= v | fl
	}
}
func (ls LabelSet) keys() []string {
	var out []string
	for k := range ls {
		out = append(out, k)
	}
	sort.Strings(out)
	return out
}
func (ls LabelSet) String() string { return "{" + strings.Join(ls.keys(), ", ") + "}" }

// leaves returns the labels without the via: markers.
func (ls LabelSet) leaves() []string {
	var out []string
	for _, k := range ls.keys() {
		if !strings.HasPrefix(k, "via:") {
			out = append(out, k)
		}
	}
	return out
}

type VFlow struct {
	cx       *Ctx
	entry    string
	scope    map[*ssa.Function]bool
	callers  map[*ssa.Function][]ssa.CallInstruction // in-scope call sites (static + resolved dynamic)
	fstores  map[*types.Var][]*ssa.Store             // in-scope stores through FieldAddr, by field object
	decoded  map[*ssa.Alloc]bool                     // allocations handed to encoding/xml decoders
	objMemo  map[ssa.Value]LabelSet
	allocIdx map[string]*ssa.Alloc
	ctx      []ssa.CallInstruction // call-site context of the query in progress (innermost last)
	stopAt   func(*ssa.Call) bool  // resolve(): calls the caller wants to see instead of their results
	boxed    map[*types.Named][]ssa.Value
}

// transparent transformers: result is derived from the listed operands only.
var transformers = map[string]bool{
	"fmt.Sprintf": true, "fmt.Sprint": true, "fmt.Errorf": true, "errors.New": true, "(time.Time).Format": true, "net/url.QueryEscape": true,
	"(*encoding/base64.Encoding).EncodeToString": true, "strings.TrimPrefix": true, "strings.TrimSuffix": true, "strings.TrimSpace": true,
	"strings.ToLower": true, "strings.ToUpper": true, "strings.Join": true, "strings.Fields": true, "strings.Replace": true, "strings.ReplaceAll": true,
	"(time.Time).Add": true, "(time.Time).UTC": true, "net/http.CanonicalHeaderKey": true, "strings.Trim": true, "strings.TrimRight": true, "strings.TrimLeft": true,
	"(error).Error": true, "(github.com/google/uuid.UUID).String": true, "(*bytes.Buffer).Bytes": true, "(*bytes.Buffer).String": true, "html.EscapeString": true, "net/url.PathEscape": true, "path.Join": true, "strings.Split": true, "strings.SplitN": true,
}

func (cx *Ctx) newVFlow(entryKey string, entries ...*ssa.Function) *VFlow {
	w := cx.W
	vf := &VFlow{cx: cx, entry: entryKey, scope: map[*ssa.Function]bool{}, callers: map[*ssa.Function][]ssa.CallInstruction{},
		fstores: map[*types.Var][]*ssa.Store{}, decoded: map[*ssa.Alloc]bool{}, objMemo: map[ssa.Value]LabelSet{}}
	for _, e := range entries {
		w.refClosure(e, vf.scope)
	}
	// a module value converted to an interface and handed out (e.g. *Attributes given to
	// storage as models.AttributeSetter) can have its methods called from outside the
	// module: they belong to the scope, their parameters are leaves.
	for changed := true; changed; {
		changed = false
		for _, fn := range w.sortedFuncs(vf.scope) {
			for _, b := range fn.Blocks {
				for _, in := range b.Instrs {
					mi, ok := in.(*ssa.MakeInterface)
					if !ok {
						continue
					}
					n := namedOf(mi.X.Type())
					if n == nil || n.Obj().Pkg() == nil || !isModulePath(n.Obj().Pkg().Path()) {
						continue
					}
					ms := w.Prog.MethodSets.MethodSet(mi.X.Type())
					// through an interface the module declares for itself only that interface's methods can be called
					var only *types.Interface
					if in := namedOf(mi.Type()); in != nil && in.Obj().Pkg() != nil && isModulePath(in.Obj().Pkg().Path()) && !in.Obj().Exported() {
						only, _ = in.Underlying().(*types.Interface)
					}
					for i := 0; i < ms.Len(); i++ {
						if only != nil {
							has := false
							for k := 0; k < only.NumMethods(); k++ {
								if only.Method(k).Name() == ms.At(i).Obj().Name() {
									has = true
								}
							}
							if !has {
								continue
							}
						}
						if m := w.Prog.MethodValue(ms.At(i)); m != nil && !vf.scope[m] && m.Blocks != nil {
							before := len(vf.scope)
							w.refClosure(m, vf.scope)
							if len(vf.scope) > before {
								changed = true
							}
						}
					}
				}
			}
		}
	}
	for changed := true; changed; {
		changed = false
		for _, fn := range w.sortedFuncs(vf.scope) {
			for _, c := range callsIn(fn) {
				if !c.Common().IsInvoke() {
					continue
				}
				if m := w.soleImplementation(c.Common()); m != nil && m.Blocks != nil && !vf.scope[m] {
					w.refClosure(m, vf.scope)
					changed = true
				}
			}
		}
	}
	for _, fn := range w.sortedFuncs(vf.scope) {
		for _, b := range fn.Blocks {
			for _, in := range b.Instrs {
				switch x := in.(type) {
				case *ssa.Store:
					if fa, ok := x.Addr.(*ssa.FieldAddr); ok {
						fv := fieldVar(fa.X.Type(), fa.Field)
						vf.fstores[fv] = append(vf.fstores[fv], x)
					}
				case ssa.CallInstruction:
					for _, tg := range vf.targets(x) {
						vf.callers[tg] = append(vf.callers[tg], x)
					}
					// decoder targets
					name := calleeName(x)
					if name == "encoding/xml.Unmarshal" || name == "(*encoding/xml.Decoder).Decode" || name == "(*encoding/xml.Decoder).DecodeElement" || name == "encoding/json.Unmarshal" {
						for _, a := range x.Common().Args {
							if mi, ok := a.(*ssa.MakeInterface); ok {
								if al, ok := mi.X.(*ssa.Alloc); ok {
									vf.decoded[al] = true
								}
							}
						}
					}
				}
			}
		}
	}
	// decoder targets reached through helpers (the target travels as interface{} parameter)
	for _, fn := range w.sortedFuncs(vf.scope) {
		for _, c := range callsIn(fn) {
			name := calleeName(c)
			if name != "encoding/xml.Unmarshal" && name != "(*encoding/xml.Decoder).Decode" && name != "(*encoding/xml.Decoder).DecodeElement" {
				continue
			}
			for _, a := range c.Common().Args {
				if _, isIface := a.Type().Underlying().(*types.Interface); !isIface {
					continue
				}
				for _, l := range vf.Labels(a).leaves() {
					if strings.HasPrefix(l, "alloc:") {
						if al := vf.allocByLabel(l); al != nil && !vf.decoded[al] {
							vf.decoded[al] = true
							vf.objMemo = map[ssa.Value]LabelSet{}
						}
					}
				}
			}
		}
	}
	return vf
}

func fieldVar(t types.Type, idx int) *types.Var {
	if p, ok := t.Underlying().(*types.Pointer); ok {
		t = p.Elem()
	}
	return t.Underlying().(*types.Struct).Field(idx)
}

func fieldOwner(t types.Type) string {
	if p, ok := t.Underlying().(*types.Pointer); ok {
		t = p.Elem()
	}
	return typeKey(t)
}

// targets resolves the module functions a call may invoke (static callee, or
// the closures a function value may denote). Interface calls and unresolved
// function values yield nothing.
func (vf *VFlow) targets(c ssa.CallInstruction) []*ssa.Function {
	com := c.Common()
	if com.IsInvoke() {
		// an interface the module declares for its own use with a single implementation in the module: the call
		// goes there (an unexported interface put in front of a concrete dependency changes nothing)
		if f := vf.cx.W.soleImplementation(com); f != nil && f.Blocks != nil && vf.scope[f] {
			return []*ssa.Function{f}
		}
		return nil
	}
	if f := calleeOf(c); f != nil {
		if f.Blocks != nil && vf.scope[f] {
			return []*ssa.Function{f}
		}
		return nil
	}
	if _, isB := com.Value.(*ssa.Builtin); isB {
		return nil
	}
	tg, ok := vf.cx.Fx.funcTargets(com.Value)
	if !ok {
		return nil
	}
	var out []*ssa.Function
	for _, f := range tg {
		if f.Blocks != nil && vf.scope[f] {
			out = append(out, f)
		}
	}
	return out
}

// allocLabel: "alloc:{<allocated type>}<function>/<site>"; rules match on the type part, so moving an
// allocation to another function or renaming the variable does not change a verdict.
func (vf *VFlow) allocLabel(a *ssa.Alloc) string {
	et := a.Type().Underlying().(*types.Pointer).Elem()
	t := shortType(et)
	if namedOf(et) != nil {
		t = typeKey(et)
	}
	return "alloc:{" + t + "}" + vf.cx.W.FuncKey(a.Parent()) + "/" + vf.cx.Fx.cellName(a)
}

// paramLabel: "param:<function>/#<index>": parameter names are not part of a label.
func (vf *VFlow) paramLabel(p *ssa.Parameter) string {
	idx := 0
	for i, q := range p.Parent().Params {
		if q == p {
			idx = i
		}
	}
	return fmt.Sprintf("param:%s/#%d", vf.cx.W.FuncKey(p.Parent()), idx)
}

// Labels computes the provenance of v.
func (vf *VFlow) Labels(v ssa.Value) LabelSet {
	out := LabelSet{}
	vf.walk(v, 0, out, map[string]bool{}, 0)
	return out
}

func (vf *VFlow) walk(v ssa.Value, fl uint8, out LabelSet, seen map[string]bool, depth int) {
	if v == nil {
		return
	}
	k := fmt.Sprintf("%p/%d/%s", v, fl, vf.ctxKey())
	if seen[k] {
		return
	}
	seen[k] = true
	if depth > 400 {
		out.add("opaque:depth", fl)
		return
	}
	w := vf.cx.W
	switch x := v.(type) {
	case *ssa.Const:
		if x.Value == nil {
			out.add("const:zero", fl)
		} else if x.Value.Kind() == constant.String {
			out.add("const:"+constant.StringVal(x.Value), fl)
		} else {
			out.add("const:"+x.Value.ExactString(), fl)
		}
	case *ssa.Global:
		out.add("global:"+shortPkg(x.Pkg.Pkg.Path())+"."+x.Name(), fl)
	case *ssa.Function:
		out.add("func:"+w.FuncKey(x), fl)
	case *ssa.MakeClosure:
		out.add("func:"+w.FuncKey(x.Fn.(*ssa.Function)), fl)
	case *ssa.Builtin:
		out.add("builtin:"+x.Name(), fl)
	case *ssa.Parameter:
		fn := x.Parent()
		idx := -1
		for i, p := range fn.Params {
			if p == x {
				idx = i
			}
		}
		cs := vf.callers[fn]
		if sl, isCb := vf.cx.Fx.elemCallbackOf(fn); isCb && len(cs) == 0 {
			// the predicate of slices.ContainsFunc(list, func(e T) bool {...}): e is an element of list
			for l := range vf.objLabels(sl, depth+1) {
				vf.elemOf(l, fl, out, seen, depth+1)
			}
			return
		}
		if len(cs) == 0 && idx == 0 && fn.Signature.Recv() != nil {
			// receiver of a method that is only called through an interface (a ResponseWriter wrapper handed to a
			// handler): for an unexported type every object is created in the module, and the ones that can be
			// behind an interface are those converted to one
			if objs := vf.boxedObjects(fn.Signature.Recv().Type()); len(objs) > 0 {
				for _, o := range objs {
					saved := vf.ctx
					vf.ctx = nil
					vf.walk(o, fl, out, seen, depth+1)
					vf.ctx = saved
				}
				return
			}
		}
		if len(cs) == 0 || idx < 0 {
			out.add(vf.paramLabel(x), fl)
			return
		}
		// call-site sensitivity: inside the evaluation of a call's result, the callee's parameters are
		// the arguments of that very call
		// (a label that names an object of an enclosing frame - the spilled receiver of the caller - is resolved after
		// the walk into the callee has come back: the frame that called fn is then further down the stack)
		for n := len(vf.ctx); n > 0; n-- {
			top := vf.ctx[n-1]
			for _, tg := range vf.targets(top) {
				if tg == fn {
					args := callArgs(top)
					if idx < len(args) {
						saved := vf.ctx
						vf.ctx = append([]ssa.CallInstruction(nil), vf.ctx[:n-1]...)
						vf.walk(args[idx], fl, out, seen, depth+1)
						vf.ctx = saved
					}
					return
				}
			}
		}
		if os.Getenv("VFDEBUG") != "" {
			top := "-"
			if n := len(vf.ctx); n > 0 {
				top = vf.cx.W.InstrPos(vf.ctx[n-1])
			}
			fmt.Fprintf(os.Stderr, "VFDEBUG ctx lost at param %s of %s (ctx depth %d top %s)\n", x.Name(), fn.String(), len(vf.ctx), top)
		}
		for _, c := range cs {
			args := callArgs(c)
			if idx < len(args) {
				saved := vf.ctx
				vf.ctx = nil
				vf.walk(args[idx], fl, out, seen, depth+1)
				vf.ctx = saved
			}
		}
	case *ssa.FreeVar:
		// the captured variable's address; a value query on a FreeVar means the cell itself
		if cell := vf.cx.Fx.ownerCell(x); cell != nil {
			out.add(vf.allocLabel(cell), fl)
		} else {
			out.add("opaque:freevar:"+x.Name(), fl)
		}
	case *ssa.Alloc:
		out.add(vf.allocLabel(x), fl)
		if vf.decoded[x] {
			out.add("decoded:"+typeKey(x.Type().Underlying().(*types.Pointer).Elem()), fl)
		}
	case *ssa.Phi:
		for _, e := range x.Edges {
			vf.walk(e, fl, out, seen, depth+1)
		}
	case *ssa.ChangeType:
		vf.walk(x.X, fl, out, seen, depth+1)
	case *ssa.Convert:
		vf.walk(x.X, fl, out, seen, depth+1)
	case *ssa.MakeInterface:
		vf.walk(x.X, fl, out, seen, depth+1)
	case *ssa.ChangeInterface:
		vf.walk(x.X, fl, out, seen, depth+1)
	case *ssa.TypeAssert:
		vf.walk(x.X, fl, out, seen, depth+1)
	case *ssa.Slice:
		// sum := sha512.Sum384(data); sum[:] - a local array that is assigned as a whole: the slice holds what was assigned
		if al, ok := x.X.(*ssa.Alloc); ok {
			if _, isArr := al.Type().Underlying().(*types.Pointer).Elem().Underlying().(*types.Array); isArr {
				n := 0
				for _, ref := range nonDebugRefs(al) {
					if st, isSt := ref.(*ssa.Store); isSt && st.Addr == ssa.Value(al) {
						n++
						vf.walk(st.Val, fl, out, seen, depth+1)
					}
				}
				if n > 0 {
					return
				}
			}
		}
		vf.walk(x.X, fl, out, seen, depth+1)
	case *ssa.SliceToArrayPointer:
		vf.walk(x.X, fl, out, seen, depth+1)
	case *ssa.BinOp:
		if x.Op == token.ADD && isStringType(x.Type()) {
			out.add("via:concat", 0)
			vf.walk(x.X, fl|flTransformed, out, seen, depth+1)
			vf.walk(x.Y, fl|flTransformed, out, seen, depth+1)
			return
		}
		out.add("expr:"+x.Op.String(), fl)
	case *ssa.UnOp:
		if x.Op == token.MUL {
			vf.load(x.X, fl, out, seen, depth+1)
			return
		}
		out.add("expr:"+x.Op.String(), fl)
	case *ssa.FieldAddr, *ssa.IndexAddr:
		// address-valued: object labels
		for l := range vf.objLabels(v, depth+1) {
			out.add(l, fl)
		}
	case *ssa.Field:
		// field of a struct value
		fv := x.X.Type().Underlying().(*types.Struct).Field(x.Field)
		vf.loadField(vf.objLabels(x.X, depth+1), fv, fl, out, seen, depth+1)
	case *ssa.Index:
		for l := range vf.objLabels(x.X, depth+1) {
			vf.elemOf(l, fl, out, seen, depth+1)
		}
	case *ssa.Lookup:
		if isStringType(x.X.Type()) {
			vf.walk(x.X, fl|flTransformed, out, seen, depth+1)
			return
		}
		for l := range vf.objLabels(x.X, depth+1) {
			vf.elemOf(l, fl, out, seen, depth+1)
		}
	case *ssa.Extract:
		vf.callResult(x.Tuple, x.Index, fl, out, seen, depth+1)
	case *ssa.Call:
		vf.callResult(x, 0, fl, out, seen, depth+1)
	case *ssa.Next:
		// range over map/string: element provenance = the ranged object
		if r, ok := x.Iter.(*ssa.Range); ok {
			for l := range vf.objLabels(r.X, depth+1) {
				vf.elemOf(l, fl, out, seen, depth+1)
			}
			return
		}
		out.add("opaque:next", fl)
	case *ssa.MakeSlice, *ssa.MakeMap:
		out.add("alloc:{"+shortType(v.Type())+"}"+w.FuncKey(v.Parent())+"/"+v.Name()+"@make", fl)
	default:
		out.add(fmt.Sprintf("opaque:%T", v), fl)
	}
}

func isStringType(t types.Type) bool {
	b, ok := t.Underlying().(*types.Basic)
	return ok && b.Info()&types.IsString != 0
}

// elemOf: provenance of an element of the container denoted by label l.
func (vf *VFlow) elemOf(l string, fl uint8, out LabelSet, seen map[string]bool, depth int) {
	if strings.HasPrefix(l, "keys:") {
		// an element of maps.Keys(m): a key of m
		base := strings.TrimPrefix(l, "keys:")
		if strings.HasPrefix(base, "alloc:") {
			vf.allocKeys(base, fl, out, seen, depth)
		} else {
			out.add(base+"[key]", fl)
		}
		return
	}
	if strings.HasPrefix(l, "alloc:") {
		// elements stored into a locally made slice/array/map
		vf.allocElems(l, fl, out, seen, depth)
		return
	}
	if strings.HasPrefix(l, "const:") || strings.HasPrefix(l, "via:") {
		return
	}
	out.add(l+"[]", fl)
}

// callResult: provenance of result idx of call c.
func (vf *VFlow) callResult(t ssa.Value, idx int, fl uint8, out LabelSet, seen map[string]bool, depth int) {
	c, ok := t.(*ssa.Call)
	if !ok {
		// e.g. Extract of a Next / TypeAssert commaok / Lookup commaok
		switch y := t.(type) {
		case *ssa.Next:
			if idx == 0 {
				out.add("expr:ok", fl)
				return
			}
			if r, isR := y.Iter.(*ssa.Range); isR {
				if idx == 1 {
					if _, isMap := r.X.Type().Underlying().(*types.Map); isMap {
						for l := range vf.objLabels(r.X, depth) {
							if strings.HasPrefix(l, "alloc:") {
								vf.allocKeys(l, fl, out, seen, depth)
							} else if !strings.HasPrefix(l, "const:") && !strings.HasPrefix(l, "via:") { // (a nil map has no keys)
								out.add(l+"[key]", fl)
							}
						}
						return
					}
					out.add("expr:index", fl)
					return
				}
				for l := range vf.objLabels(r.X, depth) {
					vf.elemOf(l, fl, out, seen, depth)
				}
				return
			}
		case *ssa.TypeAssert:
			if idx == 0 {
				vf.walk(y.X, fl, out, seen, depth)
			} else {
				out.add("expr:ok", fl)
			}
			return
		case *ssa.Lookup:
			if idx == 0 {
				for l := range vf.objLabels(y.X, depth) {
					vf.elemOf(l, fl, out, seen, depth)
				}
			} else {
				out.add("expr:ok", fl)
			}
			return
		case *ssa.UnOp: // channel receive commaok: not used
		}
		out.add(fmt.Sprintf("opaque:extract:%T", t), fl)
		return
	}
	com := c.Common()
	if b, isB := com.Value.(*ssa.Builtin); isB {
		switch b.Name() {
		case "append":
			for _, a := range com.Args {
				vf.walk(a, fl, out, seen, depth)
			}
		case "len", "cap":
			out.add("expr:"+b.Name(), fl)
		case "min", "max":
			for _, a := range com.Args {
				vf.walk(a, fl, out, seen, depth)
			}
		default:
			out.add("builtin:"+b.Name(), fl)
		}
		return
	}
	tgs := vf.targets(c)
	if len(tgs) == 1 && idx == 0 && vf.cx.xsBoolCanonicalisers()[tgs[0]] && len(callArgs(c)) == 1 {
		// the canonical lexical form of an xs:boolean: says what its argument says (see xsBoolCanonicalisers)
		vf.walk(callArgs(c)[0], fl, out, seen, depth+1)
		return
	}
	if len(tgs) > 0 {
		push := len(vf.ctx) < 6
		saved := vf.ctx
		if push {
			vf.ctx = append(append([]ssa.CallInstruction(nil), vf.ctx...), c)
		}
		for _, tg := range tgs {
			for _, ret := range returnsOf(tg) {
				if idx < len(ret.Results) {
					vf.walk(ret.Results[idx], fl, out, seen, depth+1)
				}
			}
		}
		vf.ctx = saved
		return
	}
	name := calleeName(c)
	if i := strings.Index(name, "["); i >= 0 && (strings.HasPrefix(name, "slices.") || strings.HasPrefix(name, "maps.")) {
		name = name[:i] // instantiated generic
	}
	switch name {
	case "slices.Sorted", "slices.Collect", "slices.Clone", "slices.SortedFunc", "slices.SortedStableFunc", "slices.Values", "maps.Values", "slices.Compact":
		// the same elements in another container / order
		if len(com.Args) > 0 && idx == 0 {
			vf.walk(com.Args[0], fl, out, seen, depth+1)
			return
		}
	case "slices.MinFunc", "slices.MaxFunc", "slices.Min", "slices.Max":
		// one of the elements
		if len(com.Args) > 0 && idx == 0 {
			for l := range vf.objLabels(com.Args[0], depth+1) {
				vf.elemOf(l, fl, out, seen, depth+1)
			}
			return
		}
	case "maps.Keys":
		if len(com.Args) > 0 && idx == 0 {
			for l := range vf.objLabels(com.Args[0], depth+1) {
				out.add("keys:"+l, fl)
			}
			return
		}
	}
	if name == "dyn" {
		// unresolved function value: name it by where the function value comes from
		for _, l := range vf.Labels(com.Value).leaves() {
			out.add("dyncall:"+l+fmt.Sprintf("#%d", idx), fl)
		}
		return
	}
	if name == "(*strings.Builder).String" && len(com.Args) == 1 {
		// a local strings.Builder is a concatenation of what was written to it
		if al, isAl := com.Args[0].(*ssa.Alloc); isAl {
			var parts []ssa.Value
			closed := true
			for _, ref := range *al.Referrers() {
				switch y := ref.(type) {
				case ssa.CallInstruction:
					switch calleeName(y) {
					case "(*strings.Builder).WriteString", "(*strings.Builder).Write", "(*strings.Builder).WriteByte", "(*strings.Builder).WriteRune":
						parts = append(parts, y.Common().Args[1:]...)
					case "(*strings.Builder).String", "(*strings.Builder).Len", "(*strings.Builder).Grow", "(*strings.Builder).Reset", "(*strings.Builder).Cap":
					default:
						closed = false
					}
				case *ssa.DebugRef:
				default:
					closed = false
				}
			}
			if closed {
				out.add("via:concat", 0)
				for _, p := range parts {
					vf.walk(p, fl|flTransformed, out, seen, depth+1)
				}
				return
			}
		}
	}
	if transformers[name] || transformers[strings.TrimPrefix(name, "iface:")] || (com.IsInvoke() && com.Method.Name() == "Error" && len(com.Args) == 0) {
		out.add("via:"+shortCallee(name), 0)
		if com.IsInvoke() {
			vf.walk(com.Value, fl|flTransformed, out, seen, depth+1)
		}
		for _, a := range com.Args {
			// variadic arguments: the elements, evaluated in the current call-site context
			if sl, ok := a.(*ssa.Slice); ok {
				if arr, ok := sl.X.(*ssa.Alloc); ok {
					n := 0
					for _, ref := range *arr.Referrers() {
						if ia, ok := ref.(*ssa.IndexAddr); ok {
							for _, r2 := range *ia.Referrers() {
								if st, ok := r2.(*ssa.Store); ok && st.Addr == ssa.Value(ia) {
									n++
									vf.walk(st.Val, fl|flTransformed, out, seen, depth+1)
								}
							}
						}
					}
					if n > 0 {
						continue
					}
				}
			}
			vf.walk(a, fl|flTransformed, out, seen, depth+1)
		}
		return
	}
	// constant string arguments are part of the leaf's name: FormValue("RelayState")
	var cargs []string
	for _, a := range com.Args {
		if cs, ok := constString(vf.ctxArg(a)); ok {
			cargs = append(cargs, fmt.Sprintf("%q", cs))
		}
	}
	ca := ""
	if len(cargs) > 0 {
		ca = "(" + strings.Join(cargs, ",") + ")"
	}
	// (url.Values).Get on anything but the request's merged Form (URL.Query(), PostForm, a parsed copy) reads another
	// set of parameters: the leaf says so
	if name == "(net/url.Values).Get" && len(com.Args) > 0 {
		recv := "other"
		switch x := vf.ctxArg(com.Args[0]).(type) {
		case *ssa.UnOp:
			if fa, isFA := x.X.(*ssa.FieldAddr); isFA && fieldOwner(fa.X.Type()) == "http.Request" {
				recv = fname(fieldVar(fa.X.Type(), fa.Field))
			}
		case *ssa.Call:
			recv = shortCallee(calleeName(x))
		}
		if recv != "Form" {
			out.add(fmt.Sprintf("ext:(url.Values).Get[%s]%s#%d", recv, ca, idx), fl)
			return
		}
	}
	out.add(fmt.Sprintf("ext:%s%s#%d", shortCallee(name), ca, idx), fl)
}

// load: provenance of the value read from address a.
func (vf *VFlow) load(a ssa.Value, fl uint8, out LabelSet, seen map[string]bool, depth int) {
	switch x := a.(type) {
	case *ssa.Alloc, *ssa.FreeVar:
		cell := vf.cx.Fx.ownerCell(x)
		if cell == nil {
			out.add("opaque:cell", fl)
			return
		}
		vf.loadCell(cell, fl, out, seen, depth)
	case *ssa.Global:
		out.add("global:"+shortPkg(x.Pkg.Pkg.Path())+"."+x.Name(), fl)
	case *ssa.FieldAddr:
		fv := fieldVar(x.X.Type(), x.Field)
		vf.loadField(vf.objLabels(x.X, depth), fv, fl, out, seen, depth)
	case *ssa.IndexAddr:
		for l := range vf.objLabels(x.X, depth) {
			vf.elemOf(l, fl, out, seen, depth)
		}
	default:
		// load through a computed pointer: the pointee object
		for l := range vf.objLabels(a, depth) {
			if strings.HasPrefix(l, "alloc:") {
				if cell := vf.allocByLabel(l); cell != nil {
					vf.loadCell(cell, fl, out, seen, depth)
					continue
				}
			}
			out.add(l, fl)
		}
	}
}

// loadCell: everything stored into the variable owned by cell (flow-insensitive),
// or the cell itself when it is a struct/array object that is only filled field-wise.
func (vf *VFlow) loadCell(cell *ssa.Alloc, fl uint8, out LabelSet, seen map[string]bool, depth int) {
	st := vf.cx.Fx.storesToCell(cell)
	for _, s := range st {
		vf.walk(s, fl, out, seen, depth+1)
	}
	// `var target *T; errors.As(err, &target)`: the library stores into target the object of that type found in err
	for _, ref := range nonDebugRefs(cell) {
		mi, isMI := ref.(*ssa.MakeInterface)
		if !isMI {
			continue
		}
		for _, r2 := range nonDebugRefs(mi) {
			c, isC := r2.(*ssa.Call)
			if !isC || calleeName(c) != "errors.As" || len(c.Call.Args) != 2 || c.Call.Args[1] != ssa.Value(mi) {
				continue
			}
			want := typeKey(derefType(cell.Type().Underlying().(*types.Pointer).Elem()))
			for l, f := range vf.objLabels(c.Call.Args[0], depth+1) {
				if strings.HasPrefix(l, "alloc:{"+want+"}") {
					out.add(l, fl|f)
				}
			}
		}
	}
	et := cell.Type().Underlying().(*types.Pointer).Elem()
	switch et.Underlying().(type) {
	case *types.Struct, *types.Array:
		// the object itself (fields are stored separately)
		out.add(vf.allocLabel(cell), fl)
	default:
		if len(st) == 0 {
			out.add("const:zero", fl)
		} else if _, isBasic := et.Underlying().(*types.Basic); isBasic {
			// a scalar declared without initialiser and only assigned inside closures: a closure that runs
			// before (or without) the assigning one sees the zero value
			own := false
			for _, b := range cell.Parent().Blocks {
				for _, in := range b.Instrs {
					if s, ok := in.(*ssa.Store); ok && s.Addr == ssa.Value(cell) {
						own = true
					}
				}
			}
			if !own {
				out.add("const:zero", fl)
			}
		}
	}
	if vf.decoded[cell] {
		out.add("decoded:"+typeKey(et), fl)
	}
}

func (vf *VFlow) allocByLabel(l string) *ssa.Alloc {
	if vf.allocIdx == nil {
		vf.allocIdx = map[string]*ssa.Alloc{}
		for fn := range vf.scope {
			for _, b := range fn.Blocks {
				for _, in := range b.Instrs {
					if al, ok := in.(*ssa.Alloc); ok {
						vf.allocIdx[vf.allocLabel(al)] = al
					}
				}
			}
		}
	}
	return vf.allocIdx[l]
}

// objLabels: the objects an address / pointer / aggregate value may denote.
func (vf *VFlow) objLabels(v ssa.Value, depth int) LabelSet {
	if len(vf.ctx) > 0 {
		return vf.objLabelsCtx(v, depth)
	}
	if m, ok := vf.objMemo[v]; ok {
		return m
	}
	out := LabelSet{}
	vf.objMemo[v] = out // cycle cut
	if depth > 400 {
		out.add("opaque:depth", 0)
		return out
	}
	switch x := v.(type) {
	case *ssa.Alloc:
		out.add(vf.allocLabel(x), 0)
		if vf.decoded[x] {
			out.add("decoded:"+typeKey(x.Type().Underlying().(*types.Pointer).Elem()), 0)
		}
	case *ssa.FreeVar:
		if cell := vf.cx.Fx.ownerCell(x); cell != nil {
			out.add(vf.allocLabel(cell), 0)
		} else {
			out.add("opaque:freevar", 0)
		}
	case *ssa.FieldAddr:
		fv := fieldVar(x.X.Type(), x.Field)
		for l := range vf.objLabels(x.X, depth+1) {
			if strings.HasPrefix(l, "via:") {
				continue
			}
			out.add(l+"."+fname(fv), 0)
		}
	case *ssa.IndexAddr:
		for l := range vf.objLabels(x.X, depth+1) {
			if strings.HasPrefix(l, "via:") {
				continue
			}
			out.add(l+"[]", 0)
		}
	default:
		// a pointer / aggregate value: its provenance labels are the objects
		ls := LabelSet{}
		vf.walk(v, 0, ls, map[string]bool{}, depth+1)
		for l := range ls {
			if strings.HasPrefix(l, "via:") {
				continue
			}
			out.add(l, 0)
		}
	}
	delete(vf.objMemo, v)
	res := LabelSet{}
	for k, f := range out {
		res[k] = f
	}
	vf.objMemo[v] = res
	return res
}

// loadField: provenance of field fv of the objects in base.
func (vf *VFlow) loadField(base LabelSet, fv *types.Var, fl uint8, out LabelSet, seen map[string]bool, depth int) {
	for l := range base {
		switch {
		case strings.HasPrefix(l, "via:"):
		case strings.HasPrefix(l, "const:"):
			out.add("const:zero", fl) // field of a zero / nil value
		case strings.HasPrefix(l, "alloc:"):
			vf.loadAllocField(l, fv, fl, out, seen, depth)
		case strings.HasPrefix(l, "param:") && !strings.Contains(l[strings.LastIndex(l, "/"):], "."):
			// an object handed in from outside (receiver of a method called by storage): it may be
			// any object of that type allocated in scope, so in-scope stores to the field are visible
			out.add(l+"."+fname(fv), fl)
			for _, st := range vf.fstores[fv] {
				vf.walk(st.Val, fl, out, seen, depth+1)
			}
		default:
			out.add(l+"."+fname(fv), fl)
		}
	}
}

// loadAllocField: field fv of an object allocated in scope (label l, possibly with a
// sub-path such as ".Assertion"): the stores made to that field through pointers that
// may denote the same object, plus whole-object copies into it.
func (vf *VFlow) loadAllocField(l string, fv *types.Var, fl uint8, out LabelSet, seen map[string]bool, depth int) {
	k := "F|" + l + "|" + fname(fv) + fmt.Sprintf("|%d|", fl) + vf.ctxKey()
	if seen[k] {
		return
	}
	seen[k] = true
	n := 0
	for _, st := range vf.fstores[fv] {
		fa := st.Addr.(*ssa.FieldAddr)
		bl := vf.objLabels(fa.X, depth+1)
		match := false
		for b := range bl {
			if b == l || !strings.HasPrefix(b, "alloc:") && !strings.HasPrefix(b, "const:") && !strings.HasPrefix(b, "via:") && !strings.HasPrefix(b, "decoded:") && !strings.HasPrefix(b, "ext:") {
				match = true // same allocation, or an unknown object (parameter without caller)
			}
		}
		if match {
			n++
			vf.walk(st.Val, fl, out, seen, depth+1)
		}
	}
	// whole-object stores into the allocation (struct copy): field of the copied object
	base, sub := splitAllocLabel(l)
	if cell := vf.allocByLabel(base); cell != nil {
		if sub == "" {
			for _, s := range vf.cx.Fx.storesToCell(cell) {
				if _, isStruct := s.Type().Underlying().(*types.Struct); isStruct {
					n++
					vf.loadField(vf.objLabels(s, depth+1), fv, fl, out, seen, depth+1)
				}
			}
			if vf.decoded[cell] {
				n++
				out.add("decoded:"+typeKey(cell.Type().Underlying().(*types.Pointer).Elem())+"."+fname(fv), fl)
			}
		} else if sub == "[]" {
			// an element of a local array / slice literal: whole-struct stores into its slots
			for _, ref := range *cell.Referrers() {
				ia, ok := ref.(*ssa.IndexAddr)
				if !ok {
					continue
				}
				for _, r2 := range *ia.Referrers() {
					if st, ok := r2.(*ssa.Store); ok && st.Addr == ssa.Value(ia) {
						if _, isStruct := st.Val.Type().Underlying().(*types.Struct); isStruct {
							n++
							vf.loadField(vf.objLabels(st.Val, depth+1), fv, fl, out, seen, depth+1)
						}
					}
				}
			}
		} else if strings.Contains(sub, ".") {
			// sub-object path: stores of whole structs into the enclosing field
			parentL, last := l[:strings.LastIndex(l, ".")], l[strings.LastIndex(l, ".")+1:]
			for pfv, sts := range vf.fstores {
				if fname(pfv) != last {
					continue
				}
				for _, st := range sts {
					if _, isStruct := st.Val.Type().Underlying().(*types.Struct); !isStruct {
						continue
					}
					fa := st.Addr.(*ssa.FieldAddr)
					if _, has := vf.objLabels(fa.X, depth+1)[parentL]; has {
						n++
						vf.loadField(vf.objLabels(st.Val, depth+1), fv, fl, out, seen, depth+1)
					}
				}
			}
			if vf.decoded[cell] {
				n++
				out.add("decoded:"+typeKey(cell.Type().Underlying().(*types.Pointer).Elem())+sub+"."+fname(fv), fl)
			}
		}
	}
	if n == 0 {
		out.add("const:zero", fl)
	}
}

func splitAllocLabel(l string) (base, sub string) {
	// alloc:{<type>}<fnKey>/<site>[.f.g] ; type and fnKey may contain dots, the site name does not
	i := strings.LastIndex(l, "/")
	if j := strings.Index(l, "}"); j > i {
		// a '/' inside the type part only (no site separator found after it): look after the brace
		if k := strings.Index(l[j:], "/"); k >= 0 {
			i = j + k
		}
	}
	if i < 0 {
		return l, ""
	}
	rest := l[i+1:]
	if j := strings.IndexAny(rest, ".["); j >= 0 {
		return l[:i+1+j], rest[j:]
	}
	return l, ""
}

// allocElems: values stored as elements into the local container labelled l
// (composite literals are lowered to IndexAddr stores on an array Alloc that is then sliced;
// append(x, v...) adds the elements of the varargs array).
func (vf *VFlow) allocElems(l string, fl uint8, out LabelSet, seen map[string]bool, depth int) {
	k := "E|" + l + fmt.Sprintf("|%d", fl)
	if seen[k] {
		return
	}
	seen[k] = true
	base, sub := splitAllocLabel(l)
	if strings.HasSuffix(l, "@make") {
		// map / slice made with make(): elements come from map updates and indexed stores
		n := 0
		for _, fn := range vf.cx.W.sortedFuncs(vf.scope) {
			for _, b := range fn.Blocks {
				for _, in := range b.Instrs {
					switch x := in.(type) {
					case *ssa.MapUpdate:
						if _, has := vf.objLabels(x.Map, depth+1)[l]; has {
							n++
							vf.walk(x.Value, fl, out, seen, depth+1)
						}
					case *ssa.Store:
						if ia, ok := x.Addr.(*ssa.IndexAddr); ok {
							if _, has := vf.objLabels(ia.X, depth+1)[l]; has {
								n++
								vf.walk(x.Val, fl, out, seen, depth+1)
							}
						}
					case *ssa.Call:
						// copy(dst, src): the elements of src become elements of dst
						if bi, isB := x.Call.Value.(*ssa.Builtin); isB && bi.Name() == "copy" && len(x.Call.Args) == 2 {
							if _, has := vf.objLabels(x.Call.Args[0], depth+1)[l]; has {
								n++
								for sl := range vf.objLabels(x.Call.Args[1], depth+1) {
									vf.elemOf(sl, fl, out, seen, depth+1)
								}
							}
						}
					}
				}
			}
		}
		if n == 0 {
			out.add(l+"[]", fl)
		}
		return
	}
	cell := vf.allocByLabel(base)
	if cell == nil || sub != "" {
		out.add(l+"[]", fl)
		return
	}
	for _, ref := range *cell.Referrers() {
		switch r := ref.(type) {
		case *ssa.IndexAddr:
			stored := false
			for _, rr := range *r.Referrers() {
				if st, ok := rr.(*ssa.Store); ok && st.Addr == r {
					stored = true
					if _, isStruct := st.Val.Type().Underlying().(*types.Struct); isStruct {
						for ol := range vf.objLabels(st.Val, depth+1) {
							out.add(ol, fl)
						}
					} else {
						vf.walk(st.Val, fl, out, seen, depth+1)
					}
				}
			}
			if !stored {
				// element filled field-wise (or only read): the element object is l[]
				out.add(l+"[]", fl)
			}
		case *ssa.MapUpdate:
			vf.walk(r.Value, fl, out, seen, depth+1)
		}
	}
}

func (vf *VFlow) allocKeys(l string, fl uint8, out LabelSet, seen map[string]bool, depth int) {
	n := 0
	for _, fn := range vf.cx.W.sortedFuncs(vf.scope) {
		for _, b := range fn.Blocks {
			for _, in := range b.Instrs {
				if x, ok := in.(*ssa.MapUpdate); ok {
					if _, has := vf.objLabels(x.Map, depth+1)[l]; has {
						n++
						vf.walk(x.Key, fl, out, seen, depth+1)
					}
				}
			}
		}
	}
	if n == 0 {
		out.add("key:"+l, fl)
	}
}

// ---------------------------------------------------------------------------
// Sinks
// ---------------------------------------------------------------------------

// FieldStoreSources: union of the provenance of every value stored (in scope) to
// field owner.name; n = number of store sites.
func (vf *VFlow) FieldStoreSources(owner, name string) (LabelSet, []*ssa.Store) {
	out := LabelSet{}
	var sites []*ssa.Store
	for fv, sts := range vf.fstores {
		if fname(fv) != name {
			continue
		}
		for _, st := range sts {
			fa := st.Addr.(*ssa.FieldAddr)
			if fieldOwner(fa.X.Type()) != owner {
				continue
			}
			sites = append(sites, st)
			out.addAll(vf.Labels(st.Val), 0)
		}
	}
	sort.Slice(sites, func(i, j int) bool { return sites[i].Pos() < sites[j].Pos() })
	return out, sites
}

// Deep replaces container allocations in ls by the provenance of their elements
// (for sinks that are slices / maps of values).
func (vf *VFlow) Deep(ls LabelSet) LabelSet {
	out := LabelSet{}
	seen := map[string]bool{}
	var rec func(l string, fl uint8, d int)
	rec = func(l string, fl uint8, d int) {
		if seen[l] || d > 8 {
			return
		}
		seen[l] = true
		if strings.HasPrefix(l, "alloc:") && vf.isContainerAlloc(l) {
			tmp := LabelSet{}
			vf.allocElems(l, fl, tmp, map[string]bool{}, 0)
			for k, f := range tmp {
				if k == l+"[]" {
					continue
				}
				rec(k, f|fl, d+1)
			}
			return
		}
		out.add(l, fl)
	}
	for k, f := range ls {
		rec(k, f, 0)
	}
	return out
}

// isContainerAlloc: the allocation labelled l is an array (backing store of a slice literal / varargs) or a make()d slice/map.
func (vf *VFlow) isContainerAlloc(l string) bool {
	if strings.HasSuffix(l, "@make") {
		return true
	}
	base, sub := splitAllocLabel(l)
	if sub != "" {
		return false
	}
	cell := vf.allocByLabel(base)
	if cell == nil {
		return false
	}
	_, isArr := cell.Type().Underlying().(*types.Pointer).Elem().Underlying().(*types.Array)
	return isArr
}

// StoreSourcesIn: like FieldStoreSources but only the store sites inside function fnKey, its closures and the
// module functions it calls (a literal moved into a helper still counts).
func (vf *VFlow) StoreSourcesIn(fnKey, owner, name string) (LabelSet, []*ssa.Store) {
	out := LabelSet{}
	_, sites := vf.FieldStoreSources(owner, name)
	under := map[*ssa.Function]bool{}
	if fn := vf.cx.W.Func(fnKey); fn != nil {
		vf.cx.W.refClosure(fn, under)
	}
	var sel []*ssa.Store
	for _, st := range sites {
		if under[st.Parent()] {
			sel = append(sel, st)
			out.addAll(vf.Labels(st.Val), 0)
		}
	}
	return out, sel
}

// NestedFieldSources: provenance of field innerOwner.innerField of the objects stored (in scope) into field
// owner.field - e.g. the Text of whatever NameIDType object becomes the Issuer of a ResponseType - wherever
// that object is built. n = number of store sites of owner.field.
func (vf *VFlow) NestedFieldSources(owner, field, innerOwner, innerField string) (LabelSet, int) {
	out := LabelSet{}
	_, sites := vf.FieldStoreSources(owner, field)
	objs := LabelSet{}
	for _, st := range sites {
		for l := range vf.objLabels(st.Val, 0) {
			objs.add(l, 0)
		}
	}
	for fv, sts := range vf.fstores {
		if fname(fv) != innerField {
			continue
		}
		for _, st := range sts {
			fa := st.Addr.(*ssa.FieldAddr)
			if fieldOwner(fa.X.Type()) != innerOwner {
				continue
			}
			hit := false
			for l := range vf.objLabels(fa.X, 0) {
				if _, ok := objs[l]; ok {
					hit = true
				}
			}
			if hit {
				out.addAll(vf.Labels(st.Val), 0)
			}
		}
	}
	return vf.Deep(out), len(sites)
}

// CallArgSources: provenance of argument idx at every in-scope call whose callee
// name matches (full callee name as rendered by calleeName).
func (vf *VFlow) CallArgSources(match func(ssa.CallInstruction) bool, idx int) (LabelSet, []ssa.CallInstruction) {
	out := LabelSet{}
	var sites []ssa.CallInstruction
	for _, fn := range vf.cx.W.sortedFuncs(vf.scope) {
		for _, c := range callsIn(fn) {
			if !match(c) {
				continue
			}
			args := c.Common().Args
			if idx >= len(args) {
				continue
			}
			sites = append(sites, c)
			out.addAll(vf.Labels(args[idx]), 0)
		}
	}
	return out, sites
}

// matchLabel: glob-like match where '*' matches any run of characters.
func matchLabel(pat, s string) bool {
	// r.Form.Get(name) (after ParseForm) and r.FormValue(name) read the same merged request parameters: one leaf
	canon := func(l string) string {
		const a, b = `ext:(url.Values).Get("`, `ext:(*http.Request).FormValue("`
		if strings.HasPrefix(l, a) {
			return b + strings.TrimPrefix(l, a)
		}
		return l
	}
	pat, s = canon(pat), canon(s)
	if !strings.Contains(pat, "*") {
		return pat == s
	}
	parts := strings.Split(pat, "*")
	if !strings.HasPrefix(s, parts[0]) {
		return false
	}
	s = s[len(parts[0]):]
	for i := 1; i < len(parts); i++ {
		p := parts[i]
		if i == len(parts)-1 {
			return strings.HasSuffix(s, p)
		}
		j := strings.Index(s, p)
		if j < 0 {
			return false
		}
		s = s[j+len(p):]
	}
	return true
}

func matchAny(pats []string, s string) bool {
	for _, p := range pats {
		if matchLabel(p, s) {
			return true
		}
	}
	return false
}

// checkSources records an obligation: every leaf of got matches one of allowed, every
// pattern of required is matched by some leaf, and (if unchanged) no leaf matching
// mustBeUnchanged carries the transformed flag.
func (r *Report) checkSources(rule, key, pos string, got LabelSet, allowed, required []string, unchanged bool) bool {
	var bad, missing []string
	for _, l := range got.leaves() {
		if l == "const:zero" {
			continue // the zero value before the first assignment
		}
		if !matchAny(allowed, l) {
			bad = append(bad, l)
		} else if unchanged && got[l]&flTransformed != 0 && !strings.HasPrefix(l, "const:") {
			bad = append(bad, l+" (transformed)")
		}
	}
	for _, p := range required {
		found := false
		for _, l := range got.leaves() {
			if matchLabel(p, l) {
				found = true
			}
		}
		if !found {
			missing = append(missing, p)
		}
	}
	if len(bad) == 0 && len(missing) == 0 {
		r.Ok(rule, key, pos, "sources "+got.String())
		return true
	}
	d := ""
	if len(bad) > 0 {
		d += "value may come from " + strings.Join(bad, ", ") + ", which is not an allowed source (" + strings.Join(allowed, " | ") + ")"
	}
	if len(missing) > 0 {
		if d != "" {
			d += "; "
		}
		d += "required source missing: " + strings.Join(missing, ", ") + " (got " + got.String() + ")"
	}
	r.Fail(rule, key, pos, d)
	return false
}

func (vf *VFlow) ctxKey() string {
	if len(vf.ctx) == 0 {
		return ""
	}
	s := ""
	for _, c := range vf.ctx {
		s += fmt.Sprintf("%p,", c)
	}
	return s
}

// objLabelsCtx: objLabels under a call-site context (not memoised).
func (vf *VFlow) objLabelsCtx(v ssa.Value, depth int) LabelSet {
	out := LabelSet{}
	if depth > 60 {
		out.add("opaque:depth", 0)
		return out
	}
	switch x := v.(type) {
	case *ssa.Alloc:
		out.add(vf.allocLabel(x), 0)
		if vf.decoded[x] {
			out.add("decoded:"+typeKey(x.Type().Underlying().(*types.Pointer).Elem()), 0)
		}
	case *ssa.FreeVar:
		if cell := vf.cx.Fx.ownerCell(x); cell != nil {
			out.add(vf.allocLabel(cell), 0)
		} else {
			out.add("opaque:freevar", 0)
		}
	case *ssa.FieldAddr:
		fv := fieldVar(x.X.Type(), x.Field)
		for l := range vf.objLabelsCtx(x.X, depth+1) {
			if !strings.HasPrefix(l, "via:") {
				out.add(l+"."+fname(fv), 0)
			}
		}
	case *ssa.IndexAddr:
		for l := range vf.objLabelsCtx(x.X, depth+1) {
			if !strings.HasPrefix(l, "via:") {
				out.add(l+"[]", 0)
			}
		}
	default:
		ls := LabelSet{}
		vf.walk(v, 0, ls, map[string]bool{}, depth+1)
		for l := range ls {
			if !strings.HasPrefix(l, "via:") {
				out.add(l, 0)
			}
		}
	}
	return out
}

// boxedObjects: for an unexported named type of the module, the values of that type (or pointer to it) converted to
// an interface anywhere in the module.
func (vf *VFlow) boxedObjects(t types.Type) []ssa.Value {
	n := namedOf(t)
	if n == nil || n.Obj().Exported() || n.Obj().Pkg() == nil || !isModulePath(n.Obj().Pkg().Path()) {
		return nil
	}
	if vf.boxed == nil {
		vf.boxed = map[*types.Named][]ssa.Value{}
		for _, fn := range vf.cx.W.Funcs {
			for _, b := range fn.Blocks {
				for _, in := range b.Instrs {
					if mi, ok := in.(*ssa.MakeInterface); ok {
						if m := namedOf(mi.X.Type()); m != nil && !m.Obj().Exported() {
							vf.boxed[m] = append(vf.boxed[m], mi.X)
						}
					}
				}
			}
		}
	}
	return vf.boxed[n]
}

// ctxArg: a parameter of the function whose call is being evaluated (call-site context) stands for the argument of
// that call - `template.New(name).Parse(text)` inside a helper called with a constant text is a Parse of that constant.
func (vf *VFlow) ctxArg(a ssa.Value) ssa.Value {
	ctx := vf.ctx
	for d := 0; d < 4; d++ {
		p, ok := a.(*ssa.Parameter)
		if !ok || len(ctx) == 0 {
			return a
		}
		top := ctx[len(ctx)-1]
		fn := p.Parent()
		hit := false
		for _, tg := range vf.targets(top) {
			if tg == fn {
				hit = true
			}
		}
		if !hit {
			return a
		}
		idx := -1
		for i, q := range fn.Params {
			if q == p {
				idx = i
			}
		}
		if idx < 0 || idx >= len(callArgs(top)) {
			return a
		}
		a = callArgs(top)[idx]
		ctx = ctx[:len(ctx)-1]
	}
	return a
}

// CallArgSourcesByType: like CallArgSources, but the argument is identified by its type instead of its position - an
// argument of that type, or the field of that type of a parameter object (struct literal) handed to the call.
func (vf *VFlow) CallArgSourcesByType(match func(ssa.CallInstruction) bool, isT func(types.Type) bool) (LabelSet, []ssa.CallInstruction) {
	out := LabelSet{}
	var sites []ssa.CallInstruction
	for _, fn := range vf.cx.W.sortedFuncs(vf.scope) {
		for _, c := range callsIn(fn) {
			if !match(c) {
				continue
			}
			found := false
			for _, a := range c.Common().Args {
				if isT(a.Type()) {
					found = true
					out.addAll(vf.Labels(a), 0)
				}
				if al := paramObjectOf(a); al != nil {
					{
						for _, ref := range nonDebugRefs(al) {
							if fa, isFA := ref.(*ssa.FieldAddr); isFA {
								for _, r2 := range nonDebugRefs(fa) {
									if st, isSt := r2.(*ssa.Store); isSt && st.Addr == ssa.Value(fa) && isT(st.Val.Type()) {
										found = true
										out.addAll(vf.Labels(st.Val), 0)
									}
								}
							}
						}
					}
				}
			}
			if found {
				sites = append(sites, c)
			}
		}
	}
	return out, sites
}

// callArgs: the arguments of a call in the order of the callee's parameters (receiver first for an interface call).
func callArgs(c ssa.CallInstruction) []ssa.Value {
	com := c.Common()
	if com.IsInvoke() {
		return append([]ssa.Value{com.Value}, com.Args...)
	}
	return com.Args
}

// soleImplementation: for a call through an interface type declared in a non-mock package of the module (other than
// the storage interfaces, which the embedding application implements) that exactly one non-mock module type
// implements: that type's method. nil otherwise.
func (w *World) soleImplementation(com *ssa.CallCommon) *ssa.Function {
	n := namedOf(com.Value.Type())
	if n == nil || n.Obj().Pkg() == nil || !isModulePath(n.Obj().Pkg().Path()) || isMockPath(n.Obj().Pkg().Path()) {
		return nil
	}
	it, ok := n.Underlying().(*types.Interface)
	if !ok || storageIfaces[n.Obj().Name()] || n.Obj().Exported() {
		return nil
	}
	if w.soleImpl == nil {
		w.soleImpl = map[*types.Named]types.Type{}
	}
	T, done := w.soleImpl[n]
	if !done {
		var found []types.Type
		for _, p := range w.Pkgs {
			if isMockPath(p.PkgPath) {
				continue
			}
			sc := p.Types.Scope()
			for _, nm := range sc.Names() {
				tn, ok := sc.Lookup(nm).(*types.TypeName)
				if !ok || tn.IsAlias() {
					continue
				}
				nt, ok := tn.Type().(*types.Named)
				if !ok || types.IsInterface(nt) || nt.TypeParams().Len() > 0 {
					continue
				}
				if types.Implements(nt, it) {
					found = append(found, nt)
				} else if types.Implements(types.NewPointer(nt), it) {
					found = append(found, types.NewPointer(nt))
				}
			}
		}
		if len(found) == 1 {
			T = found[0]
		}
		w.soleImpl[n] = T
	}
	if T == nil {
		return nil
	}
	sel := w.Prog.MethodSets.MethodSet(T).Lookup(com.Method.Pkg(), com.Method.Name())
	if sel == nil {
		return nil
	}
	return w.Prog.MethodValue(sel)
}

// paramObjectOf: the local composite literal an argument hands over - by value (a load of it) or by pointer (`&params{...}`).
func paramObjectOf(a ssa.Value) *ssa.Alloc {
	switch x := a.(type) {
	case *ssa.UnOp:
		if al, ok := x.X.(*ssa.Alloc); ok && x.Op == token.MUL {
			return al
		}
	case *ssa.Alloc:
		if _, isStruct := derefType(x.Type()).Underlying().(*types.Struct); isStruct {
			return x
		}
	}
	return nil
}

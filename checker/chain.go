package main

import (
	"fmt"
	"go/types"
	"sort"
	"strings"

	"golang.org/x/tools/go/ssa"
)

// ---------------------------------------------------------------------------
// Chain model (R-CHAIN): the ordered validation steps a handler registers on its
// local checker.Checker, with every closure resolved to its function.
// The meaning of a chain (order, short-circuit, callback once) is property C20.
// ---------------------------------------------------------------------------

type Step struct {
	Idx   int
	Kind  string // WithLogicStep, WithValueNotEmptyCheck, ...
	Call  *ssa.Call
	Role  map[string][]*ssa.Function // cond / value / values / equal / logic / errorFunc -> resolved closures
	Arg   map[string]ssa.Value
	Name  string // constant valueName argument, if any
	Key   string // semantic key assigned by a property (e.g. "persist")
	Pos   string
	Scope map[*ssa.Function]bool // functions reachable from cond/value/logic (not errorFunc)
	EScp  map[*ssa.Function]bool // functions reachable from errorFunc
}

type Chain struct {
	Fn          *ssa.Function
	Checker     *ssa.Alloc
	Steps       []*Step
	CheckFailed *ssa.Call
	FailBlock   *ssa.BasicBlock // successor taken when CheckFailed() is true
	PassBlock   *ssa.BasicBlock // successor taken when CheckFailed() is false (suffix entry)
	Problems    []string
}

func (s *Step) Fn(role string) *ssa.Function {
	if fs := s.Role[role]; len(fs) == 1 {
		return fs[0]
	}
	return nil
}

func (s *Step) String() string {
	return fmt.Sprintf("step#%d %s", s.Idx, s.Kind)
}

func isCheckerMethod(fn *ssa.Function) bool {
	if fn == nil || fn.Signature.Recv() == nil || fn.Pkg == nil {
		return false
	}
	n := namedOf(fn.Signature.Recv().Type())
	return n != nil && n.Obj().Name() == "Checker" && n.Obj().Pkg().Path() == modPath+"/pkg/provider/checker"
}

func (w *World) extractChain(fx *Facts, fn *ssa.Function) (*Chain, error) {
	ch := &Chain{Fn: fn}
	var withs []*ssa.Call
	for _, b := range fn.Blocks {
		for _, in := range b.Instrs {
			c, ok := in.(*ssa.Call)
			if !ok {
				continue
			}
			cal := calleeOf(c)
			if !isCheckerMethod(cal) {
				continue
			}
			recv := c.Call.Args[0]
			cell := fx.ownerCell(recv)
			if cell == nil || cell.Parent() != fn {
				// chained call on the returned *Checker (c.WithX(...).WithY(...)) is not an idiom of this repo
				return nil, fmt.Errorf("%s: checker call %s on a receiver that is not the handler's local Checker", w.InstrPos(c), fnName(cal))
			}
			if ch.Checker == nil {
				ch.Checker = cell
			} else if ch.Checker != cell {
				return nil, fmt.Errorf("%s: more than one Checker in %s", w.InstrPos(c), w.FuncKey(fn))
			}
			switch {
			case strings.HasPrefix(fnName(cal), "With"):
				withs = append(withs, c)
			case fnName(cal) == "CheckFailed":
				if ch.CheckFailed != nil {
					return nil, fmt.Errorf("%s: CheckFailed called more than once", w.InstrPos(c))
				}
				ch.CheckFailed = c
			case fnName(cal) == "StepCount":
			default:
				return nil, fmt.Errorf("%s: unknown Checker method %s", w.InstrPos(c), fnName(cal))
			}
		}
	}
	// steps registered by helpers the handler hands its checker to: `p.addRequestSteps(&checkerInstance, ...)` with
	// the With... calls made on that parameter, each exactly once
	outerOf := map[*ssa.Call]*ssa.Call{}
	helperOf := map[*ssa.Call]bool{}
	if ch.Checker != nil || true {
		for _, b := range fn.Blocks {
			for _, in := range b.Instrs {
				oc, ok := in.(*ssa.Call)
				if !ok {
					continue
				}
				g := calleeOf(oc)
				if g == nil || g.Blocks == nil || isCheckerMethod(g) || g.Pkg != fn.Pkg {
					continue
				}
				for ai, a := range oc.Call.Args {
					cell, isAl := a.(*ssa.Alloc)
					if !isAl || cell.Parent() != fn || ai >= len(g.Params) {
						continue
					}
					if n := namedOf(cell.Type().Underlying().(*types.Pointer).Elem()); n == nil || n.Obj().Name() != "Checker" || n.Obj().Pkg().Path() != modPath+"/pkg/provider/checker" {
						continue
					}
					if ch.Checker == nil {
						ch.Checker = cell
					} else if ch.Checker != cell {
						return nil, fmt.Errorf("%s: more than one Checker in %s", w.InstrPos(oc), w.FuncKey(fn))
					}
					helperOf[oc] = true
					par := g.Params[ai]
					gi := fx.info(g)
					for _, gb := range g.Blocks {
						for _, gin := range gb.Instrs {
							ic, ok := gin.(*ssa.Call)
							if !ok || !isCheckerMethod(calleeOf(ic)) {
								continue
							}
							recv := ic.Call.Args[0]
							if ld, isLd := recv.(*ssa.UnOp); isLd {
								// the parameter spilled into a cell because closures capture it
								if pc := fx.ownerCell(ld.X); pc != nil {
									if st := fx.storesToCell(pc); len(st) == 1 {
										recv = st[0]
									}
								}
							}
							if recv != ssa.Value(par) {
								return nil, fmt.Errorf("%s: checker call in helper %s on something other than the checker it was handed", w.InstrPos(ic), w.FuncKey(g))
							}
							if !strings.HasPrefix(fnName(calleeOf(ic)), "With") {
								return nil, fmt.Errorf("%s: helper %s does more with the checker than registering steps", w.InstrPos(ic), w.FuncKey(g))
							}
							for _, ret := range returnsOf(g) {
								if !(gb == ret.Block() || gb.Dominates(ret.Block())) {
									return nil, fmt.Errorf("%s: step registration in helper %s is conditional", w.InstrPos(ic), w.FuncKey(g))
								}
							}
							if gi.reachable(gb, gb) {
								return nil, fmt.Errorf("%s: step registration inside a loop", w.InstrPos(ic))
							}
							withs = append(withs, ic)
							outerOf[ic] = oc
						}
					}
				}
			}
		}
	}
	if ch.Checker == nil {
		return nil, fmt.Errorf("%s owns no checker.Checker", w.FuncKey(fn))
	}
	if ch.CheckFailed == nil {
		return nil, fmt.Errorf("%s: chain is never evaluated (no CheckFailed call)", w.FuncKey(fn))
	}
	// the checker must not escape: only used as receiver of the calls above
	for _, ref := range *ch.Checker.Referrers() {
		switch r := ref.(type) {
		case *ssa.Call:
			if !isCheckerMethod(calleeOf(r)) && !helperOf[r] {
				return nil, fmt.Errorf("%s: the Checker escapes into %s", w.InstrPos(r), calleeName(r))
			}
		case *ssa.Store:
			if r.Addr != ch.Checker {
				return nil, fmt.Errorf("%s: the Checker's address is stored", w.InstrPos(r))
			}
		case *ssa.DebugRef:
		default:
			return nil, fmt.Errorf("%s: unexpected use of the Checker (%T)", w.InstrPos(ref), ref)
		}
	}
	// every With call executes exactly once before CheckFailed: its block dominates
	// CheckFailed's block and is not part of a cycle.
	fi := fx.info(fn)
	cfb := ch.CheckFailed.Block()
	anchor := func(c *ssa.Call) *ssa.Call {
		if oc := outerOf[c]; oc != nil {
			return oc
		}
		return c
	}
	for _, c := range withs {
		c := anchor(c)
		b := c.Block()
		if !(b == cfb || b.Dominates(cfb)) {
			return nil, fmt.Errorf("%s: step registration does not dominate CheckFailed (conditional step)", w.InstrPos(c))
		}
		if fi.reachable(b, b) {
			return nil, fmt.Errorf("%s: step registration inside a loop", w.InstrPos(c))
		}
		if b == cfb && instrIndex(c) > instrIndex(ch.CheckFailed) {
			return nil, fmt.Errorf("%s: step registered after CheckFailed", w.InstrPos(c))
		}
	}
	before := func(x, y *ssa.Call) bool {
		ax, ay := anchor(x), anchor(y)
		if ax == ay {
			// both inside the same helper call: their order in the helper
			bi, bj := x.Block(), y.Block()
			if bi == bj {
				return instrIndex(x) < instrIndex(y)
			}
			return bi.Dominates(bj)
		}
		bi, bj := ax.Block(), ay.Block()
		if bi == bj {
			return instrIndex(ax) < instrIndex(ay)
		}
		return bi.Dominates(bj)
	}
	sort.SliceStable(withs, func(i, j int) bool { return before(withs[i], withs[j]) })
	for i := 0; i+1 < len(withs); i++ {
		if !before(withs[i], withs[i+1]) {
			return nil, fmt.Errorf("%s: step order is not determined by dominance", w.InstrPos(withs[i+1]))
		}
	}
	// CheckFailed's result must guard an immediate decision
	refs := *ch.CheckFailed.Referrers()
	var ifi *ssa.If
	for _, r := range refs {
		if x, ok := r.(*ssa.If); ok {
			ifi = x
		} else if _, ok := r.(*ssa.DebugRef); !ok {
			return nil, fmt.Errorf("%s: result of CheckFailed used other than as a branch condition", w.InstrPos(ch.CheckFailed))
		}
	}
	if ifi == nil {
		return nil, fmt.Errorf("%s: result of CheckFailed is not tested", w.InstrPos(ch.CheckFailed))
	}
	ch.FailBlock, ch.PassBlock = ifi.Block().Succs[0], ifi.Block().Succs[1]
	for i, c := range withs {
		cal := calleeOf(c)
		st := &Step{Idx: i, Kind: fnName(cal), Call: c, Role: map[string][]*ssa.Function{}, Arg: map[string]ssa.Value{}, Pos: w.InstrPos(c)}
		for pi, p := range cal.Params {
			if pi == 0 {
				continue
			}
			a := c.Call.Args[pi]
			// roles are positional (c20roles): what the constructor calls its parameters does not matter
			pname := p.Name()
			if rs := c20roles[fnName(cal)]; pi < len(rs) {
				pname = rs[pi]
			}
			st.Arg[pname] = a
			if _, isSig := p.Type().Underlying().(*types.Signature); isSig {
				tg, ok := fx.funcTargets(a)
				if !ok || len(tg) == 0 {
					return nil, fmt.Errorf("%s: closure argument %q of %s cannot be resolved", w.InstrPos(c), pname, fnName(cal))
				}
				st.Role[pname] = tg
			} else if k, isConst := a.(*ssa.Const); isConst && pname == "valueName" {
				st.Name = strings.Trim(k.Value.ExactString(), `"`)
			}
		}
		st.Scope = map[*ssa.Function]bool{}
		st.EScp = map[*ssa.Function]bool{}
		for role, fs := range st.Role {
			for _, f := range fs {
				if role == "errorFunc" {
					w.refClosure(f, st.EScp)
				} else {
					w.refClosure(f, st.Scope)
				}
			}
		}
		ch.Steps = append(ch.Steps, st)
	}
	return ch, nil
}

// suffixBlocks returns the blocks executed after the chain passed.
func (ch *Chain) suffixBlocks() []*ssa.BasicBlock {
	seen := map[*ssa.BasicBlock]bool{}
	var out []*ssa.BasicBlock
	var dfs func(b *ssa.BasicBlock)
	dfs = func(b *ssa.BasicBlock) {
		if seen[b] {
			return
		}
		seen[b] = true
		out = append(out, b)
		for _, s := range b.Succs {
			dfs(s)
		}
	}
	dfs(ch.PassBlock)
	return out
}

// prefixCalls: call instructions of the handler that execute before the first
// step registration or are not part of the suffix/fail edge (i.e. the handler's
// own straight-line code around the registrations).
func (ch *Chain) inSuffix(in ssa.Instruction) bool {
	for _, b := range ch.suffixBlocks() {
		if b == in.Block() {
			return true
		}
	}
	return false
}

// ---------------------------------------------------------------------------
// Reference closure: module functions reachable from fn through static calls
// and through function values it creates or mentions (closures, method values,
// factory results). Calls through interfaces leave the module (storage, xmlsig)
// and are leaves.
// ---------------------------------------------------------------------------

func (w *World) refClosure(fn *ssa.Function, into map[*ssa.Function]bool) {
	if g := wrapperImpl[fn]; g != nil {
		fn = g // a wrapper stands for its implementation
	}
	if fn == nil || into[fn] {
		return
	}
	if fn.Pkg == nil || !isModulePath(fn.Pkg.Pkg.Path()) || isMockPath(fn.Pkg.Pkg.Path()) || fn.Blocks == nil {
		return
	}
	into[fn] = true
	var ops [16]*ssa.Value
	for _, b := range fn.Blocks {
		for _, in := range b.Instrs {
			for _, op := range in.Operands(ops[:0]) {
				if op == nil || *op == nil {
					continue
				}
				switch v := (*op).(type) {
				case *ssa.Function:
					w.refClosure(v, into)
				case *ssa.MakeClosure:
					w.refClosure(v.Fn.(*ssa.Function), into)
				}
			}
			if mc, ok := in.(*ssa.MakeClosure); ok {
				w.refClosure(mc.Fn.(*ssa.Function), into)
			}
			// a closure kept in a local variable / struct field and called through it
			if c, ok := in.(ssa.CallInstruction); ok && w.fx != nil && !c.Common().IsInvoke() && calleeOf(c) == nil {
				if _, isB := c.Common().Value.(*ssa.Builtin); !isB {
					if tg, ok := w.fx.funcTargets(c.Common().Value); ok {
						for _, t := range tg {
							// only closures of the same lexical family (created by an enclosing function of fn, or by a
							// function already in the scope): a parameter such as a getter closure resolves to the
							// closures of every caller, and those belong to the callers' scopes, not to this one
							fam := false
							for a := fn; a != nil; a = a.Parent() {
								if t.Parent() == a {
									fam = true
								}
							}
							if fam || t.Parent() != nil && into[t.Parent()] || rootedAtGlobal(c.Common().Value) {
								// (a function kept in a package-level table - a map or slice of functions or of structs
								// with function fields, filled at initialisation - belongs to whoever calls through it)
								w.refClosure(t, into)
							}
						}
					}
				}
			}
		}
	}
}

func (w *World) scopeOf(fns ...*ssa.Function) map[*ssa.Function]bool {
	m := map[*ssa.Function]bool{}
	for _, f := range fns {
		w.refClosure(f, m)
	}
	return m
}

func (w *World) sortedFuncs(m map[*ssa.Function]bool) []*ssa.Function {
	var out []*ssa.Function
	for f := range m {
		out = append(out, f)
	}
	sort.Slice(out, func(i, j int) bool { return w.FuncKey(out[i]) < w.FuncKey(out[j]) })
	return out
}

// ---------------------------------------------------------------------------
// Effects: classification of call instructions that matter to the properties.
// ---------------------------------------------------------------------------

var storageIfaces = map[string]bool{"Storage": true, "IDPStorage": true, "AuthStorage": true, "IdentityProviderStorage": true, "UserStorage": true, "EntityStorage": true}

// storageMethod returns the storage method name if c is a call through one of
// the storage interfaces of package provider.
func storageMethod(c ssa.CallInstruction) string {
	com := c.Common()
	if !com.IsInvoke() {
		return ""
	}
	n := namedOf(com.Value.Type())
	if n == nil || n.Obj().Pkg() == nil || n.Obj().Pkg().Path() != modPath+"/pkg/provider" {
		return ""
	}
	if !storageIfaces[n.Obj().Name()] {
		return ""
	}
	return com.Method.Name()
}

// replyAct classifies a call that writes (part of) the HTTP reply.
func (fx *Facts) replyAct(c ssa.CallInstruction) string {
	name := calleeName(c)
	switch name {
	case "net/http.Error":
		return "http.Error"
	case "net/http.Redirect":
		return "http.Redirect"
	case modPath + "/pkg/provider/xml.Write":
		return "xml.Write"
	case modPath + "/pkg/provider/xml.WriteXMLMarshalled":
		return "xml.WriteXMLMarshalled"
	case "(*html/template.Template).Execute", "(*text/template.Template).Execute", "(*html/template.Template).ExecuteTemplate", "(*text/template.Template).ExecuteTemplate":
		return "Template.Execute"
	case "io.Copy", "io.CopyN", "io.WriteString", "fmt.Fprint", "fmt.Fprintf", "fmt.Fprintln":
		if len(c.Common().Args) > 0 && isResponseWriter(c.Common().Args[0].Type()) {
			return shortCallee(name)
		}
		// io.Copy(w, ...) where w is converted to io.Writer
		if len(c.Common().Args) > 0 {
			if mi, ok := c.Common().Args[0].(*ssa.MakeInterface); ok && isResponseWriter(mi.X.Type()) {
				return shortCallee(name)
			}
			if ci, ok := c.Common().Args[0].(*ssa.ChangeInterface); ok && isResponseWriter(ci.X.Type()) {
				return shortCallee(name)
			}
		}
		return ""
	case modPath + "/pkg/http.MarshalJSON", modPath + "/pkg/http.MarshalJSONWithStatus":
		return "MarshalJSON"
	}
	com := c.Common()
	if com.IsInvoke() && isResponseWriter(com.Value.Type()) {
		switch com.Method.Name() {
		case "Write", "WriteHeader":
			return "ResponseWriter." + com.Method.Name()
		}
		return ""
	}
	// dynamic call of the ErrorFunc field of Response / LogoutResponse
	if !com.IsInvoke() && calleeOf(c) == nil {
		p := fx.path(com.Value)
		if strings.HasSuffix(p, ".ErrorFunc") {
			return "ErrorFunc"
		}
		// the callback handed down to a helper: a parameter that receives the ErrorFunc field at every call site
		if prm, isP := com.Value.(*ssa.Parameter); isP {
			if args := fx.argsOf[prm]; len(args) > 0 {
				all := true
				for _, a := range args {
					if !strings.HasSuffix(fx.path(a), ".ErrorFunc") {
						all = false
					}
				}
				if all {
					return "ErrorFunc"
				}
			}
		}
	}
	return ""
}

func isResponseWriter(t types.Type) bool {
	n := namedOf(t)
	return n != nil && n.Obj().Pkg() != nil && n.Obj().Pkg().Path() == "net/http" && n.Obj().Name() == "ResponseWriter"
}

// callsTo lists calls in the given scope whose callee full name is in names.
func (w *World) callsTo(scope map[*ssa.Function]bool, match func(c ssa.CallInstruction) bool) []ssa.CallInstruction {
	var out []ssa.CallInstruction
	for _, fn := range w.sortedFuncs(scope) {
		for _, c := range callsIn(fn) {
			if match(c) {
				out = append(out, c)
			}
		}
	}
	return out
}

func matchCallee(full ...string) func(c ssa.CallInstruction) bool {
	set := map[string]bool{}
	for _, f := range full {
		set[f] = true
	}
	return func(c ssa.CallInstruction) bool { return set[calleeName(c)] }
}

const provPkg = modPath + "/pkg/provider"

// scopeHasCall reports whether any function in scope contains a call matched by match.
func (w *World) scopeHasCall(scope map[*ssa.Function]bool, match func(c ssa.CallInstruction) bool) bool {
	return len(w.callsTo(scope, match)) > 0
}

// onlyAfterPass: call c happens only after the chain passed: it sits in the handler's suffix, or in a named module
// function every call site of which (within the handler's scope) does, recursively. A function that is also used
// as a value, or has no call site in scope, does not qualify.
func (cx *Ctx) onlyAfterPass(ch *Chain, hscope map[*ssa.Function]bool, c ssa.CallInstruction, depth int) bool {
	fn := c.Parent()
	if fn == ch.Fn {
		return ch.inSuffix(c)
	}
	if depth > 3 || fn.Parent() != nil {
		return false
	}
	sites := cx.W.callsTo(hscope, func(x ssa.CallInstruction) bool { return calleeOf(x) == fn })
	if len(sites) == 0 {
		return false
	}
	for f := range hscope {
		for _, b := range f.Blocks {
			for _, in := range b.Instrs {
				if ci, isCall := in.(ssa.CallInstruction); isCall && calleeOf(ci) == fn {
					continue
				}
				var ops [12]*ssa.Value
				for _, op := range in.Operands(ops[:0]) {
					if op != nil && *op == ssa.Value(fn) {
						return false // used as a value
					}
				}
			}
		}
	}
	for _, s := range sites {
		if !cx.onlyAfterPass(ch, hscope, s, depth+1) {
			return false
		}
	}
	return true
}

// rootedAtGlobal: v is read out of a package-level variable (through fields, elements, map lookups, and locals
// that hold nothing else).
func rootedAtGlobal(v ssa.Value) bool { return rootedAtGlobalD(v, 0) }

func rootedAtGlobalD(v ssa.Value, depth int) bool {
	for i := 0; i < 12 && depth < 6; i++ {
		switch x := v.(type) {
		case *ssa.Global:
			return true
		case *ssa.Field:
			v = x.X
		case *ssa.FieldAddr:
			v = x.X
		case *ssa.Index:
			v = x.X
		case *ssa.IndexAddr:
			v = x.X
		case *ssa.Lookup:
			v = x.X
		case *ssa.Extract:
			v = x.Tuple
		case *ssa.UnOp:
			v = x.X
		case *ssa.Alloc:
			n := 0
			for _, ref := range nonDebugRefs(x) {
				if st, ok := ref.(*ssa.Store); ok && st.Addr == x {
					n++
					if !rootedAtGlobalD(st.Val, depth+1) {
						return false
					}
				}
			}
			return n > 0
		case *ssa.Phi:
			for _, e := range x.Edges {
				if !rootedAtGlobalD(e, depth+1) {
					return false
				}
			}
			return len(x.Edges) > 0
		default:
			return false
		}
	}
	return false
}

package main

import (
	"fmt"
	"sort"

	"golang.org/x/tools/go/callgraph"
	"golang.org/x/tools/go/callgraph/cha"
	"golang.org/x/tools/go/ssa"
)

// ---------------------------------------------------------------------------
// Thorough tier: cross-check of the scopes the rules work on.
//
// Every rule that says "in all code reachable from the routed handlers" relies on the reference closure
// (chain.go: static callees, closures, resolved function values). A class-hierarchy call graph over-approximates
// dynamic dispatch; module functions it reaches from the handlers that the reference closure does not contain are
// the places where a rule could be blind. Each such function must be explained by one of the reasons below,
// otherwise the cross-check fails (R-SCOPE).
// ---------------------------------------------------------------------------

func (cx *Ctx) scopeCrossCheck(r *Report) {
	w := cx.W
	scope := cx.handlerScope()
	cg := cha.CallGraph(w.Prog)
	reach := map[*ssa.Function]bool{}
	var work []*ssa.Function
	for _, rt := range cx.routes() {
		if !reach[rt.Handler] {
			reach[rt.Handler] = true
			work = append(work, rt.Handler)
		}
	}
	for f := range scope {
		if !reach[f] {
			reach[f] = true
			work = append(work, f)
		}
	}
	for len(work) > 0 {
		f := work[len(work)-1]
		work = work[:len(work)-1]
		n := cg.Nodes[f]
		if n == nil {
			continue
		}
		for _, e := range n.Out {
			g := e.Callee.Func
			if g == nil || reach[g] {
				continue
			}
			// stay inside the module: what libraries call back is reached through the interface edges of the
			// module functions themselves
			if g.Pkg == nil || !isModulePath(g.Pkg.Pkg.Path()) {
				continue
			}
			reach[g] = true
			work = append(work, g)
		}
	}
	_ = callgraph.CalleesOf
	var gaps []string
	explained := 0
	for f := range reach {
		if scope[f] || f.Blocks == nil || f.Pkg == nil || !isModulePath(f.Pkg.Pkg.Path()) {
			continue
		}
		key := w.FuncKey(f)
		why := ""
		switch {
		case isMockPath(f.Pkg.Pkg.Path()):
			why = "test double of the storage interfaces (not production code)"
		case f.Synthetic != "":
			why = "synthetic wrapper"
		case f.Parent() != nil && !scope[f.Parent()] && !reach[f.Parent()]:
			why = "closure of a function nothing reachable calls: it is never created"
		case f.Signature.Recv() != nil && cx.onlyIfaceReachable(f, scope):
			why = "method reached only through an interface the handlers call on values of other types (class-hierarchy imprecision)"
		}
		if why != "" {
			explained++
			continue
		}
		gaps = append(gaps, key)
	}
	sort.Strings(gaps)
	r.Extra["cha_reachable"] = len(reach)
	r.Extra["scope_functions"] = len(scope)
	r.Extra["scope_gap_explained"] = explained
	if len(gaps) > 0 {
		r.Fail("R-SCOPE", "reference-closure-vs-CHA", "", fmt.Sprintf("the class-hierarchy call graph reaches %d module function(s) from the handlers that the rules' scope does not contain and no reason explains: %v", len(gaps), gaps))
		return
	}
	r.Ok("R-SCOPE", "reference-closure-vs-CHA", "", fmt.Sprintf("%d functions in the rules' scope; the class-hierarchy graph reaches %d more module functions, all explained (test doubles, synthetic wrappers, interface methods of types no handler value has)", len(scope), explained))
}

// onlyIfaceReachable: f is a method whose receiver type is never converted to an interface in the scope and never
// called statically from it - CHA reaches it only because some interface in scope has a method of that name.
func (cx *Ctx) onlyIfaceReachable(f *ssa.Function, scope map[*ssa.Function]bool) bool {
	rt := namedOf(f.Signature.Recv().Type())
	if rt == nil {
		return false
	}
	for g := range scope {
		for _, b := range g.Blocks {
			for _, in := range b.Instrs {
				switch x := in.(type) {
				case *ssa.MakeInterface:
					if n := namedOf(x.X.Type()); n != nil && n.Obj() == rt.Obj() {
						return false
					}
				case ssa.CallInstruction:
					if calleeOf(x) == f {
						return false
					}
				}
			}
		}
	}
	return true
}

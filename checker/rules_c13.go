package main

import (
	"fmt"
	"go/token"
	"go/types"
	"strings"

	"golang.org/x/tools/go/ssa"
)

func init() { register("C13", checkC13) }

// entityIDSources: what IdentityProvider.GetEntityID(ctx) is made of: the configured metadata endpoint and
// the issuer stored in the request context.
var entityIDSources = []string{"param:*/#0.metadataEndpoint.path", "param:*/#0.metadataEndpoint.url", "ext:iface:context.Context.Value#0", "const:*", "param:*/#0.identityProvider.metadataEndpoint.*"}

// checkStatusGlobals (R-WHO): the exported StatusCode* variables are never assigned, and StatusCodeSuccess is
// read only by the Success constructors.
func (cx *Ctx) checkStatusGlobals(r *Report) {
	w := cx.W
	allowedReaders := map[string]bool{"provider.(*Response).makeAssertionResponse": true, "provider.makeAttributeQueryResponse": true, "provider.(*LogoutResponse).makeSuccessfulLogoutResponse": true}
	nRead := 0
	for _, fn := range w.Funcs {
		for _, b := range fn.Blocks {
			for _, in := range b.Instrs {
				switch x := in.(type) {
				case *ssa.Store:
					if g, ok := x.Addr.(*ssa.Global); ok && strings.HasPrefix(g.Name(), "StatusCode") && fn.Name() != "init" {
						r.Fail("R-WHO", "status-const:"+g.Name()+"@"+w.FuncKey(fn), w.InstrPos(x), "the status code variable "+g.Name()+" is assigned at run time")
					}
				case *ssa.UnOp:
					if g, ok := x.X.(*ssa.Global); ok && g.Name() == "StatusCodeSuccess" {
						nRead++
						k := w.FuncKey(fn)
						r.Check(allowedReaders[k], "R-WHO", "StatusCodeSuccess@"+k, w.InstrPos(x), "read by a Success constructor", "StatusCodeSuccess is used outside the three Success constructors: a reply built elsewhere can claim Success")
					}
				}
			}
		}
	}
	// init value check: the Success variable holds the Success URN and no other StatusCode variable does
	if p := w.SSAPkg["provider"]; p != nil {
		if init := p.Func("init"); init != nil {
			for _, b := range init.Blocks {
				for _, in := range b.Instrs {
					if st, ok := in.(*ssa.Store); ok {
						if g, ok := st.Addr.(*ssa.Global); ok && strings.HasPrefix(g.Name(), "StatusCode") {
							v, _ := constString(st.Val)
							isSucc := strings.HasSuffix(v, ":status:Success")
							if (g.Name() == "StatusCodeSuccess") != isSucc {
								r.Fail("R-WHO", "status-const:"+g.Name(), w.InstrPos(st), fmt.Sprintf("%s is initialised with %q", g.Name(), v))
							} else {
								r.Ok("R-WHO", "status-const:"+g.Name(), w.InstrPos(st), "constant status URN")
							}
						}
					}
				}
			}
		}
	}
	if nRead < 3 {
		r.Fail("R-WHO", "StatusCodeSuccess:#readers", "", fmt.Sprintf("only %d reads of StatusCodeSuccess found, expected the three Success constructors", nRead))
	}
}

// nonSuccessReason: the labels are package-level status variables other than Success (possibly wrapped by
// fmt.Errorf(...).Error()).
func nonSuccessReason(ls LabelSet) (bool, string) {
	n := 0
	for _, l := range ls.leaves() {
		if l == "const:zero" {
			continue
		}
		if !strings.HasPrefix(l, "global:provider.StatusCode") {
			return false, l
		}
		if l == "global:provider.StatusCodeSuccess" {
			return false, l
		}
		n++
	}
	return n > 0, "no status source"
}

func checkC13(cx *Ctx, r *Report) {
	w, fx := cx.W, cx.Fx
	cx.checkNoTemplateBypass(r)
	// storage is asked with the request's context (which carries the issuer / tenant in effect): keys, providers and
	// users are those of this request
	cx.checkStorageContext(r)
	cx.checkStorageIsTheApplications(r)
	// the registered locations are used as published: module code does not edit decoded metadata (shared with C16)
	cx.checkDecodedMetadataUntouched(r)
	// request data must not be shared between requests through recycled buffers (R-POOL, see C15)
	cx.checkPoolEscape(r)
	r.Clauses = []string{
		"Success only after the whole chain: makeSuccessfulLogoutResponse has one call site, after CheckFailed; the chain contains form, decode, time-window (IssueInstant as lower, NotOnOrAfter as upper bound; guard = documented orderings), and SP lookup by Issuer; every callback answers with makeFailedLogoutResponse and a non-Success status constant",
		"wiring: InResponseTo <- decoded request ID; Issuer <- IdP entity ID; LogoutURL / Destination <- the first SingleLogoutService location of the looked-up provider; RelayState <- the form value unchanged",
		"exactly one reply on every path of the handler, its callbacks and sendBackLogoutResponse",
	}
	r.NotDec = []string{"lexical acceptance of time.Parse", "HTML transport of NUL in RelayState (html/template)"}
	r.Assume = []string{"chain semantics (C20, re-checked)"}
	cx.checkDecodesWholeMessage(r, "R-STRICT", "xml.DecodeLogoutRequest")
	// whenever the request could be decoded its ID is echoed: the decoder does not refuse a decodable document
	cx.checkDecoderNotStricter(r, "xml.DecodeLogoutRequest")
	cx.errDisciplineOfHandler(r, kLogout)
	if !cx.requireC20(r) {
		return
	}
	ch := cx.chain(r, kLogout)
	if ch == nil {
		return
	}
	cx.checkNoPassWithoutProvider(r, ch, "slo")
	one := func(name string, ss []*Step) *Step {
		if len(ss) == 1 {
			r.Ok("R-STEP", "slo:"+name, ss[0].Pos, "step recognised")
			return ss[0]
		}
		if len(ss) == 0 {
			r.Fail("R-STEP", "slo:"+name, w.FnPos(ch.Fn), "the logout chain has no step '"+name+"' any more")
		} else {
			r.Undecided("R-STEP", "slo:"+name, ss[1].Pos, fmt.Sprintf("%d steps match '%s'", len(ss), name))
		}
		return nil
	}
	form := one("form", cx.stepsReaching(ch, matchFnKey(w, "provider.getLogoutRequestFromRequest")))
	decode := one("decode", cx.stepsReaching(ch, matchDecoder(w, "samlp.LogoutRequestType")))
	timeS := one("time", cx.stepsByFactory(ch, "logic", "provider.checkIfRequestTimeIsStillValid"))
	sp := one("sp", cx.stepsReaching(ch, matchStorage("GetEntityByID")))
	vf := cx.vflow(kLogout)
	var slo *Step
	_, urlStores := vf.FieldStoreSources("provider.LogoutResponse", "LogoutURL")
	for _, st := range urlStores {
		if s, inErr := stepOfFn(ch, st.Parent()); s != nil && !inErr {
			slo = s
		}
	}
	if slo == nil {
		r.Fail("R-STEP", "slo:slo-url", w.FnPos(ch.Fn), "no step determines LogoutResponse.LogoutURL")
	} else {
		r.Ok("R-STEP", "slo:slo-url", slo.Pos, "step recognised")
	}
	before := func(name string, a, b *Step) {
		if a == nil || b == nil {
			return
		}
		r.Check(a.Idx < b.Idx, "R-ORDER", "slo:"+name, a.Pos, "order holds", "step order violated: "+name)
	}
	before("form<decode", form, decode)
	before("decode<time", decode, timeS)
	before("decode<sp", decode, sp)
	before("sp<slo-url", sp, slo)
	cx.checkRecordedAfterDecode(r, "slo:decode:id-recorded", decode, "samlp.LogoutRequestType", "provider.LogoutResponse", "RequestID")
	// time step getters
	if timeS != nil {
		okG := false
		if fcs := cx.factoryCallsOfStep(timeS, "logic", "provider.checkIfRequestTimeIsStillValid"); len(fcs) > 0 {
			okG = true
			for _, mc := range fcs {
				if len(mc.Call.Args) < 2 || !cx.getterSuffix(mc.Call.Args[0], "<samlp.LogoutRequestType>.IssueInstant") || !cx.getterSuffix(mc.Call.Args[1], "<samlp.LogoutRequestType>.NotOnOrAfter") {
					okG = false
				}
			}
		}
		// the window is checked for every request (IssueInstant is always there), and a closure wrapped around the
		// check (to record its error) hands the verdict on
		r.Check(timeS.Kind == "WithLogicStep", "R-ORDER", "slo:time:unconditional", timeS.Pos, "the time-window step is unconditional", "the time-window step is conditional ("+timeS.Kind+"): requests the condition excludes are answered with Success whatever their IssueInstant / NotOnOrAfter")
		if lf := timeS.Fn("logic"); lf != nil && lf.Parent() == ch.Fn {
			cx.checkErrPropagation(r, "R-ERR", "slo:time", lf)
		}
		r.Check(okG, "R-GUARD", "slo:time:bounds", timeS.Pos, "lower bound = IssueInstant, upper bound = NotOnOrAfter of the decoded request", "the time-window step does not use IssueInstant as lower and NotOnOrAfter as upper bound of the decoded request")
		cx.checkTimeWindow(r, "R-GUARD")
	}
	for _, st := range []*Step{form, decode, sp} {
		if st != nil && st.Fn("logic") != nil {
			cx.checkErrPropagation(r, "R-ERR", "slo:"+stepName(cx, st), st.Fn("logic"))
		}
	}
	// Success constructor only after the chain
	hscope := w.scopeOf(ch.Fn)
	succ := w.callsTo(hscope, matchFnKey(w, "provider.(*LogoutResponse).makeSuccessfulLogoutResponse"))
	if len(succ) != 1 {
		r.Fail("R-ORDER", "slo:success-once", w.FnPos(ch.Fn), fmt.Sprintf("%d call sites of makeSuccessfulLogoutResponse reachable from the logout handler (expected one, after the chain)", len(succ)))
	} else {
		c := succ[0]
		r.Check(c.Parent() == ch.Fn && ch.inSuffix(c), "R-ORDER", "slo:success-once", w.InstrPos(c), "Success is constructed only after CheckFailed returned false", "a Success LogoutResponse is constructed before/outside the point where the whole chain has passed")
	}
	// other readers of Success / status of failures
	cx.checkStatusGlobals(r)
	for _, c := range w.callsTo(hscope, matchFnKey(w, "provider.(*LogoutResponse).makeFailedLogoutResponse")) {
		ok, why := nonSuccessReason(vf.Labels(c.Common().Args[1]))
		r.Check(ok, "R-VFG", "slo:failed-reason@"+w.InstrPos(c), w.InstrPos(c), "reason is a non-Success status constant", "a failure reply can carry the status "+why)
	}
	// callbacks
	for _, s := range ch.Steps {
		ef := s.Fn("errorFunc")
		if ef == nil {
			continue
		}
		cx.checkEmitExactlyOne(r, "R-EMIT", "slo:callback:"+stepName(cx, s), ef)
		// the reply of a callback is a failed logout response
		okF := true
		es := cx.emitSummaryOf(ef, nil)
		for _, p := range es.Paths {
			for i, a := range p.Acts {
				if !p.Failed[i] && !cx.isErrorReply(a.Call) {
					okF = false
				}
			}
		}
		// and the failed response is a failed *logout* response
		if len(w.callsTo(s.EScp, matchFnKey(w, "provider.(*LogoutResponse).makeFailedLogoutResponse"))) == 0 {
			okF = false
		}
		r.Check(okF, "R-ORDER", "slo:callback-failed:"+stepName(cx, s), w.FnPos(ef), "answers with a failed LogoutResponse", "an error callback of the logout chain does not answer with makeFailedLogoutResponse")
	}
	checkChainHandlerEmit(cx, r, "R-EMIT", "slo", ch)
	cx.checkEmitExactlyOne(r, "R-EMIT", "provider.(*LogoutResponse).sendBackLogoutResponse", w.Func("provider.(*LogoutResponse).sendBackLogoutResponse"))

	// --- wiring -------------------------------------------------------------------------
	sloLoc := "ext:iface:provider.IDPStorage.GetEntityByID#0.Metadata.SPSSODescriptor.SingleLogoutService[].Location"
	formRS := `ext:(url.Values).Get("RelayState")#0`
	type fs struct {
		owner, field string
		allow, req   []string
		unchanged    bool
	}
	for _, s := range []fs{
		{"samlp.LogoutResponseType", "InResponseTo", []string{"decoded:samlp.LogoutRequestType.Id"}, []string{"decoded:samlp.LogoutRequestType.Id"}, true},
		{"samlp.LogoutResponseType", "Destination", []string{sloLoc, "const:"}, []string{sloLoc}, true},
		{"provider.LogoutResponse", "LogoutURL", []string{sloLoc, "const:"}, []string{sloLoc}, true},
		{"provider.LogoutResponseForm", "LogoutURL", []string{sloLoc, "const:"}, []string{sloLoc}, true},
		{"provider.LogoutResponseForm", "RelayState", []string{formRS}, []string{formRS}, true},
		{"provider.LogoutResponse", "RelayState", []string{formRS}, []string{formRS}, true},
		{"provider.LogoutResponse", "Issuer", entityIDSources, []string{"ext:iface:context.Context.Value#0"}, false},
	} {
		ls, sites := vf.FieldStoreSources(s.owner, s.field)
		key := "slo:" + s.owner + "." + s.field
		if len(sites) == 0 {
			r.Fail("R-VFG", key, "", "no store to this field in the logout handler's scope")
			continue
		}
		r.checkSources("R-VFG", key, w.InstrPos(sites[0]), vf.Deep(ls), s.allow, s.req, s.unchanged)
		cx.checkStoresUnconditional(r, "R-MUST", "slo", vf, []fieldSink{{s.owner, s.field, s.allow, s.req, s.unchanged, ""}})
	}
	// the Issuer of the message
	if li, n := vf.NestedFieldSources("samlp.LogoutResponseType", "Issuer", "saml.NameIDType", "Text"); n == 0 {
		r.Fail("R-VFG", "slo:LogoutResponseType.Issuer.Text", "", "the LogoutResponse gets no Issuer")
	} else {
		r.checkSources("R-VFG", "slo:LogoutResponseType.Issuer.Text", "", li, entityIDSources, []string{"ext:iface:context.Context.Value#0"}, false)
	}
	// what is decoded is the received message, with the received (or defaulted) encoding - not the other way round
	for _, a := range []struct {
		key   string
		idx   int
		allow []string
		req   []string
	}{
		{"DecodeLogoutRequest:encoding", 0, []string{`ext:(url.Values).Get("SAMLEncoding")#0`, "const:urn:oasis:names:tc:SAML:2.0:bindings:URL-Encoding:DEFLATE", "const:"}, []string{`ext:(url.Values).Get("SAMLEncoding")#0`}},
		{"DecodeLogoutRequest:message", 1, []string{`ext:(url.Values).Get("SAMLRequest")#0`}, []string{`ext:(url.Values).Get("SAMLRequest")#0`}},
	} {
		la, sa := vf.CallArgSources(matchDecoder(w, "samlp.LogoutRequestType"), a.idx)
		if len(sa) == 0 {
			r.Fail("R-VFG", "slo:"+a.key, "", "the logout request decoder is not called from the logout handler")
			continue
		}
		r.checkSources("R-VFG", "slo:"+a.key, w.InstrPos(sa[0]), la, a.allow, a.req, true)
	}
	ls, sites := vf.CallArgSources(matchStorage("GetEntityByID"), 1)
	if len(sites) > 0 {
		r.checkSources("R-VFG", "slo:GetEntityByID:entityID", w.InstrPos(sites[0]), ls, []string{"decoded:samlp.LogoutRequestType.Issuer.Text"}, []string{"decoded:samlp.LogoutRequestType.Issuer.Text"}, true)
	}
	// first SLO entry: the store to LogoutURL happens in the first iteration only
	for _, st := range urlStores {
		fi := fx.info(st.Parent())
		inLoop := fi.reachable(st.Block(), st.Block())
		condOK := true
		why := ""
		// the value may come out of a helper that picks the first entry (`loc, ok := firstLocation(list)`): then
		// the helper is judged (below), and tests of the results of that very call are part of the selection
		helperCall, helperWhy := cx.firstElemHelper(st.Val)
		for _, a := range fx.AtomsAt(st) {
			switch {
			case a.Op == "NIL" && a.Neg:
			case a.Op == "LT" && !a.Neg && strings.Contains(a.B, "len("):
			case a.Op == "EMPTY" && a.Neg && strings.Contains(a.A, "SingleLogoutService"):
			case helperCall != nil && atomAboutCall(a, helperCall):
			case helperCall != nil && a.Op == "EMPTY" && a.Neg && a.A == fx.path(st.Val):
			default:
				condOK = false
				why = a.String()
			}
		}
		switch {
		case inLoop:
			r.Fail("R-GUARD", "slo:first-entry", w.InstrPos(st), "LogoutURL is assigned on every iteration over SingleLogoutService (the last entry wins), not only for the first entry")
		case !condOK:
			r.Fail("R-GUARD", "slo:first-entry", w.InstrPos(st), "LogoutURL is assigned under a condition ("+why+"): the entry used need not be the first registered one")
		case helperCall != nil:
			r.Check(helperWhy == "", "R-GUARD", "slo:first-entry", w.InstrPos(st), "assigned from "+shortCallee(calleeName(helperCall))+", which hands out the first element of the list it is given and nothing only for an empty list", helperWhy)
		default:
			// the element index starts at 0: the loaded element is IndexAddr(list, induction from 0)
			first := false
			if ld, ok := st.Val.(*ssa.UnOp); ok {
				if fa, ok := ld.X.(*ssa.FieldAddr); ok {
					first = cx.isFirstRangeElem(fa.X)
				}
			}
			if f, ok := st.Val.(*ssa.Field); ok {
				first = cx.isFirstRangeElem(f.X)
			}
			r.Check(first, "R-GUARD", "slo:first-entry", w.InstrPos(st), "assigned from the element of the first iteration of a front-to-back range, then the loop is left", "the element LogoutURL is taken from is not recognisably the first of the list")
		}
	}
	// the status code of the message is one of the protocol's status constants, Success among them (a valid request is
	// answered with Success, not with a mangled code); its IssueInstant is the formatted current time
	{
		ls, sites := vf.FieldStoreSources("samlp.StatusCodeType", "Value")
		if len(sites) == 0 {
			r.Fail("R-VFG", "slo:StatusCode.Value", "", "no status code is filled in the logout handler's scope")
		} else {
			r.checkSources("R-VFG", "slo:StatusCode.Value", w.InstrPos(sites[0]), vf.Deep(ls), []string{"global:provider.StatusCode*"}, []string{"global:provider.StatusCodeSuccess"}, true)
		}
		ls, sites = vf.FieldStoreSources("samlp.LogoutResponseType", "IssueInstant")
		if len(sites) > 0 {
			r.checkSources("R-VFG", "slo:LogoutResponseType.IssueInstant", w.InstrPos(sites[0]), vf.Deep(ls), []string{"ext:time.Now#0", "param:*/#0.TimeFormat", "via:(time.Time).*"}, []string{"ext:time.Now#0"}, false)
		}
	}
	// the send function posts exactly when a location is known, and returns the message in the body exactly when none is
	if sb := w.Func("provider.(*LogoutResponse).sendBackLogoutResponse"); sb != nil {
		for _, c := range callsIn(sb) {
			kind := fx.replyAct(c)
			if kind != "Template.Execute" && kind != "xml.Write" {
				continue
			}
			pts, ok := fx.atomPathsTo(c.Block(), 1024)
			if !ok || len(pts) == 0 {
				r.Undecided("R-GUARD", "sendBackLogoutResponse:"+kind, w.InstrPos(c), "paths not enumerable")
				continue
			}
			bad := ""
			for _, p := range pts {
				known, unknown := false, false
				for _, a := range p.Atoms {
					if a.Op == "EMPTY" && strings.HasSuffix(a.TA, "<provider.LogoutResponse>.LogoutURL") {
						if a.Neg {
							known = true
						} else {
							unknown = true
						}
					}
				}
				if kind == "Template.Execute" && !known {
					bad = "the auto-submit form is rendered on a path that has not found LogoutURL non-empty: a response for a provider without logout location is posted to an empty action"
				}
				if kind == "xml.Write" && !unknown {
					bad = "the message is written into the HTTP body on a path that has not found LogoutURL empty: a provider with a registered logout location does not get the response posted to it"
				}
			}
			r.Check(bad == "", "R-GUARD", "sendBackLogoutResponse:"+kind, w.InstrPos(c), "form exactly when a logout location is known, body exactly when none is", bad)
		}
	} else {
		r.Fail("R-GUARD", "sendBackLogoutResponse", "", "anchor not found")
	}
	r.Min("R-VFG", 5)
}

// isFirstRangeElem: v is (a copy of / pointer to) list[i] with i the induction variable of a front-to-back range loop.
func (cx *Ctx) isFirstRangeElem(v ssa.Value) bool {
	n := &c20namer{fx: cx.Fx}
	for i := 0; i < 6; i++ {
		switch x := v.(type) {
		case *ssa.IndexAddr:
			return n.isInduction(x.Index) || isZeroIndex(x.Index)
		case *ssa.Index:
			return n.isInduction(x.Index) || isZeroIndex(x.Index)
		case *ssa.UnOp:
			v = x.X
		case *ssa.Alloc:
			// local copy of the element: its single store
			st := cx.Fx.storesToCell(x)
			if len(st) != 1 {
				return false
			}
			v = st[0]
		default:
			return false
		}
	}
	return false
}

// isZeroIndex: the constant 0, or the degenerate first-iteration index (-1 + 1) go/ssa emits for a range
// loop whose body always leaves the loop.
func isZeroIndex(v ssa.Value) bool {
	if i, ok := constInt(v); ok {
		return i == 0
	}
	if b, ok := v.(*ssa.BinOp); ok && b.Op == token.ADD {
		x, ok1 := constInt(b.X)
		y, ok2 := constInt(b.Y)
		return ok1 && ok2 && x+y == 0
	}
	return false
}

// checkRecordedAfterDecode: in the decode step, every path on which the decoder succeeded stores the decoded
// request's ID into owner.field before it returns - with or without an error. A check placed between the decoder
// and that store makes the reply to a decodable request lose its InResponseTo.
func (cx *Ctx) checkRecordedAfterDecode(r *Report, key string, step *Step, decTyp, owner, field string) {
	w, fx := cx.W, cx.Fx
	if step == nil || step.Fn("logic") == nil {
		return
	}
	fn := step.Fn("logic")
	// the call (decoder or a helper that reaches it) whose nil error means "decoded"
	var dec *ssa.Call
	for _, c := range callsIn(fn) {
		call, ok := c.(*ssa.Call)
		if !ok {
			continue
		}
		if matchDecoder(w, decTyp)(c) {
			dec = call
			break
		}
		if g := cx.moduleCallee(c); g != nil && w.scopeHasCall(w.scopeOf(g), matchDecoder(w, decTyp)) {
			if _, has, _ := errResult(call); has {
				dec = call
			}
		}
	}
	if dec == nil {
		r.Undecided("R-ORDER", key, w.FnPos(fn), "the decoder call of the decode step was not found")
		return
	}
	e, has, _ := errResult(dec)
	if !has || e == nil {
		r.Fail("R-ORDER", key, w.InstrPos(dec), "the decoder's error is not examined")
		return
	}
	al := fx.aliasesOf(e)
	aps, ok := fx.atomPaths(fn, 4096)
	if !ok {
		r.Undecided("R-ORDER", key, w.FnPos(fn), "too many paths")
		return
	}
	n := 0
	for i := range aps {
		p := &aps[i]
		decoded := false
		for _, cp := range p.Conds {
			if x, tnn, isNT := nilTest(cp.Cond); isNT && cp.Pol != tnn {
				for _, a := range al {
					if a == x {
						decoded = true
					}
				}
			}
		}
		if !decoded {
			continue
		}
		n++
		stored := false
		after := false
		for _, in := range p.Instrs() {
			if in == ssa.Instruction(dec) {
				after = true
			}
			if st, isSt := in.(*ssa.Store); isSt && after {
				if fa, isFA := st.Addr.(*ssa.FieldAddr); isFA && fieldOwner(fa.X.Type()) == owner && fname(fieldVar(fa.X.Type(), fa.Field)) == field {
					stored = true
				}
			}
		}
		if !stored {
			pos := w.FnPos(fn)
			if p.Ret != nil {
				pos = w.InstrPos(p.Ret)
			}
			r.Fail("R-ORDER", key, pos, fmt.Sprintf("the decode step can return after the request was decoded without recording its ID in %s.%s (%s): the reply to that request carries no InResponseTo", owner, field, atomsString(p.Atoms)))
			return
		}
	}
	r.Check(n > 0, "R-ORDER", key, w.FnPos(fn), fmt.Sprintf("%s.%s is stored on each of the %d paths on which the decoder succeeded", owner, field, n), "no path on which the decoder succeeds was found")
}

// atomAboutCall: the atom tests a result of call c (its ok flag, its value, its error).
func atomAboutCall(a Atom, c *ssa.Call) bool {
	v := stripNot(a.Cond)
	var ops [8]*ssa.Value
	check := func(x ssa.Value) bool {
		if x == ssa.Value(c) {
			return true
		}
		if e, ok := x.(*ssa.Extract); ok && e.Tuple == ssa.Value(c) {
			return true
		}
		return false
	}
	if check(v) {
		return true
	}
	if in, ok := v.(ssa.Instruction); ok {
		for _, op := range in.Operands(ops[:0]) {
			if op != nil && *op != nil && check(*op) {
				return true
			}
		}
	}
	return false
}

// firstElemHelper: v is (a result of) a call to a module function that hands out a field of the FIRST element of a
// slice parameter: every return either yields such a value (element index 0, or the element of the first iteration
// of a range that is left at once) or the zero value - and the zero value only on paths that found the slice empty.
// Returns the call (nil if v is not of this form) and, if the helper does not qualify, why.
func (cx *Ctx) firstElemHelper(v ssa.Value) (*ssa.Call, string) {
	fx := cx.Fx
	idx := 0
	var call *ssa.Call
	switch x := v.(type) {
	case *ssa.Extract:
		call, _ = x.Tuple.(*ssa.Call)
		idx = x.Index
	case *ssa.Call:
		call = x
	}
	if call == nil {
		return nil, ""
	}
	h := calleeOf(call)
	if h == nil || h.Blocks == nil || h.Pkg == nil || !isModulePath(h.Pkg.Pkg.Path()) {
		return nil, ""
	}
	// the slice parameter(s)
	var lists []*ssa.Parameter
	for _, p := range h.Params {
		if _, isSl := p.Type().Underlying().(*types.Slice); isSl {
			lists = append(lists, p)
		}
	}
	var list ssa.Value
	if len(lists) == 1 {
		list = lists[0]
	} else if len(lists) == 0 {
		// the helper is handed the object that holds the list (`firstLocation(sp)`): the one slice it indexes, read
		// from a field path of a parameter
		seenL := map[string]ssa.Value{}
		for _, b := range h.Blocks {
			for _, in := range b.Instrs {
				var x ssa.Value
				switch y := in.(type) {
				case *ssa.IndexAddr:
					x = y.X
				case *ssa.Index:
					x = y.X
				}
				if x == nil {
					continue
				}
				if _, isSl := x.Type().Underlying().(*types.Slice); isSl && fx.path(x) != "" {
					seenL[fx.path(x)] = x
				}
			}
		}
		if len(seenL) != 1 {
			return nil, ""
		}
		for _, v := range seenL {
			list = v
		}
	} else {
		return nil, ""
	}
	aps, ok := fx.atomPaths(h, 1024)
	if !ok {
		return call, "too many paths in " + cx.W.FuncKey(h)
	}
	nFirst := 0
	for i := range aps {
		p := &aps[i]
		if p.Ret == nil || idx >= len(p.Ret.Results) {
			continue
		}
		rv := fx.retVal(p, idx)
		if k, isK := rv.(*ssa.Const); isK {
			if s, isS := constString(k); (isS && s == "") || k.Value == nil {
				// nothing handed out: only for an empty list
				empty := false
				for _, a := range p.Atoms {
					if a.Op == "EMPTY" && !a.Neg && a.A == fx.path(list) {
						empty = true
					}
					if a.Op == "NIL" && !a.Neg && a.A == fx.path(list) {
						empty = true
					}
				}
				if !empty {
					return call, cx.W.FuncKey(h) + " hands out nothing on a path that has not found the list empty (" + atomsString(p.Atoms) + "): a provider with registered entries is treated as having none"
				}
				continue
			}
		}
		first := false
		switch y := rv.(type) {
		case *ssa.UnOp:
			if fa, isFA := y.X.(*ssa.FieldAddr); isFA {
				first = cx.isFirstRangeElem(fa.X) && elemListIs(fa.X, list)
			}
		case *ssa.Field:
			first = cx.isFirstRangeElem(y.X) && elemListIs(y.X, list)
		}
		if !first {
			return call, cx.W.FuncKey(h) + " can hand out something other than the first element of the list (" + cx.W.InstrPos(p.Ret) + ")"
		}
		nFirst++
	}
	if nFirst == 0 {
		return call, cx.W.FuncKey(h) + " never hands out the first element"
	}
	return call, ""
}

// elemListIs: the element address / value v indexes the given slice parameter.
func elemListIs(v ssa.Value, list ssa.Value) bool {
	same := func(a ssa.Value) bool {
		return a == list || gFacts != nil && gFacts.path(a) != "" && gFacts.path(a) == gFacts.path(list)
	}
	for i := 0; i < 6; i++ {
		switch x := v.(type) {
		case *ssa.IndexAddr:
			return same(x.X)
		case *ssa.Index:
			return same(x.X)
		case *ssa.UnOp:
			v = x.X
		default:
			return false
		}
	}
	return false
}

package main

import (
	"fmt"
	"go/token"
	"sort"
	"strings"

	"golang.org/x/tools/go/ssa"
)

func init() { register("C10", checkC10) }

var successEffectKeys = map[string]bool{
	"provider.(*Response).makeSuccessfulResponse": true, "provider.(*Response).makeAssertionResponse": true, "provider.makeAttributeQueryResponse": true,
	"provider.(*LogoutResponse).makeSuccessfulLogoutResponse": true, "provider.createSignature": true, "provider.createPostSignature": true,
	"provider.createRedirectSignature": true, "signature.Create": true, "signature.CreateRedirect": true, "provider.makeAssertion": true,
}

// successEffect names the success effect call c performs ("" if none).
func (cx *Ctx) successEffect(c ssa.CallInstruction) string {
	if f := calleeOf(c); f != nil {
		k := cx.W.FuncKey(f)
		if successEffectKeys[k] {
			return k
		}
	}
	switch storageMethod(c) {
	case "CreateAuthRequest", "SetUserinfoWithUserID", "SetUserinfoWithLoginName":
		return "Storage." + storageMethod(c)
	}
	switch calleeName(c) {
	case "net/http.Redirect":
		return "http.Redirect"
	}
	return ""
}

// isErrorReply: call c is an error reply: http.Error with a constant status >= 400, a call of an ErrorFunc, or
// sendBack(Logout)Response of a freshly built failed response.
func (cx *Ctx) isErrorReply(c ssa.CallInstruction) bool {
	w := cx.W
	if st, ok := httpErrorStatus(c); ok {
		return st >= 400
	}
	if cx.Fx.replyAct(c) == "ErrorFunc" {
		return true
	}
	f := cx.moduleCallee(c)
	if f == nil {
		return false
	}
	var resp ssa.Value
	switch w.FuncKey(f) {
	case "provider.(*Response).sendBackResponse":
		resp = c.Common().Args[3]
	case "provider.(*LogoutResponse).sendBackLogoutResponse":
		resp = c.Common().Args[2]
	default:
		// a helper (e.g. a local closure shared by several callbacks) that itself performs exactly one error reply
		s := cx.emitSummaryOf(f, nil)
		if !s.Decided || len(s.Paths) == 0 {
			return false
		}
		for _, p := range s.Paths {
			if p.count() != 1 {
				return false
			}
			if ok, _ := cx.errorReplyActs(p.Acts, p.Failed); !ok {
				return false
			}
		}
		return true
	}
	// `resp, err := build(); if err != nil { resp = makeFailed(...) }; send(resp)`: on the path being judged the
	// variable holds what that path assigned
	for d := 0; d < 4; d++ {
		phi, isPhi := resp.(*ssa.Phi)
		if !isPhi || cx.curPath == nil {
			break
		}
		pb := phi.Block()
		found := false
		for i := len(cx.curPath.Blocks) - 1; i > 0 && !found; i-- {
			if cx.curPath.Blocks[i] != pb {
				continue
			}
			for j, pred := range pb.Preds {
				if pred == cx.curPath.Blocks[i-1] && j < len(phi.Edges) {
					resp = phi.Edges[j]
					found = true
				}
			}
		}
		if !found {
			break
		}
	}
	mc, ok := resp.(*ssa.Call)
	if !ok {
		return false
	}
	mf := calleeOf(mc)
	if mf == nil {
		return false
	}
	switch w.FuncKey(mf) {
	case "provider.(*Response).makeFailedResponse", "provider.(*IdentityProvider).errorResponse", "provider.(*LogoutResponse).makeFailedLogoutResponse":
		return true
	}
	return false
}

// errorReplyActs: the acts of a path (or of its tail) form an error reply: each is an error reply by itself, or a
// raw body write that follows a WriteHeader with a constant status >= 400. Acts that failed are judged only when
// nothing else on the path replied.
func (cx *Ctx) errorReplyActs(acts []emitAct, failed []bool) (bool, emitAct) {
	anyLive := false
	for i := range acts {
		if !failed[i] {
			anyLive = true
		}
	}
	errStatus := false
	for i, a := range acts {
		if failed[i] && anyLive {
			continue
		}
		switch {
		case a.Kind == "ResponseWriter.WriteHeader":
			ok := false
			if args := a.Call.Common().Args; len(args) > 0 {
				if vals, isC := constIntSet(args[0], 0); isC && len(vals) > 0 {
					ok = true
					for _, v := range vals {
						if v < 400 {
							ok = false
						}
					}
				}
			}
			if !ok {
				return false, a
			}
			errStatus = true
		case isRawBodyKind(a.Kind):
			if !errStatus {
				return false, a
			}
		default:
			if !cx.isErrorReply(a.Call) {
				return false, a
			}
		}
	}
	return true, emitAct{}
}

// checkErrReply (R-ERR for functions that reply themselves): for every fallible call in the void function fn the
// error is tested, and every path through the failing branch performs exactly one reply act, an error reply,
// and no success effect.
func (cx *Ctx) checkErrReply(r *Report, rule, key string, fn *ssa.Function) int {
	w, fx := cx.W, cx.Fx
	s := cx.emitSummaryOf(fn, nil)
	n := 0
	for _, c := range callsIn(fn) {
		call, isCall := c.(*ssa.Call)
		if !isCall {
			continue
		}
		e, has, discarded := errResult(call)
		if !has || !cx.errDisciplined(call) {
			continue
		}
		if cx.Fx.replyAct(call) != "" || strings.HasPrefix(cx.actKind(call, nil), "reply") {
			continue // the error of a reply act is handled by R-EMIT
		}
		n++
		ckey := key + ":" + shortCallee(calleeName(call))
		if discarded || e == nil {
			r.Fail(rule, ckey, w.InstrPos(call), "the error result of "+calleeName(call)+" is discarded: a failure would be served as if it had succeeded")
			continue
		}
		nonNil, tested := fx.errBranches(e)
		if !tested {
			r.Fail(rule, ckey, w.InstrPos(call), "the error result of "+calleeName(call)+" is never tested")
			continue
		}
		nilSides := fx.errNilSides(e)
		if !s.Decided {
			r.Undecided(rule, ckey, w.InstrPos(call), s.Why)
			continue
		}
		bad := ""
		nPaths := 0
		for _, p := range s.Paths {
			// position of the failing branch on this path
			at := -1
			for i, b := range p.Path.Blocks {
				for _, nb := range nonNil {
					if b == nb && at < 0 {
						at = i
					}
				}
			}
			if at < 0 {
				continue
			}
			// a path that found the error non-nil and later finds the same error nil is not a path (`if err == nil &&
			// x == nil { err = ... }; if err != nil { reply; return }`)
			infeasible := false
			for _, b := range p.Path.Blocks[at+1:] {
				for _, nb := range nilSides {
					if b == nb && len(nb.Preds) == 1 {
						infeasible = true
					}
				}
			}
			if infeasible {
				continue
			}
			nPaths++
			idx := map[*ssa.BasicBlock]int{}
			for i, b := range p.Path.Blocks {
				idx[b] = i
			}
			sub := emitPath{Path: p.Path}
			for i, a := range p.Acts {
				if idx[a.Call.Block()] < at {
					continue
				}
				sub.Acts = append(sub.Acts, a)
				sub.Failed = append(sub.Failed, p.Failed[i])
			}
			eff := sub.count()
			cx.curPath = &sub.Path
			okActs, a := cx.errorReplyActs(sub.Acts, sub.Failed)
			cx.curPath = nil
			if ok := okActs; !ok {
				bad = fmt.Sprintf("after %s failed the reply is %s at %s, which is not an error reply", shortCallee(calleeName(call)), a.Kind, w.InstrPos(a.Call))
			}
			if eff != 1 && bad == "" {
				bad = fmt.Sprintf("after %s failed a path performs %d reply acts (%s)", shortCallee(calleeName(call)), eff, p.describe(w))
			}
			for _, b := range p.Path.Blocks[at:] {
				for _, in := range b.Instrs {
					if c2, ok := in.(ssa.CallInstruction); ok {
						if se := cx.successEffect(c2); se != "" {
							bad = fmt.Sprintf("after %s failed the handler still reaches %s at %s", shortCallee(calleeName(call)), se, w.InstrPos(c2))
						}
					}
				}
			}
		}
		if nPaths == 0 && bad == "" {
			bad = "no path through the failing branch found"
		}
		r.Check(bad == "", rule, ckey, w.InstrPos(call), "error tested; the failing branch ends in exactly one error reply and reaches no success effect", bad)
	}
	return n
}

func checkC10(cx *Ctx, r *Report) {
	w, fx := cx.W, cx.Fx
	cx.checkAlgorithmValidatedBeforeSigner(r)
	cx.checkStorageIsTheApplications(r)
	cx.checkRecoverReports(r, cx.handlerScope())
	r.Clauses = []string{
		"error discipline at every storage call site and at every call of a module function / closure that can fail, in all code reachable from the routed handlers: the error is tested before anything else happens; the failing branch returns a non-nil error, or (in handlers and callbacks) performs exactly one error reply (HTTP >= 400, or a failed SAML response) and reaches no Success constructor, signing, persistence, user-info lookup or redirect",
		"error callbacks of all three chains are error replies",
		"key shapes: both key getters return success only for a non-nil record with key and certificate; signing functions get their key material only from them",
		"no persistence after a failure: the persist step is last (clause shared with C08)",
	}
	r.NotDec = []string{"fault sequences inside the storage implementation beyond 'every call site is disciplined'", "panics inside crypto/tls for malformed but non-nil keys (C09 scope note)"}
	r.Assume = []string{"chain semantics (C20, re-checked): a logic closure returning an error fails its step and runs the paired callback"}
	if !cx.requireC20(r) {
		return
	}
	scope := cx.handlerScope()
	nRoutes := len(cx.routes())
	r.Check(nRoutes >= 8, "R-ROUTES", "#routes", "", fmt.Sprintf("%d routed handlers derived from CreateRouter/GetRoutes", nRoutes), fmt.Sprintf("only %d routed handlers found (expected 8)", nRoutes))
	var fns []*ssa.Function
	for f := range scope {
		fns = append(fns, f)
	}
	sort.Slice(fns, func(i, j int) bool { return w.FuncKey(fns[i]) < w.FuncKey(fns[j]) })
	nStorage := cx.checkErrDiscipline(r, fns)
	// every storage operation the property names is still called from handler-reachable code (a call that vanished
	// - `return nil` instead of `return storage.Health(ctx)` - cannot fail any more, and cannot be checked here)
	for _, m := range []string{"GetEntityByID", "CreateAuthRequest", "AuthRequestByID", "GetEntityIDByAppID", "SetUserinfoWithUserID", "SetUserinfoWithLoginName", "GetResponseSigningKey", "GetMetadataSigningKey", "Health"} {
		r.Check(w.scopeHasCall(scope, matchStorage(m)), "R-WHO", "storage-call:"+m, "", "called from handler-reachable code", "Storage."+m+" is no longer called from handler-reachable code: its failure cannot end a request in an error reply because it is never asked")
	}
	r.Check(nStorage >= 9, "R-ERR", "#storage-sites", "", fmt.Sprintf("%d storage call sites in handler-reachable code", nStorage), fmt.Sprintf("only %d storage call sites found in handler-reachable code (9 on the pinned tree): a site has become unreachable for the analysis", nStorage))

	// --- callbacks are error replies -----------------------------------------------------
	for _, hk := range []string{kSSO, kLogout, kAttr} {
		ch := cx.chain(r, hk)
		if ch == nil {
			continue
		}
		short := map[string]string{kSSO: "sso", kLogout: "slo", kAttr: "attr"}[hk]
		for _, s := range ch.Steps {
			ef := s.Fn("errorFunc")
			if ef == nil {
				continue
			}
			es := cx.emitSummaryOf(ef, nil)
			bad := ""
			for _, p := range es.Paths {
				if ok, a := cx.errorReplyActs(p.Acts, p.Failed); !ok {
					bad = "the callback answers with " + a.Kind + ", which is not an error reply"
				}
				if p.count() != 1 {
					bad = fmt.Sprintf("the callback performs %d reply acts", p.count())
				}
			}
			for _, c := range w.callsTo(s.EScp, func(c ssa.CallInstruction) bool {
				return cx.successEffect(c) != "" && calleeName(c) != "net/http.Redirect"
			}) {
				bad = "the callback reaches the success effect " + cx.successEffect(c)
			}
			r.Check(bad == "", "R-EMIT", short+":callback-is-error:"+stepName(cx, s), w.FnPos(ef), "exactly one error reply, no success effect", bad)
		}
		// failed SAML responses carry a non-Success status
		vf := cx.vflow(hk)
		for _, c := range w.callsTo(w.scopeOf(ch.Fn), matchFnKey(w, "provider.(*Response).makeFailedResponse", "provider.(*LogoutResponse).makeFailedLogoutResponse")) {
			ok, why := nonSuccessReason(vf.Labels(c.Common().Args[1]))
			r.Check(ok, "R-VFG", short+":failed-reason@"+w.InstrPos(c), w.InstrPos(c), "non-Success status constant", "a failure reply can carry the status "+why)
		}
	}
	cx.checkStatusGlobals(r)

	// --- key shapes ---------------------------------------------------------------------------
	for _, g := range []struct{ fn, method string }{{"key-getter:response", "GetResponseSigningKey"}, {"key-getter:metadata", "GetMetadataSigningKey"}} {
		// every function that asks the storage for the key (not only the first one found): a second accessor
		// that accepts a record without private key lets requests go on with unusable key material
		var getters []*ssa.Function
		for _, f := range w.sortedFuncs(scope) {
			for _, c := range callsIn(f) {
				if storageMethod(c) == g.method {
					getters = append(getters, f)
					break
				}
			}
		}
		if len(getters) == 0 {
			r.Fail("R-GUARD", g.fn, "", "no function in handler-reachable code calls Storage."+g.method)
			continue
		}
		for gi, fn := range getters {
			gkey := g.fn
			if gi > 0 {
				gkey = g.fn + ":" + w.FuncKey(fn)
			}
			res := fn.Signature.Results()
			if res.Len() == 0 || !isErrorType(res.At(res.Len()-1).Type()) {
				r.Fail("R-GUARD", gkey+":key-shape", w.FnPos(fn), w.FuncKey(fn)+" calls Storage."+g.method+" but cannot report a missing key or certificate (no error result)")
				continue
			}
			aps, ok := fx.atomPaths(fn, 4096)
			if !ok {
				r.Undecided("R-GUARD", gkey, w.FnPos(fn), "too many paths")
				continue
			}
			bad := ""
			n := 0
			for i := range aps {
				p := &aps[i]
				erv := fx.retVal(p, res.Len()-1)
				isNil, nonNil := fx.errNilness(p, erv)
				atoms := p.Atoms
				if !isNil {
					// the verdict of a module helper handed on (`return signingKeyPair(record)`): success here is success
					// there - what holds on all of the helper's successful returns holds
					ex, isE := erv.(*ssa.Extract)
					if nonNil || !isE {
						continue
					}
					hc, isC := ex.Tuple.(*ssa.Call)
					if !isC || calleeOf(hc) == nil || calleeOf(hc).Blocks == nil {
						continue
					}
					na := Atom{Op: "NIL", A: fx.path(erv), Val: erv}
					na.TA = fx.T(na.A)
					atoms = append(append([]Atom{}, atoms...), fx.expandAtoms([]Atom{na})...)
				}
				n++
				rec := false
				keyOK, certOK := false, false
				for _, a := range atoms {
					if a.Op == "NIL" && a.Neg {
						switch {
						case strings.HasSuffix(a.A, g.method+"#0"):
							rec = true
						case strings.HasSuffix(a.A, g.method+"#0.Key"):
							keyOK = true
						case strings.HasSuffix(a.A, g.method+"#0.Certificate"):
							certOK = true
						}
					}
				}
				if !(rec && keyOK && certOK) {
					bad = fmt.Sprintf("success is returned without having established record != nil (%v), Key != nil (%v), Certificate != nil (%v)", rec, keyOK, certOK)
				}
				// and what it hands out is the key material, not nil
				for ri := 0; ri < res.Len()-1; ri++ {
					if isNilConst(fx.retVal(p, ri)) {
						bad = fmt.Sprintf("a nil error is returned together with a nil result #%d at %s: the caller signs with nothing", ri, w.InstrPos(p.Ret))
					}
				}
			}
			r.Check(bad == "" && n > 0, "R-GUARD", gkey+":key-shape", w.FnPos(fn), "success only for a non-nil record with key and certificate", bad)
		}
	}
	// key material of the signing functions
	hvf := cx.newVFlowFns(scope)
	keyLeaves := []string{"ext:iface:provider.IdentityProviderStorage.GetResponseSigningKey#0.*", "ext:iface:provider.EntityStorage.GetMetadataSigningKey#0.*", "ext:iface:provider.IDPStorage.GetResponseSigningKey#0.*", "ext:iface:provider.Storage.GetMetadataSigningKey#0.*"}
	for _, sk := range []struct {
		fn  string
		idx int
	}{{"signature.GetSigner", 1}, {"signature.GetSigner", 0}, {"signature.ParseTlsKeyPair", 1}, {"signature.ParseTlsKeyPair", 0}} {
		ls, sites := hvf.CallArgSources(matchFnKey(w, sk.fn), sk.idx)
		if len(sites) == 0 {
			r.Fail("R-VFG", fmt.Sprintf("%s:arg%d", sk.fn, sk.idx), "", "no call site found in handler-reachable code")
			continue
		}
		r.checkSources("R-VFG", fmt.Sprintf("%s:arg%d", sk.fn, sk.idx), w.InstrPos(sites[0]), ls, keyLeaves, nil, true)
	}
	// persistence is the last step (shared with C08)
	if k := cx.ssoChain(newReport("tmp", "quick")); k != nil && k.persist != nil {
		r.Check(k.persist.Idx == len(k.ch.Steps)-1, "R-ORDER", "sso:persist-last", k.persist.Pos, "nothing that can fail follows persistence", "a step that can fail follows the persist step")
	}
	r.Min("R-ERR", 12)
}

// checkErrDiscipline (R-ERR) over a set of functions: every fallible call of a module function, closure, storage
// method or standard decoder has its error tested (or handed on untested); the failing branch returns a non-nil
// error / performs one error reply and reaches no success effect. Returns the number of storage call sites seen.
func (cx *Ctx) checkErrDiscipline(r *Report, fns []*ssa.Function) int {
	w, fx := cx.W, cx.Fx
	nStorage := 0
	for _, fn := range fns {
		hasFallible := false
		for _, c := range callsIn(fn) {
			if call, ok := c.(*ssa.Call); ok {
				if _, has, _ := errResult(call); has && cx.errDisciplined(call) {
					hasFallible = true
				}
				if storageMethod(c) != "" {
					nStorage++
				}
			}
		}
		if !hasFallible {
			continue
		}
		cx.checkLoopCarriedError(r, fn)
		cx.checkResultsUsedAfterErrTest(r, fn)
		res := fn.Signature.Results()
		key := w.FuncKey(fn)
		if res.Len() > 0 && isErrorType(res.At(res.Len()-1).Type()) {
			cx.checkErrPropagation(r, "R-ERR", key, fn)
		} else if res.Len() == 0 {
			cx.checkErrReply(r, "R-ERR", key, fn)
		} else {
			// functions with results but no error (e.g. sha1Sum): any fallible call must still be tested
			for _, c := range callsIn(fn) {
				call, ok := c.(*ssa.Call)
				if !ok {
					continue
				}
				e, has, discarded := errResult(call)
				if !has || !cx.errDisciplined(call) {
					continue
				}
				nonNil, tested := fx.errBranches(e)
				bad := ""
				if !discarded && !tested && (fx.nilTestReturned(e) || fx.verdictFormedByHelper(e)) {
					// `return probe(ctx) != nil`: the verdict is handed out as the function's boolean result
					continue
				}
				if discarded || !tested {
					bad = "error of " + calleeName(call) + " ignored in a function that cannot report it"
				} else if aps, okp := fx.atomPaths(fn, 4096); okp {
					// the function cannot report the failure: on the failing branch it may only return zero values
					// (never the sibling results of the failed call or anything computed from them)
					for i := range aps {
						p := &aps[i]
						through := false
						for _, nb := range nonNil {
							if p.Has(nb) {
								through = true
							}
						}
						if !through || p.Ret == nil {
							continue
						}
						for ri := range p.Ret.Results {
							rv := fx.retVal(p, ri)
							if _, isC := rv.(*ssa.Const); isC || constCallResult(rv) != nil {
								continue // a constant verdict / zero value: nothing of the failed call is passed on
							}
							bad = "after " + shortCallee(calleeName(call)) + " failed the function goes on and returns " + fx.path(rv) + " as if nothing had happened (" + w.InstrPos(p.Ret) + ")"
						}
					}
				}
				r.Check(bad == "", "R-ERR", key+":"+shortCallee(calleeName(call)), w.InstrPos(call), "error tested; the failing branch returns only zero values", bad)
			}
		}
	}
	return nStorage
}

// errDisciplineOfHandler: R-ERR over everything reachable from handler hk (steps, callbacks, helpers): a failing
// call must end the step, so that nothing later in the chain works with the results of a call that failed.
func (cx *Ctx) errDisciplineOfHandler(r *Report, hk string) {
	h := cx.W.Func(hk)
	if h == nil {
		return
	}
	cx.checkErrDiscipline(r, cx.W.sortedFuncs(cx.W.scopeOf(h)))
}

// checkRecoverReports: a fallible function that recovers from panics must be able to report the failure: after
// recover() the function returns its result variables as they are - with unnamed results (or named ones the deferred
// function does not set) that is a nil error together with zero values, i.e. "success" with nothing done.
func (cx *Ctx) checkRecoverReports(r *Report, fns map[*ssa.Function]bool) {
	w, fx := cx.W, cx.Fx
	callsRecover := func(f *ssa.Function) bool {
		if f == nil || f.Blocks == nil {
			return false
		}
		for _, c := range callsIn(f) {
			if b, ok := c.Common().Value.(*ssa.Builtin); ok && b.Name() == "recover" {
				return true
			}
		}
		return false
	}
	n := 0
	for _, fn := range w.sortedFuncs(fns) {
		res := fn.Signature.Results()
		if res.Len() == 0 || !isErrorTypeT(res.At(res.Len()-1).Type()) {
			continue
		}
		for _, b := range fn.Blocks {
			for _, in := range b.Instrs {
				d, ok := in.(*ssa.Defer)
				if !ok {
					continue
				}
				var tgt *ssa.Function
				var mc *ssa.MakeClosure
				switch v := d.Call.Value.(type) {
				case *ssa.Function:
					tgt = v
				case *ssa.MakeClosure:
					tgt, _ = v.Fn.(*ssa.Function)
					mc = v
				}
				if !callsRecover(tgt) {
					continue
				}
				n++
				// the deferred closure sets the (named) error result
				sets := false
				if mc != nil && res.At(res.Len()-1).Name() != "" {
					for _, st := range fx.info(tgt).stores {
						if cell := fx.ownerCell(st.Addr); cell != nil && cell.Parent() == fn && cell.Comment == res.At(res.Len()-1).Name() && !isNilConst(st.Val) {
							sets = true
						}
					}
				}
				r.Check(sets, "R-ERR", w.FuncKey(fn)+":recover", w.InstrPos(d), "the recovering deferred function sets the function's error result", w.FuncKey(fn)+" recovers from panics but cannot report them (its error result is unnamed or not set by the deferred function): after a recovered panic it returns a nil error with empty results, and the caller goes on as if the work had been done")
			}
		}
	}
	if n == 0 {
		r.Ok("R-ERR", "#recover", "", "no fallible function on the handlers' paths recovers from panics")
	}
}

// checkResultsUsedAfterErrTest: the other results of a fallible call are dereferenced (method call on, field access
// through, load through) only where the error was found nil. Testing the result itself instead (`if req != nil`) does
// not do: an interface result can hold a typed nil pointer, and a record handed out together with an error is not
// one to act on.
func (cx *Ctx) checkResultsUsedAfterErrTest(r *Report, fn *ssa.Function) {
	w, fx := cx.W, cx.Fx
	for _, c := range callsIn(fn) {
		call, ok := c.(*ssa.Call)
		if !ok {
			continue
		}
		e, has, _ := errResult(call)
		if !has || e == nil || !cx.errDisciplined(call) {
			continue
		}
		if storageMethod(call) == "" {
			if g := calleeOf(call); g == nil || g.Pkg == nil || !isModulePath(g.Pkg.Pkg.Path()) {
				continue
			}
		}
		nilSides := fx.errNilSides(e)
		if len(nilSides) == 0 {
			continue // untested errors are reported by the other R-ERR rules
		}
		for _, ref := range nonDebugRefs(call) {
			ex, isEx := ref.(*ssa.Extract)
			if !isEx || ex == e || !isPtrLike(ex.Type()) {
				continue
			}
			for _, use := range nonDebugRefs(ex) {
				deref := false
				switch u := use.(type) {
				case ssa.CallInstruction:
					deref = u.Common().IsInvoke() && u.Common().Value == ssa.Value(ex)
				case *ssa.FieldAddr:
					deref = u.X == ssa.Value(ex)
				case *ssa.UnOp:
					deref = u.Op == token.MUL && u.X == ssa.Value(ex)
				}
				if !deref {
					continue
				}
				ub := use.Block()
				okDom := false
				for _, nb := range nilSides {
					if len(nb.Preds) == 1 && (nb == ub || nb.Dominates(ub)) {
						okDom = true
					}
				}
				r.Check(okDom, "R-ERR", w.FuncKey(fn)+":"+shortCallee(calleeName(call))+":result-before-error-test", w.InstrPos(use), "used only where the error was found nil", "a result of "+shortCallee(calleeName(call))+" is dereferenced at "+w.InstrPos(use)+" where its error has not been found nil: what comes with an error (a typed nil, an expired record) is acted on")
			}
		}
	}
}

// checkLoopCarriedError (R-ERR): an error variable that lives across the iterations of a loop and decides after it
// (`var err error; for ... { if err = f(); err != nil { log } }; if err != nil { fail }`) must not be overwritten with the
// nil result of a later iteration: the phi of the variable at the loop header may not receive, on a back edge, the
// result of a fallible call on the side where that very result was found nil - while the side where it was found
// non-nil also continues the loop. Then only the last iteration decides and an earlier failure is forgotten.
func (cx *Ctx) checkLoopCarriedError(r *Report, fn *ssa.Function) {
	w, fx := cx.W, cx.Fx
	fi := fx.info(fn)
	for _, b := range fn.Blocks {
		if !fi.reachable(b, b) {
			continue
		}
		for _, in := range b.Instrs {
			phi, ok := in.(*ssa.Phi)
			if !ok || !isErrorType(phi.Type()) {
				continue
			}
			// the variable is tested for nil somewhere (it decides)
			decides := false
			for _, ref := range nonDebugRefs(phi) {
				if bo, isB := ref.(*ssa.BinOp); isB {
					if _, _, isNT := nilTest(bo); isNT {
						decides = true
					}
				}
			}
			if !decides {
				continue
			}
			for i, e := range phi.Edges {
				pred := b.Preds[i]
				if !fi.reachable(b, pred) {
					continue // not a back edge
				}
				var call *ssa.Call
				switch x := e.(type) {
				case *ssa.Call:
					call = x
				case *ssa.Extract:
					call, _ = x.Tuple.(*ssa.Call)
				}
				if call == nil {
					continue
				}
				foundNil := false
				pe := fx.path(e)
				for _, a := range fx.AtomsOnEdge(pred, b) {
					if a.Op == "NIL" && !a.Neg && a.A == pe {
						foundNil = true
					}
				}
				if !foundNil {
					continue
				}
				// ... and the failing side comes back as well
				nonNil, _ := fx.errBranches(e)
				loops := false
				for _, nb := range nonNil {
					if nb != b && fi.reachable(nb, b) && fi.reachable(b, nb) {
						loops = true
					}
				}
				if loops {
					r.Fail("R-ERR", w.FuncKey(fn)+":loop-carried-error", w.InstrPos(call), "the error of "+shortCallee(calleeName(call))+" is kept in a variable that the next iteration overwrites, also with nil: after the loop only the last iteration decides, an earlier failure is forgotten and the success path is taken")
				}
			}
		}
	}
}

package main

import (
	"fmt"
	"go/constant"
	"go/token"
	"go/types"
	"regexp"
	"sort"
	"strings"

	"golang.org/x/tools/go/ssa"
)

// ---------------------------------------------------------------------------
// Access paths: a canonical, object-based rendering of an SSA value, so that two
// loads of the same variable/field chain are recognised as the same thing
// (go/ssa performs no CSE). Roots are parameters, captured cells (resolved to
// the Alloc of the function that owns the variable), locals, globals and call
// results; getter closures (func() T { return x }) are resolved to the cell
// they return.
// ---------------------------------------------------------------------------

type Facts struct {
	w         *World
	loopPaths bool                       // atomPathsTo: also enumerate paths that start at the header of a loop around the target (phis undetermined)
	bindings  map[*ssa.FreeVar]ssa.Value // free variable -> value bound at the MakeClosure site
	closSite  map[*ssa.Function]*ssa.MakeClosure
	pathMemo  map[ssa.Value]string
	allocNm   map[*ssa.Alloc]string
	fi        map[*ssa.Function]*fnInfo
	funcVals  map[ssa.Value][]*ssa.Function // memo for function-value resolution
	argsOf    map[*ssa.Parameter][]ssa.Value
	sumMemo   map[*ssa.Function]*calleeSummary
	ambigName map[string]int             // simple function name -> number of top-level module functions carrying it
	rootType  map[string]string          // "fn/var" root token of an access path -> typed rendering "<T>" / "<#i T>"
	fldStore  map[*types.Var][]ssa.Value // function-typed values stored into struct fields (module-wide, field-based)
	sitesOf   map[*ssa.Function][]ssa.CallInstruction
	addrTaken map[*ssa.Function]bool
	entryMemo map[*ssa.Function][]Atom
	entryBusy map[*ssa.Function]bool
	boxed     map[string]bool
}

func newFacts(w *World) *Facts {
	f := &Facts{w: w, bindings: map[*ssa.FreeVar]ssa.Value{}, closSite: map[*ssa.Function]*ssa.MakeClosure{},
		pathMemo: map[ssa.Value]string{}, allocNm: map[*ssa.Alloc]string{}, fi: map[*ssa.Function]*fnInfo{},
		funcVals: map[ssa.Value][]*ssa.Function{}, argsOf: map[*ssa.Parameter][]ssa.Value{}, rootType: map[string]string{}, fldStore: map[*types.Var][]ssa.Value{}}
	for _, fn := range w.Funcs {
		names := map[string]int{}
		for _, b := range fn.Blocks {
			for _, in := range b.Instrs {
				switch x := in.(type) {
				case *ssa.MakeClosure:
					cf := x.Fn.(*ssa.Function)
					f.closSite[cf] = x
					for i, fv := range cf.FreeVars {
						if i < len(x.Bindings) {
							f.bindings[fv] = x.Bindings[i]
						}
					}
				case *ssa.Store:
					if fa, ok := x.Addr.(*ssa.FieldAddr); ok {
						if _, isSig := x.Val.Type().Underlying().(*types.Signature); isSig {
							fv := fieldVarOf(fa.X.Type(), fa.Field)
							f.fldStore[fv] = append(f.fldStore[fv], x.Val)
						}
					}
				case *ssa.Alloc:
					n := x.Comment
					if n == "" {
						n = "tmp"
					}
					names[n]++
					if names[n] > 1 || n == "complit" || n == "new" || n == "tmp" || n == "varargs" {
						n = fmt.Sprintf("%s~%d", n, names[n])
					}
					f.allocNm[x] = n
				}
			}
		}
	}
	// static call graph of parameters: param <- args (module callees only)
	for _, fn := range w.Funcs {
		for _, b := range fn.Blocks {
			for _, in := range b.Instrs {
				c, ok := in.(ssa.CallInstruction)
				if !ok {
					continue
				}
				cal := calleeOf(c)
				if cal == nil || cal.Blocks == nil {
					continue
				}
				args := c.Common().Args
				for i, p := range cal.Params {
					if i < len(args) {
						f.argsOf[p] = append(f.argsOf[p], args[i])
					}
				}
			}
		}
	}
	return f
}

// ownerCell resolves an address value (FreeVar / Alloc) to the Alloc that owns
// the variable, following closure bindings. Returns nil if not a simple cell.
func (f *Facts) ownerCell(v ssa.Value) *ssa.Alloc {
	for i := 0; i < 20; i++ {
		switch x := v.(type) {
		case *ssa.Alloc:
			return x
		case *ssa.FreeVar:
			b, ok := f.bindings[x]
			if !ok {
				return nil
			}
			v = b
		case *ssa.Parameter:
			// a pointer to a variable of the (only) caller: `func addSteps(..., err *error)` called with `&err`
			if a := f.cellArgOf(x); a != nil {
				return a
			}
			return nil
		case *ssa.UnOp:
			// the pointer parameter spilled into a cell of its own because closures capture it
			if x.Op != token.MUL {
				return nil
			}
			var pc *ssa.Alloc
			switch y := x.X.(type) {
			case *ssa.Alloc:
				pc = y
			case *ssa.FreeVar:
				if b, ok := f.bindings[y]; ok {
					pc, _ = b.(*ssa.Alloc)
					if pc == nil {
						if fv2, ok := b.(*ssa.FreeVar); ok {
							pc = f.ownerCell(fv2)
						}
					}
				}
			}
			if pc == nil {
				return nil
			}
			var par *ssa.Parameter
			n := 0
			for _, ref := range nonDebugRefs(pc) {
				if st, ok := ref.(*ssa.Store); ok && st.Addr == ssa.Value(pc) {
					n++
					par, _ = st.Val.(*ssa.Parameter)
				}
			}
			if n != 1 || par == nil {
				return nil
			}
			return f.cellArgOf(par)
		default:
			return nil
		}
	}
	return nil
}

// cellArgOf: the parameter is a pointer that its function's only caller fills with the address of one of its own
// variables: that variable.
func (f *Facts) cellArgOf(p *ssa.Parameter) *ssa.Alloc {
	if _, isPtr := p.Type().Underlying().(*types.Pointer); !isPtr {
		return nil
	}
	args := f.argsOf[p]
	if len(args) != 1 {
		return nil
	}
	switch a := args[0].(type) {
	case *ssa.Alloc:
		if _, isStruct := a.Type().Underlying().(*types.Pointer).Elem().Underlying().(*types.Struct); isStruct {
			return nil // a pointer to an object, not to a variable
		}
		return a
	case *ssa.FreeVar:
		return f.ownerCell(a)
	}
	return nil
}

func (f *Facts) cellName(a *ssa.Alloc) string {
	n := f.allocNm[a]
	if n == "" {
		n = a.Comment
	}
	return n
}

// funcTargets resolves a function-typed value to the set of functions it may
// denote, following parameters to their arguments, free variables to their
// bindings, and factory calls to the closures they return. ok=false if some
// source could not be resolved.
func (f *Facts) funcTargets(v ssa.Value) (out []*ssa.Function, ok bool) {
	seen := map[ssa.Value]bool{}
	ok = true
	var walk func(v ssa.Value)
	walk = func(v ssa.Value) {
		if seen[v] {
			return
		}
		seen[v] = true
		switch x := v.(type) {
		case *ssa.Function:
			out = append(out, canon(x))
		case *ssa.MakeClosure:
			out = append(out, x.Fn.(*ssa.Function))
		case *ssa.Parameter:
			args := f.argsOf[x]
			if len(args) == 0 {
				ok = false
			}
			for _, a := range args {
				walk(a)
			}
		case *ssa.FreeVar:
			// captured by reference: the cell's content = everything stored to it
			if b, has := f.bindings[x]; has {
				walk(b)
			} else {
				ok = false
			}
		case *ssa.Field:
			// closure kept in a struct field: every function value stored into that field (field-based)
			st := f.fldStore[x.X.Type().Underlying().(*types.Struct).Field(x.Field)]
			if len(st) == 0 {
				ok = false
			}
			for _, s := range st {
				walk(s)
			}
		case *ssa.UnOp:
			if x.Op == token.MUL {
				if fa, isFA := x.X.(*ssa.FieldAddr); isFA {
					st := f.fldStore[fieldVarOf(fa.X.Type(), fa.Field)]
					if len(st) == 0 {
						ok = false
					}
					for _, s := range st {
						walk(s)
					}
					return
				}
				// a package-level function variable (`var sha1Sum = hashSum(sha1.New)`): what is stored into it
				if g, isG := x.X.(*ssa.Global); isG {
					n := 0
					for _, fn := range f.w.Funcs {
						for _, st := range f.info(fn).stores {
							if st.Addr == ssa.Value(g) {
								n++
								walk(st.Val)
							}
						}
					}
					if n == 0 {
						ok = false
					}
					return
				}
				// load of a cell: collect stores to the owning alloc
				if cell := f.ownerCell(x.X); cell != nil {
					st := f.storesToCell(cell)
					if len(st) == 0 {
						ok = false
					}
					for _, s := range st {
						walk(s)
					}
					return
				}
			}
			ok = false
		case *ssa.Alloc:
			// a cell used as binding: its contents
			st := f.storesToCell(x)
			if len(st) == 0 {
				ok = false
			}
			for _, s := range st {
				walk(s)
			}
		case *ssa.Phi:
			for _, e := range x.Edges {
				walk(e)
			}
		case *ssa.ChangeType:
			walk(x.X)
		case *ssa.Call:
			cal := calleeOf(x)
			if cal == nil || cal.Blocks == nil {
				ok = false
				return
			}
			for _, b := range cal.Blocks {
				for _, in := range b.Instrs {
					if r, isRet := in.(*ssa.Return); isRet && len(r.Results) > 0 {
						walk(r.Results[0])
					}
				}
			}
		case *ssa.Extract:
			if c, isCall := x.Tuple.(*ssa.Call); isCall {
				cal := calleeOf(c)
				if cal == nil || cal.Blocks == nil {
					ok = false
					return
				}
				for _, b := range cal.Blocks {
					for _, in := range b.Instrs {
						if r, isRet := in.(*ssa.Return); isRet && len(r.Results) > x.Index {
							walk(r.Results[x.Index])
						}
					}
				}
				return
			}
			ok = false
		case *ssa.Const:
			// nil function value: no target
		default:
			ok = false
		}
	}
	walk(v)
	return out, ok
}

// storesToCell lists the values stored into the variable owned by alloc a, in
// its function and in every closure that captures it.
func (f *Facts) storesToCell(a *ssa.Alloc) []ssa.Value {
	var out []ssa.Value
	var scan func(fn *ssa.Function)
	scan = func(fn *ssa.Function) {
		for _, b := range fn.Blocks {
			for _, in := range b.Instrs {
				if s, ok := in.(*ssa.Store); ok {
					if f.ownerCell(s.Addr) == a {
						out = append(out, s.Val)
					}
				}
			}
		}
		for _, an := range fn.AnonFuncs {
			scan(an)
		}
	}
	if a.Parent() != nil {
		scan(a.Parent())
		// functions the variable's address is handed to (step-registration helpers taking `&err`): their stores
		// through the pointer parameter are stores to the variable
		seenFn := map[*ssa.Function]bool{a.Parent(): true}
		for _, ref := range nonDebugRefs(a) {
			c, ok := ref.(ssa.CallInstruction)
			if !ok {
				continue
			}
			if g := calleeOf(c); g != nil && g.Blocks != nil && !seenFn[g] && g.Pkg == a.Parent().Pkg {
				seenFn[g] = true
				scan(g)
			}
		}
	}
	return out
}

// getterCell: if fn is a parameterless closure whose every return is a plain
// load of one captured cell (func() T { return x }), return that cell's Alloc
// and the extra field path (e.g. ".Signature") applied before returning.
func (f *Facts) getterResult(fn *ssa.Function) (string, bool) {
	if fn == nil || len(fn.Params) != 0 || fn.Signature.Results().Len() != 1 || len(fn.Blocks) != 1 {
		return "", false
	}
	for _, in := range fn.Blocks[0].Instrs {
		switch x := in.(type) {
		case *ssa.Return:
			p := f.path(x.Results[0])
			if strings.HasPrefix(p, "call@") || strings.Contains(p, "(") {
				return "", false
			}
			return p, true
		case *ssa.UnOp, *ssa.FieldAddr, *ssa.Field, *ssa.DebugRef, *ssa.ChangeType:
		default:
			return "", false
		}
	}
	return "", false
}

// path renders the canonical access path of v. Address-valued expressions are
// prefixed with "&".
func (f *Facts) path(v ssa.Value) string {
	if p, ok := f.pathMemo[v]; ok {
		return p
	}
	f.pathMemo[v] = fmt.Sprintf("rec@%p", v)
	p := f.path0(v)
	f.pathMemo[v] = p
	return p
}

// fieldLoadAlias: v is the load of a field path (`conditions := request.Conditions`): a variable assigned exactly
// once from it names the same thing.
func (f *Facts) fieldLoadAlias(v ssa.Value) (string, bool) {
	ld, ok := v.(*ssa.UnOp)
	if !ok || ld.Op != token.MUL {
		return "", false
	}
	if _, ok := ld.X.(*ssa.FieldAddr); !ok {
		return "", false
	}
	p := f.path(ld)
	if strings.HasPrefix(p, "call@") || strings.HasPrefix(p, "rec@") || strings.Contains(p, "rec@") {
		return "", false
	}
	return p, true
}

func deref(p string) string {
	if strings.HasPrefix(p, "&") {
		return p[1:]
	}
	return "*" + p
}

func (f *Facts) path0(v ssa.Value) string {
	switch x := v.(type) {
	case *ssa.Const:
		if x.Value == nil {
			if isNilable(x.Type()) {
				return "nil"
			}
			return "zero"
		}
		if x.Value.Kind() == constant.String {
			return "const:" + constant.StringVal(x.Value)
		}
		return "const:" + x.Value.ExactString()
	case *ssa.Parameter:
		tok := f.fnTok(x.Parent()) + "/" + x.Name()
		if _, ok := f.rootType[tok]; !ok {
			idx := 0
			for i, p := range x.Parent().Params {
				if p == x {
					idx = i
				}
			}
			if namedOf(x.Type()) != nil {
				f.rootType[tok] = "<" + typeKey(x.Type()) + ">"
			} else {
				f.rootType[tok] = fmt.Sprintf("<#%d %s>", idx, shortType(x.Type()))
			}
		}
		return tok
	case *ssa.FreeVar:
		if cell := f.ownerCell(x); cell != nil {
			f.noteCell(cell)
			return "&" + f.fnTok(cell.Parent()) + "/" + f.cellName(cell)
		}
		return "&" + f.fnTok(x.Parent()) + "/fv:" + x.Name()
	case *ssa.Alloc:
		f.noteCell(x)
		return "&" + f.fnTok(x.Parent()) + "/" + f.cellName(x)
	case *ssa.Global:
		return "&global:" + shortPkg(x.Pkg.Pkg.Path()) + "." + x.Name()
	case *ssa.UnOp:
		switch x.Op {
		case token.MUL:
			// a local variable assigned exactly once (x := getter()) is an alias of what it was assigned
			if cell, ok := x.X.(*ssa.Alloc); ok {
				if st := f.storesToCell(cell); len(st) == 1 {
					if _, isCall := st[0].(*ssa.Call); isCall {
						if p := f.path(st[0]); !strings.HasPrefix(p, "call@") && !strings.HasPrefix(p, "rec@") {
							return p
						}
					}
					if p, ok := f.fieldLoadAlias(st[0]); ok {
						return p
					}
				}
			}
			if fv, ok := x.X.(*ssa.FreeVar); ok {
				if cell := f.ownerCell(fv); cell != nil {
					if st := f.storesToCell(cell); len(st) == 1 {
						if _, isCall := st[0].(*ssa.Call); isCall {
							if p := f.path(st[0]); !strings.HasPrefix(p, "call@") && !strings.HasPrefix(p, "rec@") {
								return p
							}
						}
						if p, ok := f.fieldLoadAlias(st[0]); ok {
							return p
						}
					}
				}
			}
			return deref(f.path(x.X))
		case token.NOT:
			return "!" + f.path(x.X)
		}
		return x.Op.String() + f.path(x.X)
	case *ssa.FieldAddr:
		st := x.X.Type().Underlying().(*types.Pointer).Elem().Underlying().(*types.Struct)
		return "&" + strings.TrimPrefix(f.path(x.X), "&") + "." + fname(st.Field(x.Field))
	case *ssa.Field:
		st := x.X.Type().Underlying().(*types.Struct)
		return f.path(x.X) + "." + fname(st.Field(x.Field))
	case *ssa.IndexAddr:
		return "&" + strings.TrimPrefix(f.path(x.X), "&") + "[" + f.path(x.Index) + "]"
	case *ssa.Index:
		return f.path(x.X) + "[" + f.path(x.Index) + "]"
	case *ssa.Lookup:
		return f.path(x.X) + "[" + f.path(x.Index) + "]"
	case *ssa.Extract:
		return f.path(x.Tuple) + "#" + fmt.Sprint(x.Index)
	case *ssa.ChangeType:
		return f.path(x.X)
	case *ssa.Convert:
		return f.path(x.X)
	case *ssa.MakeInterface:
		return f.path(x.X)
	case *ssa.ChangeInterface:
		return f.path(x.X)
	case *ssa.Slice:
		return strings.TrimPrefix(f.path(x.X), "&") + "[:]"
	case *ssa.TypeAssert:
		return "assert(" + f.path(x.X) + ")"
	case *ssa.Function:
		return "func:" + f.w.FuncKey(x)
	case *ssa.MakeClosure:
		return "func:" + f.w.FuncKey(x.Fn.(*ssa.Function))
	case *ssa.BinOp:
		return "(" + f.path(x.X) + x.Op.String() + f.path(x.Y) + ")"
	case *ssa.Call:
		// builtin len
		if b, ok := x.Call.Value.(*ssa.Builtin); ok && len(x.Call.Args) == 1 {
			return b.Name() + "(" + f.path(x.Call.Args[0]) + ")"
		}
		// getter closure?
		if !x.Call.IsInvoke() && len(x.Call.Args) == 0 {
			if _, isFn := x.Call.Value.(*ssa.Function); !isFn {
				if tg, ok := f.funcTargets(x.Call.Value); ok && len(tg) == 1 {
					if p, ok := f.getterResult(tg[0]); ok {
						return p
					}
				}
			}
		}
		return fmt.Sprintf("call@%s:%s", f.w.Pos(x.Pos()), shortCallee(calleeName(x)))
	case *ssa.Phi:
		return fmt.Sprintf("phi@%s/%s", f.fnTok(x.Parent()), x.Name())
	case *ssa.Next:
		return fmt.Sprintf("next@%s/%s", f.fnTok(x.Parent()), x.Name())
	case *ssa.Range:
		return "range(" + f.path(x.X) + ")"
	case *ssa.MakeSlice, *ssa.MakeMap, *ssa.MakeChan:
		return fmt.Sprintf("make@%s/%s", f.fnTok(v.Parent()), v.Name())
	}
	return fmt.Sprintf("%T@%s", v, v.Name())
}

func shortCallee(n string) string {
	if i := strings.LastIndex(n, "/"); i >= 0 {
		pre := ""
		switch {
		case strings.HasPrefix(n, "iface:"):
			pre = "iface:"
		case strings.HasPrefix(n, "(*"):
			pre = "(*"
		case strings.HasPrefix(n, "("):
			pre = "("
		}
		return pre + n[i+1:]
	}
	return n
}

func isNilable(t types.Type) bool {
	switch t.Underlying().(type) {
	case *types.Pointer, *types.Interface, *types.Slice, *types.Map, *types.Signature, *types.Chan:
		return true
	}
	return false
}

// ---------------------------------------------------------------------------
// Atoms: canonical branch conditions.
// ---------------------------------------------------------------------------

type Atom struct {
	Op     string // NIL EMPTY EQ LT LE TRUE
	A, B   string
	TA, TB string // A and B with root variables replaced by their types (see Facts.T)
	Neg    bool
	Cond   ssa.Value
	Val    ssa.Value // for a NIL atom made without a test in the code (a handed-on error): the value it speaks about
}

func (a Atom) String() string {
	s := a.Op + "(" + a.A
	if a.B != "" {
		s += "," + a.B
	}
	s += ")"
	if a.Neg {
		return "!" + s
	}
	return s
}

func (a Atom) Not() Atom { a.Neg = !a.Neg; return a }

// atomOf canonicalises a boolean SSA value taken with the given polarity.
func (f *Facts) atomOf(c ssa.Value, pol bool) Atom {
	a := f.atomOf0(c, pol)
	a.TA, a.TB = f.T(a.A), f.T(a.B)
	return a
}

func (f *Facts) atomOf0(c ssa.Value, pol bool) Atom {
	switch x := c.(type) {
	case *ssa.UnOp:
		if x.Op == token.NOT {
			return f.atomOf(x.X, !pol)
		}
	case *ssa.BinOp:
		a, b := f.path(x.X), f.path(x.Y)
		switch x.Op {
		case token.EQL, token.NEQ:
			neg := (x.Op == token.NEQ) == pol // EQL&&pol -> not neg ; NEQ&&pol -> neg
			if x.Op == token.EQL {
				neg = !pol
			} else {
				neg = pol
			}
			if b == "nil" || a == "nil" {
				o := a
				if a == "nil" {
					o = b
				}
				return Atom{Op: "NIL", A: o, Neg: neg, Cond: c}
			}
			if b == "const:" || a == "const:" {
				o := a
				if a == "const:" {
					o = b
				}
				return Atom{Op: "EMPTY", A: o, Neg: neg, Cond: c}
			}
			if strings.HasPrefix(a, "len(") && b == "const:0" {
				return Atom{Op: "EMPTY", A: a[4 : len(a)-1], Neg: neg, Cond: c}
			}
			if strings.HasPrefix(b, "len(") && a == "const:0" {
				return Atom{Op: "EMPTY", A: b[4 : len(b)-1], Neg: neg, Cond: c}
			}
			if a > b {
				a, b = b, a
			}
			return Atom{Op: "EQ", A: a, B: b, Neg: neg, Cond: c}
		case token.LSS, token.GTR, token.LEQ, token.GEQ:
			// normalise to LT/LE with possible negation: a<b ; a>b == b<a ; a<=b == !(b<a) ; a>=b == !(a<b)
			op := x.Op
			if op == token.GTR {
				a, b = b, a
				op = token.LSS
			}
			if op == token.GEQ {
				a, b = b, a
				op = token.LEQ
			}
			if op == token.LSS {
				// len(x) < 1, 0 < len(x)
				if strings.HasPrefix(a, "len(") && b == "const:1" {
					return Atom{Op: "EMPTY", A: a[4 : len(a)-1], Neg: !pol, Cond: c}
				}
				if a == "const:0" && strings.HasPrefix(b, "len(") {
					return Atom{Op: "EMPTY", A: b[4 : len(b)-1], Neg: pol, Cond: c}
				}
				return Atom{Op: "LT", A: a, B: b, Neg: !pol, Cond: c}
			}
			// a <= b  ==  !(b < a)
			if strings.HasPrefix(a, "len(") && b == "const:0" {
				return Atom{Op: "EMPTY", A: a[4 : len(a)-1], Neg: !pol, Cond: c}
			}
			if a == "const:1" && strings.HasPrefix(b, "len(") {
				return Atom{Op: "EMPTY", A: b[4 : len(b)-1], Neg: pol, Cond: c}
			}
			return Atom{Op: "LT", A: b, B: a, Neg: pol, Cond: c}
		}
	case *ssa.Call:
		name := calleeName(x)
		var args []string
		if x.Call.IsInvoke() {
			args = append(args, f.path(x.Call.Value))
		}
		for _, a := range x.Call.Args {
			args = append(args, f.path(a))
		}
		return Atom{Op: "CALL:" + shortCallee(name), A: strings.Join(args, ";"), Neg: !pol, Cond: c}
	}
	return Atom{Op: "TRUE", A: f.path(c), Neg: !pol, Cond: c}
}

// ---------------------------------------------------------------------------
// Per-function control facts.
// ---------------------------------------------------------------------------

type edgeFact struct {
	Cond ssa.Value
	Pol  bool
	From *ssa.BasicBlock // the block whose If established it
	At   *ssa.BasicBlock // first block where it holds
}

type fnInfo struct {
	fn     *ssa.Function
	facts  map[*ssa.BasicBlock][]edgeFact // facts holding on entry of the block (via dominating edges)
	reach  map[*ssa.BasicBlock]map[*ssa.BasicBlock]bool
	stores []*ssa.Store
}

func (f *Facts) info(fn *ssa.Function) *fnInfo {
	if fi, ok := f.fi[fn]; ok {
		return fi
	}
	fi := &fnInfo{fn: fn, facts: map[*ssa.BasicBlock][]edgeFact{}, reach: map[*ssa.BasicBlock]map[*ssa.BasicBlock]bool{}}
	f.fi[fn] = fi
	for _, b := range fn.Blocks {
		for _, in := range b.Instrs {
			if s, ok := in.(*ssa.Store); ok {
				fi.stores = append(fi.stores, s)
			}
		}
	}
	// own edge fact of each block
	own := map[*ssa.BasicBlock][]edgeFact{}
	for _, b := range fn.Blocks {
		if len(b.Instrs) == 0 {
			continue
		}
		ifi, ok := b.Instrs[len(b.Instrs)-1].(*ssa.If)
		if !ok || b.Succs[0] == b.Succs[1] {
			continue
		}
		for k, s := range b.Succs {
			if len(s.Preds) == 1 {
				own[s] = append(own[s], edgeFact{ifi.Cond, k == 0, b, s})
			}
		}
	}
	// Join blocks: a block all of whose predecessors carry a common fact (e.g. the
	// join after `if a || b`): intersect the facts of the predecessors' exits.
	// Handled below by a forward dataflow to a fixpoint (facts only shrink).
	type fset map[string]edgeFact
	key := func(e edgeFact) string { return fmt.Sprintf("%p/%v", e.Cond, e.Pol) }
	in := map[*ssa.BasicBlock]fset{}
	top := map[*ssa.BasicBlock]bool{} // not yet computed = top
	for _, b := range fn.Blocks {
		top[b] = true
	}
	if len(fn.Blocks) > 0 {
		in[fn.Blocks[0]] = fset{}
		top[fn.Blocks[0]] = false
	}
	changed := true
	for iter := 0; changed && iter < 200; iter++ {
		changed = false
		for _, b := range fn.Blocks {
			if b == fn.Blocks[0] {
				continue
			}
			var acc fset
			first := true
			for _, p := range b.Preds {
				if top[p] {
					continue
				}
				// facts at exit of p along edge p->b
				out := fset{}
				for k, e := range in[p] {
					out[k] = e
				}
				if len(p.Instrs) > 0 {
					if ifi, ok := p.Instrs[len(p.Instrs)-1].(*ssa.If); ok && p.Succs[0] != p.Succs[1] {
						pol := p.Succs[0] == b
						e := edgeFact{ifi.Cond, pol, p, b}
						out[key(e)] = e
					}
				}
				if first {
					acc = out
					first = false
				} else {
					for k := range acc {
						if _, ok := out[k]; !ok {
							delete(acc, k)
						}
					}
				}
			}
			if first {
				continue
			}
			if top[b] || len(acc) != len(in[b]) {
				in[b] = acc
				top[b] = false
				changed = true
			}
		}
	}
	for b, s := range in {
		keys := make([]string, 0, len(s))
		for k := range s {
			keys = append(keys, k)
		}
		sort.Strings(keys)
		for _, k := range keys {
			fi.facts[b] = append(fi.facts[b], s[k])
		}
	}
	_ = own
	return fi
}

func (fi *fnInfo) reachable(from, to *ssa.BasicBlock) bool {
	m, ok := fi.reach[from]
	if !ok {
		m = map[*ssa.BasicBlock]bool{}
		var dfs func(b *ssa.BasicBlock)
		dfs = func(b *ssa.BasicBlock) {
			for _, s := range b.Succs {
				if !m[s] {
					m[s] = true
					dfs(s)
				}
			}
		}
		dfs(from)
		fi.reach[from] = m
	}
	return m[to]
}

// AtomsAt returns the atoms known to hold on every path reaching instruction at.
// A fact about an access path is dropped when the function may store to a
// prefix of that path between the test and the use.
func (f *Facts) AtomsAt(at ssa.Instruction) []Atom {
	b := at.Block()
	fi := f.info(b.Parent())
	var out []Atom
	for _, e := range fi.facts[b] {
		a := f.atomOf(e.Cond, e.Pol)
		if f.killed(fi, a, e, at) {
			continue
		}
		out = append(out, a)
	}
	out = append(out, f.entryAtomsAt(b.Parent(), at)...)
	return f.expandAtoms(out)
}

func (f *Facts) AtomsAtBlock(b *ssa.BasicBlock) []Atom {
	if len(b.Instrs) == 0 {
		return nil
	}
	return f.AtomsAt(b.Instrs[0])
}

func instrIndex(in ssa.Instruction) int {
	for i, x := range in.Block().Instrs {
		if x == in {
			return i
		}
	}
	return -1
}

func (f *Facts) killed(fi *fnInfo, a Atom, e edgeFact, at ssa.Instruction) bool {
	if a.Op == "TRUE" || strings.HasPrefix(a.Op, "CALL:") {
		return false
	}
	for _, s := range fi.stores {
		sp := strings.TrimPrefix(f.path(s.Addr), "&")
		if sp == "" {
			continue
		}
		hit := false
		for _, p := range []string{a.A, a.B} {
			if p == "" {
				continue
			}
			if p == sp || strings.HasPrefix(p, sp+".") || strings.HasPrefix(p, sp+"[") {
				hit = true
			}
		}
		if !hit {
			continue
		}
		sb := s.Block()
		// is the store between the fact's establishment (e.At) and the use, on a path that does not
		// re-establish the fact (i.e. does not take the edge e.From -> e.At again)?
		afterFact := sb == e.At || reachAvoiding(e.At, sb, e.From, e.At)
		var beforeUse bool
		if sb == at.Block() {
			beforeUse = instrIndex(s) < instrIndex(at) || reachAvoiding(sb, sb, e.From, e.At)
		} else {
			beforeUse = reachAvoiding(sb, at.Block(), e.From, e.At)
		}
		if afterFact && beforeUse {
			return true
		}
	}
	return false
}

func hasAtom(atoms []Atom, op, a string, neg bool) bool {
	for _, x := range atoms {
		if x.Op == op && x.A == a && x.Neg == neg {
			return true
		}
	}
	return false
}

func atomStrings(atoms []Atom) []string {
	var s []string
	for _, a := range atoms {
		s = append(s, a.String())
	}
	sort.Strings(s)
	return s
}

// returnsOf lists the Return instructions of fn.
func returnsOf(fn *ssa.Function) []*ssa.Return {
	var out []*ssa.Return
	for _, b := range fn.Blocks {
		for _, in := range b.Instrs {
			if r, ok := in.(*ssa.Return); ok {
				out = append(out, r)
			}
		}
	}
	return out
}

func isNilConst(v ssa.Value) bool {
	c, ok := v.(*ssa.Const)
	return ok && c.Value == nil && isNilable(c.Type())
}

// callsIn lists call instructions (incl. defer/go) in fn.
func callsIn(fn *ssa.Function) []ssa.CallInstruction {
	var out []ssa.CallInstruction
	for _, b := range fn.Blocks {
		for _, in := range b.Instrs {
			if c, ok := in.(ssa.CallInstruction); ok {
				out = append(out, c)
			}
		}
	}
	return out
}

// reachAvoiding: is `to` reachable from `from` (one or more edges) without traversing the edge a->b?
func reachAvoiding(from, to, a, b *ssa.BasicBlock) bool {
	seen := map[*ssa.BasicBlock]bool{}
	var dfs func(x *ssa.BasicBlock) bool
	dfs = func(x *ssa.BasicBlock) bool {
		for _, s := range x.Succs {
			if x == a && s == b {
				continue
			}
			if s == to {
				return true
			}
			if !seen[s] {
				seen[s] = true
				if dfs(s) {
					return true
				}
			}
		}
		return false
	}
	return dfs(from)
}

func fieldVarOf(t types.Type, idx int) *types.Var {
	if p, ok := t.Underlying().(*types.Pointer); ok {
		t = p.Elem()
	}
	return t.Underlying().(*types.Struct).Field(idx)
}

// shortType renders a type with package names instead of import paths.
func shortType(t types.Type) string {
	return types.TypeString(t, func(p *types.Package) string { return p.Name() })
}

func (f *Facts) noteCell(cell *ssa.Alloc) {
	tok := f.fnTok(cell.Parent()) + "/" + f.cellName(cell)
	if _, ok := f.rootType[tok]; ok {
		return
	}
	et := cell.Type().Underlying().(*types.Pointer).Elem()
	// a local that spills a parameter is rendered like the parameter
	for i, p := range cell.Parent().Params {
		if p.Name() == cell.Comment && namedOf(et) == nil {
			f.rootType[tok] = fmt.Sprintf("<#%d %s>", i, shortType(et))
			return
		}
	}
	if namedOf(et) != nil {
		f.rootType[tok] = "<" + typeKey(et) + ">"
	} else {
		f.rootType[tok] = "<" + shortType(et) + ">"
	}
}

var rootTokRe = regexp.MustCompile(`[A-Za-z_][\w$]*/[A-Za-z_][\w~]*`)

// T renders an access path with its root variables replaced by their types ("<samlp.AuthnRequestType>.Issuer.Text",
// "<#1 string>" for a parameter of basic type): rules match on this form, so renaming a local variable or a
// parameter does not change a verdict.
func (f *Facts) T(p string) string {
	return rootTokRe.ReplaceAllStringFunc(p, func(tok string) string {
		if t, ok := f.rootType[tok]; ok {
			return t
		}
		return tok
	})
}

// ---------------------------------------------------------------------------
// Callee guard summaries: a guard that was moved into a helper still counts.
// If a path tested the result of a module function g - `if err := g(x); err != nil { return }`, `if !ok(x) {...}` -
// then on the passing side every atom that holds on all success returns of g (nil error / true) holds too,
// with g's parameters replaced by the arguments of the call. Summaries are intersections over g's own
// success paths (themselves expanded, two levels deep).
// ---------------------------------------------------------------------------

type calleeSummary struct {
	onSuccess, onFailure []Atom   // typed atoms over the callee's parameter renderings
	succAlts, failAlts   [][]Atom // the same before intersecting: one set per path of the callee with that outcome
	paramRoot            []string
	ambiguous            bool
}

func (f *Facts) summaryOf(g *ssa.Function, depth int) *calleeSummary {
	if f.sumMemo == nil {
		f.sumMemo = map[*ssa.Function]*calleeSummary{}
	}
	if s, ok := f.sumMemo[g]; ok {
		return s
	}
	s := &calleeSummary{}
	f.sumMemo[g] = s // cut recursion
	if g.Blocks == nil || depth > 2 {
		s.ambiguous = true
		return s
	}
	seen := map[string]bool{}
	untyped := false
	for _, p := range g.Params {
		f.path(p) // registers the root rendering
		r := f.T(f.fnTok(p.Parent()) + "/" + p.Name())
		if seen[r] {
			// two parameters of one type (`isQueried(attr, queried *Attribute)`): rendered by type they are one; the
			// summary is then kept over the parameters' own names
			untyped = true
		}
		seen[r] = true
		s.paramRoot = append(s.paramRoot, r)
	}
	if untyped {
		s.paramRoot = nil
		for _, p := range g.Params {
			s.paramRoot = append(s.paramRoot, f.fnTok(p.Parent())+"/"+p.Name())
		}
		// (a name that is the prefix of another would be replaced inside it)
		for i, a := range s.paramRoot {
			for j, b := range s.paramRoot {
				if i != j && strings.HasPrefix(b, a) {
					s.ambiguous = true
				}
			}
		}
	}
	res := g.Signature.Results()
	if res.Len() == 0 {
		s.ambiguous = true
		return s
	}
	last := res.At(res.Len() - 1).Type()
	isErr := isErrorTypeT(last)
	isBool := last.String() == "bool" // (possibly the last of several results: `data, ok := f()`)
	if !isErr && !isBool {
		s.ambiguous = true
		return s
	}
	ps, ok := enumPaths(g, nil, 2048)
	if !ok {
		s.ambiguous = true
		return s
	}
	var succ, fail [][]Atom
	for _, p := range ps {
		if !p.feasible() {
			continue
		}
		ap := APath{Path: p, Ret: p.Return()}
		for _, c := range p.Conds {
			ap.Atoms = append(ap.Atoms, f.atomOf(c.Cond, c.Pol))
		}
		var feas bool
		if ap.Atoms, feas = f.substAtoms(&ap.Path, ap.Atoms); !feas {
			continue
		}
		ap.Atoms = f.expandAtomsDepth(ap.Atoms, depth+1)
		if ap.Ret == nil {
			continue
		}
		rv := f.retValOf(&ap, res.Len()-1)
		switch {
		case isErr:
			isNil, nonNil := f.errNilness(&ap, rv)
			if isNilConst(rv) || isNil {
				succ = append(succ, ap.Atoms)
			} else if isFreshErrorV(rv) || nonNil {
				fail = append(fail, ap.Atoms)
			} else {
				// unknown nil-ness (`return other(x)`, `return data, err`): the path reports success exactly when the
				// value handed on is nil - each side gets that fact, expanded in turn
				na := Atom{Op: "NIL", A: f.path(rv), Val: rv}
				na.TA = f.T(na.A)
				if na.A == "" {
					succ = append(succ, ap.Atoms)
					fail = append(fail, ap.Atoms)
				} else {
					succ = append(succ, append(append([]Atom(nil), ap.Atoms...), f.expandAtomsDepth([]Atom{na}, depth+1)...))
					fail = append(fail, append(append([]Atom(nil), ap.Atoms...), f.expandAtomsDepth([]Atom{na.Not()}, depth+1)...))
				}
			}
		case isBool:
			if c, isC := rv.(*ssa.Const); isC && c.Value != nil {
				if c.Value.ExactString() == "true" {
					succ = append(succ, ap.Atoms)
				} else {
					fail = append(fail, ap.Atoms)
				}
			} else {
				// the returned condition itself: true side gets the atom, false side its negation
				// (expanded in turn: `return slices.ContainsFunc(list, pred)` / `return other(x)`)
				succ = append(succ, append(append([]Atom(nil), ap.Atoms...), f.expandAtomsDepth([]Atom{f.atomOf(rv, true)}, depth+1)...))
				fail = append(fail, append(append([]Atom(nil), ap.Atoms...), f.expandAtomsDepth([]Atom{f.atomOf(rv, false)}, depth+1)...))
			}
		}
	}
	if untyped {
		for _, sets := range [][][]Atom{succ, fail} {
			for _, set := range sets {
				for i := range set {
					set[i].TA, set[i].TB = set[i].A, set[i].B
				}
			}
		}
	}
	s.onSuccess = intersectAtoms(succ)
	s.onFailure = intersectAtoms(fail)
	s.succAlts, s.failAlts = succ, fail
	return s
}

// callOfAtom: the module call whose outcome the atom states (a nil test of its error, its boolean result, or the call
// used as a condition), and whether the atom states the successful outcome.
func (f *Facts) callOfAtom(a Atom) (call *ssa.Call, success bool) {
	switch {
	case a.Op == "NIL":
		x, _, ok := nilTest(a.Cond)
		if !ok {
			if a.Val == nil {
				return nil, false
			}
			x = a.Val
		}
		switch y := x.(type) {
		case *ssa.Call:
			call = y
		case *ssa.Extract:
			if c, isC := y.Tuple.(*ssa.Call); isC && y.Index == c.Call.Signature().Results().Len()-1 {
				call = c
			}
		}
		if call != nil && !isErrorTypeT(call.Call.Signature().Results().At(call.Call.Signature().Results().Len()-1).Type()) {
			call = nil
		}
		success = !a.Neg
	case a.Op == "TRUE":
		if ex, isE := stripNot(a.Cond).(*ssa.Extract); isE {
			if c, isC := ex.Tuple.(*ssa.Call); isC && ex.Index == c.Call.Signature().Results().Len()-1 && ex.Index > 0 {
				if bt, isB := c.Call.Signature().Results().At(ex.Index).Type().Underlying().(*types.Basic); isB && bt.Kind() == types.Bool {
					call = c
					success = !a.Neg
				}
			}
		}
	case strings.HasPrefix(a.Op, "CALL:"):
		call, _ = stripNot(a.Cond).(*ssa.Call)
		success = !a.Neg
	}
	if call == nil {
		return nil, false
	}
	g := calleeOf(call)
	if g == nil || g.Blocks == nil || g.Pkg == nil || !isModulePath(g.Pkg.Pkg.Path()) || isMockPath(g.Pkg.Pkg.Path()) {
		return nil, false
	}
	return call, success
}

// altExpansions: a condition moved into a helper that decides by a disjunction (`return use == "" || use == signing`)
// has no fact common to all of its true returns - the intersection summary says nothing. The alternatives do: the
// atom sets the given atoms stand for once every outcome of a module predicate / fallible helper among them is
// replaced by one of the callee's paths with that outcome (parameters replaced by the arguments of the call). Each
// returned set contains the given atoms; with nothing to expand (or more than max combinations) the result is the
// given set alone.
func (f *Facts) altExpansions(atoms []Atom, max int) [][]Atom {
	out := [][]Atom{atoms}
	for _, a := range atoms {
		call, success := f.callOfAtom(a)
		if call == nil {
			continue
		}
		sm := f.summaryOf(calleeOf(call), 0)
		if sm.ambiguous {
			continue
		}
		alts := sm.succAlts
		if !success {
			alts = sm.failAlts
		}
		if len(alts) < 2 {
			continue
		}
		if len(out)*len(alts) > max {
			return [][]Atom{atoms}
		}
		args := call.Call.Args
		var next [][]Atom
		for _, base := range out {
			for _, alt := range alts {
				set := append([]Atom(nil), base...)
				for _, fa := range alt {
					na := fa
					na.TA = substParams(fa.TA, sm.paramRoot, args, f, true)
					na.TB = substParams(fa.TB, sm.paramRoot, args, f, true)
					na.A = substParams(fa.TA, sm.paramRoot, args, f, false)
					na.B = substParams(fa.TB, sm.paramRoot, args, f, false)
					set = append(set, na)
				}
				next = append(next, set)
			}
		}
		out = next
	}
	return out
}

func intersectAtoms(sets [][]Atom) []Atom {
	if len(sets) == 0 {
		return nil
	}
	key := func(a Atom) string { return fmt.Sprintf("%s|%s|%s|%v", a.Op, a.TA, a.TB, a.Neg) }
	count := map[string]int{}
	first := map[string]Atom{}
	for _, s := range sets {
		seen := map[string]bool{}
		for _, a := range s {
			k := key(a)
			if !seen[k] {
				seen[k] = true
				count[k]++
				first[k] = a
			}
		}
	}
	var out []Atom
	for k, n := range count {
		if n == len(sets) {
			out = append(out, first[k])
		}
	}
	sort.Slice(out, func(i, j int) bool { return key(out[i]) < key(out[j]) })
	return out
}

func isErrorTypeT(t types.Type) bool {
	n, ok := t.(*types.Named)
	return ok && n.Obj().Pkg() == nil && n.Obj().Name() == "error"
}

func isFreshErrorV(v ssa.Value) bool {
	switch x := v.(type) {
	case *ssa.Call:
		switch calleeName(x) {
		case "fmt.Errorf", "errors.New":
			return true
		case "errors.Join":
			return joinedSome(x, isFreshErrorV)
		}
	case *ssa.UnOp:
		if _, ok := x.X.(*ssa.Global); ok && x.Op == token.MUL {
			return true
		}
	case *ssa.MakeInterface:
		return true
	}
	return false
}

// joinedSome: errors.Join returns nil when every error handed in is nil: the result is certainly an error only if
// one of the listed errors certainly is.
func joinedSome(c *ssa.Call, certain func(ssa.Value) bool) bool {
	if len(c.Call.Args) != 1 {
		return false
	}
	sl, ok := c.Call.Args[0].(*ssa.Slice)
	if !ok {
		return false
	}
	arr, ok := sl.X.(*ssa.Alloc)
	if !ok {
		return false
	}
	for _, ref := range *arr.Referrers() {
		ia, ok := ref.(*ssa.IndexAddr)
		if !ok {
			continue
		}
		for _, r2 := range *ia.Referrers() {
			if st, ok := r2.(*ssa.Store); ok && st.Addr == ssa.Value(ia) && certain(st.Val) {
				return true
			}
		}
	}
	return false
}

// retValOf: like retVal in rules_c06 (kept here to avoid a dependency cycle in reading order).
func (f *Facts) retValOf(ap *APath, i int) ssa.Value {
	return f.retVal(ap, i)
}

// expandAtoms adds, for every atom that tests the outcome of a module function call, the callee's summary
// instantiated with the call's arguments.
func (f *Facts) expandAtoms(atoms []Atom) []Atom { return f.expandAtomsDepth(atoms, 0) }

func (f *Facts) expandAtomsDepth(atoms []Atom, depth int) []Atom {
	if depth > 2 {
		return atoms
	}
	out := atoms
	for _, a := range atoms {
		var call *ssa.Call
		success := false
		switch {
		case a.Op == "NIL":
			x, _, ok := nilTest(a.Cond)
			if !ok {
				if a.Val == nil {
					continue
				}
				x = a.Val
			}
			switch y := x.(type) {
			case *ssa.Call:
				call = y
			case *ssa.Extract:
				if c, isC := y.Tuple.(*ssa.Call); isC && y.Index == c.Call.Signature().Results().Len()-1 {
					call = c
				}
			case *ssa.UnOp:
				// a load of the variable the error was stored into (same block): find the stored call
				if cell := f.ownerCell(y.X); cell != nil {
					for _, s := range f.storesToCell(cell) {
						switch z := s.(type) {
						case *ssa.Call:
							call = z
						case *ssa.Extract:
							if c, isC := z.Tuple.(*ssa.Call); isC {
								call = c
							}
						}
					}
					if len(f.storesToCell(cell)) != 1 {
						call = nil
					}
				}
			}
			if call != nil && !isErrorTypeT(call.Call.Signature().Results().At(call.Call.Signature().Results().Len()-1).Type()) {
				call = nil
			}
			success = !a.Neg
		case a.Op == "TRUE":
			// the boolean that is the last of several results of a module call: `data, ok := f(x); if !ok {...}`
			if ex, isE := stripNot(a.Cond).(*ssa.Extract); isE {
				if c, isC := ex.Tuple.(*ssa.Call); isC && ex.Index == c.Call.Signature().Results().Len()-1 && ex.Index > 0 {
					if bt, isB := c.Call.Signature().Results().At(ex.Index).Type().Underlying().(*types.Basic); isB && bt.Kind() == types.Bool {
						call = c
						success = !a.Neg
					}
				}
			}
		case strings.HasPrefix(a.Op, "CALL:"):
			v := a.Cond
			for {
				u, ok := v.(*ssa.UnOp)
				if !ok || u.Op != token.NOT {
					break
				}
				v = u.X
			}
			call, _ = v.(*ssa.Call)
			success = !a.Neg
		}
		if call == nil {
			continue
		}
		if sl, pred, isSearch := elemSearchCall(call); isSearch && success {
			// slices.ContainsFunc(list, pred) came out true: for some element e of list, pred(e) held - the atoms
			// common to pred's true returns hold with its parameter standing for an element of the list
			if tg, ok := f.funcTargets(pred); ok && len(tg) == 1 && tg[0].Blocks != nil && len(tg[0].Params) == 1 {
				if s := f.summaryOf(tg[0], depth); !s.ambiguous && len(s.paramRoot) == 1 {
					lp := f.path(sl)
					for _, fa := range s.onSuccess {
						na := fa
						na.TA = strings.ReplaceAll(fa.TA, s.paramRoot[0], f.T(lp)+"[*]")
						na.TB = strings.ReplaceAll(fa.TB, s.paramRoot[0], f.T(lp)+"[*]")
						na.A = strings.ReplaceAll(fa.TA, s.paramRoot[0], lp+"[*]")
						na.B = strings.ReplaceAll(fa.TB, s.paramRoot[0], lp+"[*]")
						out = append(out, na)
					}
				}
			}
			continue
		}
		g := calleeOf(call)
		if g == nil || g.Blocks == nil || g.Pkg == nil || !isModulePath(g.Pkg.Pkg.Path()) || isMockPath(g.Pkg.Pkg.Path()) {
			continue
		}
		s := f.summaryOf(g, depth)
		if s.ambiguous {
			continue
		}
		facts := s.onSuccess
		if !success {
			facts = s.onFailure
		}
		args := call.Call.Args
		for _, fa := range facts {
			na := fa
			na.TA = substParams(fa.TA, s.paramRoot, args, f, true)
			na.TB = substParams(fa.TB, s.paramRoot, args, f, true)
			// the identity form of the access path in the caller (so that nil-guards found in a helper
			// discharge dereferences of the same path in the caller)
			na.A = substParams(fa.TA, s.paramRoot, args, f, false)
			na.B = substParams(fa.TB, s.paramRoot, args, f, false)
			out = append(out, na)
		}
	}
	return out
}

func substParams(t string, roots []string, args []ssa.Value, f *Facts, typed bool) string {
	if t == "" {
		return t
	}
	for i, r := range roots {
		if i < len(args) && strings.Contains(t, r) {
			p := f.path(args[i])
			if typed {
				p = f.T(p)
			}
			if strings.HasPrefix(p, "&") {
				// the argument is the address of an object (`&list[i]`): a field read through the parameter is a field
				// of that object
				t = strings.ReplaceAll(t, r+".", p[1:]+".")
				t = strings.ReplaceAll(t, "*"+r, p[1:])
			}
			t = strings.ReplaceAll(t, r, p)
		}
	}
	return t
}

// ---------------------------------------------------------------------------
// Entry atoms: a guard that stayed in the caller still counts.
// When a handler is split - the lookup and its error test stay, the rest moves into an unexported helper - the
// instructions of the helper are reached only through its call sites. For an unexported, non-closure module
// function that is never used as a value, the atoms that hold at every one of its call sites hold on entry.
// Atoms about a path rooted at an argument are re-rooted at the parameter (and dropped if the helper may store
// to that path before the use); the others are kept as they are (their roots are SSA values of the caller).
// ---------------------------------------------------------------------------

func (f *Facts) buildCallSites() {
	f.sitesOf = map[*ssa.Function][]ssa.CallInstruction{}
	f.addrTaken = map[*ssa.Function]bool{}
	for _, fn := range f.w.Funcs {
		for _, b := range fn.Blocks {
			for _, in := range b.Instrs {
				var callee *ssa.Function
				if c, ok := in.(ssa.CallInstruction); ok {
					if g := calleeOf(c); g != nil {
						if _, isClosure := c.Common().Value.(*ssa.MakeClosure); !isClosure {
							callee = g
							f.sitesOf[g] = append(f.sitesOf[g], c)
						}
					}
				}
				for _, op := range in.Operands(nil) {
					if op == nil || *op == nil {
						continue
					}
					if g, ok := (*op).(*ssa.Function); ok {
						if c, isCall := in.(ssa.CallInstruction); isCall && g == callee && c.Common().Value == ssa.Value(g) {
							// the call position itself; the function may still appear among the arguments
							n := 0
							for _, a := range c.Common().Args {
								if a == ssa.Value(g) {
									n++
								}
							}
							if n == 0 {
								continue
							}
						}
						f.addrTaken[g] = true
					}
				}
			}
		}
	}
}

func (f *Facts) entryAtoms(fn *ssa.Function) []Atom {
	if f.sitesOf == nil {
		f.buildCallSites()
	}
	if f.entryMemo == nil {
		f.entryMemo = map[*ssa.Function][]Atom{}
		f.entryBusy = map[*ssa.Function]bool{}
	}
	if a, ok := f.entryMemo[fn]; ok {
		return a
	}
	if f.entryBusy[fn] || fn.Parent() != nil || token.IsExported(fn.Name()) || f.addrTaken[fn] || len(f.sitesOf[fn]) == 0 || len(f.entryBusy) > 3 {
		return nil
	}
	if fn.Signature.Recv() != nil && f.ifaceDeclares(fn.Name()) {
		// an unexported method can be reached dynamically only through an interface of the module that declares it
		return nil
	}
	f.entryBusy[fn] = true
	defer delete(f.entryBusy, fn)
	var sets [][]Atom
	for _, c := range f.sitesOf[fn] {
		args := c.Common().Args
		var set []Atom
		for _, a := range f.AtomsAt(c) {
			rooted := false
			for i, p := range fn.Params {
				if i >= len(args) {
					break
				}
				ap := f.path(args[i])
				if ap == "" || strings.HasPrefix(ap, "const:") || ap == "nil" || ap == "zero" {
					continue
				}
				re := func(s string) (string, bool) {
					if s == ap {
						return f.path(p), true
					}
					if strings.HasPrefix(s, ap+".") || strings.HasPrefix(s, ap+"[") || strings.HasPrefix(s, ap+"(") {
						return f.path(p) + s[len(ap):], true
					}
					return s, false
				}
				na, okA := re(a.A)
				nb, okB := re(a.B)
				if okA || okB {
					rooted = true
					t := a
					t.A, t.B = na, nb
					t.TA, t.TB = f.T(na), f.T(nb)
					set = append(set, t)
				}
			}
			if !rooted {
				set = append(set, a)
			}
		}
		sets = append(sets, set)
	}
	out := intersectAtoms(sets)
	f.entryMemo[fn] = out
	return out
}

// ifaceDeclares: some interface type declared in the module has a method of this name.
func (f *Facts) ifaceDeclares(name string) bool {
	if f.boxed == nil {
		f.boxed = map[string]bool{}
		for _, p := range f.w.Pkgs {
			sc := p.Types.Scope()
			for _, n := range sc.Names() {
				if tn, ok := sc.Lookup(n).(*types.TypeName); ok {
					if it, ok := tn.Type().Underlying().(*types.Interface); ok {
						for i := 0; i < it.NumMethods(); i++ {
							f.boxed[it.Method(i).Name()] = true
						}
					}
				}
			}
		}
	}
	return f.boxed[name]
}

// entryAtomsAt: the entry atoms of at's function that no store of the function invalidates before at.
func (f *Facts) entryAtomsAt(fn *ssa.Function, at ssa.Instruction) []Atom {
	ea := f.entryAtoms(fn)
	if len(ea) == 0 {
		return nil
	}
	fi := f.info(fn)
	var out []Atom
	for _, a := range ea {
		dead := false
		for _, s := range fi.stores {
			sp := strings.TrimPrefix(f.path(s.Addr), "&")
			if sp == "" {
				continue
			}
			for _, p := range []string{a.A, a.B} {
				if p != "" && (p == sp || strings.HasPrefix(p, sp+".") || strings.HasPrefix(p, sp+"[")) {
					if at == nil || s.Block() == at.Block() && instrIndex(s) < instrIndex(at) || s.Block() != at.Block() && fi.reachable(s.Block(), at.Block()) {
						dead = true
					}
				}
			}
		}
		if !dead {
			out = append(out, a)
		}
	}
	return out
}

// AtomsOnEdge returns the atoms holding when control passes from block p to its successor b: those holding at the
// end of p plus the outcome of p's branch.
func (f *Facts) AtomsOnEdge(p, b *ssa.BasicBlock) []Atom {
	if len(p.Instrs) == 0 {
		return nil
	}
	last := p.Instrs[len(p.Instrs)-1]
	out := append([]Atom{}, f.AtomsAt(last)...)
	if ifi, ok := last.(*ssa.If); ok && p.Succs[0] != p.Succs[1] {
		out = append(out, f.expandAtoms([]Atom{f.atomOf(ifi.Cond, p.Succs[0] == b)})...)
	}
	return out
}

// elemSearchCall: c is a library search over the elements of a slice with a predicate (slices.ContainsFunc):
// the slice, the predicate.
func elemSearchCall(c *ssa.Call) (slice, pred ssa.Value, ok bool) {
	n := calleeName(c)
	if i := strings.Index(n, "["); i >= 0 {
		n = n[:i] // instantiated generic
	}
	if n == "slices.ContainsFunc" && len(c.Call.Args) == 2 {
		return c.Call.Args[0], c.Call.Args[1], true
	}
	return nil, nil, false
}

// elemCallbackOf: fn is a function literal handed to a library function that calls it with the elements of a slice
// argument (slices.ContainsFunc / IndexFunc / DeleteFunc / SortFunc ...): the slice.
func (f *Facts) elemCallbackOf(fn *ssa.Function) (ssa.Value, bool) {
	mc := f.closSite[fn]
	var fv ssa.Value = fn
	if mc != nil {
		fv = mc
	}
	refs := fv.Referrers()
	if refs == nil {
		return nil, false
	}
	for _, ref := range *refs {
		c, isC := ref.(*ssa.Call)
		if !isC {
			continue
		}
		n := calleeName(c)
		if i := strings.Index(n, "["); i >= 0 {
			n = n[:i]
		}
		switch n {
		case "slices.ContainsFunc", "slices.IndexFunc", "slices.DeleteFunc", "slices.SortFunc", "slices.SortStableFunc", "slices.MaxFunc", "slices.MinFunc":
			if len(c.Call.Args) == 2 && c.Call.Args[1] == fv {
				return c.Call.Args[0], true
			}
		}
	}
	return nil, false
}

// fnTok is the function part of an access-path root ("loginResponse/authRequest"): the function's name, qualified
// by its receiver type (or package) when another module function has the same name - two methods called
// getMetadata with a receiver called c would otherwise share their roots, and with them the types of those roots.
func (f *Facts) fnTok(fn *ssa.Function) string {
	if fn == nil {
		return "?"
	}
	if f.ambigName == nil {
		f.ambigName = map[string]int{}
		for _, g := range f.w.Funcs {
			if g.Parent() == nil {
				f.ambigName[g.Name()]++
			}
		}
	}
	root := fn
	for root.Parent() != nil {
		root = root.Parent()
	}
	if f.ambigName[root.Name()] < 2 {
		return f.w.NameOf(fn)
	}
	q := ""
	if recv := root.Signature.Recv(); recv != nil {
		if n := namedOf(recv.Type()); n != nil {
			q = n.Obj().Name()
		}
	} else if root.Pkg != nil {
		q = shortPkg(root.Pkg.Pkg.Path())
	}
	return q + "__" + f.w.NameOf(fn)
}

// callSummaryAtoms: the atoms that hold when the module function called by `call` succeeded (nil error / true) or
// failed, with its parameters replaced by the arguments of this call (see summaryOf). nil if there is no summary.
func (f *Facts) callSummaryAtoms(call *ssa.Call, success bool) []Atom {
	g := calleeOf(call)
	if g == nil || g.Blocks == nil || g.Pkg == nil || !isModulePath(g.Pkg.Pkg.Path()) || isMockPath(g.Pkg.Pkg.Path()) {
		return nil
	}
	s := f.summaryOf(g, 0)
	if s.ambiguous {
		return nil
	}
	facts := s.onSuccess
	if !success {
		facts = s.onFailure
	}
	var out []Atom
	args := call.Call.Args
	for _, fa := range facts {
		na := fa
		na.TA = substParams(fa.TA, s.paramRoot, args, f, true)
		na.TB = substParams(fa.TB, s.paramRoot, args, f, true)
		na.A = substParams(fa.TA, s.paramRoot, args, f, false)
		na.B = substParams(fa.TB, s.paramRoot, args, f, false)
		out = append(out, na)
	}
	return out
}

// throughWrapperParams: v itself, or - when v is a parameter of an unexported module function whose call sites are
// all known (a private wrapper around the call of interest) - the values its call sites hand in, transitively.
func (f *Facts) throughWrapperParams(v ssa.Value, depth int) []ssa.Value {
	prm, ok := v.(*ssa.Parameter)
	if !ok || depth > 3 {
		return []ssa.Value{v}
	}
	fn := prm.Parent()
	if f.sitesOf == nil {
		f.buildCallSites()
	}
	if fn == nil || fn.Parent() != nil || token.IsExported(fn.Name()) || f.addrTaken[fn] || len(f.sitesOf[fn]) == 0 {
		return []ssa.Value{v}
	}
	if fn.Signature.Recv() != nil && f.ifaceDeclares(fn.Name()) {
		return []ssa.Value{v}
	}
	idx := -1
	for i, q := range fn.Params {
		if q == prm {
			idx = i
		}
	}
	var out []ssa.Value
	for _, c := range f.sitesOf[fn] {
		args := c.Common().Args
		if idx < 0 || idx >= len(args) {
			return []ssa.Value{v}
		}
		out = append(out, f.throughWrapperParams(args[idx], depth+1)...)
	}
	return out
}

package main

import (
	"fmt"
	"go/token"
	"sort"
	"strings"

	"golang.org/x/tools/go/ssa"
)

// ---------------------------------------------------------------------------
// R-REJECT (C07): why a request can be refused.
//
// C07 is a liveness property; what a static rule can decide about it is whether the code refuses a request for a
// reason a conformant request never gives. Subjects are the error-returning functions of package provider that a
// validation step (logic role) of the three request chains can reach and that are not judged by a dedicated rule
// (decoders, signature and certificate verification, time window, destination: C05/C06/C07 rules of their own).
// Every path of a subject that can return a non-nil error must carry a reason from the table:
//
//   callee verdict   the returned error is the error result of a call (storage, library, or another subject /
//                    dedicated function), or the path tested such an error and found it non-nil;
//   schema / profile a required part is absent or empty (ID, Version, IssueInstant, Issuer; the AttributeQuery
//                    subject name), Version is not "2.0", the Issuer is not the registered entity ID, all of the
//                    LogoutRequest subject alternatives BaseID / NameID / EncryptedID are absent;
//   destination      the Destination differs from a value built only from the endpoint the metadata advertises for the
//                    service of that request type and this request's issuer;
//   not registered   a value the request names (e.g. AssertionConsumerServiceURL) equals none of the entries of a list
//                    registered for the looked-up service provider (exhausted search, a match alone accepts);
//   transport        the HTTP method is neither GET nor POST, the form could not be parsed, the message parameter is
//                    empty; the binding selected for the reply is none of the supported ones.
//
// A refusing path with none of these is reported with its conditions: some conformant request satisfies them.
// ---------------------------------------------------------------------------

// dedicated: functions whose refusals are decided by their own rules.
var rejectDedicated = map[string]string{
	"provider.checkCertificate$1":                     "C05 certificate rule",
	"provider.verifyRedirectSignature$1":              "C05 signature rules",
	"provider.verifyPostSignature$1":                  "C05 signature rules",
	"provider.checkIfRequestTimeIsStillValid$1":       "time-window rule",
	"provider.verifyRequestDestinationOfAuthRequest":  "destination rule (C06)",
	"provider.verifyRequestDestinationOfAttrQuery":    "destination rule (C12)",
	"provider.getResponseCert":                        "key material (C10)",
	"provider.createPostSignature":                    "signing (C04)",
	"provider.createRedirectSignature":                "signing (C04)",
	"provider.createSignature":                        "signing (C04)",
	"provider.(*IdentityProvider).GetServiceProvider": "storage lookup + SP construction (C09/C10)",
}

type rejectReason struct {
	name string
	ok   func(p *APath) bool
}

// lenArg: v is len(x): x.
func lenArg(v ssa.Value) ssa.Value {
	if c, ok := v.(*ssa.Call); ok {
		if b, isB := c.Call.Value.(*ssa.Builtin); isB && b.Name() == "len" && len(c.Call.Args) == 1 {
			return c.Call.Args[0]
		}
	}
	return nil
}

// emptySubject: for an EMPTY atom, the value tested.
func emptySubject(a Atom) ssa.Value {
	b, ok := stripNot(a.Cond).(*ssa.BinOp)
	if !ok {
		return nil
	}
	for _, pair := range [][2]ssa.Value{{b.X, b.Y}, {b.Y, b.X}} {
		if c, isC := pair[1].(*ssa.Const); isC {
			_ = c
			if x := lenArg(pair[0]); x != nil {
				return x
			}
			return pair[0]
		}
	}
	return nil
}

// notRegisteredReason: fn refuses on path p only because a value the request names (a field of the decoded request)
// equals none of the entries of a list registered for the looked-up service provider: the path's conditions are
// "the named value is present" and "the loop over the registered list is exhausted", and a match alone
// (EQ(list[i].f, named) under nothing but the same conditions) makes fn accept. A conformant request of a
// registered provider names its own registered entries.
func (cx *Ctx) notRegisteredReason(hk string, aps []APath, p *APath) bool {
	fx := cx.Fx
	vf := cx.vflow(hk)
	if vf == nil {
		return false
	}
	all := func(v ssa.Value, pats ...string) bool {
		ls := vf.Deep(vf.Labels(v)).leaves()
		n := 0
		for _, l := range ls {
			if l == "const:zero" {
				continue
			}
			if !matchAny(pats, l) {
				return false
			}
			n++
		}
		return n > 0
	}
	registered := func(v ssa.Value) bool {
		return all(v, "ext:iface:provider.IDPStorage.GetEntityByID#0.Metadata.*")
	}
	named := func(v ssa.Value) bool {
		return all(v, "decoded:samlp.AuthnRequestType.*", "decoded:samlp.LogoutRequestType.*", "decoded:samlp.AttributeQueryType.*")
	}
	// classify the atoms of a path: ok=false when an atom is none of: named present, loop condition over a registered list
	classify := func(q *APath, wantMatch bool) (list ssa.Value, nm ssa.Value, matched, ok bool) {
		for _, a := range q.Atoms {
			switch {
			case a.Op == "EMPTY" && a.Neg:
				x := emptySubject(a)
				if x == nil || !named(x) {
					return nil, nil, false, false
				}
				nm = x
			case a.Op == "LT":
				b, isB := stripNot(a.Cond).(*ssa.BinOp)
				if !isB {
					return nil, nil, false, false
				}
				l := lenArg(b.Y)
				if l == nil {
					l = lenArg(b.X)
				}
				if l == nil || !registered(l) {
					return nil, nil, false, false
				}
				list = l
			case a.Op == "EQ" && !a.Neg && wantMatch:
				b, isB := stripNot(a.Cond).(*ssa.BinOp)
				if !isB {
					return nil, nil, false, false
				}
				good := false
				for _, pair := range [][2]ssa.Value{{b.X, b.Y}, {b.Y, b.X}} {
					if registered(pair[0]) && named(pair[1]) {
						good = true
					}
				}
				if !good {
					return nil, nil, false, false
				}
				matched = true
			default:
				return nil, nil, false, false
			}
		}
		return list, nm, matched, true
	}
	list, nm, _, ok := classify(p, false)
	if !ok || list == nil || nm == nil {
		return false
	}
	// exhausted loop: the LT atom of p is negated
	exhausted := false
	for _, a := range p.Atoms {
		if a.Op == "LT" && a.Neg {
			exhausted = true
		}
	}
	if !exhausted {
		return false
	}
	ri := p.Ret.Parent().Signature.Results().Len() - 1
	for i := range aps {
		q := &aps[i]
		if isNil, _ := fx.errNilness(q, fx.retVal(q, ri)); !isNil {
			continue
		}
		if l2, n2, matched, ok2 := classify(q, true); ok2 && matched && l2 == list && n2 != nil {
			return true
		}
	}
	return false
}

// destinationReason: the path found the request's Destination different from a value that, in the scope of handler
// hk, is built only from the endpoint this provider advertises for the service the request type belongs to (and the
// issuer of this request's context, constants and the path/URL helpers): a request "addressed to the advertised
// location" never takes such a path.
func (cx *Ctx) destinationReason(hk string, p *APath) bool {
	w, fx := cx.W, cx.Fx
	svcOf := map[string]string{"<samlp.AuthnRequestType>.Destination": "SingleSignOnService", "<samlp.LogoutRequestType>.Destination": "SingleLogoutService", "<samlp.AttributeQueryType>.Destination": "AttributeService"}
	vf := cx.vflow(hk)
	gm := w.Func("provider.(*IdentityProviderConfig).getMetadata")
	if vf == nil || gm == nil {
		return false
	}
	for _, a := range p.Atoms {
		if a.Op != "EQ" || !a.Neg {
			continue
		}
		b, isB := a.Cond.(*ssa.BinOp)
		if !isB {
			continue
		}
		for _, pair := range [][2]ssa.Value{{b.X, b.Y}, {b.Y, b.X}} {
			svc := ""
			tp := fx.T(fx.path(pair[0]))
			for suf, sv := range svcOf {
				if strings.HasSuffix(tp, suf) {
					svc = sv
				}
			}
			if svc == "" {
				continue
			}
			tbl, problems := cx.endpointTable(gm)
			if len(problems) > 0 || len(tbl[svc]) == 0 {
				continue
			}
			allowed := []string{"const:*", "ext:iface:context.Context.Value#0", "alloc:{md.IDPSSODescriptorType}*", "alloc:{md.AttributeAuthorityDescriptorType}*"}
			var required []string
			for ep := range tbl[svc] {
				allowed = append(allowed, "param:*/#0.endpoints."+ep+".*", "param:*/#0.conf.Endpoints.*", "param:*/#0.identityProvider.endpoints."+ep+".*", "param:*/#0.identityProvider.conf.Endpoints.*")
				required = append(required, ".endpoints."+ep+".")
			}
			ls := vf.Deep(vf.Labels(pair[1]))
			good, has := true, false
			for _, l := range ls.leaves() {
				if l == "const:zero" {
					continue
				}
				if !matchAny(allowed, l) {
					good = false
				}
				for _, rq := range required {
					if strings.Contains(l, rq) {
						has = true
					}
				}
				if strings.Contains(l, "DescriptorType}") && strings.Contains(l, svc) {
					has = true
				}
			}
			if good && has {
				return true
			}
		}
	}
	return false
}

func suffixAny(s string, suf ...string) bool {
	for _, x := range suf {
		if strings.HasSuffix(s, x) {
			return true
		}
	}
	return false
}

func isRequestPath(t string) bool {
	return strings.Contains(t, "<samlp.AuthnRequestType>") || strings.Contains(t, "<samlp.LogoutRequestType>") || strings.Contains(t, "<samlp.AttributeQueryType>")
}

var rejectTable = []rejectReason{
	{"required part absent or empty", func(p *APath) bool {
		for _, a := range p.Atoms {
			if a.Neg || !isRequestPath(a.TA) {
				continue
			}
			if a.Op == "EMPTY" && suffixAny(a.TA, ">.Id", ">.Version", ">.IssueInstant", ">.Issuer.Text") {
				return true
			}
			if a.Op == "NIL" && suffixAny(a.TA, ">.Issuer", "<samlp.AttributeQueryType>.Subject", "<samlp.AttributeQueryType>.Subject.NameID") {
				return true
			}
		}
		return false
	}},
	{"Version is not 2.0", func(p *APath) bool {
		for _, a := range p.Atoms {
			if a.Op == "EQ" && a.Neg && (a.A == "const:2.0" && isRequestPath(a.TB) && strings.HasSuffix(a.TB, ">.Version") || a.B == "const:2.0" && isRequestPath(a.TA) && strings.HasSuffix(a.TA, ">.Version")) {
				return true
			}
		}
		return false
	}},
	{"Issuer is not the registered entity ID", func(p *APath) bool {
		for _, a := range p.Atoms {
			if a.Op == "EQ" && a.Neg && (strings.HasSuffix(a.TA, ">.Issuer.Text") && strings.HasSuffix(a.B, "ServiceProvider).GetEntityID") || strings.HasSuffix(a.TB, ">.Issuer.Text") && strings.HasSuffix(a.A, "ServiceProvider).GetEntityID")) {
				return true
			}
		}
		return false
	}},
	{"no subject alternative present", func(p *APath) bool {
		n := 0
		for _, f := range []string{"BaseID", "NameID", "EncryptedID"} {
			if p.has("NIL", "<samlp.LogoutRequestType>."+f, false) {
				n++
			}
		}
		return n == 3
	}},
	{"no supported reply binding", func(p *APath) bool {
		n := 0
		for _, a := range p.Atoms {
			if a.Op == "EQ" && a.Neg && (strings.HasSuffix(a.TA, "<provider.Response>.ProtocolBinding") && strings.HasPrefix(a.B, "const:urn:oasis:names:tc:SAML:2.0:bindings:") || strings.HasSuffix(a.TB, "<provider.Response>.ProtocolBinding") && strings.HasPrefix(a.A, "const:urn:oasis:names:tc:SAML:2.0:bindings:")) {
				n++
			}
		}
		return n >= 2
	}},
	{"transport: method / form / empty message", func(p *APath) bool {
		for _, a := range p.Atoms {
			t := a.TA + " " + a.TB
			if a.Op == "EQ" && a.Neg && strings.Contains(t, "<http.Request>.Method") {
				return true
			}
			if a.Op == "EMPTY" && !a.Neg && (strings.Contains(a.A, "FormValue") || strings.Contains(a.A, "(url.Values).Get") || suffixAny(a.TA, "Form>.AuthRequest", "Form>.LogoutRequest")) {
				return true
			}
		}
		return false
	}},
}

// rejectSubjects: error-returning functions of package provider reachable from the logic role of a step of chain ch.
func (cx *Ctx) rejectSubjects(ch *Chain) []*ssa.Function {
	w := cx.W
	seen := map[*ssa.Function]bool{}
	var out []*ssa.Function
	for _, s := range ch.Steps {
		for _, f := range s.Role["logic"] {
			// helpers reached only through a dedicated function are that function's business: do not descend into them
			sc := map[*ssa.Function]bool{}
			pre := map[*ssa.Function]bool{}
			for k := range rejectDedicated {
				if d := w.Func(k); d != nil && d != f {
					sc[d], pre[d] = true, true
				}
			}
			w.refClosure(f, sc)
			for g := range sc {
				if pre[g] {
					if !seen[g] {
						seen[g] = true
						out = append(out, g)
					}
					continue
				}
				if seen[g] || g.Blocks == nil || g.Pkg == nil || shortPkg(g.Pkg.Pkg.Path()) != "provider" {
					continue
				}
				res := g.Signature.Results()
				if res.Len() == 0 || !isErrorType(res.At(res.Len()-1).Type()) {
					continue
				}
				seen[g] = true
				out = append(out, g)
			}
		}
	}
	sort.Slice(out, func(i, j int) bool { return w.FuncKey(out[i]) < w.FuncKey(out[j]) })
	return out
}

func (cx *Ctx) checkRejectReasons(r *Report) {
	w, fx := cx.W, cx.Fx
	nSubj, nPaths := 0, 0
	done := map[*ssa.Function]bool{}
	for _, hk := range []string{kSSO, kLogout, kAttr} {
		ch := cx.chain(r, hk)
		if ch == nil {
			continue
		}
		for _, fn := range cx.rejectSubjects(ch) {
			if done[fn] {
				continue
			}
			done[fn] = true
			key := w.FuncKey(fn)
			if why, ok := rejectDedicated[key]; ok {
				r.Ok("R-REJECT", key, w.FnPos(fn), "refusals decided by: "+why)
				continue
			}
			aps, ok := fx.atomPaths(fn, 8192)
			if !ok {
				r.Undecided("R-REJECT", key, w.FnPos(fn), "too many paths")
				continue
			}
			nSubj++
			// error results of calls in fn
			errOf := map[ssa.Value]bool{}
			for _, c := range callsIn(fn) {
				if call, isCall := c.(*ssa.Call); isCall {
					if n := calleeName(call); n == "fmt.Errorf" || n == "errors.New" || n == "errors.Join" {
						continue // an error made here is this function's own verdict, not a callee's
					}
					if e, has, _ := errResult(call); has && e != nil {
						errOf[e] = true
						for _, a := range fx.aliasesOf(e) {
							errOf[a] = true
						}
					}
				}
			}
			bad := ""
			pos := w.FnPos(fn)
			ri := fn.Signature.Results().Len() - 1
			for i := range aps {
				p := &aps[i]
				rv := fx.retVal(p, ri)
				isNil, _ := fx.errNilness(p, rv)
				if isNil || rv == nil {
					continue
				}
				nPaths++
				// callee verdict: the returned value is a call's error result, or such an error was found non-nil
				verdict := errOf[rv]
				if !verdict {
					for _, a := range fx.aliasesOf(rv) {
						if errOf[a] {
							verdict = true
						}
					}
				}
				if !verdict {
					for _, cp := range p.Conds {
						if x, tnn, isNT := nilTest(cp.Cond); isNT && cp.Pol == tnn && isErrorType(x.Type()) {
							verdict = true
						}
					}
				}
				if verdict {
					continue
				}
				reason := ""
				for _, rr := range rejectTable {
					if rr.ok(p) {
						reason = rr.name
						break
					}
				}
				if reason == "" {
					// a helper that is handed parts of the request (`serviceProviderOfIssuer(ctx, req.Issuer)`): its
					// conditions, read in terms of what every caller hands it
					if alts := cx.atomsAtCallers(fn, p.Atoms); len(alts) > 0 {
						all := true
						name := ""
						for _, atoms := range alts {
							q := &APath{Path: p.Path, Atoms: atoms, Ret: p.Ret}
							found := false
							for _, rr := range rejectTable {
								if rr.ok(q) {
									found, name = true, rr.name
									break
								}
							}
							if !found {
								all = false
							}
						}
						if all {
							reason = name
						}
					}
				}
				if reason == "" && cx.destinationReason(hk, p) {
					reason = "Destination is not the location advertised for this service"
				}
				if reason == "" && p.Ret != nil && cx.notRegisteredReason(hk, aps, p) {
					reason = "a value the request names is none of the entries registered for the service provider"
				}
				if reason == "" {
					bad = atomsStringT(p.Atoms)
					if p.Ret != nil {
						pos = w.InstrPos(p.Ret)
					}
					break
				}
			}
			r.Check(bad == "", "R-REJECT", key, pos, "every refusing path carries a reason of the conformance table", fmt.Sprintf("%s can refuse a request under the conditions [%s], none of which a conformant request is barred from: requests a standards-conformant service provider sends are rejected", key, bad))
		}
	}
	r.Extra["reject_subjects"] = nSubj
	r.Extra["reject_paths"] = nPaths
	r.Check(nSubj >= 8, "R-REJECT", "#subjects", "", fmt.Sprintf("%d refusing functions, %d refusing paths examined", nSubj, nPaths), fmt.Sprintf("only %d refusing functions found in the three validation chains", nSubj))
}

// atomsAtCallers: for an unexported module function that is only called statically, the atoms of one of its paths
// re-rooted at the arguments of each call site (one alternative per call site): a test of parameter `issuer` is a test
// of `req.Issuer` of the caller.
func (cx *Ctx) atomsAtCallers(fn *ssa.Function, atoms []Atom) [][]Atom {
	fx := cx.Fx
	if fx.sitesOf == nil {
		fx.buildCallSites()
	}
	if fn.Parent() != nil || fx.addrTaken[fn] || token.IsExported(fn.Name()) || len(fx.sitesOf[fn]) == 0 {
		return nil
	}
	var roots []string
	for _, p := range fn.Params {
		fx.path(p)
		roots = append(roots, fx.T(fx.fnTok(fn)+"/"+p.Name()))
	}
	var out [][]Atom
	for _, c := range fx.sitesOf[fn] {
		args := c.Common().Args
		var alt []Atom
		for _, a := range atoms {
			na := a
			na.TA = substParams(a.TA, roots, args, fx, true)
			na.TB = substParams(a.TB, roots, args, fx, true)
			alt = append(alt, na)
		}
		out = append(out, alt)
	}
	return out
}

package main

import (
	"fmt"
	"go/types"
	"strings"
	"text/template/parse"

	"golang.org/x/tools/go/ssa"
)

func init() { register("C08", checkC08) }

// ssoSteps assigns semantic keys to the steps of the SSO chain (Appendix A of DESIGN.md):
// by what the step's closures do, never by position.
type ssoKeys struct {
	ch                                                         *Chain
	form, decode, sp, cert, sigRedirect, sigPost, acs, content *Step
	persist                                                    *Step
	bindingSupported                                           *Step
}

func (cx *Ctx) ssoChain(r *Report) *ssoKeys {
	ch := cx.chain(r, kSSO)
	if ch == nil {
		return nil
	}
	w := cx.W
	k := &ssoKeys{ch: ch}
	one := func(name string, ss []*Step) *Step {
		if len(ss) == 1 {
			r.Ok("R-STEP", "sso:"+name, ss[0].Pos, "step recognised")
			return ss[0]
		}
		if len(ss) == 0 {
			r.Fail("R-STEP", "sso:"+name, w.FnPos(ch.Fn), "the SSO chain has no step '"+name+"' any more: a validation step has disappeared")
		} else {
			r.Undecided("R-STEP", "sso:"+name, ss[1].Pos, fmt.Sprintf("%d steps match '%s'", len(ss), name))
		}
		return nil
	}
	k.form = one("form", cx.stepsReaching(ch, matchFnKey(w, "provider.getAuthRequestFromRequest")))
	k.decode = one("decode", cx.stepsReaching(ch, matchDecoder(w, "samlp.AuthnRequestType")))
	k.sp = one("sp", cx.stepsReaching(ch, matchStorage("GetEntityByID")))
	k.cert = one("cert", cx.stepsByFactory(ch, "logic", "provider.checkCertificate"))
	k.sigRedirect = one("sig-redirect", cx.stepsByFactory(ch, "logic", "provider.verifyRedirectSignature"))
	k.sigPost = one("sig-post", cx.stepsByFactory(ch, "logic", "provider.verifyPostSignature"))
	k.acs = one("acs", cx.stepsReaching(ch, matchFnKey(w, "provider.GetAcsUrlAndBindingForResponse")))
	k.content = one("content", cx.stepsByFactory(ch, "logic", "provider.checkRequestRequiredContent"))
	k.persist = one("persist", cx.stepsReaching(ch, matchStorage("CreateAuthRequest")))
	return k
}

func checkC08(cx *Ctx, r *Report) {
	w, fx := cx.W, cx.Fx
	// the request is judged against the provider storage returns now (a provider removed since the last request must be refused)
	cx.checkProviderFromStorage(r, kSSO)
	cx.checkStorageIsTheApplications(r)
	r.Clauses = []string{
		"persist last, once: Storage.CreateAuthRequest has exactly one call site in the SSO handler's scope, inside the last step of the chain; no error callback, no earlier step and nothing after the chain can persist; a failure of the storage call is the failure of the step (tested or handed on in every function on the way, never replaced by a deferred assignment)",
		"unanswerable requests are rejected before persistence: the supported-binding decision is a step in front of the persist step, and after the chain the only possible outcome is the 303 redirect to the login URL of the identifier storage returned",
		"a page is not cut short by its data: each substitution of the two auto-submit templates is a plain string field of the struct handed to Execute (no method, function or pipeline that could return an error while the page is being streamed), so rendering cannot stop half-way and be followed by an error text in the same reply",
		"exactly one reply: every error callback of the SSO chain, the handler's own exits, sendBackResponse and sendBackLogoutResponse perform exactly one effective reply act on every path (none = empty reply, two = concatenated replies)",
	}
	r.NotDec = []string{"atomicity of the storage implementation itself", "what net/http does with a reply after the handler returned"}
	r.Assume = []string{"chain semantics as established by C20 (re-checked in this run)"}
	if !cx.requireC20(r) {
		return
	}
	k := cx.ssoChain(r)
	if k == nil {
		return
	}
	ch := k.ch
	hscope := w.scopeOf(ch.Fn)
	persistCalls := w.callsTo(hscope, matchStorage("CreateAuthRequest"))
	if len(persistCalls) != 1 {
		r.Fail("R-ORDER", "sso:persist-once", w.FnPos(ch.Fn), fmt.Sprintf("Storage.CreateAuthRequest is called at %d sites reachable from the SSO handler (must be exactly one)", len(persistCalls)))
	} else {
		pc := persistCalls[0]
		st, inErr := stepOfFn(ch, pc.Parent())
		switch {
		case st == nil:
			r.Fail("R-ORDER", "sso:persist-once", w.InstrPos(pc), "the request is persisted outside the validation chain (in the handler body or after CheckFailed)")
		case inErr:
			r.Fail("R-ORDER", "sso:persist-once", w.InstrPos(pc), "the request is persisted inside an error callback")
		case st.Idx != len(ch.Steps)-1:
			r.Fail("R-ORDER", "sso:persist-last", w.InstrPos(pc), fmt.Sprintf("the persist step is step %d of %d: step '%s' at %s can still reject the request after it was stored", st.Idx+1, len(ch.Steps), ch.Steps[len(ch.Steps)-1].Kind, ch.Steps[len(ch.Steps)-1].Pos))
		default:
			// not in a loop inside the closure
			if fx.info(pc.Parent()).reachable(pc.Block(), pc.Block()) {
				r.Fail("R-ORDER", "sso:persist-once", w.InstrPos(pc), "the persist call sits in a loop")
			} else {
				r.Ok("R-ORDER", "sso:persist-last", w.InstrPos(pc), fmt.Sprintf("single CreateAuthRequest site, in the last of %d steps", len(ch.Steps)))
			}
		}
	}
	// ... and once the storage has taken the request the step does not fail any more: a test made after the call
	// (`if ctx.Err() != nil { return errTooLate }`) answers a persisted request with a failure reply
	if len(persistCalls) == 1 {
		if pcall, isCall := persistCalls[0].(*ssa.Call); isCall {
			pf := pcall.Parent()
			res := pf.Signature.Results()
			if e, has, _ := errResult(pcall); has && e != nil && res.Len() > 0 && isErrorType(res.At(res.Len()-1).Type()) {
				if aps, okp := fx.atomPaths(pf, 2048); okp {
					bad := ""
					for i := range aps {
						p := &aps[i]
						if p.Ret == nil || !p.Has(pcall.Block()) {
							continue
						}
						sawNonNil, sawNil := fx.errOutcomesOnPath(&p.Path, e)
						if !sawNil || sawNonNil {
							continue
						}
						rv := fx.retVal(p, res.Len()-1)
						if _, nonNil := fx.errNilness(p, rv); nonNil || isFreshError(rv) {
							bad = "after Storage.CreateAuthRequest returned without error the step can still fail (" + w.InstrPos(p.Ret) + "): the request is stored and the browser gets a failure reply instead of the redirect to login"
						}
					}
					r.Check(bad == "", "R-ORDER", "sso:persist-then-pass", w.InstrPos(pcall), "no failing return after the storage call succeeded", bad)
				}
			}
		}
	}
	// "persisted and redirected, or nothing persisted and a failure reply": when the storage call fails the persist step
	// fails - its error is tested or handed on in every function between the call and the step's verdict (R-ERR)
	if k.persist != nil {
		cx.checkErrDiscipline(r, w.sortedFuncs(k.persist.Scope))
	}
	// no redirect-to-login / success effect before or beside the chain
	for _, s := range ch.Steps {
		for _, sc := range []map[*ssa.Function]bool{s.Scope, s.EScp} {
			for _, c := range w.callsTo(sc, matchCallee("net/http.Redirect")) {
				// http.Redirect inside sendBackResponse is the SAML reply (302); a 303 to login would be an acceptance
				if w.FuncKey(c.Parent()) == "provider.(*Response).sendBackResponse" {
					continue
				}
				if sbf := w.Func("provider.(*Response).sendBackResponse"); sbf != nil {
					piece := false
					for _, g := range cx.privateHelpers(sbf) {
						if g == c.Parent() {
							piece = true
						}
					}
					if piece {
						continue
					}
				}
				r.Fail("R-ORDER", "sso:redirect-in-step", w.InstrPos(c), "a step or error callback redirects the browser itself: acceptance must only happen after the whole chain passed")
			}
		}
	}

	// binding-supported decision precedes persistence: after the chain no path may produce a failure reply
	sfx := cx.suffixCalls(ch)
	var redirects []ssa.CallInstruction
	for _, c := range sfx {
		kind := cx.actKind(c, nil)
		if kind == "" {
			continue
		}
		if kind == "http.Redirect" {
			redirects = append(redirects, c)
			continue
		}
		r.Fail("R-ORDER", "sso:suffix-outcome", w.InstrPos(c), "after the request was persisted the handler can still answer with "+kind+" instead of the redirect to login: a request that cannot be answered is stored first")
	}
	if len(redirects) == 0 {
		r.Fail("R-ORDER", "sso:suffix-outcome", w.FnPos(ch.Fn), "no redirect to the login URL after the chain passed")
	}
	for _, c := range redirects {
		args := c.Common().Args
		status, okS := constInt(args[3])
		vf := cx.vflow(kSSO)
		ls := vf.Labels(args[2])
		okURL := false
		for _, l := range ls.leaves() {
			if strings.Contains(l, "GetEntityByID#0.loginURL") {
				okURL = true
			}
		}
		// the identifier passed to LoginURL is GetID() of the persisted request
		idOK := false
		for _, c2 := range sfx {
			if f := calleeOf(c2); f != nil && w.FuncKey(f) == "serviceprovider.(*ServiceProvider).LoginURL" {
				idl := vf.Labels(c2.Common().Args[1])
				idOK = len(idl.leaves()) == 1 && idl.leaves()[0] == "ext:iface:models.AuthRequestInt.GetID#0"
				if idOK {
					// receiver of GetID is result #0 of CreateAuthRequest
					idOK = false
					if gc, isCall := c2.Common().Args[1].(*ssa.Call); isCall && gc.Call.IsInvoke() {
						rl := vf.Labels(gc.Call.Value)
						idOK = len(rl.leaves()) == 1 && rl.leaves()[0] == "ext:iface:provider.IDPStorage.CreateAuthRequest#0"
					}
				}
			}
		}
		if okS && status == 303 && okURL && idOK {
			r.Ok("R-ORDER", "sso:suffix-outcome", w.InstrPos(c), "after the chain: 303 to sp.LoginURL(id) with id = GetID() of result #0 of CreateAuthRequest")
		} else {
			r.Fail("R-ORDER", "sso:suffix-outcome", w.InstrPos(c), fmt.Sprintf("the acceptance redirect is not a 303 to the service provider's login URL for the identifier storage returned (status const=%v/%d, url sources %s, id from persisted request=%v)", okS, status, ls, idOK))
		}
	}
	// every suffix path performs exactly one act
	checkChainHandlerEmit(cx, r, "R-EMIT", "sso", ch)

	// the ACS / binding non-empty checks and the supported-binding check precede persist
	if k.persist != nil {
		bindingStep := findBindingSupportedStep(cx, ch)
		if bindingStep == nil {
			r.Fail("R-ORDER", "sso:binding-supported", w.FnPos(ch.Fn), "no step rejects a protocol binding other than HTTP-POST / HTTP-Redirect before the request is persisted")
		} else if bindingStep.Idx >= k.persist.Idx {
			r.Fail("R-ORDER", "sso:binding-supported", bindingStep.Pos, "the supported-binding check runs after the persist step")
		} else {
			r.Ok("R-ORDER", "sso:binding-supported", bindingStep.Pos, "a step failing exactly when the binding is not POST/Redirect precedes the persist step")
		}
	}

	// error callbacks: exactly one reply each
	for _, s := range ch.Steps {
		ef := s.Fn("errorFunc")
		if ef == nil {
			if s.Kind != "WithValueStep" {
				r.Undecided("R-EMIT", fmt.Sprintf("sso:callback:%s", stepName(cx, s)), s.Pos, "error callback not resolved to a single closure")
			}
			continue
		}
		cx.checkEmitExactlyOne(r, "R-EMIT", "sso:callback:"+stepName(cx, s), ef)
	}
	// shared reply functions
	cx.checkEmitExactlyOne(r, "R-EMIT", "provider.(*Response).sendBackResponse", w.Func("provider.(*Response).sendBackResponse"))
	cx.checkEmitExactlyOne(r, "R-EMIT", "provider.(*LogoutResponse).sendBackLogoutResponse", w.Func("provider.(*LogoutResponse).sendBackLogoutResponse"))
	cx.checkPageCannotFailOnData(r)
	// every function stored into an ErrorFunc field of a Response / LogoutResponse (closure or plain function)
	{
		seenEF := map[*ssa.Function]bool{}
		nEF := 0
		for _, fn := range w.sortedFuncs(cx.handlerScope()) {
			for _, st := range fx.info(fn).stores {
				fa, ok := st.Addr.(*ssa.FieldAddr)
				if !ok || fname(fieldVar(fa.X.Type(), fa.Field)) != "ErrorFunc" {
					continue
				}
				if o := fieldOwner(fa.X.Type()); o != "provider.Response" && o != "provider.LogoutResponse" {
					continue
				}
				tg, okT := fx.funcTargets(st.Val)
				if !okT || len(tg) == 0 {
					r.Undecided("R-EMIT", "ErrorFunc@"+w.InstrPos(st), w.InstrPos(st), "the function stored as ErrorFunc cannot be resolved")
					continue
				}
				for _, an := range tg {
					if seenEF[an] {
						continue
					}
					seenEF[an] = true
					nEF++
					cx.checkEmitExactlyOne(r, "R-EMIT", "ErrorFunc:"+w.FuncKey(an), an)
				}
			}
		}
		r.Check(nEF >= 1, "R-EMIT", "#ErrorFunc", "", fmt.Sprintf("%d error reporters of reply objects", nEF), "no function is stored as ErrorFunc of a reply object any more")
	}
	// the reply of one request cannot be overwritten or prefixed by another request's (pooled buffers)
	cx.checkPoolEscape(r)
	r.Min("R-EMIT", 4)
}

func stepName(cx *Ctx, s *Step) string {
	if s.Name != "" {
		return s.Kind + ":" + s.Name
	}
	for _, role := range []string{"logic", "cond"} {
		if f := cx.roleFactory(s, role); f != "" && !strings.Contains(f, "HandleFunc") {
			return s.Kind + ":" + f
		}
	}
	// name by the most specific callee reached
	var names []string
	for f := range s.Scope {
		for _, c := range callsIn(f) {
			if m := storageMethod(c); m != "" {
				names = append(names, m)
			} else if cal := calleeOf(c); cal != nil && cal.Pkg != nil && isModulePath(cal.Pkg.Pkg.Path()) && cal.Parent() == nil && !isCheckerMethod(cal) {
				names = append(names, fnName(cal))
			}
		}
	}
	if len(names) > 0 {
		sortStrings(names)
		return s.Kind + ":" + names[0]
	}
	return fmt.Sprintf("%s#%d", s.Kind, s.Idx)
}

func sortStrings(s []string) {
	for i := 1; i < len(s); i++ {
		for j := i; j > 0 && s[j] < s[j-1]; j-- {
			s[j], s[j-1] = s[j-1], s[j]
		}
	}
}

// findBindingSupportedStep: a logic step whose failing paths are exactly "Response.ProtocolBinding is
// neither PostBinding nor RedirectBinding".
func findBindingSupportedStep(cx *Ctx, ch *Chain) *Step {
	fx := cx.Fx
	for _, s := range ch.Steps {
		lf := s.Fn("logic")
		if lf == nil || s.Kind != "WithLogicStep" {
			continue
		}
		// the decision may sit in a pure function of the binding the step calls and hands the verdict of
		// (`err = checkResponseBindingSupported(response.ProtocolBinding); return err`)
		bindingParam := ""
		if cs := callsIn(lf); len(cs) == 1 {
			if call, isCall := cs[0].(*ssa.Call); isCall {
				if g := calleeOf(call); g != nil && g.Blocks != nil && g.Pkg == lf.Pkg && g.Parent() == nil {
					if e, has, _ := errResult(call); has && e != nil && fx.isReturned(e) {
						for i, a := range call.Call.Args {
							if strings.HasSuffix(fx.path(a), ".ProtocolBinding") && i < len(g.Params) {
								bindingParam = fx.path(g.Params[i])
								lf = g
							}
						}
					}
				}
			}
		}
		paths, ok := enumPaths(lf, nil, 64)
		if !ok || len(paths) == 0 {
			continue
		}
		good := true
		sawPass, sawFail := false, false
		for _, p := range paths {
			ret := p.Return()
			if ret == nil || len(ret.Results) != 1 {
				good = false
				break
			}
			pass := isNilConst(ret.Results[0])
			// which binding constants were matched / excluded on this path
			eq := map[string]bool{}
			ne := map[string]bool{}
			other := false
			for _, c := range p.Conds {
				a := fx.atomOf(c.Cond, c.Pol)
				if a.Op != "EQ" {
					other = true
					continue
				}
				var cst string
				switch {
				case strings.HasPrefix(a.A, "const:") && (strings.HasSuffix(a.B, ".ProtocolBinding") || bindingParam != "" && a.B == bindingParam):
					cst = a.A
				case strings.HasPrefix(a.B, "const:") && (strings.HasSuffix(a.A, ".ProtocolBinding") || bindingParam != "" && a.A == bindingParam):
					cst = a.B
				default:
					other = true
					continue
				}
				if a.Neg {
					ne[cst] = true
				} else {
					eq[cst] = true
				}
			}
			post := "const:urn:oasis:names:tc:SAML:2.0:bindings:HTTP-POST"
			redir := "const:urn:oasis:names:tc:SAML:2.0:bindings:HTTP-Redirect"
			if other {
				good = false
				break
			}
			if pass {
				sawPass = true
				if !(eq[post] || eq[redir]) || len(eq) != 1 {
					good = false
				}
			} else {
				sawFail = true
				if !(ne[post] && ne[redir]) || len(eq) != 0 {
					good = false
				}
			}
		}
		if good && sawPass && sawFail {
			return s
		}
	}
	return nil
}

// checkChainHandlerEmit: in a chain handler, paths through the fail edge of CheckFailed perform no
// reply act of their own (the failing step's callback did), every other path exactly one.
func checkChainHandlerEmit(cx *Ctx, r *Report, rule, name string, ch *Chain) {
	w := cx.W
	s := cx.emitSummaryOf(ch.Fn, nil)
	if !s.Decided {
		r.Undecided(rule, name+":handler-paths", w.FnPos(ch.Fn), s.Why)
		return
	}
	bad := ""
	pos := w.FnPos(ch.Fn)
	nFail, nPass, nPre := 0, 0, 0
	for _, p := range s.Paths {
		n := p.count()
		last := p.Path.Last()
		lp := w.InstrPos(last.Instrs[len(last.Instrs)-1])
		switch {
		case p.Path.Has(ch.FailBlock) && ch.FailBlock != ch.PassBlock && !p.Path.Has(ch.PassBlock):
			nFail++
			if n != 0 {
				bad, pos = "after a step failed (and its callback replied) the handler replies again: "+p.describe(w), lp
			}
		case p.Path.Has(ch.PassBlock):
			nPass++
			if n != 1 {
				bad, pos = fmt.Sprintf("a path after the chain passed performs %d reply acts (%s)", n, p.describe(w)), lp
			}
		default:
			nPre++
			if n != 1 {
				bad, pos = fmt.Sprintf("an exit before the chain is evaluated performs %d reply acts (%s)", n, p.describe(w)), lp
			}
		}
	}
	if bad != "" {
		r.Fail(rule, name+":handler-paths", pos, bad)
		return
	}
	if nPass == 0 || nFail == 0 {
		r.Fail(rule, name+":handler-paths", pos, "the handler lacks a pass or a fail exit after CheckFailed")
		return
	}
	r.Ok(rule, name+":handler-paths", w.FnPos(ch.Fn), fmt.Sprintf("%d early exits and %d pass paths with exactly one reply act, %d fail paths with none", nPre, nPass, nFail))
}

// checkPageCannotFailOnData (R-TPL-DATA): the auto-submit pages are streamed straight into the reply; if a
// substitution could fail for a reason in the data (an accessor method returning an error, a template function),
// the reply would be a partial page followed by whatever the error path writes - two messages in one reply. Every
// action must therefore be a plain reference to a string field of the data struct.
func (cx *Ctx) checkPageCannotFailOnData(r *Report) {
	w := cx.W
	for _, tp := range []struct{ constName, dataType string }{{"postTemplate", "authResponseForm"}, {"logoutTemplate", "LogoutResponseForm"}} {
		txt, ok := w.pkgConst("provider", tp.constName)
		if !ok {
			r.Fail("R-TPL-DATA", tp.constName, "", "template constant not found")
			continue
		}
		trees, err := parse.Parse(tp.constName, txt, "{{", "}}", map[string]any{})
		if err != nil || trees[tp.constName] == nil {
			r.Fail("R-TPL-DATA", tp.constName, "", "the template does not parse")
			continue
		}
		st := w.structOf("provider." + tp.dataType)
		if st == nil {
			r.Fail("R-TPL-DATA", tp.constName, "", "data struct "+tp.dataType+" not found")
			continue
		}
		strField := map[string]bool{}
		for i := 0; i < st.NumFields(); i++ {
			if b, isB := st.Field(i).Type().(*types.Basic); isB && b.Kind() == types.String {
				strField[st.Field(i).Name()] = true
			}
		}
		bad := ""
		n := 0
		for _, nd := range trees[tp.constName].Root.Nodes {
			switch x := nd.(type) {
			case *parse.TextNode:
			case *parse.ActionNode:
				n++
				okRef := false
				if len(x.Pipe.Decl) == 0 && len(x.Pipe.Cmds) == 1 && len(x.Pipe.Cmds[0].Args) == 1 {
					if f, isF := x.Pipe.Cmds[0].Args[0].(*parse.FieldNode); isF && len(f.Ident) == 1 && strField[f.Ident[0]] {
						okRef = true
					}
				}
				if !okRef {
					bad = "substitution " + x.String() + " is not a plain string field of " + tp.dataType + " (a method, function or pipeline can fail while the page is being written: the reply would be a partial page followed by an error text)"
				}
			default:
				bad = "the template contains a control action (" + nd.String() + ")"
			}
		}
		r.Check(bad == "" && n > 0, "R-TPL-DATA", tp.constName, "", fmt.Sprintf("%d substitutions, all plain string fields of %s", n, tp.dataType), bad)
	}
}

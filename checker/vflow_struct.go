package main

import (
	"go/types"

	"golang.org/x/tools/go/ssa"
)

// ---------------------------------------------------------------------------
// Call-site sensitive structure walks.
//
// Labels() names where a value comes from but merges the instances of a struct
// built by a helper that is called several times (one allocation site). Rules
// that need the value of a field of *this* element of *this* list (the service
// table of the metadata document) walk the construction itself: the callback is
// invoked with the defining value while the call-site context (vf.ctx) of the
// helper calls passed through is active, so vf.Labels / vf.resolve inside the
// callback see the arguments of exactly that call.
// ---------------------------------------------------------------------------

// withCtx runs f with call c pushed on the context.
func (vf *VFlow) withCtx(c ssa.CallInstruction, f func()) {
	saved := vf.ctx
	if len(vf.ctx) < 6 {
		vf.ctx = append(append([]ssa.CallInstruction(nil), vf.ctx...), c)
	}
	f()
	vf.ctx = saved
}

// resolve follows v through phis, conversions and (in context) parameters to the values that define it and calls f
// on each under the context that belongs to it. ok=false if some definition could not be followed.
func (vf *VFlow) resolve(v ssa.Value, f func(ssa.Value), seen map[ssa.Value]bool, depth int) bool {
	if depth > 40 || seen[v] {
		return depth <= 40
	}
	seen[v] = true
	defer delete(seen, v)
	switch x := v.(type) {
	case *ssa.Phi:
		ok := true
		for _, e := range x.Edges {
			ok = vf.resolve(e, f, seen, depth+1) && ok
		}
		return ok
	case *ssa.ChangeType:
		return vf.resolve(x.X, f, seen, depth+1)
	case *ssa.Parameter:
		fn := x.Parent()
		idx := -1
		for i, p := range fn.Params {
			if p == x {
				idx = i
			}
		}
		if n := len(vf.ctx); n > 0 && idx >= 0 {
			top := vf.ctx[n-1]
			for _, tg := range vf.targets(top) {
				if tg == fn && idx < len(top.Common().Args) {
					saved := vf.ctx
					vf.ctx = append([]ssa.CallInstruction(nil), vf.ctx[:n-1]...)
					ok := vf.resolve(top.Common().Args[idx], f, map[ssa.Value]bool{}, depth+1)
					vf.ctx = saved
					return ok
				}
			}
		}
		cs := vf.callers[fn]
		if len(cs) == 0 || idx < 0 {
			f(v)
			return true
		}
		ok := true
		for _, c := range cs {
			if idx < len(c.Common().Args) {
				saved := vf.ctx
				vf.ctx = nil
				ok = vf.resolve(c.Common().Args[idx], f, map[ssa.Value]bool{}, depth+1) && ok
				vf.ctx = saved
			}
		}
		return ok
	case *ssa.UnOp:
		// load of a local variable that is only ever assigned (not address-taken otherwise)
		if al, isAl := x.X.(*ssa.Alloc); isAl {
			if _, isStruct := al.Type().Underlying().(*types.Pointer).Elem().Underlying().(*types.Struct); !isStruct {
				var vals []ssa.Value
				simple := true
				for _, ref := range *al.Referrers() {
					switch y := ref.(type) {
					case *ssa.Store:
						if y.Addr == ssa.Value(al) {
							vals = append(vals, y.Val)
						} else {
							simple = false
						}
					case *ssa.UnOp, *ssa.DebugRef:
					default:
						simple = false
					}
				}
				if simple && len(vals) > 0 {
					ok := true
					for _, s := range vals {
						ok = vf.resolve(s, f, seen, depth+1) && ok
					}
					return ok
				}
			}
		}
	case *ssa.Call:
		// result of a module function: its returned values, in the context of this call - unless the
		// caller wants to see this call itself (vf.stopAt)
		if _, isB := x.Call.Value.(*ssa.Builtin); !isB && (vf.stopAt == nil || !vf.stopAt(x)) {
			if _, isTuple := x.Type().(*types.Tuple); !isTuple {
				if tgs := vf.targets(x); len(tgs) > 0 {
					ok := true
					vf.withCtx(x, func() {
						for _, tg := range tgs {
							for _, ret := range returnsOf(tg) {
								ok = vf.resolve(ret.Results[0], f, map[ssa.Value]bool{}, depth+1) && ok
							}
						}
					})
					return ok
				}
			}
		}
	}
	f(v)
	return true
}

func isStructLike(t types.Type) bool {
	if p, ok := t.Underlying().(*types.Pointer); ok {
		t = p.Elem()
	}
	_, ok := t.Underlying().(*types.Struct)
	return ok
}

// forEachElem calls f on every value stored as an element of the slice value v (composite literals, append,
// helper functions returning the slice, local variables). Returns false if part of the construction could not
// be followed (the caller reports "undecided").
func (vf *VFlow) forEachElem(v ssa.Value, f func(elem ssa.Value), depth int) bool {
	if depth > 40 {
		return false
	}
	switch x := v.(type) {
	case *ssa.Const:
		return true // nil slice
	case *ssa.Slice:
		return vf.forEachElem(x.X, f, depth+1)
	case *ssa.MakeSlice:
		// s := make([]T, n); for i := range ... { s[i] = v }
		for _, ref := range *x.Referrers() {
			if ia, isIA := ref.(*ssa.IndexAddr); isIA && ia.X == ssa.Value(x) {
				for _, r2 := range *ia.Referrers() {
					if st, isSt := r2.(*ssa.Store); isSt && st.Addr == ssa.Value(ia) {
						f(st.Val)
					}
				}
			}
		}
		return true
	case *ssa.Alloc:
		// backing array of a literal, or a local variable holding a slice
		ok := true
		for _, ref := range *x.Referrers() {
			switch y := ref.(type) {
			case *ssa.IndexAddr:
				for _, r2 := range *y.Referrers() {
					if st, isSt := r2.(*ssa.Store); isSt && st.Addr == ssa.Value(y) {
						f(st.Val)
					}
				}
			case *ssa.Store:
				if y.Addr == ssa.Value(x) {
					ok = vf.forEachElem(y.Val, f, depth+1) && ok
				}
			}
		}
		return ok
	case *ssa.UnOp:
		if al, isAl := x.X.(*ssa.Alloc); isAl {
			return vf.forEachElem(al, f, depth+1)
		}
		return false
	case *ssa.Phi:
		ok := true
		seen := map[ssa.Value]bool{}
		for _, e := range x.Edges {
			if e == ssa.Value(x) || seen[e] {
				continue
			}
			seen[e] = true
			if p, isPhi := e.(*ssa.Phi); isPhi && p == x {
				continue
			}
			ok = vf.forEachElem(e, f, depth+1) && ok
		}
		return ok
	case *ssa.Parameter:
		ok := true
		found := false
		r := vf.resolve(x, func(d ssa.Value) {
			if d == ssa.Value(x) {
				return
			}
			found = true
			ok = vf.forEachElem(d, f, depth+1) && ok
		}, map[ssa.Value]bool{}, depth+1)
		return r && ok && found
	case *ssa.Call:
		if b, isB := x.Call.Value.(*ssa.Builtin); isB {
			if b.Name() == "append" {
				ok := true
				for _, a := range x.Call.Args {
					ok = vf.forEachElem(a, f, depth+1) && ok
				}
				return ok
			}
			return false
		}
		tgs := vf.targets(x)
		if len(tgs) == 0 {
			return false
		}
		ok := true
		vf.withCtx(x, func() {
			for _, tg := range tgs {
				for _, ret := range returnsOf(tg) {
					ok = vf.forEachElem(ret.Results[0], f, depth+1) && ok
				}
			}
		})
		return ok
	}
	return false
}

// forEachField calls f on every value stored into field name of the struct value (or pointer to struct) v:
// composite literals, field assignments on a local, helper functions returning the struct.
func (vf *VFlow) forEachField(v ssa.Value, name string, f func(val ssa.Value), depth int) bool {
	if depth > 40 {
		return false
	}
	switch x := v.(type) {
	case *ssa.Alloc:
		ok := true
		n := 0
		for _, ref := range *x.Referrers() {
			switch y := ref.(type) {
			case *ssa.FieldAddr:
				if fname(fieldVar(y.X.Type(), y.Field)) != name {
					continue
				}
				for _, r2 := range *y.Referrers() {
					if st, isSt := r2.(*ssa.Store); isSt && st.Addr == ssa.Value(y) {
						n++
						f(st.Val)
					}
				}
			case *ssa.Store:
				if y.Addr == ssa.Value(x) {
					n++
					ok = vf.forEachField(y.Val, name, f, depth+1) && ok
				}
			}
		}
		return ok
	case *ssa.UnOp:
		if al, isAl := x.X.(*ssa.Alloc); isAl {
			return vf.forEachField(al, name, f, depth+1)
		}
		return false
	case *ssa.Phi:
		ok := true
		for _, e := range x.Edges {
			if e != ssa.Value(x) {
				ok = vf.forEachField(e, name, f, depth+1) && ok
			}
		}
		return ok
	case *ssa.Parameter:
		ok := true
		found := false
		r := vf.resolve(x, func(d ssa.Value) {
			if d == ssa.Value(x) {
				return
			}
			found = true
			ok = vf.forEachField(d, name, f, depth+1) && ok
		}, map[ssa.Value]bool{}, depth+1)
		return r && ok && found
	case *ssa.Call:
		if _, isB := x.Call.Value.(*ssa.Builtin); isB {
			return false
		}
		tgs := vf.targets(x)
		if len(tgs) == 0 {
			return false
		}
		ok := true
		vf.withCtx(x, func() {
			for _, tg := range tgs {
				for _, ret := range returnsOf(tg) {
					ok = vf.forEachField(ret.Results[0], name, f, depth+1) && ok
				}
			}
		})
		return ok
	}
	return false
}

package main

import (
	"fmt"
	"go/token"
	"go/types"
	"strings"

	"golang.org/x/tools/go/ssa"
)

func init() { register("C16", checkC16) }

// resultCells: local structs found to hold the chosen entry (see phiSitesVia); reset per run of the rule.
var resultCells = map[*ssa.Alloc]bool{}

// structCellSites: cell is a local struct variable of the selection; the sites at which its field fidx gets a value:
// a whole-struct assignment from a constructor `h(elem)` whose field fidx is a field of its parameter (the element),
// or a direct field assignment. ok=false when an assignment is not of these shapes.
func structCellSites(cell *ssa.Alloc, fidx int, v ssa.Value) ([]acsSite, bool) {
	var out []acsSite
	n := 0
	for _, ref := range nonDebugRefs(cell) {
		switch x := ref.(type) {
		case *ssa.Store:
			if x.Addr != ssa.Value(cell) {
				continue
			}
			n++
			c, isC := x.Val.(*ssa.Call)
			if !isC {
				if k, isK := x.Val.(*ssa.Const); isK && k.Value == nil {
					continue // the zero value: both results empty
				}
				return nil, false
			}
			h := calleeOf(c)
			if h == nil || h.Blocks == nil || len(c.Call.Args) != 1 || len(h.Params) != 1 {
				return nil, false
			}
			// the element handed to the constructor
			var slot *ssa.IndexAddr
			arg := c.Call.Args[0]
			for hop := 0; hop < 3 && slot == nil; hop++ {
				a, isU := arg.(*ssa.UnOp)
				if !isU || a.Op != token.MUL {
					break
				}
				switch y := a.X.(type) {
				case *ssa.IndexAddr:
					slot = y
				case *ssa.Alloc:
					// the range variable: a copy of the element
					if sts := gFacts.storesToCell(y); len(sts) == 1 {
						arg = sts[0]
						continue
					}
				}
				break
			}
			if slot == nil {
				return nil, false
			}
			// what the constructor puts into field fidx: a field of its parameter
			elemField := ""
			for _, b := range h.Blocks {
				for _, in := range b.Instrs {
					st, isSt := in.(*ssa.Store)
					if !isSt {
						continue
					}
					fa, isFA := st.Addr.(*ssa.FieldAddr)
					if !isFA || fa.Field != fidx {
						continue
					}
					if _, isLocal := fa.X.(*ssa.Alloc); !isLocal {
						continue
					}
					switch y := st.Val.(type) {
					case *ssa.Field:
						if y.X == ssa.Value(h.Params[0]) {
							if stt, isS := y.X.Type().Underlying().(*types.Struct); isS {
								elemField = fname(stt.Field(y.Field))
							}
						}
					case *ssa.UnOp:
						if fa2, isFA2 := y.X.(*ssa.FieldAddr); isFA2 {
							if pc, isAl := fa2.X.(*ssa.Alloc); isAl {
								if sts := gFacts.storesToCell(pc); len(sts) == 1 && sts[0] == ssa.Value(h.Params[0]) {
									elemField = fname(fieldVar(fa2.X.Type(), fa2.Field))
								}
							}
						}
					}
				}
			}
			if elemField == "" {
				return nil, false
			}
			out = append(out, acsSite{val: v, pred: x.Block(), slot: slot, field: elemField})
		case *ssa.FieldAddr:
			if x.Field != fidx {
				continue
			}
			for _, r2 := range nonDebugRefs(x) {
				if st, isSt := r2.(*ssa.Store); isSt && st.Addr == ssa.Value(x) {
					n++
					out = append(out, acsSite{val: st.Val, pred: st.Block()})
				}
			}
		}
	}
	return out, n > 0
}

type acsSite struct {
	val  ssa.Value
	pred *ssa.BasicBlock
	via  *ssa.Call // the call of a helper that hands both results up (`return lowestIndexEndpoint(list)`), nil in the function itself
	// for a result read through the element pointer a helper returned (`e := firstWithBinding(list, b); e.Location`):
	// the element's slot inside the helper and the field read
	slot  *ssa.IndexAddr
	field string
}

// phiSites: the non-phi values (with the block they arrive from) that can reach v through phis. A value that is
// result #i of a helper of the same package returning the (URL, binding) pair is replaced by the sites of the helper's
// own result #i: a stage of the selection that moved into a function of its own is still a stage.
func phiSites(v ssa.Value, from *ssa.BasicBlock, seen map[ssa.Value]bool, out *[]acsSite) {
	phiSitesVia(v, from, seen, out, nil, 0)
}

func phiSitesVia(v ssa.Value, from *ssa.BasicBlock, seen map[ssa.Value]bool, out *[]acsSite, via *ssa.Call, depth int) {
	if phi, ok := v.(*ssa.Phi); ok {
		if seen[phi] {
			return
		}
		seen[phi] = true
		for i, e := range phi.Edges {
			phiSitesVia(e, phi.Block().Preds[i], seen, out, via, depth)
		}
		return
	}
	if ex, ok := v.(*ssa.Extract); ok && depth < 2 && via == nil {
		if c, isC := ex.Tuple.(*ssa.Call); isC && !c.Call.IsInvoke() {
			if h := calleeOf(c); h != nil && h.Blocks != nil && h.Parent() == nil && c.Parent() != nil && h.Pkg == c.Parent().Pkg && h != c.Parent() {
				res := h.Signature.Results()
				if res.Len() == 2 && isStringType(res.At(0).Type()) && isStringType(res.At(1).Type()) {
					for _, ret := range returnsOf(h) {
						if ex.Index < len(ret.Results) {
							phiSitesVia(ret.Results[ex.Index], ret.Block(), seen, out, c, depth+1)
						}
					}
					return
				}
			}
		}
	}
	// a field of a local struct that holds the chosen entry (`chosen = newConsumerEndpoint(acs)` ... `return chosen.url,
	// chosen.binding`): the assignments to the struct are the sites
	if ld, ok := v.(*ssa.UnOp); ok && ld.Op == token.MUL && depth < 2 && via == nil {
		if fa, isFA := ld.X.(*ssa.FieldAddr); isFA {
			if cell, isCell := fa.X.(*ssa.Alloc); isCell && cell.Parent() == ld.Parent() {
				if sites, okc := structCellSites(cell, fa.Field, v); okc {
					resultCells[cell] = true
					*out = append(*out, sites...)
					return
				}
			}
		}
	}
	// a field read through the pointer a helper of the package returned: the helper's returns are the sites
	if ld, ok := v.(*ssa.UnOp); ok && ld.Op == token.MUL && depth < 2 && via == nil {
		if fa, isFA := ld.X.(*ssa.FieldAddr); isFA {
			if c, isC := fa.X.(*ssa.Call); isC && !c.Call.IsInvoke() {
				if h := calleeOf(c); h != nil && h.Blocks != nil && h.Parent() == nil && c.Parent() != nil && h.Pkg == c.Parent().Pkg && h != c.Parent() {
					if _, isPtr := h.Signature.Results().At(0).Type().Underlying().(*types.Pointer); isPtr && h.Signature.Results().Len() == 1 {
						var inner []acsSite
						for _, ret := range returnsOf(h) {
							phiSitesVia(ret.Results[0], ret.Block(), seen, &inner, nil, depth+1)
						}
						for _, is := range inner {
							if isNilConst(is.val) {
								continue // the caller reads the fields only where the pointer was found non-nil (R-NIL's matter)
							}
							ia, _ := is.val.(*ssa.IndexAddr)
							*out = append(*out, acsSite{val: v, pred: is.pred, via: c, slot: ia, field: fname(fieldVar(fa.X.Type(), fa.Field))})
						}
						return
					}
				}
			}
		}
	}
	*out = append(*out, acsSite{val: v, pred: from, via: via})
}

// elemBaseOf: if v is a load of field `field` of a range element (a local copy or the slot itself), the
// element's slot address (IndexAddr) and the container value.
func (cx *Ctx) elemFieldOf(v ssa.Value) (slot *ssa.IndexAddr, field string) {
	fx := cx.Fx
	var base ssa.Value
	switch x := v.(type) {
	case *ssa.UnOp:
		if x.Op != token.MUL {
			return nil, ""
		}
		fa, ok := x.X.(*ssa.FieldAddr)
		if !ok {
			return nil, ""
		}
		field = fname(fieldVar(fa.X.Type(), fa.Field))
		base = fa.X
	case *ssa.Field:
		field = x.X.Type().Underlying().(interface {
			Field(int) interface{ Name() string }
		}).Field(x.Field).Name()
		base = x.X
	default:
		return nil, ""
	}
	for i := 0; i < 5; i++ {
		switch b := base.(type) {
		case *ssa.IndexAddr:
			return b, field
		case *ssa.Alloc:
			st := fx.storesToCell(b)
			if len(st) != 1 {
				return nil, ""
			}
			base = st[0]
		case *ssa.UnOp:
			base = b.X
		default:
			return nil, ""
		}
	}
	return nil, ""
}

func checkC16(cx *Ctx, r *Report) {
	w, fx := cx.W, cx.Fx
	// request data must not be shared between requests through recycled buffers (R-POOL, see C15)
	cx.checkPoolEscape(r)
	r.Clauses = []string{
		"pairing / membership: wherever the selection assigns its two results they are assigned together, from the Location and Binding of the same element of the list passed in, or both stay empty",
		"precedence and first match: an element is taken (1) under Binding == requested binding, leaving the loop at once; (2) only if (1) chose nothing, under isDefault being xs:boolean true, leaving the loop at once; (3) only if neither chose anything, when no candidate exists yet or its index is lower than the best so far - and the 'no candidate yet' test is not an equality with a value an index can take",
		"the list is the registered one in document order: the handler passes the looked-up provider's AssertionConsumerService and the decoded ProtocolBinding unchanged, and module code never re-orders or edits decoded service-provider metadata",
	}
	r.NotDec = []string{"value-level correctness of the selection for every list (a loop invariant over all lists)", "ties between entries with equal minimal index"}
	r.Assume = []string{"strconv.Atoi on the index attribute (errors ignored by the code: a non-numeric index counts as 0)"}
	fn := w.Func("provider.GetAcsUrlAndBindingForResponse")
	if fn == nil {
		r.Fail("R-SELECT", "GetAcsUrlAndBindingForResponse", "", "anchor function not found")
		return
	}
	// the selection moved behind the exported function (`return selectConsumerEndpoint(acs, binding)`, possibly in
	// another package): what is analysed is the function that does the work, with the same parameters in the same order
	for hops := 0; hops < 3; hops++ {
		g := plainDelegate(fn)
		if g == nil {
			break
		}
		fn = g
	}
	rets := returnsOf(fn)
	if len(rets) == 0 {
		r.Undecided("R-SELECT", "GetAcsUrlAndBindingForResponse", w.FnPos(fn), "no return found")
		return
	}
	var s0, s1 []acsSite
	seen0, seen1 := map[ssa.Value]bool{}, map[ssa.Value]bool{}
	for _, ret := range rets {
		if len(ret.Results) != 2 {
			r.Undecided("R-SELECT", "GetAcsUrlAndBindingForResponse", w.InstrPos(ret), "expected returns of two results")
			return
		}
		phiSites(ret.Results[0], ret.Block(), seen0, &s0)
		phiSites(ret.Results[1], ret.Block(), seen1, &s1)
	}
	by1 := map[*ssa.BasicBlock]ssa.Value{}
	by1s := map[*ssa.BasicBlock]acsSite{}
	for _, s := range s1 {
		by1[s.pred] = s.val
		by1s[s.pred] = s
	}
	// and the other way round: the binding result is assigned nowhere else (a later "fallback" that replaces the binding
	// alone pairs the URL of one entry with the binding of another - a pair that is not registered)
	by0 := map[*ssa.BasicBlock]bool{}
	for _, s := range s0 {
		by0[s.pred] = true
	}
	for _, s := range s1 {
		if by0[s.pred] {
			continue
		}
		if cs, ok := constString(s.val); ok && cs == "" {
			continue
		}
		r.Fail("R-SELECT", "site@"+w.InstrPos(s.pred.Instrs[len(s.pred.Instrs)-1])+":pairing", w.InstrPos(s.pred.Instrs[0]), "the binding result is assigned ("+fx.path(s.val)+") in a block where the URL result is not: URL and binding of a reply can come from different entries, a pair that is not registered")
	}
	lvf := cx.newVFlow("GetAcsUrlAndBindingForResponse:"+w.FuncKey(fn), fn)
	helpers := cx.xsBoolHelpers()
	res0phis := map[ssa.Value]bool{}
	for _, ret := range rets {
		var tmp []acsSite
		phiSites(ret.Results[0], ret.Block(), res0phis, &tmp)
	}
	nElem := 0
	stage3FlagSeen := false
	var stage2Blocks, stage3Blocks []*ssa.BasicBlock
	type siteInfo struct {
		s     acsSite
		stage int
	}
	var infos []siteInfo
	for _, s := range s0 {
		key := "site@" + w.InstrPos(s.pred.Instrs[len(s.pred.Instrs)-1])
		other, has := by1[s.pred]
		if !has {
			r.Fail("R-SELECT", key+":pairing", w.InstrPos(s.pred.Instrs[0]), "the URL result is assigned in a block where the binding result is not: URL and binding of a reply can come from different entries")
			continue
		}
		if cs, ok := constString(s.val); ok {
			cs1, ok1 := constString(other)
			r.Check(cs == "" && ok1 && cs1 == "", "R-SELECT", key+":pairing", "", "both results empty", "a constant other than \"\" is returned as consumer URL / binding")
			continue
		}
		slot0, f0 := cx.elemFieldOf(s.val)
		slot1, f1 := cx.elemFieldOf(other)
		if s.slot != nil {
			slot0, f0 = s.slot, s.field
		}
		if o := by1s[s.pred]; o.slot != nil {
			slot1, f1 = o.slot, o.field
		}
		// the minimum of the list under a comparison of the numeric indexes (slices.MinFunc hands back the first of
		// several minimal elements): the lowest-index stage without a loop
		if slot0 == nil && slot1 == nil {
			if mc, fl := minFuncField(fx, s.val); mc != nil {
				if mc1, fl1 := minFuncField(fx, other); mc1 == mc && fl == "Location" && fl1 == "Binding" {
					okL := true
					for l := range lvf.objLabels(mc.Call.Args[0], 0) {
						if l != "param:"+w.FuncKey(fn)+"/#0" {
							okL = false
						}
					}
					bad := ""
					if !okL {
						bad = "the minimum is not taken over the list of registered endpoints passed in"
					} else if why := indexComparator(fx, mc.Call.Args[1]); why != "" {
						bad = "the comparison handed to slices.MinFunc " + why
					} else {
						pts, _ := fx.atomPathsTo(s.pred, 8192)
						for _, p := range pts {
							for _, t := range s0 {
								if t.pred != s.pred && !isConstStr(t.val) && p.Has(t.pred) {
									bad = "the lowest-index stage can run after an entry was chosen"
								}
							}
						}
					}
					r.Check(bad == "", "R-SELECT", key+":guard(stage 3)", w.InstrPos(mc), "slices.MinFunc over the list with the numeric index as order: the first entry with the lowest index", bad)
					if bad == "" {
						nElem++
						infos = append(infos, siteInfo{s, 3})
					}
					continue
				}
			}
		}
		if slot0 == nil || slot1 == nil || !sameSlot(slot0, slot1) || f0 != "Location" || f1 != "Binding" {
			r.Fail("R-SELECT", key+":pairing", w.InstrPos(s.pred.Instrs[0]), fmt.Sprintf("the two results are not Location and Binding of the same list element (got %s / %s)", fx.path(s.val), fx.path(other)))
			continue
		}
		// the element is one of the list passed in
		ll := lvf.objLabels(slot0.X, 0)
		okList := len(ll) > 0
		for l := range ll {
			if l != "param:"+w.FuncKey(fn)+"/#0" {
				okList = false
			}
		}
		r.Check(okList, "R-SELECT", key+":pairing", w.InstrPos(slot0), "Location and Binding of the same element of the list passed in", "the selected element does not come from the list of registered endpoints passed in")
		nElem++
		// guards on every path to the assigning block
		fx.loopPaths = true // the selection loops carry state (candidate, flags) from one iteration to the next
		pts, ok := fx.atomPathsTo(s.pred, 8192)
		if ok && s.via != nil {
			// the way to the helper's call comes first
			outer, okO := fx.atomPathsTo(s.via.Block(), 8192)
			ok = okO && len(outer)*len(pts) <= 8192
			if ok {
				var comb []APath
				for _, o := range outer {
					for _, p := range pts {
						q := APath{Ret: p.Ret}
						q.Blocks = append(append([]*ssa.BasicBlock{}, o.Blocks...), p.Blocks...)
						q.Conds = append(append([]condPol{}, o.Conds...), p.Conds...)
						q.Raw = append(append([]condPol{}, o.Raw...), p.Raw...)
						q.Atoms = append(append([]Atom{}, o.Atoms...), p.Atoms...)
						comb = append(comb, q)
					}
				}
				pts = comb
			}
		}
		fx.loopPaths = false
		if !ok || len(pts) == 0 {
			r.Undecided("R-SELECT", key+":guard", w.InstrPos(slot0), "paths to the assignment not enumerable")
			continue
		}
		inCycle := fx.info(s.pred.Parent()).reachable(s.pred, s.pred)
		stage := 0
		bad := ""
		sawFirstCandidate := false
		staleBest := ""
		for _, p := range pts {
			g1, g2, lt, firstCand, nothingYet, sentinel := false, false, false, false, false, ""
			// the element at the index slices.IndexFunc found: the first one its predicate holds for
			if ic, isIC := slot0.Index.(*ssa.Call); isIC && strings.HasPrefix(calleeName(ic), "slices.IndexFunc") && len(ic.Call.Args) == 2 {
				found := false
				for _, a := range p.Atoms {
					if bo, isB := stripNot(a.Cond).(*ssa.BinOp); isB && (bo.X == ssa.Value(ic) || bo.Y == ssa.Value(ic)) && a.Op == "LT" && a.Neg && (a.B == "const:0" || a.A == "const:0") {
						found = true // index >= 0
					}
				}
				if found {
					switch cx.indexPredicateKind(ic, fn, helpers) {
					case 1:
						g1 = true
					case 2:
						g2 = true
					}
				}
			}
			for _, a := range p.Atoms {
				switch {
				case a.Op == "EQ" && !a.Neg && (strings.HasSuffix(a.A, ".Binding") && a.TB == "<#1 string>" || strings.HasSuffix(a.B, ".Binding") && a.TA == "<#1 string>"):
					if c, ok := a.Cond.(*ssa.BinOp); ok {
						sl, _ := cx.elemFieldOf(c.X)
						if sl == nil {
							sl, _ = cx.elemFieldOf(c.Y)
						}
						if sameSlot(sl, slot0) {
							g1 = true
						}
					}
				case strings.HasPrefix(a.Op, "CALL:") && !a.Neg && strings.HasSuffix(a.A, ".IsDefault") && cx.isHelperAtom(a, helpers):
					if c, ok := stripNot(a.Cond).(*ssa.Call); ok && len(c.Call.Args) == 1 {
						if sl, _ := cx.elemFieldOf(c.Call.Args[0]); sameSlot(sl, slot0) {
							g2 = true
						}
					}
				case a.Op == "EQ" && !a.Neg && (a.A == "const:true" || a.B == "const:true") && strings.HasSuffix(a.A+a.B, ".IsDefault"):
					g2 = true // literal comparison: the incompleteness is reported by R-XSBOOL
				case a.Op == "LT" && !a.Neg:
					// i < best, with i = Atoi(elem.Index)
					if c, ok := a.Cond.(*ssa.BinOp); ok {
						for _, o := range []ssa.Value{c.X, c.Y} {
							if ex, ok := o.(*ssa.Extract); ok {
								if cl, ok := ex.Tuple.(*ssa.Call); ok && calleeName(cl) == "strconv.Atoi" {
									if sl, f := cx.elemFieldOf(cl.Call.Args[0]); sameSlot(sl, slot0) && f == "Index" && strings.HasPrefix(a.A, "call@") {
										lt = true
										// the bound compared with is the best index so far: it must become this
										// entry's index when the entry is taken (else the search compares with a stale bound)
										best := c.Y
										if o == c.Y {
											best = c.X
										}
										if _, isK := best.(*ssa.Const); isK {
											staleBest = "an entry's index is compared with the constant " + fx.path(best) + " instead of the best index found so far: the lowest index is not found"
										}
										if bp, isPhi := best.(*ssa.Phi); isPhi {
											for k, pr := range bp.Block().Preds {
												if pr == s.pred && bp.Edges[k] != o {
													staleBest = "the best index so far is not set to the index of the entry that is taken (it keeps " + fx.path(bp.Edges[k]) + "): later entries are compared with a stale bound and the lowest index is not found"
												}
											}
										}
									}
								}
							}
						}
					}
				case a.Op == "NIL" && !a.Neg && strings.HasPrefix(a.A, "phi@"):
					// "no candidate yet" for a candidate kept as element pointer: the pointer that becomes the result is still nil
					if c, ok := stripNot(a.Cond).(*ssa.BinOp); ok && (res0phis[c.X] || res0phis[c.Y]) {
						firstCand = true
					}
				case a.Op == "EMPTY" && !a.Neg && emptyOfResultCell(a):
					nothingYet = true
				case a.Op == "EMPTY" && !a.Neg && strings.HasPrefix(a.A, "phi@"):
					if c, ok := stripNot(a.Cond).(*ssa.BinOp); ok {
						if res0phis[unLen(c.X)] || res0phis[unLen(c.Y)] {
							nothingYet = true
						}
					}
				case a.Op == "EQ" && !a.Neg && strings.HasPrefix(a.A, "const:") && strings.HasPrefix(a.B, "phi@") || a.Op == "EQ" && !a.Neg && strings.HasPrefix(a.B, "const:") && strings.HasPrefix(a.A, "phi@"):
					sentinel = a.String()
				}
			}
			// a boolean flag found false on this path: "no candidate yet" if the flag becomes true in this very block
			for _, rc := range p.Raw {
				v := rc.Cond
				pol := rc.Pol
				for {
					u, ok := v.(*ssa.UnOp)
					if !ok || u.Op != token.NOT {
						break
					}
					v, pol = u.X, !pol
				}
				if phi, ok := v.(*ssa.Phi); ok && !pol && flagSetBy(phi, s.pred, 0, map[*ssa.Phi]bool{}) {
					firstCand = true
				}
			}
			// "no candidate yet" spelled as "first iteration": index == 0 of the front-to-back loop over the list, where
			// nothing but that test (and the index comparison) decides inside the loop - so iteration 0 always selects
			for _, a := range p.Atoms {
				if a.Op != "EQ" || a.Neg || a.A != "const:0" && a.B != "const:0" {
					continue
				}
				bo, ok := a.Cond.(*ssa.BinOp)
				if !ok || !(isRangeIndex(bo.X, fx) || isRangeIndex(bo.Y, fx)) {
					continue
				}
				onlyThat := true
				fi := fx.info(s.pred.Parent())
				for _, cp := range p.Conds {
					in, isIn := cp.Cond.(ssa.Instruction)
					if !isIn || cp.Cond == a.Cond {
						continue
					}
					b := in.Block()
					if !(fi.reachable(b, s.pred) && fi.reachable(s.pred, b)) {
						continue // outside the loop
					}
					if cb, isB := cp.Cond.(*ssa.BinOp); isB && (isRangeIndex(cb.X, fx) || isRangeIndex(cb.Y, fx)) {
						continue // the loop's own bound test
					}
					onlyThat = false
				}
				if onlyThat {
					firstCand = true
				}
			}
			// nothing chosen yet by construction: the path passes through no other selection site
			if !nothingYet {
				passes := false
				for _, t := range s0 {
					if t.pred == s.pred {
						continue
					}
					if _, isConst := constString(t.val); isConst {
						continue
					}
					for _, b := range p.Blocks[:len(p.Blocks)-1] {
						if b == t.pred {
							passes = true
						}
					}
				}
				if !passes {
					nothingYet = true
				}
			}
			switch {
			case g1:
				stage = 1
			case g2 && nothingYet:
				stage = 2
			case (lt || firstCand) && nothingYet:
				stage = 3
				if firstCand {
					sawFirstCandidate = true
				}
			case sentinel != "" && nothingYet:
				stage = 3
				bad = "the 'no candidate yet' test is " + sentinel + ", an equality with a value a registered index can take: an entry with that index is replaced by a later one"
			default:
				bad = "an entry can be selected on a path that satisfies none of the documented conditions (requested binding / default after no binding match / lower index after neither): " + atomsString(p.Atoms)
			}
		}
		if stage == 3 && bad == "" && staleBest != "" {
			bad = staleBest
		}
		infos = append(infos, siteInfo{s, stage})
		switch stage {
		case 1, 2:
			if inCycle && bad == "" {
				bad = "the loop is not left after the first matching entry: a later matching entry replaces the first"
			}
			if stage == 2 {
				stage2Blocks = append(stage2Blocks, s.pred)
			}
		case 3:
			stage3Blocks = append(stage3Blocks, s.pred)
			if sawFirstCandidate {
				stage3FlagSeen = true
			}
			if !sawFirstCandidate && bad == "" {
				bad = "the lowest-index search has no 'first candidate' case: it starts from a fixed bound, so entries whose index is not below it are never selected"
			}
		}
		r.Check(bad == "", "R-SELECT", key+fmt.Sprintf(":guard(stage %d)", stage), w.InstrPos(slot0), "selected only under the documented condition of its stage", bad)
	}
	_ = stage3FlagSeen
	// all three stages exist
	have := map[int]bool{}
	for _, i := range infos {
		have[i.stage] = true
	}
	for st, name := range map[int]string{1: "requested binding", 2: "isDefault", 3: "lowest index"} {
		r.Check(have[st], "R-SELECT", fmt.Sprintf("stage-%d-exists", st), w.FnPos(fn), "stage '"+name+"' present", "the selection has no '"+name+"' stage any more")
	}
	// stage 3 only when stage 2 found nothing: every path to a stage-3 block avoids all stage-2 blocks, or passes a false 'default found' flag
	viaOf := map[*ssa.BasicBlock]*ssa.Call{}
	for _, i := range infos {
		if i.s.via != nil {
			viaOf[i.s.pred] = i.s.via
		}
	}
	for _, b3 := range stage3Blocks {
		pts, _ := fx.atomPathsTo(b3, 8192)
		if v := viaOf[b3]; v != nil {
			o, _ := fx.atomPathsTo(v.Block(), 8192)
			pts = append(pts, o...)
		}
		bad := ""
		for _, p := range pts {
			for _, b2 := range stage2Blocks {
				if p.Has(b2) {
					bad = "the lowest-index stage can run after a default entry was chosen (and overwrite it)"
				}
			}
		}
		r.Check(bad == "", "R-SELECT", "default-before-index@"+w.InstrPos(b3.Instrs[0]), w.InstrPos(b3.Instrs[0]), "not reachable after a default entry was chosen", bad)
	}
	cx.checkXSBool(r, "R-XSBOOL", map[string]bool{"md.IndexedEndpointType.IsDefault": true})
	if nElem < 3 {
		r.Fail("R-SELECT", "#sites", w.FnPos(fn), fmt.Sprintf("only %d assignment sites from list elements found (three stages expected)", nElem))
	}

	// --- the list and the requested binding passed by the handler ----------------------------------------
	vf := cx.vflow(kSSO)
	ls, sites := vf.CallArgSources(matchFnKey(w, "provider.GetAcsUrlAndBindingForResponse"), 0)
	acsList := "ext:iface:provider.IDPStorage.GetEntityByID#0.Metadata.SPSSODescriptor.AssertionConsumerService"
	if len(sites) == 0 {
		r.Fail("R-VFG", "sso:acs-list", "", "the SSO handler no longer calls the selection")
	} else {
		r.checkSources("R-VFG", "sso:acs-list", w.InstrPos(sites[0]), ls, []string{acsList}, []string{acsList}, true)
		lb, _ := vf.CallArgSources(matchFnKey(w, "provider.GetAcsUrlAndBindingForResponse"), 1)
		r.checkSources("R-VFG", "sso:requested-binding", w.InstrPos(sites[0]), lb, []string{"decoded:samlp.AuthnRequestType.ProtocolBinding"}, []string{"decoded:samlp.AuthnRequestType.ProtocolBinding"}, true)
	}
	cx.checkSelectionResultsOnly(r)
	cx.checkDecodedMetadataUntouched(r)
}

// checkDecodedMetadataUntouched (R-WHO): module code neither stores into nor re-orders decoded metadata objects.
func (cx *Ctx) checkDecodedMetadataUntouched(r *Report) {
	w, fx := cx.W, cx.Fx
	ns := w.Func(kNewSP)
	if ns == nil {
		return
	}
	scope := map[*ssa.Function]bool{}
	for f := range cx.handlerScope() {
		scope[f] = true
	}
	w.refClosure(ns, scope)
	vf := cx.newVFlowFns(scope)
	isDecodedMD := func(ls LabelSet) string {
		for l := range ls {
			if strings.HasPrefix(l, "decoded:md.") || strings.Contains(l, "GetEntityByID#0.Metadata") {
				return l
			}
		}
		return ""
	}
	n := 0
	for f := range vf.scope {
		for _, st := range fx.info(f).stores {
			switch st.Addr.(type) {
			case *ssa.FieldAddr, *ssa.IndexAddr:
				n++
				if l := isDecodedMD(vf.objLabels(st.Addr, 0)); l != "" {
					r.Fail("R-WHO", "decoded-metadata:store@"+w.FuncKey(f), w.InstrPos(st), "module code writes into decoded service-provider metadata ("+l+"): the registered endpoints are no longer what the provider published")
				}
			}
		}
		for _, c := range callsIn(f) {
			n := calleeName(c)
			if strings.HasPrefix(n, "sort.") || strings.HasPrefix(n, "slices.Sort") || n == "slices.Reverse" {
				for _, a := range c.Common().Args {
					if l := isDecodedMD(vf.Labels(a)); l != "" {
						r.Fail("R-WHO", "decoded-metadata:reorder@"+w.FuncKey(f), w.InstrPos(c), "decoded service-provider metadata is re-ordered ("+l+"): 'first in document order' is evaluated on a different order")
					}
				}
			}
		}
	}
	r.Ok("R-WHO", "decoded-metadata", "", fmt.Sprintf("%d field/element stores examined; none targets decoded metadata, no sort call on it", n))
}

// sameSlot: two element addresses denote the same element: the same instruction, or the same container value
// indexed by the same index value (go/ssa performs no CSE, so acs[i].Location and acs[i].Binding are two IndexAddrs).
func sameSlot(a, b *ssa.IndexAddr) bool {
	if a == nil || b == nil {
		return false
	}
	return a == b || a.X == b.X && a.Index == b.Index
}

// flagSetBy: the boolean flag phi receives the constant true from block b (or from a block only reachable
// through b), possibly through the merge phis of a three-clause loop.
func flagSetBy(phi *ssa.Phi, b *ssa.BasicBlock, depth int, seen map[*ssa.Phi]bool) bool {
	if depth > 4 || seen[phi] {
		return false
	}
	seen[phi] = true
	for i, e := range phi.Edges {
		switch x := e.(type) {
		case *ssa.Const:
			if x.Value != nil && x.Value.ExactString() == "true" {
				p := phi.Block().Preds[i]
				if p == b || b.Dominates(p) {
					return true
				}
			}
		case *ssa.Phi:
			if flagSetBy(x, b, depth+1, seen) {
				return true
			}
		}
	}
	return false
}

// unLen: the operand of len(x), or v itself.
func unLen(v ssa.Value) ssa.Value {
	if c, ok := v.(*ssa.Call); ok {
		if b, ok := c.Call.Value.(*ssa.Builtin); ok && b.Name() == "len" && len(c.Call.Args) == 1 {
			return c.Call.Args[0]
		}
	}
	return v
}

// checkSelectionResultsOnly: in the SSO handler both Response.AcsUrl and Response.ProtocolBinding are assigned only
// from the two results of the selection function (or stay empty).
func (cx *Ctx) checkSelectionResultsOnly(r *Report) {
	// --- what the handler does with the result: both parts of the pair come from one call of the selection ------
	w := cx.W
	vf := cx.vflow(kSSO)
	if vf == nil {
		return
	}
	vf.stopAt = func(c *ssa.Call) bool { return matchFnKey(w, "provider.GetAcsUrlAndBindingForResponse")(c) }
	for i, fld := range []string{"AcsUrl", "ProtocolBinding"} {
		_, stores := vf.FieldStoreSources("provider.Response", fld)
		n := 0
		for _, st := range stores {
			if !vf.scope[st.Parent()] {
				continue
			}
			okAll := true
			what := ""
			vf.resolve(st.Val, func(d ssa.Value) {
				if c, isC := d.(*ssa.Const); isC && (c.Value == nil || c.Value.ExactString() == `""`) {
					return
				}
				ex, isEx := d.(*ssa.Extract)
				if isEx && ex.Index == i {
					if c, isC := ex.Tuple.(*ssa.Call); isC && vf.stopAt(c) {
						return
					}
				}
				okAll = false
				what = cx.Fx.path(d)
			}, map[ssa.Value]bool{}, 0)
			n++
			r.Check(okAll, "R-SELECT", fmt.Sprintf("sso:Response.%s#%d", fld, n), w.InstrPos(st), fmt.Sprintf("result #%d of the selection", i), fmt.Sprintf("the SSO handler sets Response.%s from %s, not from result #%d of the selection: URL and binding can come from different registered entries", fld, what, i))
		}
		r.Check(n > 0, "R-SELECT", "sso:Response."+fld, "", "assigned from the selection", "the SSO handler never assigns Response."+fld)
	}
	vf.stopAt = nil
}

// isRangeIndex: v is the index of a front-to-back loop: phi(-1, v)+1 (range) or phi(0, phi+1) (for i := 0; ...; i++).
func isRangeIndex(v ssa.Value, fx *Facts) bool {
	if b, ok := v.(*ssa.BinOp); ok && b.Op == token.ADD {
		phi, ok := b.X.(*ssa.Phi)
		if !ok || fx.path(b.Y) != "const:1" || len(phi.Edges) < 2 {
			return false
		}
		nInit := 0
		for _, e := range phi.Edges {
			switch {
			case fx.path(e) == "const:-1":
				nInit++
			case e == v:
			default:
				return false
			}
		}
		return nInit == 1
	}
	if phi, ok := v.(*ssa.Phi); ok && len(phi.Edges) == 2 {
		for i := 0; i < 2; i++ {
			if fx.path(phi.Edges[i]) == "const:0" {
				if inc, ok := phi.Edges[1-i].(*ssa.BinOp); ok && inc.Op == token.ADD && inc.X == phi && fx.path(inc.Y) == "const:1" {
					return true
				}
			}
		}
	}
	return false
}

// plainDelegate: fn does nothing but hand its parameters, in order, to one module function and return all of that
// function's results: the function. nil otherwise.
func plainDelegate(fn *ssa.Function) *ssa.Function {
	if fn == nil || len(fn.Blocks) != 1 {
		return nil
	}
	var call *ssa.Call
	for _, in := range fn.Blocks[0].Instrs {
		switch x := in.(type) {
		case *ssa.Call:
			if call != nil {
				return nil
			}
			call = x
		case *ssa.Extract, *ssa.Return, *ssa.DebugRef:
		default:
			return nil
		}
	}
	if call == nil {
		return nil
	}
	g := calleeOf(call)
	if g == nil || g.Blocks == nil || g.Pkg == nil || !isModulePath(g.Pkg.Pkg.Path()) || len(call.Call.Args) != len(fn.Params) || len(g.Params) != len(fn.Params) {
		return nil
	}
	for i, a := range call.Call.Args {
		if a != ssa.Value(fn.Params[i]) {
			return nil
		}
	}
	rets := returnsOf(fn)
	if len(rets) != 1 {
		return nil
	}
	for i, rv := range rets[0].Results {
		if len(rets[0].Results) == 1 {
			if rv != ssa.Value(call) {
				return nil
			}
			continue
		}
		ex, ok := rv.(*ssa.Extract)
		if !ok || ex.Tuple != ssa.Value(call) || ex.Index != i {
			return nil
		}
	}
	return g
}

// checkSelectionPairs (R-SELECT, shared with C02): wherever the consumer-endpoint selection assigns one of its two
// results it assigns the other from the same list element - in both directions. (C16 checks this inside its stage
// analysis; C02 needs only this clause: the (URL, binding) pair persisted and used is one registered entry.)
func (cx *Ctx) checkSelectionPairs(r *Report) {
	w, fx := cx.W, cx.Fx
	fn := w.Func("provider.GetAcsUrlAndBindingForResponse")
	if fn == nil {
		r.Fail("R-SELECT", "GetAcsUrlAndBindingForResponse", "", "anchor function not found")
		return
	}
	for hops := 0; hops < 3; hops++ {
		g := plainDelegate(fn)
		if g == nil {
			break
		}
		fn = g
	}
	var s0, s1 []acsSite
	seen0, seen1 := map[ssa.Value]bool{}, map[ssa.Value]bool{}
	for _, ret := range returnsOf(fn) {
		if len(ret.Results) != 2 {
			r.Undecided("R-SELECT", "GetAcsUrlAndBindingForResponse", w.InstrPos(ret), "expected returns of two results")
			return
		}
		phiSites(ret.Results[0], ret.Block(), seen0, &s0)
		phiSites(ret.Results[1], ret.Block(), seen1, &s1)
	}
	by0, by1 := map[*ssa.BasicBlock]ssa.Value{}, map[*ssa.BasicBlock]ssa.Value{}
	for _, s := range s0 {
		by0[s.pred] = s.val
	}
	for _, s := range s1 {
		by1[s.pred] = s.val
	}
	bad := ""
	for _, s := range s0 {
		o, has := by1[s.pred]
		if cs, ok := constString(s.val); ok && cs == "" {
			if has {
				if c1, ok1 := constString(o); !ok1 || c1 != "" {
					bad = "an empty URL is paired with a binding at " + w.InstrPos(s.pred.Instrs[0])
				}
			}
			continue
		}
		if !has {
			bad = "the URL result is assigned (" + fx.path(s.val) + ") where the binding result is not, at " + w.InstrPos(s.pred.Instrs[0])
			continue
		}
		sl0, f0 := cx.elemFieldOf(s.val)
		sl1, f1 := cx.elemFieldOf(o)
		if sl0 != nil && sl1 != nil && (!sameSlot(sl0, sl1) || f0 != "Location" || f1 != "Binding") {
			bad = "the two results are not Location and Binding of the same element (" + fx.path(s.val) + " / " + fx.path(o) + ") at " + w.InstrPos(s.pred.Instrs[0])
		}
	}
	for _, s := range s1 {
		if _, has := by0[s.pred]; has {
			continue
		}
		if cs, ok := constString(s.val); ok && cs == "" {
			continue
		}
		bad = "the binding result is assigned (" + fx.path(s.val) + ") where the URL result is not, at " + w.InstrPos(s.pred.Instrs[0])
	}
	r.Check(bad == "", "R-SELECT", "selection:pairs", w.FnPos(fn), "the two results are always assigned together", bad+": URL and binding of a reply can come from different entries - a pair that is not registered")
}

func isConstStr(v ssa.Value) bool {
	_, ok := constString(v)
	return ok
}

// minFuncField: v is field f of the value slices.MinFunc(list, cmp) returned (kept in a local or not).
func minFuncField(fx *Facts, v ssa.Value) (*ssa.Call, string) {
	var base ssa.Value
	field := ""
	switch x := v.(type) {
	case *ssa.UnOp:
		fa, ok := x.X.(*ssa.FieldAddr)
		if x.Op != token.MUL || !ok {
			return nil, ""
		}
		field = fname(fieldVar(fa.X.Type(), fa.Field))
		base = fa.X
	case *ssa.Field:
		st, ok := x.X.Type().Underlying().(*types.Struct)
		if !ok {
			return nil, ""
		}
		field = fname(st.Field(x.Field))
		base = x.X
	default:
		return nil, ""
	}
	for i := 0; i < 4; i++ {
		switch b := base.(type) {
		case *ssa.Call:
			if strings.HasPrefix(calleeName(b), "slices.MinFunc") && len(b.Call.Args) == 2 {
				return b, field
			}
			return nil, ""
		case *ssa.Alloc:
			st := fx.storesToCell(b)
			if len(st) != 1 {
				return nil, ""
			}
			base = st[0]
		case *ssa.UnOp:
			base = b.X
		default:
			return nil, ""
		}
	}
	return nil, ""
}

// indexComparator: "" when cmp is func(a, b T) int { return cmp.Compare(Atoi(a.Index), Atoi(b.Index)) } (conversion
// errors ignored, as the selection always did); otherwise what is wrong with it.
func indexComparator(fx *Facts, cmpv ssa.Value) string {
	tg, ok := fx.funcTargets(cmpv)
	if f, isF := cmpv.(*ssa.Function); isF {
		tg, ok = []*ssa.Function{f}, true
	}
	if !ok || len(tg) != 1 || tg[0].Blocks == nil || len(tg[0].Params) != 2 {
		return "is not a known function of two elements"
	}
	f := tg[0]
	rets := returnsOf(f)
	if len(rets) != 1 || len(rets[0].Results) != 1 {
		return "has several returns"
	}
	cc, isC := rets[0].Results[0].(*ssa.Call)
	if !isC || !strings.HasPrefix(calleeName(cc), "cmp.Compare") || len(cc.Call.Args) != 2 {
		return "does not return cmp.Compare of the two indexes"
	}
	for i, a := range cc.Call.Args {
		ex, isE := a.(*ssa.Extract)
		if !isE || ex.Index != 0 {
			return "does not compare the numeric indexes"
		}
		ac, isAC := ex.Tuple.(*ssa.Call)
		if !isAC || calleeName(ac) != "strconv.Atoi" {
			return "does not compare the numeric indexes"
		}
		// Atoi(<param i>.Index)
		okArg := false
		switch y := ac.Call.Args[0].(type) {
		case *ssa.Field:
			if st, isS := y.X.Type().Underlying().(*types.Struct); isS && fname(st.Field(y.Field)) == "Index" && y.X == ssa.Value(f.Params[i]) {
				okArg = true
			}
		case *ssa.UnOp:
			if fa, isFA := y.X.(*ssa.FieldAddr); isFA && fname(fieldVar(fa.X.Type(), fa.Field)) == "Index" {
				if cell, isAl := fa.X.(*ssa.Alloc); isAl {
					if st := fx.storesToCell(cell); len(st) == 1 && st[0] == ssa.Value(f.Params[i]) {
						okArg = true
					}
				}
			}
		}
		if !okArg {
			return "does not compare the index of its first argument with the index of its second, in this order"
		}
	}
	return ""
}

// indexPredicateKind: the predicate of slices.IndexFunc(list, pred): 1 when it holds exactly for an element whose
// Binding equals the requested binding (parameter #1 of the selection), 2 when exactly for an element whose IsDefault is
// xs:boolean true (through the checked helper), 0 otherwise.
func (cx *Ctx) indexPredicateKind(ic *ssa.Call, sel *ssa.Function, helpers map[*ssa.Function]bool) int {
	fx := cx.Fx
	pv := ic.Call.Args[1]
	var pf *ssa.Function
	switch x := pv.(type) {
	case *ssa.Function:
		pf = x
	case *ssa.MakeClosure:
		pf, _ = x.Fn.(*ssa.Function)
	}
	if pf == nil || pf.Blocks == nil || len(pf.Params) != 1 {
		return 0
	}
	rets := returnsOf(pf)
	if len(rets) != 1 || len(rets[0].Results) != 1 {
		return 0
	}
	elemField := func(v ssa.Value) string {
		switch y := v.(type) {
		case *ssa.Field:
			if st, isS := y.X.Type().Underlying().(*types.Struct); isS && y.X == ssa.Value(pf.Params[0]) {
				return fname(st.Field(y.Field))
			}
		case *ssa.UnOp:
			if fa, isFA := y.X.(*ssa.FieldAddr); isFA {
				if cell, isAl := fa.X.(*ssa.Alloc); isAl {
					if st := fx.storesToCell(cell); len(st) == 1 && st[0] == ssa.Value(pf.Params[0]) {
						return fname(fieldVar(fa.X.Type(), fa.Field))
					}
				}
			}
		}
		return ""
	}
	switch rv := rets[0].Results[0].(type) {
	case *ssa.BinOp:
		if rv.Op != token.EQL {
			return 0
		}
		for _, pair := range [][2]ssa.Value{{rv.X, rv.Y}, {rv.Y, rv.X}} {
			if elemField(pair[0]) != "Binding" {
				continue
			}
			// the other side: the selection's second parameter (captured)
			if ld, isLd := pair[1].(*ssa.UnOp); isLd && ld.Op == token.MUL {
				if fv, isFV := ld.X.(*ssa.FreeVar); isFV {
					switch b := fx.bindings[fv].(type) {
					case *ssa.Parameter:
						if len(sel.Params) > 1 && b == sel.Params[1] {
							return 1
						}
					case *ssa.Alloc:
						if st := fx.storesToCell(b); len(st) == 1 && len(sel.Params) > 1 && st[0] == ssa.Value(sel.Params[1]) {
							return 1
						}
					}
				}
			}
		}
	case *ssa.Call:
		if h := calleeOf(rv); h != nil && helpers[h] && len(rv.Call.Args) == 1 && elemField(rv.Call.Args[0]) == "IsDefault" {
			return 2
		}
	}
	return 0
}

// emptyOfResultCell: the atom tests a field of a local struct that holds the chosen entry for emptiness.
func emptyOfResultCell(a Atom) bool {
	bo, ok := stripNot(a.Cond).(*ssa.BinOp)
	if !ok {
		return false
	}
	for _, o := range []ssa.Value{unLen(bo.X), unLen(bo.Y)} {
		if ld, isLd := o.(*ssa.UnOp); isLd && ld.Op == token.MUL {
			if fa, isFA := ld.X.(*ssa.FieldAddr); isFA {
				if cell, isCell := fa.X.(*ssa.Alloc); isCell && resultCells[cell] {
					return true
				}
			}
		}
	}
	return false
}

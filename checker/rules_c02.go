package main

import (
	"fmt"
	"strings"

	"golang.org/x/tools/go/ssa"
)

func init() { register("C02", checkC02) }

const (
	acsLoc     = "ext:iface:provider.IDPStorage.GetEntityByID#0.Metadata.SPSSODescriptor.AssertionConsumerService[].Location"
	acsBinding = "ext:iface:provider.IDPStorage.GetEntityByID#0.Metadata.SPSSODescriptor.AssertionConsumerService[].Binding"
	cbURL      = "ext:iface:models.AuthRequestInt.GetAccessConsumerServiceURL#0"
	cbBinding  = "ext:iface:models.AuthRequestInt.GetBindingType#0"
	sloLocC    = "ext:iface:provider.IDPStorage.GetEntityByID#0.Metadata.SPSSODescriptor.SingleLogoutService[].Location"
)

// varargElem: the value stored at index i of the variadic argument slice v.
func varargElem(v ssa.Value, i int64) ssa.Value {
	sl, ok := v.(*ssa.Slice)
	if !ok {
		return nil
	}
	al, ok := sl.X.(*ssa.Alloc)
	if !ok {
		return nil
	}
	for _, ref := range *al.Referrers() {
		ia, ok := ref.(*ssa.IndexAddr)
		if !ok {
			continue
		}
		if k, ok := constInt(ia.Index); !ok || k != i {
			continue
		}
		for _, r2 := range *ia.Referrers() {
			if st, ok := r2.(*ssa.Store); ok && st.Addr == ssa.Value(ia) {
				if mi, ok := st.Val.(*ssa.MakeInterface); ok {
					return mi.X
				}
				return st.Val
			}
		}
	}
	return nil
}

type fieldSink struct {
	owner, field string
	allow, req   []string
	unchanged    bool
	in           string // restrict to store sites inside this function ("" = all)
}

func (cx *Ctx) checkFieldSinks(r *Report, rule, prefix string, vf *VFlow, sinks []fieldSink) {
	w := cx.W
	for _, s := range sinks {
		var ls LabelSet
		var sites []*ssa.Store
		if s.in != "" {
			ls, sites = vf.StoreSourcesIn(s.in, s.owner, s.field)
		} else {
			ls, sites = vf.FieldStoreSources(s.owner, s.field)
		}
		key := prefix + ":" + s.owner + "." + s.field
		if s.in != "" {
			key += "@" + s.in
		}
		if len(sites) == 0 {
			r.Fail(rule, key, "", "no store to this field in the entry point's scope: the wiring the rule checks has moved")
			continue
		}
		r.checkSources(rule, key, w.InstrPos(sites[0]), vf.Deep(ls), s.allow, s.req, s.unchanged)
	}
}

// checkStoresUnconditional (R-MUST): provenance says where a field's value can come from, not that the field is filled.
// For every sink with required sources, each store site that carries such a source must execute whenever its
// function runs to a return - its block lies on every path from the entry to a return - or be skipped only when the
// value itself is empty / nil (`if url != "" { x.Recipient = url }` leaves the zero value an unconditional store of ""
// would also leave). A store under any other condition fills the field for some requests only.
func (cx *Ctx) checkStoresUnconditional(r *Report, rule, prefix string, vf *VFlow, sinks []fieldSink) {
	w, fx := cx.W, cx.Fx
	for _, s := range sinks {
		if len(s.req) == 0 {
			continue
		}
		// message constructors only: the functions that build the wire structs and have no failing exit. (The
		// per-attribute stores of GetSAML have a rule of their own; handlers fill their reply objects between error exits.)
		if !(strings.HasPrefix(s.owner, "samlp.") || strings.HasPrefix(s.owner, "saml.")) || s.owner == "saml.AttributeType" {
			continue
		}
		_, sites := vf.FieldStoreSources(s.owner, s.field)
		for _, st := range sites {
			if res := st.Parent().Signature.Results(); res.Len() == 0 || isErrorType(res.At(res.Len()-1).Type()) {
				continue
			}
			ls := vf.Deep(vf.Labels(st.Val))
			carries := false
			for _, l := range ls.leaves() {
				if matchAny(s.req, l) {
					carries = true
				}
			}
			if !carries {
				continue
			}
			key := prefix + ":" + s.owner + "." + s.field + "@" + w.FuncKey(st.Parent())
			ok, why := cx.blockUnconditional(st.Block(), st.Val, 0)
			r.Check(ok, rule, key, w.InstrPos(st), "filled on every path of its function (or skipped only for an empty value)", s.owner+"."+s.field+" is filled only on some paths of "+w.FuncKey(st.Parent())+" ("+why+"): for the other requests the message goes out without it")
			_ = fx
		}
	}
}

// blockUnconditional: every path from the entry of b's function to a return passes b, or b is skipped only under
// emptiness / nil-ness of val, by a branch that is itself unconditional.
func (cx *Ctx) blockUnconditional(b *ssa.BasicBlock, val ssa.Value, depth int) (bool, string) {
	fn := b.Parent()
	fx := cx.Fx
	if depth > 4 {
		return false, "nested conditions"
	}
	avoidable := false
	for _, ret := range returnsOf(fn) {
		if ret.Block() == b {
			continue
		}
		if reachAvoidingBlock(fn.Blocks[0], ret.Block(), b) {
			avoidable = true
		}
	}
	if !avoidable || b == fn.Blocks[0] {
		return true, ""
	}
	// conditional: the deciding branch (edges a constant condition rules out do not count)
	var live []*ssa.BasicBlock
	for _, pr := range b.Preds {
		for k, sc := range pr.Succs {
			if sc == b && !deadEdge(pr, k) {
				live = append(live, pr)
				break
			}
		}
	}
	if len(live) != 1 {
		return false, "reached by several conditional paths"
	}
	p := live[0]
	ifi, ok := p.Instrs[len(p.Instrs)-1].(*ssa.If)
	if !ok {
		return cx.blockUnconditional(p, val, depth+1)
	}
	pol := p.Succs[0] == b
	a := fx.atomOf(ifi.Cond, pol)
	okCond := false
	if (a.Op == "EMPTY" || a.Op == "NIL") && a.Neg {
		// the tested value is the stored one (or what it was computed from)
		var subj ssa.Value
		if a.Op == "EMPTY" {
			subj = emptySubject(a)
		} else {
			subj, _, _ = nilTest(ifi.Cond)
		}
		if subj != nil {
			sp := fx.path(subj)
			if sp == fx.path(val) {
				okCond = true
			}
			for _, al := range fx.aliasesOf(subj) {
				if al == val {
					okCond = true
				}
			}
			// the stored value is built from the tested one (a struct around it, a formatted form)
			var ops [16]*ssa.Value
			if in, isIn := val.(ssa.Instruction); isIn {
				for _, op := range in.Operands(ops[:0]) {
					if op != nil && *op != nil && (fx.path(*op) == sp) {
						okCond = true
					}
				}
			}
		}
	}
	if !okCond {
		return false, "under " + a.String()
	}
	return cx.blockUnconditional(p, val, depth+1)
}

func checkC02(cx *Ctx, r *Report) {
	w, fx := cx.W, cx.Fx
	// storage is asked with the request's context (which carries the issuer in effect)
	cx.checkStorageContext(r)
	cx.checkStorageIsTheApplications(r)
	// the registered locations are used as published: module code does not edit decoded metadata (shared with C16)
	cx.checkDecodedMetadataUntouched(r)
	r.Clauses = []string{
		"provenance of every delivery address: at the SSO endpoint Response.AcsUrl / ProtocolBinding, the values persisted with CreateAuthRequest, the Destination of error replies and the form action / redirect target come only from Location / Binding of an AssertionConsumerService entry of the provider returned by GetEntityByID (or stay empty); at the callback only from GetAccessConsumerServiceURL() / GetBindingType() of the request returned by AuthRequestByID; at logout only from the provider's SingleLogoutService locations. No form value, header or field of the protocol message reaches them",
		"same pair persisted and used: the two values given to CreateAuthRequest are the Response fields the selection's two results were stored to; sendBackResponse posts to / redirects to exactly Response.AcsUrl, with the form under ProtocolBinding == HTTP-POST and the redirect under == HTTP-Redirect",
		"inside the message: Destination and Recipient have the same sources as the delivery address",
	}
	r.NotDec = []string{"what the browser does with the form", "URL normalisation by html/template"}
	r.Assume = []string{"storage returns the request it stored (the callback's URL is the one persisted at SSO time)"}

	// --- SSO entry -------------------------------------------------------------------------------
	vs := cx.vflow(kSSO)
	if vs == nil {
		r.Fail("R-VFG", "sso", "", "SSO handler not found")
		return
	}
	// the provider whose endpoints are used is the one the request's Issuer names: looked up under the Issuer, and the
	// request is accepted only if the Issuer equals that provider's entity ID exactly (shared with C06 / C13)
	cx.checkLookupByIssuer(r)
	// what is registered is what the provider's metadata document says: decoding it is strict - a decode error is an
	// error of NewServiceProvider, not the start of a second, more lenient attempt whose result is used (R-ERR)
	if ns := w.Func(kNewSP); ns != nil {
		cx.checkErrDiscipline(r, w.sortedFuncs(w.scopeOf(ns)))
	}
	if cx.requireC20(r) {
		if k := cx.ssoChain(r); k != nil {
			cx.checkRequiredContent(r, k, vs)
		}
	}
	cx.checkFieldSinks(r, "R-VFG", "sso", vs, []fieldSink{
		{"provider.Response", "AcsUrl", []string{acsLoc, "const:"}, []string{acsLoc}, true, ""},
		{"provider.Response", "ProtocolBinding", []string{acsBinding, "const:"}, []string{acsBinding}, true, ""},
		{"samlp.ResponseType", "Destination", []string{acsLoc, "const:"}, []string{acsLoc}, true, ""},
		{"provider.authResponseForm", "AssertionConsumerServiceURL", []string{acsLoc, "const:"}, []string{acsLoc}, true, ""},
	})
	for _, a := range []struct {
		idx  int
		want string
		fld  string
	}{{2, acsLoc, "AcsUrl"}, {3, acsBinding, "ProtocolBinding"}} {
		ls, sites := vs.CallArgSources(matchStorage("CreateAuthRequest"), a.idx)
		if len(sites) == 0 {
			r.Fail("R-VFG", fmt.Sprintf("sso:CreateAuthRequest:arg%d", a.idx), "", "persist call not found")
			continue
		}
		r.checkSources("R-VFG", fmt.Sprintf("sso:CreateAuthRequest:arg%d", a.idx), w.InstrPos(sites[0]), ls, []string{a.want, "const:"}, []string{a.want}, true)
		// it is a load of the Response field
		p := ""
		sameField := true
		for _, av := range fx.throughWrapperParams(sites[0].Common().Args[a.idx], 0) {
			p = fx.path(av)
			if !strings.HasSuffix(fx.T(p), "<provider.Response>."+a.fld) {
				sameField = false
				break
			}
		}
		r.Check(sameField && p != "", "R-VFG", fmt.Sprintf("sso:CreateAuthRequest:arg%d:same-field", a.idx), w.InstrPos(sites[0]), "is Response."+a.fld+", the field the selection result was stored to", "the value persisted is not Response."+a.fld+" (got "+p+"): the pair persisted can differ from the pair selected")
	}
	// the pair is one entry: both results of the selection come from the same element (shared with C16)
	cx.checkSelectionPairs(r)
	// the selection's results are stored to the two fields together
	for _, c := range w.callsTo(w.scopeOf(w.Func(kSSO)), matchFnKey(w, "provider.GetAcsUrlAndBindingForResponse")) {
		call, ok := c.(*ssa.Call)
		if !ok {
			continue
		}
		got := map[int]string{}
		for _, ref := range *call.Referrers() {
			if ex, ok := ref.(*ssa.Extract); ok {
				for _, r2 := range nonDebugRefs(ex) {
					if st, ok := r2.(*ssa.Store); ok {
						got[ex.Index] = strings.TrimPrefix(fx.path(st.Addr), "&")
					}
				}
			}
		}
		r.Check(strings.HasSuffix(fx.T(got[0]), "<provider.Response>.AcsUrl") && strings.HasSuffix(fx.T(got[1]), "<provider.Response>.ProtocolBinding"), "R-VFG", "sso:selection-results", w.InstrPos(c), "result #0 -> Response.AcsUrl, result #1 -> Response.ProtocolBinding", fmt.Sprintf("the selection's results are stored to %q / %q", got[0], got[1]))
	}

	cx.checkSelectionResultsOnly(r)
	// --- callback entry ----------------------------------------------------------------------------
	vc := cx.vflow(kCallback)
	cx.checkFieldSinks(r, "R-VFG", "callback", vc, []fieldSink{
		{"provider.Response", "AcsUrl", []string{cbURL}, []string{cbURL}, true, ""},
		{"provider.Response", "ProtocolBinding", []string{cbBinding}, []string{cbBinding}, true, ""},
		{"samlp.ResponseType", "Destination", []string{cbURL}, []string{cbURL}, true, ""},
		{"saml.SubjectConfirmationDataType", "Recipient", []string{cbURL}, []string{cbURL}, true, ""},
		{"provider.authResponseForm", "AssertionConsumerServiceURL", []string{cbURL}, []string{cbURL}, true, ""},
	})
	// the request asked is the one returned by AuthRequestByID
	for _, m := range []string{"GetAccessConsumerServiceURL", "GetBindingType"} {
		n := 0
		var cbCalls []ssa.CallInstruction
		for _, f := range w.sortedFuncs(vc.scope) {
			cbCalls = append(cbCalls, callsIn(f)...)
		}
		for _, c := range cbCalls {
			if c.Common().IsInvoke() && c.Common().Method.Name() == m {
				n++
				l := vc.Labels(c.Common().Value)
				r.checkSources("R-VFG", "callback:"+m+":receiver", w.InstrPos(c), l, []string{"ext:iface:provider.IDPStorage.AuthRequestByID#0"}, []string{"ext:iface:provider.IDPStorage.AuthRequestByID#0"}, true)
			}
		}
		if n == 0 {
			r.Fail("R-VFG", "callback:"+m+":receiver", "", "the callback no longer reads "+m+"() of the stored request")
		}
	}

	// --- logout entry --------------------------------------------------------------------------------
	vl := cx.vflow(kLogout)
	cx.checkFieldSinks(r, "R-VFG", "slo", vl, []fieldSink{
		{"provider.LogoutResponse", "LogoutURL", []string{sloLocC, "const:"}, []string{sloLocC}, true, ""},
		{"provider.LogoutResponseForm", "LogoutURL", []string{sloLocC, "const:"}, []string{sloLocC}, true, ""},
		{"samlp.LogoutResponseType", "Destination", []string{sloLocC, "const:"}, []string{sloLocC}, true, ""},
	})

	// --- sendBackResponse uses exactly Response.AcsUrl / ProtocolBinding -------------------------------
	sb := w.Func("provider.(*Response).sendBackResponse")
	if sb == nil {
		r.Fail("R-VFG", "sendBackResponse", "", "anchor not found")
		return
	}
	lvf := cx.newVFlow("sendBackResponse", sb)
	ls, sites := lvf.FieldStoreSources("provider.authResponseForm", "AssertionConsumerServiceURL")
	if len(sites) > 0 {
		r.checkSources("R-VFG", "sendBackResponse:form-action", w.InstrPos(sites[0]), ls, []string{"param:provider.(*Response).sendBackResponse/#0.AcsUrl"}, []string{"param:provider.(*Response).sendBackResponse/#0.AcsUrl"}, true)
	} else {
		r.Fail("R-VFG", "sendBackResponse:form-action", w.FnPos(sb), "the form action is not filled in sendBackResponse")
	}
	cx.checkRedirectTarget(r, "R-VFG")
	for _, c := range callsIn(sb) {
		switch calleeName(c) {
		case "net/http.Redirect":
			cx.requireBindingGuard(r, c, cRedirect, "redirect")
		case "(*html/template.Template).Execute":
			cx.requireBindingGuard(r, c, cPost, "form")
		}
	}
	// a reply rendered through a pooled buffer must not carry a previous reply
	cx.checkPoolEscape(r)
	r.Min("R-VFG", 10)
}

// requireBindingGuard: every path to the delivery call c has r.ProtocolBinding == want.
func (cx *Ctx) requireBindingGuard(r *Report, c ssa.CallInstruction, want, name string) {
	w, fx := cx.W, cx.Fx
	pts, ok := fx.atomPathsTo(c.Block(), 4096)
	if !ok || len(pts) == 0 {
		r.Undecided("R-GUARD", "sendBackResponse:"+name+":binding", w.InstrPos(c), "paths not enumerable")
		return
	}
	bad := ""
	for _, p := range pts {
		okp := false
		for _, a := range p.Atoms {
			if a.Op == "EQ" && !a.Neg && (a.A == want && strings.HasSuffix(a.TB, "<provider.Response>.ProtocolBinding") || a.B == want && strings.HasSuffix(a.TA, "<provider.Response>.ProtocolBinding")) {
				okp = true
			}
		}
		if !okp {
			bad = "the " + name + " delivery is reachable without Response.ProtocolBinding == " + strings.TrimPrefix(want, "const:") + " (" + atomsString(p.Atoms) + "): a reply can be delivered over a binding other than the registered one"
		}
	}
	r.Check(bad == "", "R-GUARD", "sendBackResponse:"+name+":binding", w.InstrPos(c), "only under ProtocolBinding == "+strings.TrimPrefix(want, "const:urn:oasis:names:tc:SAML:2.0:bindings:"), bad)
}

package main

import (
	"fmt"
	"strings"

	"golang.org/x/tools/go/ssa"
)

func init() { register("C03", checkC03) }

func checkC03(cx *Ctx, r *Report) {
	w, fx := cx.W, cx.Fx
	cx.checkNoTemplateBypass(r)
	cx.checkCallbackLookupKey(r)
	cx.checkNoCustomMarshallers(r)
	// storage is asked with the request's context (which carries the issuer / tenant in effect): keys, providers and
	// users are those of this request
	cx.checkStorageContext(r)
	cx.checkStorageIsTheApplications(r)
	// request data must not be shared between requests through recycled buffers (R-POOL, see C15)
	cx.checkPoolEscape(r)
	r.Clauses = []string{
		"wiring at the callback (unchanged copies): InResponseTo on the response and in the subject confirmation <- GetAuthRequestID(); Destination, Recipient <- GetAccessConsumerServiceURL(); response and assertion Issuer <- the IdP entity ID; Audience <- the result of GetEntityIDByAppID(ctx, GetApplicationID()); subject NameID text <- the user name storage set; attribute names, name formats, friendly names and values <- exactly what storage set through the AttributeSetter (or the fixed standard names); RelayState in the form and in the redirect query <- GetRelayState(); user lookup by GetApplicationID() / GetUserID() of the same request, into the same Attributes object the response is built from",
		"nothing dropped or added: GetSAML appends every custom attribute unconditionally and a standard attribute exactly when its value is non-empty; an assertion is built only on paths where the storage call that fills in the user's data returned a nil error (no partially filled record is asserted)",
		"validity window: IssueInstant, NotBefore and AuthnInstant are Format(now.UTC()) and both NotOnOrAfter are Format(now.UTC().Add(Expiration)) of one time.Now() value, with the configured time format and lifetime",
		"IDs: response and assertion Id come from two distinct NewID() calls; NewID is a constant NCName-start prefix plus uuid.New()",
	}
	r.NotDec = []string{"byte-for-byte equality after encoding/xml escaping", "ordering inside value lists (copied as one slice)", "uniqueness of random UUIDs", "relation of time.Now() to the wall clock"}
	r.Assume = []string{"storage calls the AttributeSetter with the user's data"}
	vf := cx.vflow(kCallback)
	if vf == nil {
		r.Fail("R-VFG", "callback", "", "callback handler not found")
		return
	}
	reqID := "ext:iface:models.AuthRequestInt.GetAuthRequestID#0"
	aud := "ext:iface:provider.IDPStorage.GetEntityIDByAppID#0"
	relay := "ext:iface:models.AuthRequestInt.GetRelayState#0"
	setterIdx := map[string]int{"value": 1, "name": 1, "friendlyName": 2, "nameFormat": 3, "attributeValue": 4}
	setter := func(m, p string) string { return fmt.Sprintf("param:provider.(*Attributes).%s/#%d", m, setterIdx[p]) }
	stdValues := []string{setter("SetEmail", "value"), setter("SetFullName", "value"), setter("SetGivenName", "value"), setter("SetSurname", "value"), setter("SetUserID", "value"), setter("SetUsername", "value"), setter("SetCustomAttribute", "attributeValue")}
	cbSinks := []fieldSink{
		{"samlp.ResponseType", "InResponseTo", []string{reqID}, []string{reqID}, true, ""},
		{"saml.SubjectConfirmationDataType", "InResponseTo", []string{reqID}, []string{reqID}, true, ""},
		{"samlp.ResponseType", "Destination", []string{cbURL}, []string{cbURL}, true, ""},
		{"saml.SubjectConfirmationDataType", "Recipient", []string{cbURL}, []string{cbURL}, true, ""},
		{"saml.AudienceRestrictionType", "Audience", []string{aud}, []string{aud}, true, ""},
		{"saml.AttributeType", "AttributeValue", stdValues, stdValues, true, ""},
		{"saml.AttributeType", "Name", []string{"const:Email", "const:SurName", "const:FirstName", "const:FullName", "const:UserName", "const:UserID", setter("SetCustomAttribute", "name")}, []string{setter("SetCustomAttribute", "name")}, true, ""},
		{"saml.AttributeType", "NameFormat", []string{"const:urn:oasis:names:tc:SAML:2.0:attrname-format:basic", setter("SetCustomAttribute", "nameFormat")}, []string{setter("SetCustomAttribute", "nameFormat")}, true, ""},
		{"saml.AttributeType", "FriendlyName", []string{setter("SetCustomAttribute", "friendlyName")}, []string{setter("SetCustomAttribute", "friendlyName")}, true, ""},
		{"provider.authResponseForm", "RelayState", []string{relay}, []string{relay}, true, ""},
		{"provider.Response", "RelayState", []string{relay}, []string{relay}, true, ""},
		{"provider.Response", "RequestID", []string{reqID}, []string{reqID}, true, ""},
		{"provider.Response", "Audience", []string{aud}, []string{aud}, true, ""},
	}
	cx.checkFieldSinks(r, "R-VFG", "callback", vf, cbSinks)
	cx.checkStoresUnconditional(r, "R-MUST", "callback", vf, cbSinks)
	// the text of the objects stored as Issuer / subject NameID
	for _, n := range []struct {
		owner, field string
		allow, req   []string
		unchanged    bool
	}{
		{"samlp.ResponseType", "Issuer", entityIDSources, []string{"ext:iface:context.Context.Value#0"}, false},
		{"saml.AssertionType", "Issuer", entityIDSources, []string{"ext:iface:context.Context.Value#0"}, false},
		{"saml.SubjectType", "NameID", []string{setter("SetUsername", "value")}, []string{setter("SetUsername", "value")}, true},
	} {
		ls, nSites := vf.NestedFieldSources(n.owner, n.field, "saml.NameIDType", "Text")
		if nSites == 0 {
			r.Fail("R-VFG", "callback:"+n.owner+"."+n.field+".Text", "", "the "+n.field+" of "+n.owner+" is not filled")
			continue
		}
		r.checkSources("R-VFG", "callback:"+n.owner+"."+n.field+".Text", "", ls, n.allow, n.req, n.unchanged)
	}
	// the attribute list of the assertion is GetSAML() of the object storage filled
	lsA, sA := vf.FieldStoreSources("saml.AttributeStatementType", "Attribute")
	if len(sA) == 0 {
		r.Fail("R-VFG", "callback:AttributeStatement.Attribute", "", "the attribute statement is not filled")
	} else {
		bad := ""
		for _, l := range vf.Deep(lsA).leaves() {
			if !strings.HasPrefix(l, "alloc:{saml.AttributeType}") && l != "const:zero" {
				bad = l
			}
		}
		r.Check(bad == "", "R-VFG", "callback:AttributeStatement.Attribute", w.InstrPos(sA[0]), "exactly the elements built by Attributes.GetSAML()", "the attribute statement contains "+bad+", which is not an attribute built by GetSAML() from the user's data")
	}
	// call-argument wiring
	type argSink struct {
		key   string
		match func(ssa.CallInstruction) bool
		idx   int
		allow []string
	}
	appID := "ext:iface:models.AuthRequestInt.GetApplicationID#0"
	for _, a := range []argSink{
		{"GetEntityIDByAppID:appID", matchStorage("GetEntityIDByAppID"), 1, []string{appID}},
		{"SetUserinfoWithUserID:appID", matchStorage("SetUserinfoWithUserID"), 1, []string{appID}},
		{"SetUserinfoWithUserID:userID", matchStorage("SetUserinfoWithUserID"), 3, []string{"ext:iface:models.AuthRequestInt.GetUserID#0"}},
		{"SetUserinfoWithUserID:setter", matchStorage("SetUserinfoWithUserID"), 2, []string{"alloc:{provider.Attributes}*"}},
		{"makeSuccessfulResponse:attributes", matchFnKey(w, "provider.(*Response).makeSuccessfulResponse"), 1, []string{"alloc:{provider.Attributes}*"}},
		{"BuildRedirectQuery:relayState", matchFnKey(w, "provider.BuildRedirectQuery"), 1, []string{relay}},
		{"createRedirectSignature:relayState", matchFnKey(w, "provider.createRedirectSignature"), 4, []string{relay}},
	} {
		ls, sites := vf.CallArgSources(a.match, a.idx)
		if len(sites) == 0 {
			r.Fail("R-VFG", "callback:"+a.key, "", "call site not found in the callback's scope")
			continue
		}
		r.checkSources("R-VFG", "callback:"+a.key, w.InstrPos(sites[0]), ls, a.allow, a.allow, true)
	}
	// receivers of the request getters: the looked-up request
	for _, c := range w.callsTo(vf.scope, func(c ssa.CallInstruction) bool {
		return c.Common().IsInvoke() && typeKey(c.Common().Value.Type()) == "models.AuthRequestInt"
	}) {
		l := vf.Labels(c.Common().Value)
		r.checkSources("R-VFG", "callback:request-getter:"+c.Common().Method.Name()+"@"+w.FuncKey(c.Parent()), w.InstrPos(c), l, []string{"ext:iface:provider.IDPStorage.AuthRequestByID#0"}, []string{"ext:iface:provider.IDPStorage.AuthRequestByID#0"}, true)
	}
	// same Attributes object filled and used
	{
		a, s1 := vf.CallArgSources(matchStorage("SetUserinfoWithUserID"), 2)
		b, s2 := vf.CallArgSources(matchFnKey(w, "provider.(*Response).makeSuccessfulResponse"), 1)
		if len(s1) == 1 && len(s2) == 1 {
			// (a helper that loads the user hands back nil together with its error: the nil is not an object)
			nonNil := func(ls LabelSet) []string {
				var out []string
				for _, l := range ls.leaves() {
					if l != "const:zero" {
						out = append(out, l)
					}
				}
				return out
			}
			al, bl := nonNil(a), nonNil(b)
			r.Check(len(al) == 1 && len(bl) == 1 && al[0] == bl[0], "R-VFG", "callback:same-attributes-object", w.InstrPos(s2[0]), "the response is built from the object storage filled", "the response is built from a different Attributes object than the one storage filled")
		}
	}

	// --- GetSAML: nothing dropped -----------------------------------------------------------------------
	cx.checkGetSAML(r)
	cx.checkUserDataComplete(r)

	// --- validity window ---------------------------------------------------------------------------------
	now := "ext:time.Now#0"
	tf := "param:provider.(*IdentityProvider).callbackHandleFunc/#0.TimeFormat"
	exp := "param:provider.(*IdentityProvider).callbackHandleFunc/#0.Expiration"
	type tsink struct {
		owner, field string
		add          bool
	}
	for _, s := range []tsink{{"samlp.ResponseType", "IssueInstant", false}, {"saml.AssertionType", "IssueInstant", false}, {"saml.ConditionsType", "NotBefore", false}, {"saml.AuthnStatementType", "AuthnInstant", false},
		{"saml.ConditionsType", "NotOnOrAfter", true}, {"saml.SubjectConfirmationDataType", "NotOnOrAfter", true}} {
		ls, sites := vf.FieldStoreSources(s.owner, s.field)
		key := "callback:" + s.owner + "." + s.field
		if len(sites) == 0 {
			r.Fail("R-VFG", key, "", "timestamp field not filled")
			continue
		}
		allow := []string{now, tf}
		req := []string{now, tf}
		if s.add {
			allow = append(allow, exp)
			req = append(req, exp)
		}
		okS := r.checkSources("R-VFG", key, w.InstrPos(sites[0]), ls, allow, req, false)
		_, hasUTC := ls["via:(time.Time).UTC"]
		_, hasFmt := ls["via:(time.Time).Format"]
		_, hasAdd := ls["via:(time.Time).Add"]
		if okS {
			switch {
			case !hasUTC || !hasFmt:
				r.Fail("R-VFG", key+":utc", w.InstrPos(sites[0]), "the timestamp is not Format(...) of a time converted with UTC(): with a layout ending in a literal Z it is wrong by the local zone offset")
			case hasAdd != s.add:
				r.Fail("R-VFG", key+":offset", w.InstrPos(sites[0]), fmt.Sprintf("lifetime added = %v, expected %v", hasAdd, s.add))
			default:
				r.Ok("R-VFG", key+":utc", w.InstrPos(sites[0]), "Format(now.UTC()"+map[bool]string{true: ".Add(Expiration)", false: ""}[s.add]+")")
			}
		}
	}
	// one time.Now() per response; UTC applied before Add (so both instants share the converted value)
	if ms := w.Func("provider.(*Response).makeSuccessfulResponse"); ms != nil {
		n := 0
		var nowCall ssa.Value
		for _, c := range callsIn(ms) {
			if calleeName(c) == "time.Now" {
				n++
				nowCall = c.(*ssa.Call)
			}
		}
		okOne := n == 1
		// every Format receiver derives from the single UTC() of that call
		nUTC := 0
		for _, c := range callsIn(ms) {
			if calleeName(c) == "(time.Time).UTC" {
				nUTC++
				if c.Common().Args[0] != nowCall {
					okOne = false
				}
			}
		}
		r.Check(okOne && nUTC == 1, "R-VFG", "makeSuccessfulResponse:one-now", w.FnPos(ms), "one time.Now().UTC() value feeds both instants", fmt.Sprintf("%d time.Now() / %d UTC() calls: IssueInstant and NotOnOrAfter are not derived from one converted instant", n, nUTC))
	} else {
		r.Fail("R-VFG", "makeSuccessfulResponse:one-now", "", "anchor not found")
	}
	// RelayState (and the other values) survive the redirect transport: encoded exactly once with url.QueryEscape
	cx.checkBuildRedirectQuery(r)
	cx.checkIDs(r, vf, 2)
	_ = fx
	r.Min("R-VFG", 20)
}

// checkGetSAML: every append in GetSAML is either in the loop over the custom attributes under no other
// condition, or under exactly "this standard value is non-empty".
func (cx *Ctx) checkGetSAML(r *Report) {
	w, fx := cx.W, cx.Fx
	fn := w.Func("provider.(*Attributes).GetSAML")
	if fn == nil {
		r.Fail("R-GUARD", "GetSAML", "", "anchor not found")
		return
	}
	nStd, nCustom := 0, 0
	for _, g := range w.sortedFuncs(w.scopeOf(fn)) {
		for _, c := range callsIn(g) {
			call, ok := c.(*ssa.Call)
			if !ok {
				continue
			}
			if b, isB := call.Call.Value.(*ssa.Builtin); !isB || b.Name() != "append" {
				continue
			}
			inLoop := fx.info(g).reachable(call.Block(), call.Block())
			// the guards at the append, without loop control (range continuation / index bound)
			var own []string
			for _, a := range fx.AtomsAt(call) {
				switch {
				case a.Op == "TRUE" && (strings.HasPrefix(a.A, "next@") || strings.Contains(a.A, "#0")):
				case a.Op == "LT" && strings.HasPrefix(a.B, "len("):
				case a.Op == "LT" && strings.HasPrefix(a.A, "(phi@") && strings.HasPrefix(a.B, "const:"): // range over an array
				default:
					own = append(own, strings.Replace(a.String(), a.A, a.TA, 1))
				}
			}
			if inLoop && len(own) == 1 && strings.HasPrefix(own[0], "!EMPTY(") {
				// the standard attributes kept in a table and appended in a loop: an entry is skipped exactly when
				// its value - one of the user's standard values - is empty
				var tested ssa.Value
				for _, a := range fx.AtomsAt(call) {
					if a.Op == "EMPTY" && a.Neg {
						if bo, isB := stripNot(a.Cond).(*ssa.BinOp); isB {
							tested = bo.X
							if _, isK := tested.(*ssa.Const); isK {
								tested = bo.Y
							}
							tested = unLen(tested)
						}
					}
				}
				if lvf := cx.vflow("provider.(*Attributes).GetSAML"); tested != nil && lvf != nil {
					fields := map[string]bool{}
					okAll := true
					for _, l := range lvf.Deep(lvf.Labels(tested)).leaves() {
						const pre = "param:provider.(*Attributes).GetSAML/#0."
						if strings.HasPrefix(l, pre) && !strings.ContainsAny(strings.TrimPrefix(l, pre), ".[") {
							fields[strings.TrimPrefix(l, pre)] = true
						} else if !strings.HasPrefix(l, "const:") {
							okAll = false
						}
					}
					if okAll && len(fields) > 0 {
						nStd += len(fields)
						r.Ok("R-GUARD", "GetSAML:std-append@"+w.InstrPos(call), w.InstrPos(call), fmt.Sprintf("table of %d standard values, each appended exactly when it is set", len(fields)))
						continue
					}
				}
			}
			if inLoop {
				nCustom++
				r.Check(!iterationCanSkip(fx.info(g), call.Block()), "R-GUARD", "GetSAML:loop-append@"+w.FuncKey(g), w.InstrPos(call), "every element of the loop is appended, whatever its values", "an iteration can skip the append (guards at the append: "+strings.Join(own, " & ")+"): attributes storage set can be dropped from the assertion")
				continue
			}
			if g != fn {
				continue
			}
			nStd++
			okStd := len(own) == 1 && strings.HasPrefix(own[0], "!EMPTY(<provider.Attributes>.")
			r.Check(okStd, "R-GUARD", "GetSAML:std-append@"+w.InstrPos(call), w.InstrPos(call), "appended exactly when its value is set ("+strings.Join(own, " & ")+")", "a standard attribute is appended under "+strings.Join(own, " & ")+" instead of exactly 'its value is non-empty'")
		}
	}
	r.Check(nStd == 6 && nCustom >= 1, "R-GUARD", "GetSAML:#appends", w.FnPos(fn), "six standard attributes and the custom-attribute loop", fmt.Sprintf("%d standard and %d loop append sites found (expected 6 and at least 1)", nStd, nCustom))
}

// checkUserDataComplete: every use of the Attributes object for building the answer (GetSAML / GetNameID and the
// Success constructor) in the function that asks storage for the user's data happens on paths where that storage
// call's error was found nil: a lookup that failed half way leaves a partial record, which is not "exactly U's data".
func (cx *Ctx) checkUserDataComplete(r *Report) {
	w, fx := cx.W, cx.Fx
	n := 0
	for _, fn := range w.sortedFuncs(cx.handlerScope()) {
		for _, c := range callsIn(fn) {
			m := storageMethod(c)
			if m != "SetUserinfoWithUserID" && m != "SetUserinfoWithLoginName" {
				continue
			}
			call, ok := c.(*ssa.Call)
			if !ok {
				continue
			}
			e, has, _ := errResult(call)
			if !has || e == nil {
				r.Fail("R-GUARD", "user-data-complete:"+m, w.InstrPos(c), "the error of "+m+" is discarded")
				continue
			}
			n++
			al := fx.aliasesOf(e)
			// a chain step: the error is returned to the checker (C20 stops the chain) - judged by propagation rules
			if fn.Parent() != nil && fx.isReturned(e) {
				r.Ok("R-GUARD", "user-data-complete:"+m+"@"+w.FuncKey(fn), w.InstrPos(c), "the step returns the storage error to the chain")
				continue
			}
			aps, okp := fx.atomPaths(fn, 4096)
			if !okp {
				r.Undecided("R-GUARD", "user-data-complete:"+m, w.FnPos(fn), "too many paths")
				continue
			}
			bad := ""
			for i := range aps {
				p := &aps[i]
				through, uses := false, false
				for _, in := range p.Instrs() {
					if in == ssa.Instruction(call) {
						through = true
						continue
					}
					if !through {
						continue
					}
					if c2, isC := in.(ssa.CallInstruction); isC {
						if f := calleeOf(c2); f != nil {
							switch w.FuncKey(f) {
							case "provider.(*Attributes).GetSAML", "provider.(*Attributes).GetNameID", "provider.(*Response).makeSuccessfulResponse", "provider.makeAttributeQueryResponse":
								uses = true
							}
						}
					}
				}
				if !uses {
					continue
				}
				okNil := false
				for _, cp := range p.Conds {
					if x, tnn, isNT := nilTest(cp.Cond); isNT && cp.Pol != tnn {
						for _, a := range al {
							if a == x {
								okNil = true
							}
						}
					}
				}
				if !okNil {
					bad = "the user's attributes are used for the answer on a path where the error of " + m + " was not found nil (" + atomsStringT(p.Atoms) + ")"
				}
			}
			r.Check(bad == "", "R-GUARD", "user-data-complete:"+m+"@"+w.FuncKey(fn), w.InstrPos(c), "the answer is built from the user's record only after the lookup returned nil", bad)
		}
	}
	r.Check(n > 0, "R-GUARD", "user-data-complete:#lookups", "", fmt.Sprintf("%d user lookup site(s)", n), "no user lookup found in handler-reachable code")
}

package main

import (
	"fmt"
	"go/constant"
	"go/types"
	"sort"
	"strconv"
	"strings"
	"text/template/parse"

	"golang.org/x/tools/go/ssa"
)

func init() { register("C17", checkC17) }

func (w *World) pkgConst(pkgShort, name string) (string, bool) {
	for _, p := range w.Pkgs {
		if shortPkg(p.PkgPath) != pkgShort || !isModulePath(p.PkgPath) || isMockPath(p.PkgPath) {
			continue
		}
		if obj, ok := p.Types.Scope().Lookup(name).(*types.Const); ok && obj.Val().Kind() == constant.String {
			return constant.StringVal(obj.Val()), true
		}
	}
	return "", false
}

var escapeBypassTypes = map[string]bool{"HTML": true, "HTMLAttr": true, "URL": true, "JS": true, "JSStr": true, "CSS": true, "Srcset": true}

func isBypassType(t types.Type) string {
	n, ok := t.(*types.Named)
	if !ok || n.Obj().Pkg() == nil || n.Obj().Pkg().Path() != "html/template" || !escapeBypassTypes[n.Obj().Name()] {
		return ""
	}
	return "template." + n.Obj().Name()
}

func checkC17(cx *Ctx, r *Report) {
	w := cx.W
	r.Clauses = []string{
		"R-TPL: the two built-in auto-submit templates parse to exactly three substitutions each, plain field references without pipelines or functions, whose names are exactly the string fields of the struct handed to Execute; each substitution sits inside a double-quoted attribute value, the URL one in the action attribute of the only form; nothing is substituted inside script or style",
		"the templates are html/template templates parsed from those constants without a FuncMap; the module does not use text/template; no value of an escaping-bypass type (template.HTML, HTMLAttr, URL, JS, JSStr, CSS, Srcset) is created anywhere in the module; the data fields are plain strings",
		"no function hands out data aliasing a pooled buffer (the rendered page cannot be overwritten by another request before it is sent)",
		"R-VFG: the RelayState field of the page data is the request's (SSO, logout) or the stored request's (callback) RelayState, unchanged; the URL field is the selected registered location / the stored consumer URL, unchanged; the SAMLResponse field is the base64 encoding of the marshalled message and nothing else",
		"R-EMIT: every path of the three page-producing handlers, of their error callbacks and of the two send functions performs exactly one reply act (one page per reply)",
	}
	r.NotDec = []string{"correctness of html/template's contextual escaping itself (trusted)", "templates supplied by the embedding application through the configuration"}
	r.Assume = []string{"html/template escapes plain string data according to the context the template text establishes; a URL attribute with a non-http(s)/mailto scheme is replaced by #ZgotmplZ"}
	for _, tp := range []struct{ constName, dataType, urlField string }{{"postTemplate", "authResponseForm", "AssertionConsumerServiceURL"}, {"logoutTemplate", "LogoutResponseForm", "LogoutURL"}} {
		txt, ok := w.pkgConst("provider", tp.constName)
		if !ok {
			r.Fail("R-TPL", tp.constName, "", "template constant not found")
			continue
		}
		trees, err := parse.Parse(tp.constName, txt, "{{", "}}", map[string]any{})
		if err != nil {
			r.Fail("R-TPL", tp.constName+":parse", "", "the template does not parse: "+err.Error())
			continue
		}
		tree := trees[tp.constName]
		if tree == nil || len(trees) != 1 {
			r.Fail("R-TPL", tp.constName+":parse", "", fmt.Sprintf("expected one template, got %d (define/block actions present)", len(trees)))
			continue
		}
		// data struct fields
		st := w.structOf("provider." + tp.dataType)
		if st == nil {
			r.Fail("R-TPL", tp.constName+":data", "", "data struct "+tp.dataType+" not found")
			continue
		}
		fields := map[string]bool{}
		allString := true
		for i := 0; i < st.NumFields(); i++ {
			fields[st.Field(i).Name()] = true
			if !isStringType(st.Field(i).Type()) || isBypassType(st.Field(i).Type()) != "" {
				allString = false
			}
			if b, isB := st.Field(i).Type().(*types.Basic); !isB || b.Kind() != types.String {
				allString = false
			}
		}
		r.Check(allString && len(fields) == 3, "R-TPL", tp.constName+":data", "", "three fields of type string", "the data handed to the template is not exactly three plain string fields")
		nodes := tree.Root.Nodes
		used := map[string]bool{}
		nAct := 0
		bad := ""
		lower := strings.ToLower(txt)
		if strings.Count(lower, "<form") != 1 {
			bad = fmt.Sprintf("the page contains %d form elements", strings.Count(lower, "<form"))
		}
		for i, n := range nodes {
			switch x := n.(type) {
			case *parse.TextNode:
			case *parse.ActionNode:
				nAct++
				if len(x.Pipe.Decl) != 0 || len(x.Pipe.Cmds) != 1 || len(x.Pipe.Cmds[0].Args) != 1 {
					bad = "substitution " + x.String() + " is not a plain field reference (pipeline / function / variable)"
					continue
				}
				fnode, ok := x.Pipe.Cmds[0].Args[0].(*parse.FieldNode)
				if !ok || len(fnode.Ident) != 1 {
					bad = "substitution " + x.String() + " is not a plain field reference"
					continue
				}
				name := fnode.Ident[0]
				if !fields[name] {
					bad = "substitution of ." + name + ", which is not a field of " + tp.dataType
				}
				if used[name] {
					bad = "field ." + name + " is substituted more than once"
				}
				used[name] = true
				// inside a double-quoted attribute value
				var before, after string
				if i > 0 {
					if t, ok := nodes[i-1].(*parse.TextNode); ok {
						before = string(t.Text)
					}
				}
				if i+1 < len(nodes) {
					if t, ok := nodes[i+1].(*parse.TextNode); ok {
						after = string(t.Text)
					}
				}
				if !strings.HasSuffix(before, `="`) || !strings.HasPrefix(after, `"`) {
					bad = "substitution of ." + name + " is not the whole content of a double-quoted attribute value"
				}
				// the attribute and element it belongs to
				tagStart := strings.LastIndex(before, "<")
				if tagStart < 0 || strings.Contains(before[tagStart:], ">") {
					bad = "substitution of ." + name + " is not inside a tag"
				} else {
					tagTxt := strings.ToLower(before[tagStart:])
					attr := tagTxt[strings.LastIndexAny(tagTxt[:len(tagTxt)-2], " \n\t")+1 : len(tagTxt)-2]
					elem := strings.Fields(tagTxt[1:])[0]
					if name == tp.urlField {
						if elem != "form" || attr != "action" {
							bad = "the consumer URL is substituted into " + elem + "@" + attr + ", not into the action attribute of the form"
						}
					} else if elem != "input" || attr != "value" {
						bad = "." + name + " is substituted into " + elem + "@" + attr + ", not into the value of a hidden input"
					}
				}
				// not within script/style
				pre := strings.ToLower(txt[:int(x.Pos)])
				if strings.Count(pre, "<script") > strings.Count(pre, "</script") || strings.Count(pre, "<style") > strings.Count(pre, "</style") {
					bad = "." + name + " is substituted inside a script/style element"
				}
			default:
				bad = "the template contains a control action (" + n.String() + ")"
			}
		}
		if nAct != 3 && bad == "" {
			bad = fmt.Sprintf("%d substitutions instead of three", nAct)
		}
		var names []string
		for k := range used {
			names = append(names, k)
		}
		sort.Strings(names)
		r.Check(bad == "", "R-TPL", tp.constName+":shape", "", "three plain field substitutions ("+strings.Join(names, ", ")+"), each the whole value of a double-quoted attribute; URL in form@action", bad)
	}
	// html/template everywhere, no text/template
	for _, p := range w.Pkgs {
		if isMockPath(p.PkgPath) {
			continue
		}
		for imp := range p.Imports {
			if imp == "text/template" {
				r.Fail("R-TPL", "import:"+shortPkg(p.PkgPath), "", "package "+p.PkgPath+" imports text/template: pages rendered with it are not escaped")
			}
		}
	}
	for _, tf := range []struct{ typ, field string }{{"provider.Response", "PostTemplate"}, {"provider.LogoutResponse", "LogoutTemplate"}, {"provider.IdentityProvider", "postTemplate"}, {"provider.IdentityProvider", "logoutTemplate"}, {"provider.IdentityProviderConfig", "PostTemplate"}, {"provider.IdentityProviderConfig", "LogoutTemplate"}} {
		st := w.structOf(tf.typ)
		ok := false
		if st != nil {
			for i := 0; i < st.NumFields(); i++ {
				if fname(st.Field(i)) == tf.field && st.Field(i).Type().String() == "*html/template.Template" {
					ok = true
				}
			}
		}
		r.Check(ok, "R-TPL", "type:"+tf.typ+"."+tf.field, "", "*html/template.Template", tf.typ+"."+tf.field+" is not an html/template template")
	}
	// parse calls use the constants, no FuncMap, no bypass types
	nParse := 0
	parsedConst := map[string]bool{}
	for _, fn := range w.Funcs {
		for _, b := range fn.Blocks {
			for _, in := range b.Instrs {
				if v, ok := in.(ssa.Value); ok {
					if bt := isBypassType(v.Type()); bt != "" {
						r.Fail("R-TPL", "bypass:"+w.FuncKey(fn)+":"+bt, w.InstrPos(in), "a value of type "+bt+" is created: html/template does not escape it")
					}
				}
				c, ok := in.(ssa.CallInstruction)
				if !ok {
					continue
				}
				switch calleeName(c) {
				case "(*html/template.Template).Funcs":
					r.Fail("R-TPL", "funcs:"+w.FuncKey(fn), w.InstrPos(c), "a FuncMap is attached to a template: substituted values can pass through functions that defeat contextual escaping")
				case "(*html/template.Template).Parse":
					pt, _ := w.pkgConst("provider", "postTemplate")
					lt, _ := w.pkgConst("provider", "logoutTemplate")
					// the text: a constant, or the parameter of a helper that every caller gives one of the constants
					texts := []ssa.Value{c.Common().Args[1]}
					if par, isP := c.Common().Args[1].(*ssa.Parameter); isP && len(cx.Fx.argsOf[par]) > 0 {
						texts = cx.Fx.argsOf[par]
					}
					okTxt := true
					for _, tv := range texts {
						txt, isC := constString(tv)
						if !isC || (txt != pt && txt != lt) {
							okTxt = false
						} else {
							parsedConst[txt] = true
						}
					}
					nParse = len(parsedConst)
					r.Check(okTxt, "R-TPL", "parse:"+w.InstrPos(c), w.InstrPos(c), "parses one of the two checked constants", "a template is parsed from text other than the two checked constants")
				case "(*html/template.Template).Execute":
					data := c.Common().Args[2]
					okT := false
					if mi, isMI := data.(*ssa.MakeInterface); isMI {
						k := typeKey(mi.X.Type())
						okT = k == "provider.authResponseForm" || k == "provider.LogoutResponseForm"
					}
					r.Check(okT, "R-TPL", "execute:"+w.FuncKey(fn), w.InstrPos(c), "executed with the checked data struct", "a template is executed with data other than the checked form structs")
				}
			}
		}
	}
	// each page is rendered with its own template: the IdentityProvider's post / logout template is the parsed constant
	// of that name (or the configured replacement of that name), and the reply objects take the matching one
	if ni := w.Func("provider.NewIdentityProvider"); ni != nil {
		nvf := cx.newVFlow("tpl:NewIdentityProvider", ni)
		for _, tp := range []struct{ field, constName, confField string }{{"postTemplate", "postTemplate", "PostTemplate"}, {"logoutTemplate", "logoutTemplate", "LogoutTemplate"}} {
			txt, _ := w.pkgConst("provider", tp.constName)
			ls, sites := nvf.FieldStoreSources("provider.IdentityProvider", tp.field)
			if len(sites) == 0 {
				r.Fail("R-TPL", "pairing:IdentityProvider."+tp.field, "", "the field is not filled by NewIdentityProvider")
				continue
			}
			bad := ""
			for _, l := range ls.leaves() {
				switch {
				case strings.HasPrefix(l, "ext:(*template.Template).Parse("):
					if !strings.Contains(l, strconv.Quote(txt)) {
						bad = "is parsed from a text other than the constant " + tp.constName
					}
				case strings.HasSuffix(l, "/#1."+tp.confField):
				case l == "const:zero":
				default:
					bad = "can hold " + l
				}
			}
			r.Check(bad == "", "R-TPL", "pairing:IdentityProvider."+tp.field, w.InstrPos(sites[0]), "the parsed constant "+tp.constName+" or the configured "+tp.confField, "IdentityProvider."+tp.field+" "+bad+": the page is rendered with a template whose substitutions are not the fields of the data it is given")
		}
	}
	for _, rt := range []struct{ owner, field, from string }{{"provider.Response", "PostTemplate", ".postTemplate"}, {"provider.LogoutResponse", "LogoutTemplate", ".logoutTemplate"}} {
		for _, hk := range []string{kSSO, kCallback, kLogout} {
			hvf := cx.vflow(hk)
			if hvf == nil {
				continue
			}
			ls, sites := hvf.FieldStoreSources(rt.owner, rt.field)
			if len(sites) == 0 {
				continue
			}
			bad := ""
			for _, l := range ls.leaves() {
				if !strings.HasSuffix(l, "/#0"+rt.from) && l != "const:zero" {
					bad = l
				}
			}
			r.Check(bad == "", "R-TPL", "pairing:"+rt.owner+"."+rt.field+"@"+w.FuncKey(w.Func(hk)), w.InstrPos(sites[0]), "the provider's"+rt.from, rt.owner+"."+rt.field+" is taken from "+bad+", not from the provider's"+rt.from)
		}
	}
	r.Check(nParse == 2, "R-TPL", "#parse-calls", "", "both built-in templates are parsed", fmt.Sprintf("%d template Parse calls found (expected the two built-in templates)", nParse))
	// --- what is put into the three fields ---------------------------------------------------------------------
	ssoRS, cbRS, sloRS := `ext:(*http.Request).FormValue("RelayState")#0`, "ext:iface:models.AuthRequestInt.GetRelayState#0", `ext:(url.Values).Get("RelayState")#0`
	acsLoc := "ext:iface:provider.IDPStorage.GetEntityByID#0.Metadata.SPSSODescriptor.AssertionConsumerService[].Location"
	sloLoc := "ext:iface:provider.IDPStorage.GetEntityByID#0.Metadata.SPSSODescriptor.SingleLogoutService[].Location"
	for _, e := range []struct {
		hk, short, form, urlField string
		rs, url                   []string
	}{
		{kSSO, "sso", "provider.authResponseForm", "AssertionConsumerServiceURL", []string{ssoRS}, []string{acsLoc, "const:"}},
		{kCallback, "callback", "provider.authResponseForm", "AssertionConsumerServiceURL", []string{cbRS}, []string{"ext:iface:models.AuthRequestInt.GetAccessConsumerServiceURL#0"}},
		{kLogout, "slo", "provider.LogoutResponseForm", "LogoutURL", []string{sloRS}, []string{sloLoc, "const:"}},
	} {
		vf := cx.vflow(e.hk)
		if vf == nil {
			r.Fail("R-VFG", e.short+":form", "", "handler not found")
			continue
		}
		ls, sites := vf.FieldStoreSources(e.form, "RelayState")
		if len(sites) == 0 {
			r.Fail("R-VFG", e.short+":form.RelayState", "", "the page data gets no RelayState")
		} else {
			r.checkSources("R-VFG", e.short+":form.RelayState", w.InstrPos(sites[0]), ls, e.rs, e.rs, true)
		}
		ls, sites = vf.FieldStoreSources(e.form, e.urlField)
		if len(sites) == 0 {
			r.Fail("R-VFG", e.short+":form."+e.urlField, "", "the page data gets no target URL")
		} else {
			r.checkSources("R-VFG", e.short+":form."+e.urlField, w.InstrPos(sites[0]), ls, e.url, e.url[:1], true)
		}
		ls, sites = vf.FieldStoreSources(e.form, "SAMLResponse")
		if len(sites) == 0 {
			r.Fail("R-VFG", e.short+":form.SAMLResponse", "", "the page data gets no SAMLResponse")
		} else {
			bad := ""
			for l := range ls {
				if strings.HasPrefix(l, "via:") && l != "via:(*base64.Encoding).EncodeToString" && l != "via:(*bytes.Buffer).Bytes" {
					bad = "the SAMLResponse value passes through " + strings.TrimPrefix(l, "via:")
				}
			}
			if _, ok := ls["via:(*base64.Encoding).EncodeToString"]; !ok {
				bad = "the SAMLResponse value is not a base64 encoding"
			}
			r.Check(bad == "", "R-VFG", e.short+":form.SAMLResponse", w.InstrPos(sites[0]), "base64 of the marshalled message, nothing else", bad)
		}
	}
	// --- one page per reply ---------------------------------------------------------------------------------------
	cx.requireC20(r) // "one callback per failing chain" is what makes one reply act per step one page per reply
	cx.checkEmitExactlyOne(r, "R-EMIT", kCallback, w.Func(kCallback))
	for _, hk := range []string{kSSO, kLogout} {
		if ch := cx.chain(r, hk); ch != nil {
			checkChainHandlerEmit(cx, r, "R-EMIT", hk, ch)
			for _, s := range ch.Steps {
				if ef := s.Fn("errorFunc"); ef != nil {
					cx.checkEmitExactlyOne(r, "R-EMIT", hk+":callback:"+stepName(cx, s), ef)
				}
			}
		}
	}
	cx.checkEmitExactlyOne(r, "R-EMIT", "provider.(*Response).sendBackResponse", w.Func("provider.(*Response).sendBackResponse"))
	cx.checkEmitExactlyOne(r, "R-EMIT", "provider.(*LogoutResponse).sendBackLogoutResponse", w.Func("provider.(*LogoutResponse).sendBackLogoutResponse"))
	cx.checkPoolEscape(r)
	r.Min("R-TPL", 10)
}

package main

import (
	"fmt"
	"go/token"
	"go/types"
	"strings"

	"golang.org/x/tools/go/ssa"
)

// ---------------------------------------------------------------------------
// R-EMIT: reply acts on every path.
//
// A reply act is a call that writes (part of) the HTTP reply: http.Error,
// http.Redirect, xml.Write, xml.WriteXMLMarshalled, Template.Execute, io.Copy to
// the ResponseWriter, MarshalJSON, a call of the ErrorFunc field, or a call of a
// module function that itself performs exactly one reply act on every path
// (summary). An act whose error result is tested and found non-nil on the path
// "failed": a further act on that edge is the accepted error report of the
// failed first. The effective count of a path is the number of acts that did
// not fail on it.
// ---------------------------------------------------------------------------

type emitAct struct {
	Call ssa.CallInstruction
	Kind string
}

type emitPath struct {
	Acts   []emitAct
	Failed []bool
	Path   Path
}

// count: the effective number of replies on the path. A WriteHeader followed by a raw body write is one reply
// (status line + body); an act that failed does not count when something else reports the failure, but a path
// whose only acts failed has still made its one attempt (a failed write cannot be repaired, only logged).
func (p emitPath) count() int {
	n, attempted, pendingHeader := 0, false, false
	for i, a := range p.Acts {
		attempted = true
		if p.Failed[i] {
			pendingHeader = false
			continue
		}
		if a.Kind == "ResponseWriter.WriteHeader" {
			if pendingHeader {
				n++
			}
			pendingHeader = true
			continue
		}
		if pendingHeader {
			pendingHeader = false
			if !isRawBodyKind(a.Kind) {
				n++ // the header was a reply of its own
			}
		}
		n++
	}
	if pendingHeader {
		n++
	}
	if n == 0 && attempted {
		n = 1
	}
	return n
}

// isRawBodyKind: reply acts that write body bytes without setting a status of their own.
func isRawBodyKind(k string) bool {
	switch k {
	case "ResponseWriter.Write", "io.Copy", "io.CopyN", "io.WriteString", "fmt.Fprint", "fmt.Fprintf", "fmt.Fprintln", "Template.Execute", "xml.Write", "xml.WriteXMLMarshalled":
		return true
	}
	return false
}

func (p emitPath) describe(w *World) string {
	var s []string
	for i, a := range p.Acts {
		t := a.Kind + "@" + w.InstrPos(a.Call)
		if p.Failed[i] {
			t += "(failed)"
		}
		s = append(s, t)
	}
	if len(s) == 0 {
		return "no reply act"
	}
	return strings.Join(s, " -> ")
}

type emitSummary struct {
	Min, Max int
	Paths    []emitPath
	Decided  bool
	Why      string
	// Res: for a function with a single boolean result (a "handled" flag), the range of effective reply acts on
	// the paths returning true / false. A caller that branches on the result uses the range of the side it is on.
	Res map[bool]*[2]int
	// ErrSided: Res is keyed by the error result instead (true = the side returning a nil error)
	ErrSided bool
}

// actKind classifies call c as a reply act ("" if none), using summaries for module callees.
func (cx *Ctx) actKind(c ssa.CallInstruction, stack map[*ssa.Function]bool) string {
	if k := cx.Fx.replyAct(c); k != "" {
		return k
	}
	return cx.actKindOn(c, stack, nil)
}

// actKindOn: as actKind; when the callee returns a flag and path p branches on it, the summary of that side is used.
func (cx *Ctx) actKindOn(c ssa.CallInstruction, stack map[*ssa.Function]bool, p *Path) string {
	if k := cx.Fx.replyAct(c); k != "" {
		return k
	}
	f := cx.moduleCallee(c)
	if f == nil {
		return ""
	}
	if stack[f] {
		return ""
	}
	s := cx.emitSummaryOf(f, stack)
	if call, ok := c.(*ssa.Call); ok && p != nil && s.Decided && s.Res != nil && !(s.Min == 1 && s.Max == 1) {
		side, tested := pathPolarityOf(p, call)
		if s.ErrSided {
			side, tested = false, false
			if e, has, _ := errResult(call); has && e != nil {
				al := cx.Fx.aliasesOf(e)
				for _, cp := range p.Conds {
					if x, tnn, isNT := nilTest(cp.Cond); isNT {
						for _, a := range al {
							if a == x {
								side, tested = cp.Pol != tnn, true
							}
						}
					}
				}
			}
		}
		if tested {
			if rg := s.Res[side]; rg != nil {
				switch {
				case rg[1] == 0:
					return ""
				case rg[0] == 1 && rg[1] == 1:
					return "reply1:" + cx.W.FuncKey(f)
				default:
					return fmt.Sprintf("reply%d..%d:%s", rg[0], rg[1], cx.W.FuncKey(f))
				}
			}
		}
	}
	if s.Decided && s.Min == 1 && s.Max == 1 {
		return "reply1:" + cx.W.FuncKey(f)
	}
	if s.Max > 0 {
		return fmt.Sprintf("reply%d..%d:%s", s.Min, s.Max, cx.W.FuncKey(f))
	}
	return ""
}

func (cx *Ctx) emitSummaryOf(fn *ssa.Function, stack map[*ssa.Function]bool) *emitSummary {
	if cx.emitMemo == nil {
		cx.emitMemo = map[*ssa.Function]*emitSummary{}
	}
	if s, ok := cx.emitMemo[fn]; ok {
		return s
	}
	if stack == nil {
		stack = map[*ssa.Function]bool{}
	}
	stack[fn] = true
	defer delete(stack, fn)
	s := &emitSummary{Decided: true, Min: 1 << 30}
	paths, ok := enumPaths(fn, nil, 4096)
	if !ok {
		s.Decided = false
		s.Why = "too many paths"
	}
	// a "handled" / "go on" flag as the (last) result: `data, deliver := marshalOrReply(...)`
	boolOnly := false
	if res := fn.Signature.Results(); res.Len() >= 1 {
		if b, ok := res.At(res.Len() - 1).Type().Underlying().(*types.Basic); ok && b.Kind() == types.Bool {
			boolOnly = true
		}
	}
	errLast := false
	if res := fn.Signature.Results(); res.Len() > 0 && isErrorType(res.At(res.Len()-1).Type()) {
		errLast = true
	}
	s.ErrSided = errLast && !boolOnly
	for _, p := range paths {
		ep := cx.emitAlong(p, stack)
		n := ep.count()
		// variable-count callees make the count a range
		lo, hi := n, n
		for i, a := range ep.Acts {
			if ep.Failed[i] {
				continue
			}
			if strings.HasPrefix(a.Kind, "reply") && !strings.HasPrefix(a.Kind, "reply1:") {
				var l, h int
				fmt.Sscanf(a.Kind, "reply%d..%d:", &l, &h)
				lo += l - 1
				hi += h - 1
			}
		}
		if lo < s.Min {
			s.Min = lo
		}
		if hi > s.Max {
			s.Max = hi
		}
		s.Paths = append(s.Paths, ep)
		// a function whose last result is an error: true = the side that returns nil. An act whose own error is what
		// the path returns (`return tmpl.Execute(w, data)`) succeeded on the nil side and failed on the other.
		if errLast && !boolOnly {
			ret := p.Return()
			var rv ssa.Value
			if ret != nil && len(ret.Results) > 0 {
				rv = ret.Results[len(ret.Results)-1]
			}
			sides := []bool{true, false}
			switch {
			case rv == nil:
			case isNilConst(rv):
				sides = []bool{true}
			case isFreshError(rv):
				sides = []bool{false}
			default:
				for _, cp := range p.Conds {
					if x, tnn, isNT := nilTest(cp.Cond); isNT {
						for _, a := range cx.Fx.aliasesOf(rv) {
							if a == x || x == rv {
								sides = []bool{cp.Pol != tnn} // found nil on the path -> nil side
							}
						}
					}
				}
			}
			for _, side := range sides {
				slo, shi := lo, hi
				for i, a := range ep.Acts {
					call, isCall := a.Call.(*ssa.Call)
					if !isCall || ep.Failed[i] || rv == nil {
						continue
					}
					e, has, _ := errResult(call)
					if !has || e == nil {
						continue
					}
					returned := e == rv
					for _, al := range cx.Fx.aliasesOf(e) {
						if al == rv {
							returned = true
						}
					}
					if !returned || len(sides) == 1 {
						continue
					}
					// this act's verdict is the path's verdict: take its contribution out and put the side's in
					l, h := 1, 1
					if strings.HasPrefix(a.Kind, "reply") && !strings.HasPrefix(a.Kind, "reply1:") {
						fmt.Sscanf(a.Kind, "reply%d..%d:", &l, &h)
					}
					slo, shi = slo-l, shi-h
					if f := cx.moduleCallee(a.Call); f != nil {
						if cs := cx.emitSummaryOf(f, stack); cs.Res != nil && cs.Res[side] != nil {
							slo, shi = slo+cs.Res[side][0], shi+cs.Res[side][1]
							continue
						}
					}
					if side {
						slo, shi = slo+1, shi+1
					}
				}
				if slo < 0 {
					slo = 0
				}
				if s.Res == nil {
					s.Res = map[bool]*[2]int{}
				}
				if rg := s.Res[side]; rg == nil {
					s.Res[side] = &[2]int{slo, shi}
				} else {
					if slo < rg[0] {
						rg[0] = slo
					}
					if shi > rg[1] {
						rg[1] = shi
					}
				}
			}
		}
		if boolOnly {
			sides := []bool{true, false}
			if v, known := pathBoolResult(&p); known {
				sides = []bool{v}
			}
			for _, side := range sides {
				if s.Res == nil {
					s.Res = map[bool]*[2]int{}
				}
				if rg := s.Res[side]; rg == nil {
					s.Res[side] = &[2]int{lo, hi}
				} else {
					if lo < rg[0] {
						rg[0] = lo
					}
					if hi > rg[1] {
						rg[1] = hi
					}
				}
			}
		}
	}
	if len(paths) == 0 {
		s.Min = 0
	}
	cx.emitMemo[fn] = s
	return s
}

// emitAlong lists the acts along path p and marks the failed ones.
func (cx *Ctx) emitAlong(p Path, stack map[*ssa.Function]bool) emitPath {
	ep := emitPath{Path: p}
	for _, in := range p.Instrs() {
		c, ok := in.(ssa.CallInstruction)
		if !ok {
			continue
		}
		if _, isDefer := in.(*ssa.Defer); isDefer {
			continue
		}
		k := cx.actKindOn(c, stack, &p)
		if k == "" {
			continue
		}
		failed := false
		if call, isCall := c.(*ssa.Call); isCall {
			if e, has, _ := errResult(call); has && e != nil {
				al := cx.Fx.aliasesOf(e)
				for _, cp := range p.Conds {
					x, tnn, isNT := nilTest(cp.Cond)
					if !isNT {
						continue
					}
					for _, a := range al {
						if a == x && cp.Pol == tnn {
							failed = true
						}
					}
				}
			}
		}
		ep.Acts = append(ep.Acts, emitAct{c, k})
		ep.Failed = append(ep.Failed, failed)
	}
	return ep
}

// checkEmitExactlyOne: every path of fn performs exactly one effective reply act.
func (cx *Ctx) checkEmitExactlyOne(r *Report, rule, key string, fn *ssa.Function) bool {
	w := cx.W
	if fn == nil {
		r.Fail(rule, key, "", "anchor function not found")
		return false
	}
	s := cx.emitSummaryOf(fn, nil)
	if !s.Decided {
		r.Undecided(rule, key, w.FnPos(fn), s.Why)
		return false
	}
	for _, p := range s.Paths {
		n := p.count()
		if n != 1 {
			what := "an empty reply"
			if n > 1 {
				what = fmt.Sprintf("%d reply acts (concatenated replies)", n)
			}
			r.Fail(rule, key, w.InstrPos(p.Path.Last().Instrs[len(p.Path.Last().Instrs)-1]), fmt.Sprintf("a path through %s ends with %s: %s", w.FuncKey(fn), what, p.describe(w)))
			return false
		}
		for i, a := range p.Acts {
			if !p.Failed[i] && strings.HasPrefix(a.Kind, "reply") && !strings.HasPrefix(a.Kind, "reply1:") {
				r.Fail(rule, key, w.InstrPos(a.Call), "calls "+a.Kind+", which does not perform exactly one reply act on each of its paths")
				return false
			}
		}
	}
	r.Ok(rule, key, w.FnPos(fn), fmt.Sprintf("exactly one effective reply act on each of %d paths", len(s.Paths)))
	return true
}

// httpErrorStatusOK: c is http.Error with a constant status >= 400.
func httpErrorStatus(c ssa.CallInstruction) (int64, bool) {
	if calleeName(c) != "net/http.Error" || len(c.Common().Args) < 3 {
		return 0, false
	}
	vals, ok := constIntSet(c.Common().Args[2], 0)
	if !ok || len(vals) == 0 {
		return 0, false
	}
	min := vals[0]
	for _, v := range vals {
		if v < min {
			min = v
		}
	}
	return min, true
}

// constIntSet: the constants an integer value can be: a constant, a phi of such, or a local / captured variable
// every assignment of which is such (`status := 500; if tooLarge { status = 413 }`). The smallest is what callers
// compare with a lower bound.
func constIntSet(v ssa.Value, depth int) ([]int64, bool) {
	if depth > 6 {
		return nil, false
	}
	if c, ok := constInt(v); ok {
		return []int64{c}, true
	}
	switch x := v.(type) {
	case *ssa.Phi:
		var out []int64
		for _, e := range x.Edges {
			s, ok := constIntSet(e, depth+1)
			if !ok {
				return nil, false
			}
			out = append(out, s...)
		}
		return out, true
	case *ssa.Convert:
		return constIntSet(x.X, depth+1)
	case *ssa.UnOp:
		if x.Op != token.MUL || gFacts == nil {
			return nil, false
		}
		cell := gFacts.ownerCell(x.X)
		if cell == nil {
			return nil, false
		}
		st := gFacts.storesToCell(cell)
		if len(st) == 0 {
			return nil, false
		}
		var out []int64
		for _, s := range st {
			vs, ok := constIntSet(s, depth+1)
			if !ok {
				return nil, false
			}
			out = append(out, vs...)
		}
		return out, true
	}
	return nil, false
}

// moduleCallee: the module function a call invokes: its static callee, or the single closure a function value
// kept in a local variable / parameter / struct field resolves to.
func (cx *Ctx) moduleCallee(c ssa.CallInstruction) *ssa.Function {
	f := calleeOf(c)
	if f == nil && !c.Common().IsInvoke() {
		if _, isB := c.Common().Value.(*ssa.Builtin); !isB {
			if tg, ok := cx.Fx.funcTargets(c.Common().Value); ok && len(tg) == 1 {
				f = tg[0]
			}
		}
	}
	if f == nil || f.Blocks == nil || f.Pkg == nil || !isModulePath(f.Pkg.Pkg.Path()) || isMockPath(f.Pkg.Pkg.Path()) {
		return nil
	}
	return f
}

// pathBoolResult: the constant a path of a bool-returning function returns (through phis of constants).
func pathBoolResult(p *Path) (val, known bool) {
	ret := p.Return()
	if ret == nil || len(ret.Results) < 1 {
		return false, false
	}
	switch v := ret.Results[len(ret.Results)-1].(type) {
	case *ssa.Const:
		if v.Value == nil {
			return false, false
		}
		s := v.Value.ExactString()
		return s == "true", s == "true" || s == "false"
	case *ssa.Phi:
		return p.phiValue(v, 0)
	}
	return false, false
}

// pathPolarityOf: whether path p branches on the boolean result of call, and which way.
func pathPolarityOf(p *Path, call *ssa.Call) (side, tested bool) {
	for _, lists := range [][]condPol{p.Conds, p.Raw} {
		for _, c := range lists {
			v, pol := c.Cond, c.Pol
			for {
				u, ok := v.(*ssa.UnOp)
				if !ok || u.Op != token.NOT {
					break
				}
				v, pol = u.X, !pol
			}
			if v == ssa.Value(call) {
				return pol, true
			}
			// the flag is the last of several results
			if ex, isE := v.(*ssa.Extract); isE && ex.Tuple == ssa.Value(call) && ex.Index == call.Call.Signature().Results().Len()-1 {
				return pol, true
			}
		}
	}
	return false, false
}

package main

import (
	"fmt"
	"go/token"
	"go/types"
	"sort"
	"strconv"
	"strings"

	"golang.org/x/tools/go/ssa"
)

func init() { register("C11", checkC11) }

// endpointTable: descriptor list (SingleSignOnService, ...) -> endpoint fields of provider.Endpoints whose
// Absolute(issuer) is advertised as a Location of that list. The lists are walked as they are built - literals,
// appends, helper functions returning the list or an element - with the call-site context of the helpers active.
func (cx *Ctx) endpointTable(fn *ssa.Function) (map[string]map[string]bool, []string) {
	w := cx.W
	out := map[string]map[string]bool{}
	var problems []string
	vf := cx.vflow(w.FuncKey(fn))
	if vf == nil {
		return out, []string{"getMetadata not analysable"}
	}
	issuerLabel := fmt.Sprintf("param:%s/#2", w.FuncKey(fn))
	vf.stopAt = func(c *ssa.Call) bool {
		f := calleeOf(c)
		return f != nil && w.FuncKey(f) == "provider.(Endpoint).Absolute"
	}
	defer func() { vf.stopAt = nil }()
	for _, list := range []struct{ owner, field string }{{"md.IDPSSODescriptorType", "SingleSignOnService"}, {"md.IDPSSODescriptorType", "SingleLogoutService"}, {"md.AttributeAuthorityDescriptorType", "AttributeService"}} {
		_, sites := vf.FieldStoreSources(list.owner, list.field)
		for _, st := range sites {
			okList := vf.forEachElem(st.Val, func(elem ssa.Value) {
				nLoc := 0
				okElem := vf.forEachField(elem, "Location", func(loc ssa.Value) {
					nLoc++
					okLoc := vf.resolve(loc, func(d ssa.Value) {
						c, isC := d.(*ssa.Call)
						if !isC || !vf.stopAt(c) {
							problems = append(problems, "a Location of "+list.field+" is not <endpoint>.Absolute(issuer) ("+cx.Fx.path(d)+" at "+w.InstrPos(st)+")")
							return
						}
						ep := ""
						vf.resolve(c.Call.Args[0], func(e ssa.Value) {
							if ld, isLd := e.(*ssa.UnOp); isLd && ld.Op == token.MUL {
								if fa, isFA := ld.X.(*ssa.FieldAddr); isFA && fieldOwner(fa.X.Type()) == "provider.Endpoints" {
									ep = fname(fieldVar(fa.X.Type(), fa.Field))
								}
							}
						}, map[ssa.Value]bool{}, 0)
						if ep == "" {
							problems = append(problems, "a Location of "+list.field+" is Absolute() of something that is not a field of the provider's Endpoints ("+cx.Fx.path(c.Call.Args[0])+" at "+w.InstrPos(c)+")")
							return
						}
						if ls := vf.Labels(c.Call.Args[1]).leaves(); len(ls) != 1 || ls[0] != issuerLabel {
							problems = append(problems, fmt.Sprintf("Location of %s is made absolute with %v instead of the request's issuer", list.field, ls))
						}
						if out[list.field] == nil {
							out[list.field] = map[string]bool{}
						}
						out[list.field][ep] = true
					}, map[ssa.Value]bool{}, 0)
					if !okLoc {
						problems = append(problems, "a Location of "+list.field+" could not be followed to its definition at "+w.InstrPos(st))
					}
				}, 0)
				if !okElem || nLoc == 0 {
					problems = append(problems, "an element of "+list.field+" has no followable Location ("+cx.Fx.path(elem)+" at "+w.InstrPos(st)+")")
				}
			}, 0)
			if !okList {
				problems = append(problems, "the construction of "+list.field+" at "+w.InstrPos(st)+" could not be followed")
			}
		}
	}
	return out, problems
}

func checkC11(cx *Ctx, r *Report) {
	w, fx := cx.W, cx.Fx
	cx.checkContextKeys(r)
	cx.checkNoIndentedEncoding(r)
	cx.checkRequestNotRewritten(r)
	// storage is asked with the request's context (which carries the issuer in effect)
	cx.checkStorageContext(r)
	cx.checkStorageIsTheApplications(r)
	// what the metadata says is what the configuration holds: no marshaller of the module rewrites a value on the way
	// out (a flag the enforcement reads as configured but the document shows "canonicalised" is advertised differently)
	cx.checkNoCustomMarshallers(r)
	r.Clauses = []string{
		"Issuer = entityID: every Issuer of a protocol reply (login, SSO error, logout, attribute query) and the entityID of the metadata document have the single source IdentityProvider.GetEntityID(<the request's context>) = metadataEndpoint.Absolute(IssuerFromContext(ctx))",
		"routes vs advertised locations: the composed table service -> endpoint -> handler extracted from getMetadata and GetRoutes equals {SingleSignOnService -> ssoHandleFunc, SingleLogoutService -> logoutHandleFunc, AttributeService -> attributeQueryHandleFunc}; advertised and routed endpoints are built by endpointConfigToEndpoints from the same configuration; Absolute (without URL override) and Relative both end in relativeEndpoint(path); routes carry no method/host matcher; the metadata route is metadataEndpoint.Relative()",
		"one certificate: the KeyDescriptor, the certificate endpoint and every signing site take the certificate returned by GetResponseSigningKey",
		"WantAuthnRequestsSigned: the advertised value is the configured one unchanged and enforcement reads the same field through a verified complete xs:boolean test; the verifiers the enforcement ends in report success only under a verification that succeeded (shared with C05)",
	}
	r.NotDec = []string{"well-formedness of the served XML (encoding/xml)", "behaviour behind path prefixes chosen by the embedding application"}
	r.Assume = []string{"gorilla/mux routes requests whose path equals the registered path to the registered handler"}

	// --- Issuer = entityID at every entry ------------------------------------------------------------
	for _, e := range []struct{ key, short string }{{kSSO, "sso"}, {kCallback, "callback"}, {kLogout, "slo"}, {kAttr, "attr"}} {
		vf := cx.vflow(e.key)
		if vf == nil {
			r.Fail("R-VFG", e.short+":issuer", "", "handler not found")
			continue
		}
		nIss := 0
		for _, o := range []string{"samlp.ResponseType", "saml.AssertionType", "samlp.LogoutResponseType"} {
			ls, n := vf.NestedFieldSources(o, "Issuer", "saml.NameIDType", "Text")
			if n == 0 {
				continue
			}
			nIss++
			r.checkSources("R-VFG", e.short+":issuer:"+o, "", ls, entityIDSources, []string{"ext:iface:context.Context.Value#0"}, false)
		}
		if nIss == 0 {
			r.Fail("R-VFG", e.short+":issuer", "", "no message Issuer is filled by this handler")
			continue
		}
		// the context is the request's
		lc, cs := vf.CallArgSources(matchFnKey(w, "provider.(*IdentityProvider).GetEntityID"), 1)
		if len(cs) == 0 {
			r.Fail("R-VFG", e.short+":entityID-context", "", "GetEntityID is not called by this handler")
		} else {
			r.checkSources("R-VFG", e.short+":entityID-context", w.InstrPos(cs[0]), lc, []string{"ext:(*http.Request).Context#0"}, []string{"ext:(*http.Request).Context#0"}, true)
		}
		// Issuer fields of the reply objects come from GetEntityID
		for _, f := range []struct{ o, f string }{{"provider.Response", "Issuer"}, {"provider.LogoutResponse", "Issuer"}} {
			li, si := vf.FieldStoreSources(f.o, f.f)
			if len(si) > 0 {
				r.checkSources("R-VFG", e.short+":"+f.o+"."+f.f, w.InstrPos(si[0]), vf.Deep(li), entityIDSources, []string{"ext:iface:context.Context.Value#0"}, false)
			}
		}
	}
	cx.checkMetadataOfThisRequest(r)
	cx.checkKeyPairChecked(r)
	vm := cx.vflow(kMeta)
	if cx.checkDerivedIssuerGeneric(newReport("tmp", "quick")) {
		r.Ok("R-VFG", "derived-issuer:scheme-flag", "", "the scheme of a derived issuer is a function of the configured insecure flag alone (composition rule of C19)")
	} else {
		cx.checkIssuerSchemeFlag(r)
	}
	// GetEntityID = metadataEndpoint.Absolute(IssuerFromContext(ctx))
	if ge := w.Func("provider.(*IdentityProvider).GetEntityID"); ge != nil {
		ok := false
		for _, ret := range returnsOf(ge) {
			if c, isC := ret.Results[0].(*ssa.Call); isC {
				if f := calleeOf(c); f != nil && w.FuncKey(f) == "provider.(Endpoint).Absolute" && strings.HasSuffix(fx.T(fx.path(c.Call.Args[0])), "<provider.IdentityProvider>.metadataEndpoint") {
					if ic, isC2 := c.Call.Args[1].(*ssa.Call); isC2 {
						if g := calleeOf(ic); g != nil && w.FuncKey(g) == "provider.IssuerFromContext" && fx.T(fx.path(ic.Call.Args[0])) == "<context.Context>" {
							ok = true
						}
					}
				}
			}
		}
		r.Check(ok, "R-VFG", "GetEntityID:definition", w.FnPos(ge), "metadataEndpoint.Absolute(IssuerFromContext(ctx))", "GetEntityID is no longer metadataEndpoint.Absolute(IssuerFromContext(ctx))")
	} else {
		r.Fail("R-VFG", "GetEntityID:definition", "", "anchor not found")
	}

	// --- routes vs advertised locations -----------------------------------------------------------------
	gm := w.Func("provider.(*IdentityProviderConfig).getMetadata")
	if gm == nil {
		r.Fail("R-SIB", "getMetadata", "", "anchor not found")
	} else {
		tbl, problems := cx.endpointTable(gm)
		for _, p := range problems {
			r.Fail("R-SIB", "advertised-location", w.FnPos(gm), p)
		}
		routeOf := map[string]string{} // endpoint field -> handler key
		for _, rt := range cx.routes() {
			if strings.HasPrefix(rt.Endpoint, "Relative(") {
				p := strings.TrimSuffix(strings.TrimPrefix(rt.Endpoint, "Relative("), ")")
				routeOf[p[strings.LastIndex(p, ".")+1:]] = w.FuncKey(rt.Handler)
			}
		}
		expect := map[string]string{"SingleSignOnService": kSSO, "SingleLogoutService": kLogout, "AttributeService": kAttr}
		var svcs []string
		for s := range expect {
			svcs = append(svcs, s)
		}
		sort.Strings(svcs)
		for _, svc := range svcs {
			eps := tbl[svc]
			if len(eps) != 1 {
				r.Fail("R-SIB", "service:"+svc, w.FnPos(gm), fmt.Sprintf("the advertised %s locations use %d different endpoints (%v)", svc, len(eps), eps))
				continue
			}
			var ep string
			for k := range eps {
				ep = k
			}
			h := routeOf[ep]
			r.Check(h == expect[svc], "R-SIB", "service:"+svc, w.FnPos(gm), fmt.Sprintf("advertised at endpoint %s, which is routed to %s", ep, h), fmt.Sprintf("%s is advertised at endpoint %s, which is routed to %q, not to %s", svc, ep, h, expect[svc]))
		}
		// metadata route
		okMeta := false
		for _, rt := range cx.routes() {
			if w.FuncKey(rt.Handler) == kMeta && strings.HasPrefix(rt.Endpoint, "Relative(") && strings.HasSuffix(fx.T(strings.TrimSuffix(rt.Endpoint, ")")), "<provider.Provider>.metadataEndpoint") {
				okMeta = true
			}
		}
		r.Check(okMeta, "R-SIB", "route:metadata", "", "the metadata handler is routed at metadataEndpoint.Relative()", "the metadata handler is not routed at metadataEndpoint.Relative()")
		// both sides from endpointConfigToEndpoints of the same config field
		for _, site := range []struct{ fn, want string }{{"provider.(*IdentityProviderConfig).getMetadata", "<provider.IdentityProviderConfig>.Endpoints"}, {"provider.NewIdentityProvider", "<provider.IdentityProviderConfig>.Endpoints"}} {
			f := w.Func(site.fn)
			ok := false
			if f != nil {
				for _, c := range callsIn(f) {
					if g := calleeOf(c); g != nil && w.FuncKey(g) == "provider.endpointConfigToEndpoints" && strings.HasSuffix(fx.T(fx.path(c.Common().Args[0])), site.want) {
						ok = true
					}
				}
			}
			r.Check(ok, "R-SIB", "endpoints-from-config@"+site.fn, "", "endpointConfigToEndpoints("+site.want+")", site.fn+" no longer derives its endpoints from endpointConfigToEndpoints("+site.want+")")
		}
		// the IdentityProvider's conf is the configuration its endpoints were derived from
		if ni := w.Func("provider.NewIdentityProvider"); ni != nil {
			ok := false
			for _, st := range fx.info(ni).stores {
				if fa, isFA := st.Addr.(*ssa.FieldAddr); isFA && fieldOwner(fa.X.Type()) == "provider.IdentityProvider" && fname(fieldVar(fa.X.Type(), fa.Field)) == "conf" && fx.T(fx.path(st.Val)) == "<provider.IdentityProviderConfig>" {
					ok = true
				}
			}
			r.Check(ok, "R-SIB", "idp.conf", w.FnPos(ni), "IdentityProvider.conf is the configuration passed to the constructor", "IdentityProvider.conf is not the configuration the routed endpoints were derived from")
		}
	}
	// ... and "the same configuration" means the same at both readings: the routes are laid out once, at construction,
	// the advertised locations are computed from the configuration on every request
	cx.checkEndpointConfigConstant(r)
	// Absolute / Relative agree on the path
	cx.checkEndpointFuncs(r)
	// no matchers on routes
	cx.checkRouteMatchers(r)
	cx.checkRoutesRegistered(r)
	r.Check(len(cx.routes()) >= 8, "R-ROUTES", "#routes", "", fmt.Sprintf("%d routes", len(cx.routes())), fmt.Sprintf("only %d routes found", len(cx.routes())))

	// --- one certificate -----------------------------------------------------------------------------------
	cert := []string{"ext:iface:provider.IdentityProviderStorage.GetResponseSigningKey#0.Certificate", "global:base64.StdEncoding"}
	if vm != nil {
		lso, own := vm.StoreSourcesIn("provider.(*IdentityProviderConfig).getMetadata", "xml_dsig.X509DataType", "X509Certificate")
		if len(own) == 0 {
			r.Fail("R-VFG", "metadata:KeyDescriptor-certificate", "", "getMetadata fills no X509Certificate")
		} else {
			r.checkSources("R-VFG", "metadata:KeyDescriptor-certificate", w.InstrPos(own[0]), lso, cert, cert[:1], false)
			// a failed key lookup must end the metadata request: otherwise a document without (or with an empty)
			// signing KeyDescriptor is served. Every error-returning function on the certificate's way propagates
			// the errors of what it calls.
			msc := w.scopeOf(w.Func(kMeta))
			for _, f := range w.sortedFuncs(msc) {
				res := f.Signature.Results()
				if res.Len() == 0 || !isErrorType(res.At(res.Len()-1).Type()) || !w.scopeHasCall(w.scopeOf(f), matchStorage("GetResponseSigningKey")) {
					continue
				}
				cx.checkErrPropagation(r, "R-ERR", "metadata-certificate:"+w.FuncKey(f), f)
			}
			_, hasB64 := lso["via:(*base64.Encoding).EncodeToString"]
			r.Check(hasB64, "R-VFG", "metadata:KeyDescriptor-encoding", w.InstrPos(own[0]), "base64 of the DER certificate", "the KeyDescriptor certificate is not the base64 encoding of the certificate bytes")
		}
	}
	if vc := cx.vflow(kCert); vc != nil {
		ls, sites := vc.FieldStoreSources("pem.Block", "Bytes")
		if len(sites) == 0 {
			r.Fail("R-VFG", "certificate-endpoint:bytes", "", "the certificate endpoint no longer PEM-encodes a certificate")
		} else {
			r.checkSources("R-VFG", "certificate-endpoint:bytes", w.InstrPos(sites[0]), ls, cert[:1], cert[:1], true)
		}
	}
	for _, e := range []struct{ key, short string }{{kCallback, "callback"}, {kAttr, "attr"}} {
		vf := cx.vflow(e.key)
		if vf == nil {
			continue
		}
		for _, sk := range []string{"signature.GetSigner", "signature.ParseTlsKeyPair"} {
			ls, sites := vf.CallArgSources(matchFnKey(w, sk), 0)
			if len(sites) == 0 {
				continue
			}
			r.checkSources("R-VFG", e.short+":"+sk+":certificate", w.InstrPos(sites[0]), ls, cert[:1], cert[:1], true)
		}
	}
	// --- WantAuthnRequestsSigned ---------------------------------------------------------------------------
	// "refused" is what the verifiers do: with the flag set every request reaches one of them (C05 decides that part),
	// and none of them reports success without a verification that succeeded - also not for a service provider that
	// published no key
	cx.checkVerifierDiscipline(r)
	cx.checkXSBool(r, "R-XSBOOL", map[string]bool{"md.SPSSODescriptorType.AuthnRequestsSigned": true, "md.IDPSSODescriptorType.WantAuthnRequestsSigned": true, "provider.IdentityProviderConfig.WantAuthRequestsSigned": true})
	for _, e := range []struct {
		vf    *VFlow
		short string
	}{{vm, "metadata"}, {cx.vflow(kSSO), "sso"}} {
		if e.vf == nil {
			continue
		}
		ls, sites := e.vf.FieldStoreSources("md.IDPSSODescriptorType", "WantAuthnRequestsSigned")
		if len(sites) == 0 {
			r.Fail("R-VFG", e.short+":WantAuthnRequestsSigned", "", "WantAuthnRequestsSigned is not filled")
			continue
		}
		r.checkSources("R-VFG", e.short+":WantAuthnRequestsSigned", w.InstrPos(sites[0]), ls, []string{"param:*conf.WantAuthRequestsSigned", "param:*conf.IDPConfig.WantAuthRequestsSigned", "param:*.WantAuthRequestsSigned"}, []string{"param:*.WantAuthRequestsSigned"}, true)
	}
	r.Min("R-VFG", 10)
	r.Min("R-SIB", 5)
}

// checkEndpointFuncs: Relative() = relativeEndpoint(e.path); Absolute(host) = e.url if set, else
// TrimSuffix(host, "/") + relativeEndpoint(e.path).
func (cx *Ctx) checkEndpointFuncs(r *Report) {
	w := cx.W
	rel := w.Func("provider.(Endpoint).Relative")
	abs := w.Func("provider.(Endpoint).Absolute")
	ae := w.Func("provider.absoluteEndpoint")
	re := w.Func("provider.relativeEndpoint")
	if rel == nil || abs == nil {
		r.Fail("R-SIB", "endpoint-functions", "", "Endpoint.Relative / Absolute not found")
		return
	}
	lv := cx.newVFlow("endpoint", rel, abs)
	lr := LabelSet{}
	for _, ret := range returnsOf(rel) {
		lr.addAll(lv.Labels(ret.Results[0]), 0)
	}
	la := LabelSet{}
	for _, ret := range returnsOf(abs) {
		la.addAll(lv.Labels(ret.Results[0]), 0)
	}
	r.checkSources("R-SIB", "Endpoint.Relative", w.FnPos(rel), lr, []string{"const:*", "param:provider.(Endpoint).Relative/#0.path", "param:provider.(Endpoint).Absolute/#0.path"}, []string{"const:/"}, false)
	r.checkSources("R-SIB", "Endpoint.Absolute", w.FnPos(abs), la, []string{"const:*", "param:provider.(Endpoint).Absolute/#0.path", "param:provider.(Endpoint).Absolute/#0.url", "param:provider.(Endpoint).Absolute/#1"}, []string{"param:provider.(Endpoint).Absolute/#0.path", "param:provider.(Endpoint).Absolute/#1"}, false)
	// (which helpers the two share is their business - absoluteEndpoint / relativeEndpoint today -: what is decided
	// below is what each of them returns, composed through whatever helpers they call)
	_, _ = ae, re
	// the exact composition: Relative = "/" + TrimPrefix(path, "/"); Absolute (no override) = TrimSuffix(host, "/") + the same
	describe := func(fn *ssa.Function, v ssa.Value) string {
		var out []string
		for _, p := range mergeLits(cx.strParts(v)) {
			switch {
			case p.IsLit:
				out = append(out, strconv.Quote(p.Lit))
			default:
				d := cx.Fx.path(p.Val)
				if c, isC := p.Val.(*ssa.Call); isC {
					n := shortCallee(calleeName(c))
					if (n == "strings.TrimPrefix" || n == "strings.TrimSuffix") && len(c.Call.Args) == 2 {
						cut, _ := constString(c.Call.Args[1])
						arg := c.Call.Args[0]
						if par, isP := arg.(*ssa.Parameter); isP {
							if a, bound := p.Sub[par]; bound {
								arg = a
							}
						}
						d = n + "(" + cx.Fx.T(cx.Fx.path(arg)) + "," + strconv.Quote(cut) + ")"
					}
				}
				out = append(out, d)
			}
		}
		return strings.Join(out, " + ")
	}
	for _, ret := range returnsOf(rel) {
		got := describe(rel, ret.Results[0])
		r.Check(got == `"/" + strings.TrimPrefix(<provider.Endpoint>.path,"/")`, "R-SIB", "Endpoint.Relative:composition", w.InstrPos(ret), got, "Endpoint.Relative returns "+got+`, not "/" + the path without its leading slash: the routed path differs from the advertised one`)
	}
	nAbs := 0
	for _, ret := range returnsOf(abs) {
		got := describe(abs, ret.Results[0])
		if got == "<provider.Endpoint>.url" || strings.HasSuffix(got, ".url") {
			continue // the configured override
		}
		nAbs++
		r.Check(got == `strings.TrimSuffix(<#1 string>,"/") + "/" + strings.TrimPrefix(<provider.Endpoint>.path,"/")`, "R-SIB", "Endpoint.Absolute:composition", w.InstrPos(ret), got, "Endpoint.Absolute returns "+got+`, not the issuer without trailing slash + "/" + the path without leading slash: the advertised location is not where the route is`)
	}
	r.Check(nAbs >= 1, "R-SIB", "Endpoint.Absolute:composition#", w.FnPos(abs), "a computed (non-override) return exists", "Endpoint.Absolute has no return that composes issuer and path")
}

// checkRoutesRegistered: the table GetRoutes returns is what the router serves: CreateRouter hands Endpoint and
// HandleFunc of every element of GetRoutes() to router.Handle, under no condition but the loop itself and the
// presence of the identity provider (which NewProvider always sets).
func (cx *Ctx) checkRoutesRegistered(r *Report) {
	w, fx := cx.W, cx.Fx
	cr := w.Func("provider.CreateRouter")
	if cr == nil {
		r.Fail("R-SIB", "routes-registered", "", "anchor provider.CreateRouter not found")
		return
	}
	found := false
	bad := ""
	// the registering call sits in CreateRouter or in a helper CreateRouter hands the routes to
	type site struct {
		c     ssa.CallInstruction
		outer ssa.CallInstruction // the call in CreateRouter that leads to the helper (nil: c is in CreateRouter)
	}
	var sites []site
	for _, c := range callsIn(cr) {
		sites = append(sites, site{c, nil})
		if g := calleeOf(c); g != nil && g.Blocks != nil && g.Pkg == cr.Pkg && g != cr {
			fromRoutes := false
			for _, a := range c.Common().Args {
				if strings.Contains(fx.path(a), "GetRoutes") {
					fromRoutes = true
				}
			}
			if fromRoutes {
				for _, c2 := range callsIn(g) {
					sites = append(sites, site{c2, c})
				}
			}
		}
	}
	for _, st := range sites {
		c := st.c
		n := calleeName(c)
		if n != "(*github.com/gorilla/mux.Router).HandleFunc" && n != "(*github.com/gorilla/mux.Router).Handle" {
			continue
		}
		args := c.Common().Args
		if len(args) < 3 {
			continue
		}
		tp := fx.T(fx.path(args[1]))
		if !strings.Contains(fx.path(args[1]), "GetRoutes") && !strings.HasSuffix(tp, "<provider.Route>.Endpoint") && !(st.outer != nil && isFieldLoadOf(args[1], "provider.Route", "Endpoint")) {
			continue
		}
		found = true
		atoms := fx.AtomsAt(c.(ssa.Instruction))
		if st.outer != nil {
			atoms = append(atoms, fx.AtomsAt(st.outer.(ssa.Instruction))...)
		}
		for _, a := range atoms {
			switch {
			case a.Op == "LT" && !a.Neg:
			case a.Op == "NIL" && a.Neg && strings.HasSuffix(a.TA, ".identityProvider"):
			default:
				bad = "the routes of the identity provider are registered only under " + a.String()
			}
		}
	}
	if !found {
		bad = "CreateRouter does not register the routes GetRoutes returns: the advertised SSO, logout and attribute locations are not served"
	}
	r.Check(bad == "", "R-SIB", "routes-registered", w.FnPos(cr), "every element of GetRoutes() is handed to router.Handle", bad)
}

// checkRouteMatchers: routes are registered by path only; a Methods(...) matcher is accepted only when it is given
// constant method names that include both GET and POST (the methods of the front-channel bindings the metadata
// advertises). Any other matcher can keep an advertised binding from reaching its handler.
func (cx *Ctx) checkRouteMatchers(r *Report) {
	w := cx.W
	cr := w.Func("provider.CreateRouter")
	if cr == nil {
		r.Fail("R-SIB", "route-matchers", "", "anchor provider.CreateRouter not found")
		return
	}
	n := 0
	scope := map[*ssa.Function]bool{}
	w.refClosure(cr, scope)
	for _, fn := range w.sortedFuncs(scope) {
		for _, c := range callsIn(fn) {
			name := calleeName(c)
			if !strings.HasPrefix(name, "(*github.com/gorilla/mux.Route).") && !strings.HasPrefix(name, "(*github.com/gorilla/mux.Router).") {
				continue
			}
			m := name[strings.LastIndex(name, ".")+1:]
			switch m {
			case "Methods":
				if ms, ok := constStringSlice(c.Common().Args[len(c.Common().Args)-1]); ok && ms["GET"] && ms["POST"] {
					r.Ok("R-SIB", "route-matcher:Methods@"+w.InstrPos(c), w.InstrPos(c), "constant method list including GET and POST")
					continue
				}
				n++
				r.Fail("R-SIB", "route-matcher:"+m, w.InstrPos(c), "routes are restricted with Methods(...) that is not a constant list containing both GET and POST: a binding the metadata advertises for that location (HTTP-Redirect uses GET, HTTP-POST uses POST) may not reach its handler")
			case "Host", "Headers", "HeadersRegexp", "Queries", "Schemes", "MatcherFunc", "PathPrefix", "Subrouter":
				n++
				r.Fail("R-SIB", "route-matcher:"+m, w.InstrPos(c), "routes are restricted with "+m+"(...): a binding the metadata advertises for that location may not reach its handler")
			}
		}
	}
	if n == 0 {
		r.Ok("R-SIB", "route-matchers", w.FnPos(cr), "routes are registered by path only")
	}
}

// constStringSlice: v is a slice of an array allocated in the same function whose elements are all set, once, to
// string constants (the argument list of a variadic call written out at the call site): the set of those constants.
func constStringSlice(v ssa.Value) (map[string]bool, bool) {
	sl, ok := v.(*ssa.Slice)
	if !ok {
		return nil, false
	}
	al, ok := sl.X.(*ssa.Alloc)
	if !ok {
		return nil, false
	}
	out := map[string]bool{}
	for _, ref := range nonDebugRefs(al) {
		switch x := ref.(type) {
		case *ssa.IndexAddr:
			for _, r2 := range nonDebugRefs(x) {
				st, isSt := r2.(*ssa.Store)
				if !isSt {
					return nil, false
				}
				k, isC := constString(st.Val)
				if !isC {
					return nil, false
				}
				out[k] = true
			}
		case *ssa.Slice:
		default:
			return nil, false
		}
	}
	return out, len(out) > 0
}

// checkMetadataOfThisRequest: the metadata document served is the one built for this request - its entityID derives
// from the issuer in this request's context, the context handed to GetMetadata is the request's, and what is written
// is the freshly built document (not one kept from another request, whose issuer may differ).
func (cx *Ctx) checkMetadataOfThisRequest(r *Report) {
	w := cx.W
	vm := cx.vflow(kMeta)
	if vm != nil {
		ls, sites := vm.FieldStoreSources("md.EntityDescriptorType", "EntityID")
		if len(sites) == 0 {
			r.Fail("R-VFG", "metadata:entityID", "", "the metadata document gets no entityID")
		} else {
			// ... from the same endpoint object the protocol responses take their Issuer from: the IdentityProvider's
			// (the Provider keeps a metadata endpoint of its own; a document named after that one and responses named
			// after the other disagree as soon as the two copies differ)
			metaEntitySources := []string{"ext:iface:context.Context.Value#0", "const:*", "param:*/#0.identityProvider.metadataEndpoint.*"}
			r.checkSources("R-VFG", "metadata:entityID", w.InstrPos(sites[0]), vm.Deep(ls), metaEntitySources, []string{"ext:iface:context.Context.Value#0", "param:*/#0.identityProvider.metadataEndpoint.*"}, false)
		}
		lc, cs := vm.CallArgSources(matchFnKey(w, "provider.(*Provider).GetMetadata"), 1)
		if len(cs) > 0 {
			r.checkSources("R-VFG", "metadata:context", w.InstrPos(cs[0]), lc, []string{"ext:(*http.Request).Context#0"}, []string{"ext:(*http.Request).Context#0"}, true)
		}
		// what is served is the document just built for this request
		lw, ws := vm.CallArgSources(matchFnKey(w, "xml.WriteXMLMarshalled"), 1)
		if len(ws) > 0 {
			r.checkSources("R-VFG", "metadata:served-document", w.InstrPos(ws[0]), lw, []string{"alloc:{md.EntityDescriptorType}*"}, []string{"alloc:{md.EntityDescriptorType}*"}, false)
		} else if lw2, ws2 := vm.CallArgSources(matchFnKey(w, "xml.Write"), 1); len(ws2) > 0 {
			// marshalled first, written afterwards: the octets written are the serialisation of that document
			// (two links: what is written is what xml.Marshal returned, what xml.Marshal was given is the document)
			r.checkSources("R-VFG", "metadata:served-document", w.InstrPos(ws2[0]), vm.Deep(lw2), []string{"alloc:{bytes.Buffer}xml.Marshal/*", "via:(*bytes.Buffer).Bytes", "const:zero"}, []string{"alloc:{bytes.Buffer}xml.Marshal/*"}, false)
			if lm, ms := vm.CallArgSources(matchFnKey(w, "xml.Marshal"), 0); len(ms) == 1 {
				r.checkSources("R-VFG", "metadata:served-document:marshalled", w.InstrPos(ms[0]), lm, []string{"alloc:{md.EntityDescriptorType}*"}, []string{"alloc:{md.EntityDescriptorType}*"}, false)
			} else {
				r.Fail("R-VFG", "metadata:served-document:marshalled", w.InstrPos(ws2[0]), fmt.Sprintf("the metadata handler marshals at %d places: which serialisation is written cannot be told", len(ms)))
			}
		} else {
			r.Fail("R-VFG", "metadata:served-document", "", "the metadata handler does not write a document")
		}
	} else {
		r.Fail("R-VFG", "metadata", "", "metadata handler not found")
	}
}

// isFieldLoadOf: v is the load of field `field` of a struct of the named type (by type, whatever the object is called).
func isFieldLoadOf(v ssa.Value, owner, field string) bool {
	switch x := v.(type) {
	case *ssa.UnOp:
		if fa, ok := x.X.(*ssa.FieldAddr); ok {
			return fieldOwner(fa.X.Type()) == owner && fname(fieldVar(fa.X.Type(), fa.Field)) == field
		}
	case *ssa.Field:
		if n := namedOf(x.X.Type()); n != nil {
			st := x.X.Type().Underlying().(*types.Struct)
			return shortPkg(n.Obj().Pkg().Path())+"."+n.Obj().Name() == owner && st.Field(x.Field).Name() == field
		}
	}
	return false
}

// checkEndpointConfigConstant (R-EFFECT): the routed paths are derived from the endpoint configuration once (when the
// provider is built), the advertised locations again on every metadata request. They agree only as long as nobody
// changes an endpoint in between: a normalisation applied to the configured *Endpoint objects after the constructor
// has copied them moves every advertised location away from its route. Rule: no module code stores into an Endpoint,
// an EndpointConfig or the Endpoints table of an object it did not create itself (a store into a fresh local object -
// a composite literal being filled, a local copy - is construction, not change; a helper every call site of which
// hands in such a fresh object counts as construction too).
func (cx *Ctx) checkEndpointConfigConstant(r *Report) {
	w, fx := cx.W, cx.Fx
	protected := map[string]bool{"provider.Endpoint": true, "provider.EndpointConfig": true, "provider.Endpoints": true}
	var fresh func(v ssa.Value, depth int) bool
	fresh = func(v ssa.Value, depth int) bool {
		switch x := v.(type) {
		case *ssa.Alloc:
			return true
		case *ssa.FieldAddr:
			return fresh(x.X, depth)
		case *ssa.IndexAddr:
			return fresh(x.X, depth)
		case *ssa.Parameter:
			if depth > 2 {
				return false
			}
			vs := fx.throughWrapperParams(x, 0)
			if len(vs) == 1 && vs[0] == ssa.Value(x) {
				return false
			}
			for _, a := range vs {
				if !fresh(a, depth+1) {
					return false
				}
			}
			return true
		}
		return false
	}
	n := 0
	for _, fn := range w.Funcs {
		for _, b := range fn.Blocks {
			for _, in := range b.Instrs {
				st, ok := in.(*ssa.Store)
				if !ok {
					continue
				}
				owner := ""
				switch a := st.Addr.(type) {
				case *ssa.FieldAddr:
					owner = fieldOwner(a.X.Type())
				default:
					if pt, ok := st.Addr.Type().Underlying().(*types.Pointer); ok {
						owner = typeKey(pt.Elem())
					}
				}
				if !protected[owner] {
					continue
				}
				n++
				if fresh(st.Addr, 0) {
					continue
				}
				r.Fail("R-EFFECT", "endpoint-config-changed@"+w.FuncKey(fn), w.InstrPos(st), "module code changes an object of type "+owner+" it did not create ("+fx.path(st.Addr)+"): the routes were derived from the endpoint configuration when the provider was built, the advertised locations are derived from it on every request - after this store they no longer name the same paths")
			}
		}
	}
	r.Ok("R-EFFECT", "endpoint-config-constant", "", fmt.Sprintf("%d stores into endpoint objects, all into objects under construction", n))
}

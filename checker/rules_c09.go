package main

import (
	"bytes"
	"fmt"
	"go/ast"
	"go/token"
	"go/types"
	"os"
	"os/exec"
	"regexp"
	"sort"
	"strconv"
	"strings"

	"golang.org/x/tools/go/ssa"
)

func init() { register("C09", checkC09) }

// nilCtx carries the state of the nil-discipline analysis (R-NIL).
type nilCtx struct {
	cx          *Ctx
	vf          *VFlow
	scope       map[*ssa.Function]bool
	memo        map[ssa.Value]int // 0 unknown, 1 in progress, 2 may be nil, 3 not nil
	why         map[ssa.Value]string
	cfgInvOK    bool                              // constructor invariant: a constructed Provider's Config has a non-nil IDPConfig
	spInvOK     bool                              // constructor invariant: registered providers have Metadata and Metadata.SPSSODescriptor
	chainFx     map[*ssa.Function]map[string]bool // closure -> access paths known non-nil on entry (facts of earlier steps)
	callers     map[*ssa.Function][]ssa.CallInstruction
	zeroFld     map[*types.Var]string // pointer-like field of a module struct -> an allocation in scope that leaves it unset
	established map[string]bool       // "<owner>.field" of configuration fields a constructor leaves non-nil on every success path
}

func isXMLModelStruct(t types.Type) bool {
	n := namedOf(t)
	return n != nil && n.Obj().Pkg() != nil && (isXMLModelPkg(n.Obj().Pkg()) || n.Obj().Pkg().Path() == modPath+"/pkg/provider/key")
}

func isPtrLike(t types.Type) bool {
	switch t.Underlying().(type) {
	case *types.Pointer, *types.Interface, *types.Map, *types.Signature:
		return true
	}
	return false
}

// mayBeNil decides whether the pointer-like value v can be nil where it is defined (guards at the use are
// checked separately).
func (nc *nilCtx) mayBeNil(v ssa.Value) bool {
	switch nc.memo[v] {
	case 1:
		return false // cycle: optimistic, the other edges decide
	case 2:
		return true
	case 3:
		return false
	}
	nc.memo[v] = 1
	res := nc.mayBeNil0(v)
	if res {
		nc.memo[v] = 2
	} else {
		nc.memo[v] = 3
	}
	return res
}

// zeroAtAlloc: pointer-like fields of module structs that some allocation in scope leaves unset -> where.
func (nc *nilCtx) zeroAtAlloc() map[*types.Var]string {
	if nc.zeroFld != nil {
		return nc.zeroFld
	}
	nc.zeroFld = map[*types.Var]string{}
	for f := range nc.scope {
		for _, b := range f.Blocks {
			for _, in := range b.Instrs {
				al, ok := in.(*ssa.Alloc)
				if !ok {
					continue
				}
				st, isSt := derefType(al.Type()).Underlying().(*types.Struct)
				n := namedOf(derefType(al.Type()))
				if !isSt || n == nil || n.Obj().Pkg() == nil || !isModulePath(n.Obj().Pkg().Path()) || isXMLModelStruct(derefType(al.Type())) {
					continue
				}
				// a cell that only receives whole values (a by-value copy) is not an allocation of a new object
				whole := false
				for _, ref := range nonDebugRefs(al) {
					if s, isS := ref.(*ssa.Store); isS && s.Addr == ssa.Value(al) {
						whole = true
					}
				}
				if whole {
					continue
				}
				for i := 0; i < st.NumFields(); i++ {
					fld := st.Field(i)
					if !isPtrLike(fld.Type()) {
						continue
					}
					if !nc.fieldSetAtAlloc(al, i) && nc.zeroFld[fld] == "" {
						nc.zeroFld[fld] = nc.cx.W.InstrPos(al)
					}
				}
			}
		}
	}
	return nc.zeroFld
}

func (nc *nilCtx) note(v ssa.Value, s string) bool {
	if nc.why[v] == "" {
		nc.why[v] = s
	}
	return true
}

func (nc *nilCtx) mayBeNil0(v ssa.Value) bool {
	cx, fx := nc.cx, nc.cx.Fx
	w := cx.W
	switch x := v.(type) {
	case *ssa.Const:
		if x.Value == nil && isNilable(x.Type()) {
			return nc.note(v, "explicit nil")
		}
		return false
	case *ssa.Alloc, *ssa.MakeClosure, *ssa.Function, *ssa.MakeMap, *ssa.MakeSlice, *ssa.FieldAddr, *ssa.IndexAddr, *ssa.Global, *ssa.FreeVar, *ssa.MakeChan, *ssa.Slice:
		return false
	case *ssa.MakeInterface:
		// a pointer that may be nil, wrapped in an interface: the interface is not nil, the pointer in it is
		// (`var k any = sp.rsaKey`; `k.(*rsa.PublicKey)` then succeeds and yields nil)
		if _, isPtr := x.X.Type().Underlying().(*types.Pointer); isPtr && nc.mayBeNil(x.X) {
			return nc.note(v, "interface holding "+nc.why[x.X])
		}
		return false
	case *ssa.ChangeType:
		return nc.mayBeNil(x.X)
	case *ssa.ChangeInterface:
		return nc.mayBeNil(x.X)
	case *ssa.Convert:
		return false
	case *ssa.Phi:
		for i, e := range x.Edges {
			if nc.mayBeNil(e) {
				// `if conf == nil { conf = new(T) }`: on the edge that carries the old value it was found non-nil
				if i < len(x.Block().Preds) {
					pe := fx.path(e)
					known := false
					for _, a := range fx.AtomsOnEdge(x.Block().Preds[i], x.Block()) {
						if a.Op == "NIL" && a.Neg && a.A == pe {
							known = true
						}
					}
					if known {
						continue
					}
				}
				return nc.note(v, nc.why[e])
			}
		}
		return false
	case *ssa.TypeAssert:
		if _, isPtr := x.AssertedType.Underlying().(*types.Pointer); isPtr && !x.CommaOk && nc.mayBeNil(x.X) {
			return nc.note(v, nc.why[x.X])
		}
		return false
	case *ssa.UnOp:
		if x.Op != token.MUL {
			return false
		}
		switch a := x.X.(type) {
		case *ssa.FieldAddr:
			fv := fieldVar(a.X.Type(), a.Field)
			owner := fieldOwner(a.X.Type())
			base := nc.vf.objLabels(a.X, 0)
			constructed, outside := false, false
			for l := range base {
				switch {
				case strings.HasPrefix(l, "alloc:"):
					bl, _ := splitAllocLabel(l)
					if cell := nc.vf.allocByLabel(bl); cell != nil && nc.vf.decoded[cell] {
						outside = true
					} else {
						constructed = true
					}
				case strings.HasPrefix(l, "const:") || strings.HasPrefix(l, "via:"):
				default:
					outside = true
				}
			}
			if outside && isXMLModelStruct(a.X.Type()) {
				// constructor invariant for registered providers
				if owner == "md.EntityDescriptorType" && fv.Name() == "SPSSODescriptor" && nc.spInvOK {
					// the metadata object of a ServiceProvider (whatever variable or cache the provider came from)
					if ld, ok := a.X.(*ssa.UnOp); ok {
						if mfa, ok := ld.X.(*ssa.FieldAddr); ok && fieldOwner(mfa.X.Type()) == "serviceprovider.ServiceProvider" && fname(fieldVar(mfa.X.Type(), mfa.Field)) == "Metadata" {
							return false
						}
					}
					fromSP := true
					for l := range base {
						if !strings.Contains(l, "GetEntityByID#0.Metadata") && !strings.HasPrefix(l, "param:serviceprovider.") && !strings.HasPrefix(l, "const:") {
							fromSP = false
						}
					}
					if fromSP {
						return false
					}
				}
				return nc.note(v, fmt.Sprintf("optional element/record field %s.%s of an object filled from outside (absent element => nil)", owner, fv.Name()))
			}
			if outside && !constructed && !isXMLModelStruct(a.X.Type()) && isPtrLike(x.Type()) {
				// a method reached through an interface (storage calling back into *Attributes) sees objects the
				// handlers allocated: if some allocation in scope leaves this field at its zero value, it can be nil here
				if at := nc.zeroAtAlloc()[fv]; at != "" {
					return nc.note(v, fmt.Sprintf("field %s.%s, which the allocation at %s leaves nil", owner, fv.Name(), at))
				}
			}
			if outside && !constructed && !isXMLModelStruct(a.X.Type()) {
				// optional configuration: a pointer field of one of the module's *Config structs is nil when the
				// embedding application leaves it out - unless a constructor invariant (R-NIL-INV) establishes it
				if _, isPtr := x.Type().Underlying().(*types.Pointer); isPtr && strings.HasPrefix(owner, "provider.") && strings.HasSuffix(owner, "Config") {
					tk := "<" + owner + ">." + fv.Name()
					if !(nc.cfgInvOK && tk == "<provider.Config>.IDPConfig") && !nc.established[tk] {
						return nc.note(v, fmt.Sprintf("optional configuration field %s.%s (nil when not configured; no constructor invariant establishes it)", owner, fv.Name()))
					}
				}
			}
			if constructed && isPtrLike(x.Type()) && !nc.storeDominatesLoad(a, x) {
				// an object allocated in scope whose literal leaves this field at its zero value: the field is nil
				// until some later code fills it, which nothing forces to have happened (a cache entry created
				// empty and filled by whoever gets there first)
				for l := range base {
					if !strings.HasPrefix(l, "alloc:") {
						continue
					}
					bl, sub := splitAllocLabel(l)
					if sub != "" {
						continue
					}
					cell := nc.vf.allocByLabel(bl)
					if cell == nil || nc.vf.decoded[cell] {
						continue
					}
					if st, ok := cell.Type().(*types.Pointer); !ok || !types.Identical(st.Elem(), derefType(a.X.Type())) {
						continue
					}
					if !nc.fieldSetAtAlloc(cell, a.Field) {
						return nc.note(v, fmt.Sprintf("field %s.%s of an object allocated at %s without a value for it (nil until filled later)", owner, fv.Name(), w.InstrPos(cell)))
					}
				}
			}
			if constructed {
				// values stored by module code into this field of an object built in scope
				for _, st := range nc.vf.fstores[fv] {
					fa := st.Addr.(*ssa.FieldAddr)
					bl := nc.vf.objLabels(fa.X, 0)
					hit := false
					for l := range base {
						if _, ok := bl[l]; ok {
							hit = true
						}
					}
					if hit && nc.mayBeNil(st.Val) {
						return nc.note(v, "field "+owner+"."+fv.Name()+" may hold "+nc.why[st.Val])
					}
				}
			}
			return false
		case *ssa.Alloc, *ssa.FreeVar:
			cell := fx.ownerCell(a)
			if cell == nil {
				return false
			}
			for _, s := range fx.storesToCell(cell) {
				if isNilConst(s) {
					continue // declared-nil before the assigning step; ordering is the chain's (C20)
				}
				if nc.mayBeNilGuardedStore(cell, s) {
					return nc.note(v, nc.why[s])
				}
			}
			return false
		case *ssa.IndexAddr:
			// element of a slice of pointers made with make([]*T, n): nil wherever an iteration can skip the assignment
			if !isPtrLike(x.Type()) {
				return false
			}
			for l := range nc.vf.objLabels(a.X, 0) {
				if !strings.HasSuffix(l, "@make") {
					continue
				}
				if why := nc.sparseMake(l); why != "" {
					return nc.note(v, why)
				}
			}
			return false
		}
		return false
	case *ssa.Parameter:
		fn := x.Parent()
		idx := -1
		for i, p := range fn.Params {
			if p == x {
				idx = i
			}
		}
		for _, c := range nc.callers[fn] {
			args := c.Common().Args
			if idx < 0 || idx >= len(args) {
				continue
			}
			a := args[idx]
			if !nc.mayBeNil(a) {
				continue
			}
			if nc.guardedAt(c, a) {
				continue
			}
			return nc.note(v, "argument at "+w.InstrPos(c)+": "+nc.why[a])
		}
		return false
	case *ssa.Extract:
		if c, ok := x.Tuple.(*ssa.Call); ok {
			return nc.callResultMayBeNil(v, c, x.Index)
		}
		if ta, ok := x.Tuple.(*ssa.TypeAssert); ok && x.Index == 0 {
			// p, ok := k.(*T): with ok true p is what the interface holds - nil if a nil *T was wrapped
			if _, isPtr := ta.AssertedType.Underlying().(*types.Pointer); isPtr && nc.mayBeNil(ta.X) {
				return nc.note(v, nc.why[ta.X])
			}
		}
		return false
	case *ssa.Call:
		return nc.callResultMayBeNil(v, x, 0)
	case *ssa.Lookup:
		if _, isMap := x.X.Type().Underlying().(*types.Map); isMap && isPtrLike(x.Type()) && !x.CommaOk {
			if keyOfSameMap(nc.cx.Fx, x) {
				return false // m[k] with k taken from the keys of m itself (for _, k := range slices.Sorted(maps.Keys(m)))
			}
			return nc.note(v, "map lookup without presence test")
		}
	}
	return false
}

// fieldSetAtAlloc: the allocation's own function stores to field idx of the fresh object before the object can be
// seen by anyone else: a store through a FieldAddr of the allocation itself that dominates every other use of the
// allocation (the stores of a composite literal do).
func (nc *nilCtx) fieldSetAtAlloc(cell *ssa.Alloc, idx int) bool {
	var stores []*ssa.Store
	var others []ssa.Instruction
	for _, ref := range nonDebugRefs(cell) {
		// the whole object is copied in (a by-value parameter or result spilled into a cell): its fields are
		// those of the source, which is judged where it was built
		if st, ok := ref.(*ssa.Store); ok && st.Addr == ssa.Value(cell) && st.Block() == cell.Block() {
			return true
		}
		if fa, ok := ref.(*ssa.FieldAddr); ok {
			onlyStores := true
			for _, r2 := range nonDebugRefs(fa) {
				st, isSt := r2.(*ssa.Store)
				if !isSt || st.Addr != ssa.Value(fa) {
					onlyStores = false
					continue
				}
				if fa.Field == idx {
					stores = append(stores, st)
				}
			}
			if onlyStores {
				continue // initialisation of (another) field
			}
		}
		others = append(others, ref)
	}
	for _, st := range stores {
		if isNilConst(st.Val) {
			continue
		}
		ok := true
		for _, o := range others {
			if o.Block() == st.Block() {
				if instrIndex(st) > instrIndex(o) {
					ok = false
				}
			} else if !st.Block().Dominates(o.Block()) {
				ok = false
			}
		}
		if ok {
			return true
		}
	}
	return false
}

// storeDominatesLoad: in the load's function a store to the same field through the same base value (or the same
// access path) dominates the load: `x.f = v; ... x.f.g`.
func (nc *nilCtx) storeDominatesLoad(a *ssa.FieldAddr, ld *ssa.UnOp) bool {
	fx := nc.cx.Fx
	bp := fx.path(a.X)
	for _, st := range fx.info(ld.Parent()).stores {
		fa, ok := st.Addr.(*ssa.FieldAddr)
		if !ok || fa.Field != a.Field || !types.Identical(fa.X.Type(), a.X.Type()) {
			continue
		}
		if fa.X != a.X && fx.path(fa.X) != bp {
			continue
		}
		if isNilConst(st.Val) {
			continue
		}
		if st.Block() == ld.Block() && instrIndex(st) < instrIndex(ld) || st.Block() != ld.Block() && st.Block().Dominates(ld.Block()) {
			return true
		}
		// dominates once the branches the constructor invariant rules out are removed (`if c.IDPConfig != nil`)
		if nc.cfgInvOK && st.Block() != ld.Block() && !nc.reachAvoidingInv(ld.Parent().Blocks[0], ld.Block(), st.Block()) {
			return true
		}
	}
	return false
}

// reachAvoidingInv: to is reachable from from without passing avoid, not taking the edges on which
// <provider.Config>.IDPConfig would be nil (impossible in a constructed provider, R-NIL-INV).
func (nc *nilCtx) reachAvoidingInv(from, to, avoid *ssa.BasicBlock) bool {
	fx := nc.cx.Fx
	seen := map[*ssa.BasicBlock]bool{}
	var dfs func(b *ssa.BasicBlock) bool
	dfs = func(b *ssa.BasicBlock) bool {
		if b == avoid || seen[b] {
			return false
		}
		if b == to {
			return true
		}
		seen[b] = true
		for k, s := range b.Succs {
			if ifi, ok := b.Instrs[len(b.Instrs)-1].(*ssa.If); ok && len(b.Succs) == 2 {
				if x, tnn, isNT := nilTest(ifi.Cond); isNT && strings.HasSuffix(fx.T(fx.path(x)), "<provider.Config>.IDPConfig") {
					nilSide := 1
					if !tnn {
						nilSide = 0
					}
					if k == nilSide {
						continue
					}
				}
			}
			if dfs(s) {
				return true
			}
		}
		return false
	}
	return dfs(from)
}

// checkConfigInvariant (R-NIL-INV): Config.IDPConfig of a constructed provider is not nil: Provider.conf is stored only
// by NewProvider, whose success returns are dominated by the call NewIdentityProvider(…, conf.IDPConfig, …), and
// NewIdentityProvider dereferences that parameter, or has found it non-nil, on every path that returns a provider
// (a nil IDPConfig panics or is refused at construction time, outside the quantifier of C09).
func (cx *Ctx) checkConfigInvariant(r *Report) bool {
	w, fx := cx.W, cx.Fx
	np, ni := w.Func("provider.NewProvider"), w.Func("provider.NewIdentityProvider")
	if np == nil || ni == nil {
		return false
	}
	for _, fn := range w.Funcs {
		for _, st := range fx.info(fn).stores {
			if fa, ok := st.Addr.(*ssa.FieldAddr); ok && fieldOwner(fa.X.Type()) == "provider.Provider" && fname(fieldVar(fa.X.Type(), fa.Field)) == "conf" && fn != np {
				return false
			}
			if fa, ok := st.Addr.(*ssa.FieldAddr); ok && fieldOwner(fa.X.Type()) == "provider.Config" && fname(fieldVar(fa.X.Type(), fa.Field)) == "IDPConfig" {
				return false
			}
		}
	}
	var call *ssa.Call
	for _, c := range callsIn(np) {
		if cc, ok := c.(*ssa.Call); ok && calleeOf(cc) == ni {
			call = cc
		}
	}
	if call == nil {
		return false
	}
	idx := -1
	for i, a := range call.Call.Args {
		if strings.HasSuffix(fx.T(fx.path(a)), "<provider.Config>.IDPConfig") {
			idx = i
		}
	}
	if idx < 0 {
		return false
	}
	for _, ret := range returnsOf(np) {
		if len(ret.Results) > 0 && !isNilConst(ret.Results[0]) && !(call.Block() == ret.Block() || call.Block().Dominates(ret.Block())) {
			return false
		}
	}
	// every successful path of NewIdentityProvider dereferences the parameter or has found it non-nil
	aps, okp := fx.atomPaths(ni, 4096)
	if !okp {
		return false
	}
	par := ni.Params[idx]
	pp := fx.path(par)
	nSucc := 0
	for i := range aps {
		p := &aps[i]
		if p.Ret == nil || len(p.Ret.Results) == 0 || isNilConst(fx.retVal(p, 0)) {
			continue
		}
		nSucc++
		good := false
		for _, a := range p.Atoms {
			if a.Op == "NIL" && a.Neg && a.A == pp {
				good = true
			}
		}
		for _, in := range p.Instrs() {
			if fa, ok := in.(*ssa.FieldAddr); ok && fa.X == ssa.Value(par) {
				good = true
			}
		}
		if !good {
			return false
		}
	}
	if nSucc == 0 {
		return false
	}
	r.Ok("R-NIL-INV", "Config.IDPConfig", w.InstrPos(call), "NewProvider succeeds only after NewIdentityProvider dereferenced conf.IDPConfig; Provider.conf and Config.IDPConfig are not written elsewhere")
	return true
}

// a store `cell = s` counts only if s may be nil and is not guarded non-nil at the store
func (nc *nilCtx) mayBeNilGuardedStore(cell *ssa.Alloc, s ssa.Value) bool {
	return nc.mayBeNil(s)
}

func (nc *nilCtx) callResultMayBeNil(v ssa.Value, c *ssa.Call, idx int) bool {
	cx := nc.cx
	w := cx.W
	if sm := storageMethod(c); sm == "GetResponseSigningKey" || sm == "GetMetadataSigningKey" || sm == "GetCA" {
		if idx == 0 {
			return nc.note(v, "key record returned by storage ("+sm+") may be nil")
		}
		return false
	}
	tgs := nc.vf.targets(c)
	if len(tgs) == 0 {
		return false // external / interface results are assumed non-nil together with a nil error
	}
	for _, tg := range tgs {
		res := tg.Signature.Results()
		errIdx := -1
		if res.Len() > 0 && isErrorType(res.At(res.Len()-1).Type()) {
			errIdx = res.Len() - 1
		}
		for _, ret := range returnsOf(tg) {
			if idx >= len(ret.Results) {
				continue
			}
			o := ret.Results[idx]
			if errIdx >= 0 && errIdx != idx {
				// returned together with a certainly non-nil error: callers test the error first (R-ERR)
				if isFreshError(ret.Results[errIdx]) {
					continue
				}
				if !isNilConst(ret.Results[errIdx]) && isNilConst(o) {
					// ... unless the error returned with it may be nil at this return (`if err == nil { return nil, err }`).
					// The nil result is unobservable only when the error is certainly non-nil at this return.
					errNonNil := false
					ep := cx.Fx.path(ret.Results[errIdx])
					for _, a := range cx.Fx.AtomsAt(ret) {
						if a.Op == "NIL" && a.Neg && a.A == ep {
							errNonNil = true
						}
					}
					if errNonNil {
						continue
					}
				}
			}
			if !nc.mayBeNil(o) {
				continue
			}
			if nc.guardedAt(ret, o) {
				continue
			}
			return nc.note(v, "result of "+w.FuncKey(tg)+": "+nc.why[o])
		}
	}
	return false
}

// guardedAt: at instruction at, value v is known non-nil by a dominating test of the same access path.
func (nc *nilCtx) guardedAt(at ssa.Instruction, v ssa.Value) bool {
	fx := nc.cx.Fx
	p := fx.path(v)
	for _, a := range fx.AtomsAt(at) {
		if a.Op == "NIL" && a.Neg && a.A == p {
			return true
		}
		// len(x) > 0 style facts do not prove non-nil pointers
	}
	// lazy initialisation: `if x.f == nil { x.f = make(...) }` dominating the use: non-nil on both sides of the join
	if ld, ok := v.(*ssa.UnOp); ok && ld.Op == token.MUL {
		for _, st := range fx.info(at.Parent()).stores {
			if fx.path(st.Addr) != "&"+p && deref(fx.path(st.Addr)) != p {
				continue
			}
			switch st.Val.(type) {
			case *ssa.MakeMap, *ssa.Alloc, *ssa.MakeSlice, *ssa.MakeClosure, *ssa.MakeInterface:
			default:
				continue
			}
			sb := st.Block()
			if len(sb.Preds) != 1 {
				continue
			}
			pb := sb.Preds[0]
			ifi, isIf := pb.Instrs[len(pb.Instrs)-1].(*ssa.If)
			if !isIf {
				continue
			}
			x, tnn, isNT := nilTest(ifi.Cond)
			if !isNT || fx.path(x) != p {
				continue
			}
			nilSide := pb.Succs[1]
			if !tnn {
				nilSide = pb.Succs[0]
			}
			if nilSide == sb && pb.Dominates(at.Block()) && at.Block() != sb {
				return true
			}
		}
	}
	// facts established by earlier chain steps (valid on entry of this closure), and facts holding
	// where the closure was created (a getter made under `if x.Conditions != nil` and called right there)
	fn := at.Parent()
	for f := fn; f != nil; f = f.Parent() {
		if m := nc.chainFx[f]; m != nil && m[p] {
			return true
		}
		if cs := fx.closSite[f]; cs != nil {
			for _, a := range fx.AtomsAt(cs) {
				if a.Op == "NIL" && a.Neg && a.A == p {
					return true
				}
			}
		}
	}
	return false
}

func (nc *nilCtx) computeChainFacts(r *Report) {
	cx, fx := nc.cx, nc.cx.Fx
	nc.chainFx = map[*ssa.Function]map[string]bool{}
	for _, hk := range []string{kSSO, kLogout, kAttr} {
		h := cx.W.Func(hk)
		if h == nil {
			continue
		}
		ch, err := cx.W.extractChain(fx, h)
		if err != nil {
			continue
		}
		acc := map[string]bool{}
		addTo := func(fn *ssa.Function) {
			m := map[string]bool{}
			for k := range acc {
				m[k] = true
			}
			nc.chainFx[fn] = m
		}
		for _, s := range ch.Steps {
			for _, fs := range s.Role {
				for _, f := range fs {
					addTo(f)
				}
			}
			// facts on every passing return of an unconditional logic step
			lf := s.Fn("logic")
			if lf == nil || (s.Kind != "WithLogicStep") {
				continue
			}
			var common map[string]bool
			for _, ret := range returnsOf(lf) {
				if len(ret.Results) != 1 || !isNilConst(ret.Results[0]) {
					// a return of a possibly non-nil error: facts needed only on passing returns; a returned
					// error variable that is nil passes too, so be conservative: such returns contribute their facts as well
					if len(ret.Results) == 1 && !isFreshError(ret.Results[0]) {
						// may pass
					} else {
						continue
					}
				}
				cur := map[string]bool{}
				for _, a := range fx.AtomsAt(ret) {
					if a.Op == "NIL" && a.Neg {
						cur[a.A] = true
					}
				}
				if common == nil {
					common = cur
				} else {
					for k := range common {
						if !cur[k] {
							delete(common, k)
						}
					}
				}
			}
			for k := range common {
				// only paths rooted at handler cells are meaningful across closures
				if strings.HasPrefix(k, fx.fnTok(h)+"/") {
					acc[k] = true
				}
			}
		}
		// the suffix (handler itself after CheckFailed)
		m := map[string]bool{}
		for k := range acc {
			m[k] = true
		}
		nc.chainFx[h] = m
	}
}

// checkChainAssignments (R-NIL-ASSIGN): the handlers of the three chains declare their working variables (`var sp
// *ServiceProvider`) nil and let steps fill them. A later step, a callback or the suffix that loads such a variable
// relies on the filling step having assigned it whenever it passed. Required: for every pointer / interface variable
// of the handler that some step (or the suffix) loads, an earlier unconditional step stores a value into it on every
// one of its passing paths (for a logic step: every path that does not return a certainly non-nil error). A step
// that can pass without assigning (`if x == nil { return nil }`) leaves the variable nil for everything after it.
func (nc *nilCtx) checkChainAssignments(r *Report) {
	cx, fx := nc.cx, nc.cx.Fx
	w := cx.W
	for _, hk := range []string{kSSO, kLogout, kAttr} {
		h := w.Func(hk)
		if h == nil {
			continue
		}
		ch, err := w.extractChain(fx, h)
		if err != nil {
			continue
		}
		// cells of the handler that start out nil
		var cells []*ssa.Alloc
		for _, b := range h.Blocks {
			for _, in := range b.Instrs {
				al, ok := in.(*ssa.Alloc)
				if !ok || !isPtrLike(derefType(al.Type())) || isErrorType(derefType(al.Type())) {
					continue
				}
				if _, isSig := derefType(al.Type()).Underlying().(*types.Signature); isSig {
					continue
				}
				// initialised in the handler itself (response := &Response{...}) before the chain?
				initd := false
				for _, ref := range nonDebugRefs(al) {
					if st, isSt := ref.(*ssa.Store); isSt && st.Addr == ssa.Value(al) && !isNilConst(st.Val) && st.Parent() == h && st.Block().Dominates(ch.CheckFailed.Block()) {
						initd = true
					}
				}
				if !initd {
					cells = append(cells, al)
				}
			}
		}
		// which closure accesses which cell
		cellOf := func(addr ssa.Value) *ssa.Alloc {
			c := fx.ownerCell(addr)
			for _, x := range cells {
				if x == c {
					return c
				}
			}
			return nil
		}
		loadsIn := func(scope map[*ssa.Function]bool, c *ssa.Alloc) ssa.Instruction {
			for f := range scope {
				if f == h {
					continue
				}
				for _, b := range f.Blocks {
					for _, in := range b.Instrs {
						if ld, ok := in.(*ssa.UnOp); ok && ld.Op == token.MUL && cellOf(ld.X) == c {
							return ld
						}
					}
				}
			}
			return nil
		}
		// step i assigns c on all passing paths?
		assigns := func(s *Step, c *ssa.Alloc) bool {
			var lf *ssa.Function
			switch s.Kind {
			case "WithLogicStep":
				lf = s.Fn("logic")
			case "WithValueStep":
				for _, fs := range s.Role {
					if len(fs) == 1 {
						lf = fs[0]
					}
				}
			}
			if lf == nil {
				return false
			}
			aps, ok := fx.atomPaths(lf, 4096)
			if !ok {
				return false
			}
			for i := range aps {
				p := &aps[i]
				if s.Kind == "WithLogicStep" {
					if _, nonNil := fx.errNilness(p, fx.retVal(p, 0)); nonNil {
						continue // a failing path
					}
				}
				stored := false
				for _, in := range p.Instrs() {
					if st, isSt := in.(*ssa.Store); isSt && cellOf(st.Addr) == c && !isNilConst(st.Val) {
						stored = true
					}
				}
				if !stored {
					return false
				}
			}
			return len(aps) > 0
		}
		for _, c := range cells {
			assignedBy := -1
			for _, s := range ch.Steps {
				// uses in this step (all roles, callbacks included) need an earlier assigning step
				var use ssa.Instruction
				if u := loadsIn(s.Scope, c); u != nil {
					use = u
				} else if u := loadsIn(s.EScp, c); u != nil {
					use = u
				}
				// a step that itself assigns may read what it just assigned
				selfAssigns := assigns(s, c)
				if use != nil && assignedBy < 0 && !selfAssigns {
					// a use that is only a nil test of the variable itself is harmless
					harmless := true
					for _, ref := range nonDebugRefs(use.(ssa.Value)) {
						if bo, isB := ref.(*ssa.BinOp); isB {
							if _, _, isNT := nilTest(bo); isNT {
								continue
							}
						}
						harmless = false
					}
					if !harmless {
						r.Fail("R-NIL-ASSIGN", h.Name()+"/"+fx.cellName(c)+"@step"+fmt.Sprint(s.Idx), w.InstrPos(use), fmt.Sprintf("step %d (%s) uses the handler variable %s, but no earlier step assigns it on all of its passing paths: a step that passes without filling it leaves it nil and the use panics", s.Idx, s.Kind, fx.cellName(c)))
						break
					}
				}
				if assignedBy < 0 && selfAssigns {
					assignedBy = s.Idx
				}
			}
			if assignedBy >= 0 {
				r.Ok("R-NIL-ASSIGN", h.Name()+"/"+fx.cellName(c), w.InstrPos(c), fmt.Sprintf("assigned on every passing path of step %d before any later step, callback or the suffix reads it", assignedBy))
			} else if u := func() ssa.Instruction {
				for _, b := range ch.suffixBlocks() {
					for _, in := range b.Instrs {
						if ld, ok := in.(*ssa.UnOp); ok && ld.Op == token.MUL && cellOf(ld.X) == c {
							return ld
						}
					}
				}
				return nil
			}(); u != nil {
				r.Fail("R-NIL-ASSIGN", h.Name()+"/"+fx.cellName(c)+"@suffix", w.InstrPos(u), "the handler reads "+fx.cellName(c)+" after the chain, but no step assigns it on all of its passing paths")
			}
		}
	}
}

// checkConstructedNonNil (R-NIL-INV): pointer fields the constructors fill in conditionally (a default when the
// configuration leaves something out: the two page templates, MetadataIDPConfig) are dereferenced by the handlers
// without a test. On every path on which NewIdentityProvider / NewProvider returns a provider, the value such a
// field holds at the return must be known non-nil: a fresh object, the result of a library constructor whose error
// was found nil, or a configured value found non-nil on that path.
func (cx *Ctx) checkConstructedNonNil(r *Report) map[string]bool {
	w, fx := cx.W, cx.Fx
	established := map[string]bool{}
	for _, ck := range []string{"provider.NewIdentityProvider", "provider.NewProvider"} {
		fn := w.Func(ck)
		if fn == nil {
			r.Fail("R-NIL-INV", ck, "", "anchor not found")
			continue
		}
		aps, ok := fx.atomPaths(fn, 8192)
		if !ok {
			r.Undecided("R-NIL-INV", ck, w.FnPos(fn), "too many paths")
			continue
		}
		gs := cx.nonNilGroups(fn, 0)
		for _, g := range gs {
			success := func(p *APath) bool {
				return p.Ret != nil && len(p.Ret.Results) > 0 && !isNilConst(fx.retVal(p, 0))
			}
			bad, nSucc, conditional := cx.fieldNonNilAtReturns(fn, aps, g, success, 0)
			if bad != "" {
				bad = ck + " returns a provider whose " + bad + ": the handlers dereference it without a test"
			}
			if !conditional && bad == "" {
				continue // filled exactly once on every path: plain initialisation, nothing to establish
			}
			r.Check(bad == "" && nSucc > 0, "R-NIL-INV", ck+":"+g.base+"."+g.field, w.FnPos(fn), "non-nil on every path that returns a provider", bad)
			if bad == "" && nSucc > 0 {
				established[fx.T(g.base)+"."+g.field] = true
			}
		}
	}
	return established
}

type nnGroup struct{ base, field string }

// nonNilGroups: the (object, pointer field) pairs fn assigns, itself or through module helpers it hands the object to.
func (cx *Ctx) nonNilGroups(fn *ssa.Function, depth int) []nnGroup {
	fx := cx.Fx
	groups := map[nnGroup]bool{}
	for _, st := range fx.info(fn).stores {
		fa, isFA := st.Addr.(*ssa.FieldAddr)
		if !isFA || !isPtrLike(st.Val.Type()) {
			continue
		}
		if _, isSig := st.Val.Type().Underlying().(*types.Signature); isSig {
			continue
		}
		groups[nnGroup{fx.path(fa.X), fname(fieldVar(fa.X.Type(), fa.Field))}] = true
	}
	if depth < 3 {
		for _, c := range callsIn(fn) {
			g := cx.nnHelper(c)
			if g == nil {
				continue
			}
			for i, a := range c.Common().Args {
				if i >= len(g.Params) {
					break
				}
				pp := fx.path(g.Params[i])
				for _, hg := range cx.nonNilGroups(g, depth+1) {
					if hg.base == pp {
						groups[nnGroup{fx.path(a), hg.field}] = true
					}
				}
			}
		}
	}
	var gs []nnGroup
	for g := range groups {
		gs = append(gs, g)
	}
	sort.Slice(gs, func(i, j int) bool { return gs[i].base+gs[i].field < gs[j].base+gs[j].field })
	return gs
}

// nnHelper: a statically called module function with a body (a helper the constructor hands its objects to).
func (cx *Ctx) nnHelper(c ssa.CallInstruction) *ssa.Function {
	if c.Common().IsInvoke() {
		return nil
	}
	g, _ := c.Common().Value.(*ssa.Function)
	if g == nil || g.Blocks == nil || g.Pkg == nil || !isModulePath(g.Pkg.Pkg.Path()) {
		return nil
	}
	return g
}

// fieldNonNilAtReturns: on every path of fn that `success` selects, the value the field holds at the return is known
// non-nil (see checkConstructedNonNil). A module helper that receives the object counts as an assignment when the
// same holds for it on all of its returns (defaults moved into a helper function).
func (cx *Ctx) fieldNonNilAtReturns(fn *ssa.Function, aps []APath, g nnGroup, success func(*APath) bool, depth int) (bad string, nSucc int, conditional bool) {
	w, fx := cx.W, cx.Fx
	for i := range aps {
		p := &aps[i]
		if !success(p) {
			continue
		}
		nSucc++
		var last ssa.Value
		viaHelper := false
		nStores := 0
		for _, in := range p.Instrs() {
			if c, isC := in.(ssa.CallInstruction); isC && depth < 3 {
				if h := cx.nnHelper(c); h != nil {
					for ai, a := range c.Common().Args {
						if ai >= len(h.Params) || fx.path(a) != g.base {
							continue
						}
						hg := nnGroup{fx.path(h.Params[ai]), g.field}
						touches := false
						for _, x := range cx.nonNilGroups(h, depth+1) {
							if x == hg {
								touches = true
							}
						}
						if !touches {
							continue
						}
						haps, ok := fx.atomPaths(h, 4096)
						if !ok {
							continue
						}
						hbad, hn, _ := cx.fieldNonNilAtReturns(h, haps, hg, func(q *APath) bool {
							if q.Ret == nil {
								return false
							}
							// a helper that reports failure: its failing returns are the caller's failing paths (R-ERR)
							if n := len(q.Ret.Results); n > 0 && isErrorTypeT(q.Ret.Results[n-1].Type()) {
								if _, nonNil := fx.errNilness(q, fx.retVal(q, n-1)); nonNil {
									return false
								}
							}
							return true
						}, depth+1)
						nStores++
						conditional = true
						if hbad == "" && hn > 0 {
							viaHelper, last = true, nil
						} else {
							viaHelper = false
							last = ssa.Value(nil)
							bad = fmt.Sprintf("%s.%s can be nil after %s (%s)", g.base, g.field, w.FuncKey(h), hbad)
						}
					}
				}
			}
			st, isSt := in.(*ssa.Store)
			if !isSt {
				continue
			}
			fa, isFA := st.Addr.(*ssa.FieldAddr)
			if isFA && fx.path(fa.X) == g.base && fname(fieldVar(fa.X.Type(), fa.Field)) == g.field {
				last = st.Val
				viaHelper = false
				nStores++
			}
		}
		if nStores != 1 {
			conditional = true
		}
		if viaHelper {
			continue
		}
		nonNilPath := func(q string) bool {
			for _, a := range p.Atoms {
				if a.Op == "NIL" && a.Neg && a.A == q {
					return true
				}
			}
			return false
		}
		okV := false
		switch v := last.(type) {
		case nil:
			// not assigned on this path: what the caller's object holds must have been found non-nil
			okV = nonNilPath(g.base + "." + g.field)
		case *ssa.Alloc, *ssa.MakeInterface, *ssa.MakeMap, *ssa.MakeClosure, *ssa.Parameter, *ssa.FieldAddr, *ssa.IndexAddr:
			okV = true
		case *ssa.Extract:
			okV = true // result of a call handed out together with an error the path found nil (R-ERR)
		case *ssa.Call:
			okV = true
		case *ssa.UnOp:
			okV = nonNilPath(fx.path(v)) || !isNilable(v.Type())
		case *ssa.Const:
			okV = !isNilConst(v)
		default:
			okV = true
		}
		if !okV {
			bad = fmt.Sprintf("%s.%s can be nil (%s at %s)", g.base, g.field, atomsString(p.Atoms), w.InstrPos(p.Ret))
		}
	}
	return bad, nSucc, conditional
}

// commaOkMisuse: v, ok := x.(T) with a pointer / interface T yields a nil v when ok is false. Every use of v (other
// than returning it with its flag, storing it, or testing it for nil) must lie under the true edge of ok.
func (cx *Ctx) commaOkMisuse(ta *ssa.TypeAssert) string {
	fx := cx.Fx
	if !isNilable(ta.AssertedType) {
		return ""
	}
	var val, okv ssa.Value
	for _, ref := range nonDebugRefs(ta) {
		if e, isE := ref.(*ssa.Extract); isE {
			if e.Index == 0 {
				val = e
			} else {
				okv = e
			}
		}
	}
	if val == nil {
		return ""
	}
	for _, al := range fx.aliasesOf(val) {
		for _, ref := range nonDebugRefs(al) {
			switch u := ref.(type) {
			case *ssa.Phi, *ssa.Store, *ssa.Return, *ssa.MakeInterface, *ssa.ChangeInterface, *ssa.ChangeType:
				continue
			case *ssa.BinOp:
				if _, _, isNT := nilTest(u); isNT {
					continue
				}
			case *ssa.UnOp:
				if u.Op == token.MUL && u.X != al {
					continue
				}
				if _, isCell := u.X.(*ssa.Alloc); isCell && u.X != al {
					continue
				}
			}
			if ld, isLd := ref.(*ssa.UnOp); isLd && ld.Op == token.MUL {
				if _, isAlloc := ld.X.(*ssa.Alloc); isAlloc {
					continue // a load of the variable holding it: its uses are visited as aliases
				}
			}
			guarded := false
			if okv != nil {
				for _, a := range fx.AtomsAt(ref) {
					c := stripNot(a.Cond)
					if a.Op == "TRUE" && !a.Neg {
						for _, oa := range fx.aliasesOf(okv) {
							if c == oa {
								guarded = true
							}
						}
					}
				}
			}
			// or the value itself was found non-nil
			vp := fx.path(al)
			for _, a := range fx.AtomsAt(ref) {
				if a.Op == "NIL" && a.Neg && a.A == vp {
					guarded = true
				}
			}
			if !guarded {
				return "the value of the checked assertion to " + ta.AssertedType.String() + " is used at " + cx.W.InstrPos(ref) + " on a path that has not found ok true: it is nil when the dynamic type differs (e.g. a key type that does not fit the SigAlg of the request)"
			}
		}
	}
	return ""
}

func checkC09(cx *Ctx, r *Report) { checkC09core(cx, r, true) }

// checkC09core: the rules of C09; withBCE=false leaves out the compiler bounds-check facts (used when another
// property borrows the nil / assertion / panic discipline).
func checkC09core(cx *Ctx, r *Report, withBCE bool) {
	w, fx := cx.W, cx.Fx
	r.Clauses = []string{
		"R-NIL: in all module code reachable from the 8 routed handlers, the per-request middleware and NewServiceProvider, every dereference (field access, load, method call through, nil-map write) of a value that may be nil - an optional element of a decoded XML object or storage-owned record, a key record returned by the two key getters, or anything such a value flows into through variables, parameters and results - is dominated by a nil test of the same access path (in the same function, at the call site, at the return site, or in an earlier step of the same validation chain), or covered by the machine-checked constructor invariant of registered service providers",
		"R-ASSERT: no single-result type assertion in that code",
		"R-BCE: every index/slice expression written in that code whose bounds check the compiler could not eliminate has a local proof (constant index into a literal of sufficient length built in the same function)",
		"no panic / log.Fatal / os.Exit / Must* call, and every crypto.Hash value that reaches Hash.New comes from a hash whose implementation the module links",
	}
	r.NotDec = []string{"panics inside the standard library or third-party packages for well-typed arguments (etree, goxmldsig, xmlsig, html/template, crypto/tls)", "arithmetic and stack exhaustion", "storage returning (nil, nil) for interfaces other than the two key getters"}
	r.Assume = []string{"storage returns non-nil service providers / auth requests with a nil error; ServiceProvider values are built by NewServiceProvider"}

	scope := map[*ssa.Function]bool{}
	for f := range cx.handlerScope() {
		scope[f] = true
	}
	if f := w.Func(kNewSP); f != nil {
		w.refClosure(f, scope)
	} else {
		r.Fail("R-NIL", kNewSP, "", "anchor NewServiceProvider not found")
	}
	vf := cx.newVFlowFns(scope)
	nc := &nilCtx{cx: cx, vf: vf, scope: vf.scope, memo: map[ssa.Value]int{}, why: map[ssa.Value]string{}, callers: vf.callers}
	r.Extra["functions_in_scope"] = len(vf.scope)

	// constructor invariant of registered providers
	nc.spInvOK = cx.checkSPInvariant(r)
	nc.cfgInvOK = cx.checkConfigInvariant(r)
	nc.established = cx.checkConstructedNonNil(r)
	cx.requireC20(r) // facts of earlier steps hold in later ones only if steps run in order and stop at the first failure
	nc.computeChainFacts(r)
	nc.checkChainAssignments(r)
	nc.checkCallbackErrorDeref(r)
	// sibling results of a failed call are not used: the failing branch leaves (R-ERR; R-NIL relies on it when it
	// takes a result returned together with a non-nil error for unobservable)
	{
		var efns []*ssa.Function
		for f := range vf.scope {
			efns = append(efns, f)
		}
		sort.Slice(efns, func(i, j int) bool { return w.FuncKey(efns[i]) < w.FuncKey(efns[j]) })
		cx.checkErrDiscipline(r, efns)
	}

	// --- R-NIL ---------------------------------------------------------------------------
	var fns []*ssa.Function
	for f := range vf.scope {
		fns = append(fns, f)
	}
	sort.Slice(fns, func(i, j int) bool { return w.FuncKey(fns[i]) < w.FuncKey(fns[j]) })
	nDeref, nNilable := 0, 0
	for _, fn := range fns {
		for _, b := range fn.Blocks {
			for _, in := range b.Instrs {
				var ptr ssa.Value
				what := ""
				switch x := in.(type) {
				case *ssa.FieldAddr:
					ptr, what = x.X, "field "+fname(fieldVar(x.X.Type(), x.Field))
				case *ssa.UnOp:
					if x.Op == token.MUL {
						switch x.X.(type) {
						case *ssa.Alloc, *ssa.FieldAddr, *ssa.IndexAddr, *ssa.Global, *ssa.FreeVar:
						default:
							ptr, what = x.X, "load through pointer"
						}
					}
				case *ssa.MapUpdate:
					ptr, what = x.Map, "write to map"
				case ssa.CallInstruction:
					com := x.Common()
					if com.IsInvoke() && !isErrorType(com.Value.Type()) {
						ptr, what = com.Value, "method call "+com.Method.Name()+" on interface value"
					} else if !com.IsInvoke() && calleeOf(x) == nil {
						if _, isB := com.Value.(*ssa.Builtin); !isB {
							ptr, what = com.Value, "call of function value"
						}
					}
				}
				if ptr == nil || !isPtrLike(ptr.Type()) {
					continue
				}
				switch ptr.(type) {
				case *ssa.Alloc, *ssa.FieldAddr, *ssa.IndexAddr, *ssa.Global, *ssa.FreeVar, *ssa.MakeClosure, *ssa.Function, *ssa.MakeInterface:
					continue
				}
				nDeref++
				if !nc.mayBeNil(ptr) {
					continue
				}
				nNilable++
				key := w.FuncKey(fn) + ":" + fx.path(ptr)
				if nc.guardedAt(in, ptr) {
					r.Ok("R-NIL", key, w.InstrPos(in), what+" guarded by a nil test of "+fx.path(ptr))
					continue
				}
				r.Fail("R-NIL", key, w.InstrPos(in), fmt.Sprintf("%s dereferences %s, which may be nil (%s), without a dominating nil test: the handler panics", what, fx.path(ptr), nc.why[ptr]))
			}
		}
	}
	// make([]T, n) with a length that comes from outside: a negative value panics ("makeslice: len out of range")
	for _, fn := range fns {
		for _, b := range fn.Blocks {
			for _, in := range b.Instrs {
				ms, ok := in.(*ssa.MakeSlice)
				if !ok {
					continue
				}
				for _, lv := range []ssa.Value{ms.Len, ms.Cap} {
					if lv == nil || nonNegativeLen(lv, 0) {
						continue
					}
					lower := false
					p := fx.path(stripConv(lv))
					for _, a := range fx.AtomsAt(ms) {
						// !(n < 0), 0 <= n, n > 0, n >= k ...
						if a.Op == "LT" && a.Neg && a.A == p && strings.HasPrefix(a.B, "const:") && !strings.HasPrefix(a.B, "const:-") {
							lower = true
						}
						if a.Op == "LT" && !a.Neg && a.B == p && strings.HasPrefix(a.A, "const:") && !strings.HasPrefix(a.A, "const:-") {
							lower = true
						}
					}
					r.Check(lower, "R-BCE", w.FuncKey(fn)+":make("+p+")", w.InstrPos(ms), "the length is tested against a non-negative lower bound", "make() with the length "+p+", which is not a length / constant and is not tested to be non-negative (e.g. Request.ContentLength is -1 for chunked bodies): a negative value panics")
				}
			}
		}
	}
	// library functions that dereference a pointer argument without testing it
	for _, fn := range fns {
		for _, c := range callsIn(fn) {
			idxs, known := derefsPointerArg[calleeName(c)]
			if !known {
				continue
			}
			for _, i := range idxs {
				if i >= len(c.Common().Args) {
					continue
				}
				ptr := c.Common().Args[i]
				nDeref++
				if !nc.mayBeNil(ptr) {
					continue
				}
				nNilable++
				key := w.FuncKey(fn) + ":" + fx.path(ptr)
				in := c.(ssa.Instruction)
				if nc.guardedAt(in, ptr) {
					r.Ok("R-NIL", key, w.InstrPos(in), "argument of "+shortCallee(calleeName(c))+" guarded by a nil test")
					continue
				}
				r.Fail("R-NIL", key, w.InstrPos(in), fmt.Sprintf("%s is handed %s, which may be nil (%s), and dereferences it: the handler panics", shortCallee(calleeName(c)), fx.path(ptr), nc.why[ptr]))
			}
		}
	}
	r.Extra["dereference_sites"] = nDeref
	r.Extra["nilable_dereferences"] = nNilable
	if nDeref < 200 {
		r.Fail("R-NIL", "#deref-sites", "", fmt.Sprintf("only %d dereference sites examined: the handler scope has shrunk", nDeref))
	}
	if nNilable < 15 {
		r.Fail("R-NIL", "#nilable", "", fmt.Sprintf("only %d dereferences of possibly-nil values found (the pinned tree has more than 15 guarded ones): the nil-source model no longer matches the code", nNilable))
	}

	// --- R-ASSERT / explicit panics -------------------------------------------------------------
	nAssert := 0
	for _, fn := range fns {
		for _, b := range fn.Blocks {
			for _, in := range b.Instrs {
				switch x := in.(type) {
				case *ssa.TypeAssert:
					nAssert++
					if !x.CommaOk && cx.assertFromTypedContainer(vf, x) {
						r.Ok("R-ASSERT", w.FuncKey(fn)+":"+x.AssertedType.String(), w.InstrPos(x), "value comes from a sync.Pool / sync.Map that only ever receives values of this type")
						continue
					}
					if !x.CommaOk {
						r.Fail("R-ASSERT", w.FuncKey(fn)+":"+x.AssertedType.String(), w.InstrPos(x), "single-result type assertion to "+x.AssertedType.String()+" panics when the value has another dynamic type (e.g. a key type that does not fit the SigAlg of the request)")
					} else if bad := cx.commaOkMisuse(x); bad != "" {
						r.Fail("R-ASSERT", w.FuncKey(fn)+":"+x.AssertedType.String(), w.InstrPos(x), bad)
					} else {
						r.Ok("R-ASSERT", w.FuncKey(fn)+":"+x.AssertedType.String(), w.InstrPos(x), "checked assertion; the value is used only where ok was found true")
					}
				case *ssa.Panic:
					if c := x.Block().Comment; c == "yield-invalid" || strings.HasPrefix(c, "rangefunc.") {
						continue // protocol checks go/ssa synthesises around a range-over-func loop; only a broken iterator reaches them
					}
					r.Fail("R-PANIC", w.FuncKey(fn)+":panic", w.InstrPos(x), "explicit panic on a request path")
				case ssa.CallInstruction:
					n := calleeName(x)
					switch {
					case n == "log.Fatal" || n == "log.Fatalf" || n == "log.Fatalln" || n == "os.Exit" || n == "log.Panic" || n == "log.Panicf" || strings.HasSuffix(n, "logging.Fatal") || strings.HasSuffix(n, "logging.Panic"):
						r.Fail("R-PANIC", w.FuncKey(fn)+":"+shortCallee(n), w.InstrPos(x), "the process is terminated / panics on a request path")
					case strings.HasSuffix(n, "etree.Element).FindElement") || strings.HasSuffix(n, "etree.Element).FindElements") || strings.HasSuffix(n, "etree.Document).FindElement") || strings.HasSuffix(n, "etree.Document).FindElements"):
						// etree compiles the path with MustCompilePath: a malformed path panics
						if _, isC := x.Common().Args[len(x.Common().Args)-1].(*ssa.Const); !isC {
							r.Fail("R-PANIC", w.FuncKey(fn)+":"+shortCallee(n), w.InstrPos(x), shortCallee(n)+" is given a path that is not a constant (text from the request spliced into it): etree panics on a malformed path")
						}
					case strings.Contains(shortCallee(n), ".Must") && fn.Name() != "init":
						allConst := true
						for _, a := range x.Common().Args {
							if _, isC := a.(*ssa.Const); !isC {
								allConst = false
							}
						}
						if !allConst {
							r.Fail("R-PANIC", w.FuncKey(fn)+":"+shortCallee(n), w.InstrPos(x), "Must* helper with a non-constant argument on a request path panics on bad input")
						}
					}
				}
			}
		}
	}
	if nAssert == 0 {
		r.Ok("R-ASSERT", "#assertions", "", "no type assertion in scope")
	}
	r.Ok("R-PANIC", "scan", "", fmt.Sprintf("%d functions scanned for panic/Fatal/Exit/Must*", len(fns)))
	cx.checkHashAvailability(r, w.Funcs)
	cx.checkHTTPStatus(r, vf, fns)

	// --- R-BCE ---------------------------------------------------------------------------------------
	if withBCE {
		cx.checkBCE(r, vf.scope)
	}
}

// checkNoPanicOnRequestPaths: the nil / assertion / panic discipline of C09, restricted to the code the given
// handlers reach: a request that makes the handler panic is not answered at all - for a conformant request that
// is a refusal (C07), for a query it is no Success answer.
func (cx *Ctx) checkNoPanicOnRequestPaths(r *Report, handlers ...string) {
	w := cx.W
	var fns []*ssa.Function
	for _, k := range handlers {
		if f := w.Func(k); f != nil {
			fns = append(fns, f)
		}
	}
	inScope := map[string]bool{}
	for f := range w.scopeOf(fns...) {
		inScope[w.FuncKey(f)] = true
	}
	tr := newReport("C09", "quick")
	checkC09core(cx, tr, false)
	n := 0
	for _, o := range tr.Obl {
		if o.Rule != "R-NIL" && o.Rule != "R-ASSERT" && o.Rule != "R-PANIC" {
			continue
		}
		fk := o.Key
		if i := strings.Index(fk, ":"); i >= 0 {
			fk = fk[:i]
		}
		if !inScope[fk] {
			continue
		}
		n++
		if o.Verdict == "violation" {
			r.Fail(o.Rule, o.Key, o.Pos, o.Detail+" (a conformant request taking this path is not accepted)")
		}
	}
	r.Check(n > 0, "R-NIL", "#request-paths", "", fmt.Sprintf("%d nil / assertion / panic obligations on the request handlers' paths, none violated beyond those listed", n), "no obligation of the panic discipline found on the request handlers' paths")
}

// checkSPInvariant: ServiceProvider.Metadata is stored only by NewServiceProvider, whose success returns are
// dominated by SPSSODescriptor != nil of the stored metadata; module code never stores to Metadata.SPSSODescriptor.
func (cx *Ctx) checkSPInvariant(r *Report) bool {
	w, fx := cx.W, cx.Fx
	ns := w.Func(kNewSP)
	if ns == nil {
		return false
	}
	ok := true
	for _, fn := range w.Funcs {
		for _, st := range fx.info(fn).stores {
			fa, isFA := st.Addr.(*ssa.FieldAddr)
			if !isFA {
				continue
			}
			o, f := fieldOwner(fa.X.Type()), fname(fieldVar(fa.X.Type(), fa.Field))
			if o == "serviceprovider.ServiceProvider" && f == "Metadata" && fn != ns {
				ok = false
				r.Fail("R-NIL-INV", "ServiceProvider.Metadata@"+w.FuncKey(fn), w.InstrPos(st), "ServiceProvider.Metadata is written outside NewServiceProvider: the non-nil invariant of registered providers is not established by the constructor alone")
			}
			if o == "md.EntityDescriptorType" && f == "SPSSODescriptor" {
				ok = false
				r.Fail("R-NIL-INV", "EntityDescriptorType.SPSSODescriptor@"+w.FuncKey(fn), w.InstrPos(st), "module code assigns SPSSODescriptor of a metadata object")
			}
		}
	}
	aps, okp := fx.atomPaths(ns, 4096)
	if !okp {
		r.Undecided("R-NIL-INV", kNewSP, w.FnPos(ns), "too many paths")
		return false
	}
	nSucc := 0
	for i := range aps {
		p := &aps[i]
		isNil, _ := fx.errNilness(p, fx.retVal(p, 1))
		if !isNil {
			continue
		}
		nSucc++
		good := false
		for _, a := range p.Atoms {
			if a.Op == "NIL" && a.Neg && strings.HasSuffix(a.A, ".SPSSODescriptor") {
				good = true
			}
		}
		if !good {
			ok = false
			r.Fail("R-NIL-INV", kNewSP+":SPSSODescriptor", w.InstrPos(p.Ret), "NewServiceProvider can succeed for metadata without SPSSODescriptor: handlers dereference sp.Metadata.SPSSODescriptor of every registered provider")
			break
		}
	}
	if ok && nSucc > 0 {
		r.Ok("R-NIL-INV", kNewSP+":SPSSODescriptor", w.FnPos(ns), "success only under metadata.SPSSODescriptor != nil; Metadata written by the constructor only")
	}
	return ok && nSucc > 0
}

// checkHashAvailability: a crypto.Hash constant that flows to Hash.New / HashFunc-using verification must
// have its implementation linked (its package imported somewhere in the program).
func (cx *Ctx) checkHashAvailability(r *Report, fns []*ssa.Function) {
	w := cx.W
	hashPkg := map[int64]string{1: "crypto/md4x", 2: "crypto/md5", 3: "crypto/sha1", 4: "crypto/sha256", 5: "crypto/sha256", 6: "crypto/sha512", 7: "crypto/sha512", 8: "-", 9: "golang.org/x/crypto/ripemd160",
		10: "golang.org/x/crypto/sha3", 11: "golang.org/x/crypto/sha3", 12: "golang.org/x/crypto/sha3", 13: "golang.org/x/crypto/sha3", 14: "crypto/sha512", 15: "crypto/sha512",
		16: "golang.org/x/crypto/blake2s", 17: "golang.org/x/crypto/blake2b", 18: "golang.org/x/crypto/blake2b", 19: "golang.org/x/crypto/blake2b"}
	n := 0
	for _, fn := range fns {
		for _, b := range fn.Blocks {
			for _, in := range b.Instrs {
				// any constant of type crypto.Hash used in scope
				var ops [12]*ssa.Value
				for _, op := range in.Operands(ops[:0]) {
					if op == nil || *op == nil {
						continue
					}
					c, ok := (*op).(*ssa.Const)
					if !ok || c.Type().String() != "crypto.Hash" {
						continue
					}
					hv, ok := constInt(c)
					if !ok {
						continue
					}
					n++
					pkg := hashPkg[hv]
					_, linked := w.PkgBy[pkg]
					r.Check(linked, "R-HASH", fmt.Sprintf("%s:crypto.Hash(%d)", w.FuncKey(fn), hv), w.InstrPos(in), "implementation "+pkg+" is linked", fmt.Sprintf("crypto.Hash(%d) is used but its implementation (%s) is not part of the program: Hash.New panics", hv, pkg))
				}
			}
		}
	}
	if n == 0 {
		r.Ok("R-HASH", "#hash-constants", "", "no crypto.Hash constant in scope")
	}
}

var bceLine = regexp.MustCompile(`^(.+\.go):(\d+):(\d+): Found (IsInBounds|IsSliceInBounds)`)

// checkBCE (R-BCE): ask the compiler which bounds checks it could not eliminate, keep those that sit on an
// index/slice expression written in handler-reachable module code, and require a local proof for each.
func (cx *Ctx) checkBCE(r *Report, scope map[*ssa.Function]bool) {
	w := cx.W
	cmd := exec.Command("go", "build", "-gcflags="+modPath+"/...=-d=ssa/check_bce/debug=1", "./...")
	cmd.Dir = w.RepoDir
	cmd.Env = append(os.Environ(), "GOWORK=off")
	var out bytes.Buffer
	cmd.Stdout, cmd.Stderr = &out, &out
	if err := cmd.Run(); err != nil && !strings.Contains(out.String(), "Found Is") {
		r.Undecided("R-BCE", "compiler", "", "go build with check_bce failed: "+strings.TrimSpace(out.String()))
		return
	}
	// index AST index/slice expressions by file:line:col of '[' and of the expression start
	type site struct {
		node ast.Node
		fn   *ast.FuncDecl
		file string
	}
	sites := map[string]site{}
	for _, p := range w.Pkgs {
		if isMockPath(p.PkgPath) {
			continue
		}
		for _, f := range p.Syntax {
			var cur *ast.FuncDecl
			ast.Inspect(f, func(n ast.Node) bool {
				switch x := n.(type) {
				case *ast.FuncDecl:
					cur = x
				case *ast.IndexExpr:
					for _, pos := range []token.Pos{x.Lbrack, x.Pos()} {
						ps := w.Fset.Position(pos)
						sites[fmt.Sprintf("%s:%d:%d", w.Pos(pos)[:strings.LastIndex(w.Pos(pos), ":")], ps.Line, ps.Column)] = site{x, cur, ps.Filename}
					}
				case *ast.SliceExpr:
					for _, pos := range []token.Pos{x.Lbrack, x.Pos()} {
						ps := w.Fset.Position(pos)
						sites[fmt.Sprintf("%s:%d:%d", w.Pos(pos)[:strings.LastIndex(w.Pos(pos), ":")], ps.Line, ps.Column)] = site{x, cur, ps.Filename}
					}
				}
				return true
			})
		}
	}
	// functions in scope by declaration position (file:line)
	inScope := map[string]bool{}
	for f := range scope {
		root := f
		for root.Parent() != nil {
			root = root.Parent()
		}
		inScope[w.FnPos(root)] = true
	}
	nReports, nUser := 0, 0
	for _, line := range strings.Split(out.String(), "\n") {
		m := bceLine.FindStringSubmatch(strings.TrimSpace(line))
		if m == nil || strings.Contains(m[1], "/mock/") {
			continue
		}
		nReports++
		key := fmt.Sprintf("%s:%s:%s", m[1], m[2], m[3])
		s, ok := sites[key]
		if !ok {
			continue // an inlined standard-library check, not an expression of this repository
		}
		if s.fn == nil || !inScope[w.Pos(s.fn.Name.Pos())] && !inScope[w.Pos(s.fn.Pos())] {
			continue
		}
		nUser++
		ln, _ := strconv.Atoi(m[2])
		okProof, why := cx.bceLocalProof(s.node, s.fn)
		if ix, isIx := s.node.(*ast.IndexExpr); isIx && !okProof {
			if ok2, why2 := cx.bceSSAProof(ix); ok2 {
				okProof, why = true, why2
			} else {
				why += "; " + why2
			}
		}
		if !okProof {
			if ok3, why3 := cx.bceLinearProof(s.node); ok3 {
				okProof, why = true, why3
			} else {
				why += "; " + why3
			}
		}
		okey := fmt.Sprintf("%s:%s", s.fn.Name.Name, types.ExprString(s.node.(ast.Expr)))
		pos := fmt.Sprintf("%s:%d", m[1], ln)
		if okProof {
			r.Ok("R-BCE", okey, pos, "unproven by the compiler, discharged by local proof: "+why)
		} else {
			r.Fail("R-BCE", okey, pos, "the bounds check of this index expression cannot be proven ("+why+"): an input with fewer elements panics with index out of range")
		}
	}
	// accesses whose check provably fails (not listed by the compiler)
	for _, fn := range w.sortedFuncs(scope) {
		for _, b := range fn.Blocks {
			for _, in := range b.Instrs {
				switch in.(type) {
				case *ssa.IndexAddr, *ssa.Index:
					if cx.bceAlwaysFails(in) {
						r.Fail("R-BCE", w.FuncKey(fn)+":always-out-of-range@"+w.InstrPos(in), w.InstrPos(in), "the comparisons that dominate this index expression contradict its bounds check: whenever it is reached it panics with index out of range")
					}
				}
			}
		}
	}
	r.Extra["bce_reports"] = nReports
	r.Extra["bce_user_sites"] = nUser
	r.Ok("R-BCE", "compiler-facts", "", fmt.Sprintf("%d unproven bounds checks reported by the compiler for the module, %d on index/slice expressions of handler-reachable code", nReports, nUser))
}

// bceLocalProof: x[i] with constant i where x is a selector path rooted at a local variable assigned once from a
// composite literal (in the same function) that gives the indexed field a literal with more than i elements,
// and no other assignment to that field path exists in the function.
func (cx *Ctx) bceLocalProof(n ast.Node, fn *ast.FuncDecl) (bool, string) {
	ix, ok := n.(*ast.IndexExpr)
	if !ok {
		return false, "slice expression without proof"
	}
	// x[i] inside the less function handed to sort.Slice / sort.SliceStable(x, func(i, j int) bool {...}):
	// the sort package only calls less with indexes of x
	if id, ok := ix.Index.(*ast.Ident); ok {
		okSort := false
		ast.Inspect(fn.Body, func(m ast.Node) bool {
			call, ok := m.(*ast.CallExpr)
			if !ok || len(call.Args) != 2 {
				return true
			}
			sel, ok := call.Fun.(*ast.SelectorExpr)
			if !ok || !(sel.Sel.Name == "Slice" || sel.Sel.Name == "SliceStable") {
				return true
			}
			if pk, ok := sel.X.(*ast.Ident); !ok || pk.Name != "sort" {
				return true
			}
			lit, ok := call.Args[1].(*ast.FuncLit)
			if !ok || lit.Pos() > ix.Pos() || lit.End() < ix.End() {
				return true
			}
			if exprPath(call.Args[0]) == "" || exprPath(call.Args[0]) != exprPath(ix.X) {
				return true
			}
			for _, f := range lit.Type.Params.List {
				for _, nm := range f.Names {
					if nm.Name == id.Name {
						okSort = true
					}
				}
			}
			return true
		})
		if okSort {
			return true, "index parameter of the less function of sort.Slice over the same slice"
		}
	}
	lit, ok := ix.Index.(*ast.BasicLit)
	if !ok || lit.Kind != token.INT {
		return false, "index is not a constant"
	}
	idx, _ := strconv.Atoi(lit.Value)
	// selector chain
	var names []string
	e := ix.X
	for {
		switch x := e.(type) {
		case *ast.SelectorExpr:
			names = append([]string{x.Sel.Name}, names...)
			e = x.X
			continue
		case *ast.Ident:
			names = append([]string{x.Name}, names...)
		default:
			return false, "indexed expression is not a field path of a local variable"
		}
		break
	}
	if len(names) < 2 {
		return false, "indexed expression is a plain variable"
	}
	root := names[0]
	// find the single definition root := &T{...}
	var def *ast.CompositeLit
	nDef := 0
	otherAssign := false
	ast.Inspect(fn.Body, func(m ast.Node) bool {
		as, ok := m.(*ast.AssignStmt)
		if !ok {
			return true
		}
		for i, lhs := range as.Lhs {
			if id, ok := lhs.(*ast.Ident); ok && id.Name == root {
				nDef++
				if i < len(as.Rhs) {
					rhs := as.Rhs[i]
					if u, ok := rhs.(*ast.UnaryExpr); ok && u.Op == token.AND {
						rhs = u.X
					}
					if cl, ok := rhs.(*ast.CompositeLit); ok {
						def = cl
					}
				}
			}
			// assignment to a prefix of the indexed path (other than through the index itself)
			p := exprPath(lhs)
			full := strings.Join(names, ".")
			if p != "" && p != root && (strings.HasPrefix(full, p) || strings.HasPrefix(p, full)) && !strings.Contains(p, "[") {
				if p == full || strings.HasPrefix(full, p+".") {
					otherAssign = true
				}
			}
		}
		return true
	})
	if nDef != 1 || def == nil {
		return false, "the root variable is not assigned exactly once from a composite literal"
	}
	if otherAssign {
		return false, "the indexed field is re-assigned in the function"
	}
	cur := def
	for _, nm := range names[1:] {
		var next *ast.CompositeLit
		for _, el := range cur.Elts {
			kv, ok := el.(*ast.KeyValueExpr)
			if !ok {
				continue
			}
			if id, ok := kv.Key.(*ast.Ident); ok && id.Name == nm {
				v := kv.Value
				if u, ok := v.(*ast.UnaryExpr); ok && u.Op == token.AND {
					v = u.X
				}
				if cl, ok := v.(*ast.CompositeLit); ok {
					next = cl
				}
			}
		}
		if next == nil {
			return false, "field " + nm + " is not given by a literal in the defining composite literal"
		}
		cur = next
	}
	if len(cur.Elts) > idx {
		return true, fmt.Sprintf("%s is a literal with %d element(s) built in the same function and never re-assigned; index %d", strings.Join(names, "."), len(cur.Elts), idx)
	}
	return false, fmt.Sprintf("the literal has %d elements, index is %d", len(cur.Elts), idx)
}

func exprPath(e ast.Expr) string {
	switch x := e.(type) {
	case *ast.Ident:
		return x.Name
	case *ast.SelectorExpr:
		p := exprPath(x.X)
		if p == "" {
			return ""
		}
		return p + "." + x.Sel.Name
	case *ast.IndexExpr:
		p := exprPath(x.X)
		if p == "" {
			return ""
		}
		return p + "[]"
	case *ast.StarExpr:
		return exprPath(x.X)
	}
	return ""
}

// assertFromTypedContainer: the operand of a single-result assertion comes only from sync.Pool.Get / sync.Map
// lookups of containers into which only values of exactly the asserted type are ever put.
func (cx *Ctx) assertFromTypedContainer(vf *VFlow, ta *ssa.TypeAssert) bool {
	w := cx.W
	var getCalls []*ssa.Call
	var collect func(v ssa.Value, depth int) bool
	collect = func(v ssa.Value, depth int) bool {
		if depth > 6 {
			return false
		}
		switch x := v.(type) {
		case *ssa.Call:
			switch calleeName(x) {
			case "(*sync.Pool).Get", "(*sync.Map).Load", "(*sync.Map).LoadOrStore", "(*sync.Map).LoadAndDelete", "(*sync.Map).Swap":
				getCalls = append(getCalls, x)
				return true
			}
			return false
		case *ssa.Extract:
			if x.Index != 0 {
				return false
			}
			return collect(x.Tuple, depth+1)
		case *ssa.Phi:
			for _, e := range x.Edges {
				if !collect(e, depth+1) {
					return false
				}
			}
			return true
		case *ssa.UnOp:
			if cell := cx.Fx.ownerCell(x.X); cell != nil {
				st := cx.Fx.storesToCell(cell)
				if len(st) == 0 {
					return false
				}
				for _, s := range st {
					if !collect(s, depth+1) {
						return false
					}
				}
				return true
			}
		}
		return false
	}
	if !collect(ta.X, 0) || len(getCalls) == 0 {
		return false
	}
	want := ta.AssertedType
	for _, g := range getCalls {
		cont := vf.objLabels(g.Call.Args[0], 0)
		// every value put into a container that may be this one has the asserted type
		for _, fn := range w.Funcs {
			for _, c := range callsIn(fn) {
				var val ssa.Value
				switch calleeName(c) {
				case "(*sync.Pool).Put":
					val = c.Common().Args[1]
				case "(*sync.Map).Store", "(*sync.Map).LoadOrStore", "(*sync.Map).Swap":
					val = c.Common().Args[2]
				default:
					continue
				}
				lvf := vf
				if !vf.scope[fn] {
					lvf = cx.newVFlow(w.FuncKey(fn), fn)
				}
				same := false
				for l := range lvf.objLabels(c.Common().Args[0], 0) {
					if _, ok := cont[l]; ok || strings.HasPrefix(l, "param:") {
						same = true
					}
				}
				if !same {
					continue
				}
				mi, ok := val.(*ssa.MakeInterface)
				if !ok || !types.Identical(mi.X.Type(), want) {
					return false
				}
			}
		}
		// a pool's New function
		if calleeName(g) == "(*sync.Pool).Get" {
			for _, fn := range w.Funcs {
				for _, st := range cx.Fx.info(fn).stores {
					fa, ok := st.Addr.(*ssa.FieldAddr)
					if !ok || fieldOwner(fa.X.Type()) != "sync.Pool" || fname(fieldVar(fa.X.Type(), fa.Field)) != "New" {
						continue
					}
					tg, ok := cx.Fx.funcTargets(st.Val)
					if !ok {
						return false
					}
					for _, nf := range tg {
						for _, ret := range returnsOf(nf) {
							mi, ok := ret.Results[0].(*ssa.MakeInterface)
							if !ok || !types.Identical(mi.X.Type(), want) {
								return false
							}
						}
					}
				}
			}
		}
	}
	return true
}

// sparseMake: the slice labelled l was made with a non-zero length and an iteration of the filling loop can skip
// the element store (a `continue`, a conditional store): some elements stay nil.
func (nc *nilCtx) sparseMake(l string) string {
	w := nc.cx.W
	for fn := range nc.vf.scope {
		for _, b := range fn.Blocks {
			for _, in := range b.Instrs {
				ms, ok := in.(*ssa.MakeSlice)
				if !ok {
					continue
				}
				if _, has := nc.vf.objLabels(ms, 0)[l]; !has {
					continue
				}
				if n, isC := constInt(ms.Len); isC && n == 0 {
					continue // filled by append: no holes
				}
				fi := nc.cx.Fx.info(fn)
				nStores := 0
				for _, st := range fi.stores {
					ia, ok := st.Addr.(*ssa.IndexAddr)
					if !ok {
						continue
					}
					if _, has := nc.vf.objLabels(ia.X, 0)[l]; !has {
						continue
					}
					nStores++
					S := st.Block()
					if !fi.reachable(S, S) {
						continue
					}
					for _, B := range fn.Blocks {
						if B == S || !fi.reachable(S, B) || !fi.reachable(B, S) {
							continue
						}
						if reachAvoidingBlock(B, B, S) {
							return "element of a slice made with a fixed length in " + w.FuncKey(fn) + " whose filling loop can skip an element (" + w.InstrPos(st) + ")"
						}
					}
				}
				if nStores == 0 {
					return "element of a slice made with a fixed length in " + w.FuncKey(fn) + " that is never filled"
				}
			}
		}
	}
	return ""
}

// reachAvoidingBlock: can `to` be reached from `from` (one or more edges) without entering block avoid?
// deadEdge: successor k of b is never taken because b ends in a branch on a boolean constant.
func deadEdge(b *ssa.BasicBlock, k int) bool {
	if len(b.Instrs) == 0 || len(b.Succs) != 2 {
		return false
	}
	ifi, ok := b.Instrs[len(b.Instrs)-1].(*ssa.If)
	if !ok {
		return false
	}
	c, ok := ifi.Cond.(*ssa.Const)
	if !ok || c.Value == nil {
		return false
	}
	switch c.Value.ExactString() {
	case "true":
		return k == 1
	case "false":
		return k == 0
	}
	return false
}

func reachAvoidingBlock(from, to, avoid *ssa.BasicBlock) bool {
	seen := map[*ssa.BasicBlock]bool{}
	var dfs func(x *ssa.BasicBlock) bool
	dfs = func(x *ssa.BasicBlock) bool {
		for k, s := range x.Succs {
			if deadEdge(x, k) {
				continue
			}
			if s == avoid {
				continue
			}
			if s == to {
				return true
			}
			if !seen[s] {
				seen[s] = true
				if dfs(s) {
					return true
				}
			}
		}
		return false
	}
	return dfs(from)
}

// checkHTTPStatus: every status code handed to http.Error / WriteHeader / http.Redirect is a constant in [100, 999]
// (net/http panics on anything else, e.g. a status variable that was never assigned).
func (cx *Ctx) checkHTTPStatus(r *Report, vf *VFlow, fns []*ssa.Function) {
	w := cx.W
	n := 0
	for _, fn := range fns {
		for _, c := range callsIn(fn) {
			idx := -1
			switch calleeName(c) {
			case "net/http.Error":
				idx = 2
			case "net/http.Redirect":
				idx = 3
			default:
				if c.Common().IsInvoke() && c.Common().Method.Name() == "WriteHeader" && isResponseWriter(c.Common().Value.Type()) {
					idx = 0
				}
			}
			if idx < 0 || idx >= len(c.Common().Args) {
				continue
			}
			n++
			bad := ""
			for _, l := range vf.Labels(c.Common().Args[idx]).leaves() {
				if l == fmt.Sprintf("param:%s/#1", w.FuncKey(fn)) && fn.Name() == "WriteHeader" && fn.Signature.Recv() != nil && fn.Signature.Params().Len() == 1 {
					continue // a ResponseWriter wrapper forwarding the code it was given: judged at the sites that give it
				}
				if !strings.HasPrefix(l, "const:") {
					bad = "the status code comes from " + l
					continue
				}
				var code int
				if _, err := fmt.Sscanf(strings.TrimPrefix(l, "const:"), "%d", &code); err != nil || code < 100 || code > 999 {
					bad = "the status code can be " + strings.TrimPrefix(l, "const:")
				}
			}
			r.Check(bad == "", "R-STATUS", w.FuncKey(fn)+":"+shortCallee(calleeName(c))+"@"+w.InstrPos(c), w.InstrPos(c), "constant status code in [100, 999]", bad+": net/http panics on an invalid status code")
		}
	}
	if n < 1 { // (error replies may all go through one helper: the count says nothing about behaviour)
		r.Fail("R-STATUS", "#status-sites", "", fmt.Sprintf("only %d status-code sites found", n))
	}
}

// keyOfSameMap: the key of the lookup m[k] is an element of a slice / iterator obtained from the keys of the same
// map (slices.Sorted(maps.Keys(m)), slices.Collect(maps.Keys(m)), ranging over maps.Keys(m)), and the function does
// not delete from the map: the entry is present.
func keyOfSameMap(fx *Facts, lk *ssa.Lookup) bool {
	for _, c := range callsIn(lk.Parent()) {
		if b, ok := c.Common().Value.(*ssa.Builtin); ok && (b.Name() == "delete" || b.Name() == "clear") {
			return false
		}
	}
	strip := func(n string) string {
		if i := strings.Index(n, "["); i >= 0 {
			return n[:i]
		}
		return n
	}
	// the key: an element of some container
	var cont ssa.Value
	switch k := lk.Index.(type) {
	case *ssa.UnOp:
		if ia, ok := k.X.(*ssa.IndexAddr); ok {
			cont = ia.X
		}
	case *ssa.Index:
		cont = k.X
	}
	for i := 0; i < 4 && cont != nil; i++ {
		c, ok := cont.(*ssa.Call)
		if !ok {
			return false
		}
		switch strip(calleeName(c)) {
		case "slices.Sorted", "slices.Collect", "slices.Clone", "slices.SortedFunc", "slices.SortedStableFunc":
			cont = c.Call.Args[0]
		case "maps.Keys":
			return fx.path(c.Call.Args[0]) == fx.path(lk.X)
		default:
			return false
		}
	}
	return false
}

// derefsPointerArg: standard-library functions that dereference the listed pointer arguments unconditionally.
var derefsPointerArg = map[string][]int{
	"crypto/rsa.VerifyPKCS1v15": {0}, "crypto/rsa.VerifyPSS": {0}, "crypto/dsa.Verify": {0}, "crypto/ecdsa.Verify": {0}, "crypto/ecdsa.VerifyASN1": {0},
	"crypto/rsa.SignPKCS1v15": {1}, "crypto/rsa.SignPSS": {1}, "crypto/x509.MarshalPKCS1PrivateKey": {0}, "crypto/x509.MarshalPKCS1PublicKey": {0},
	"crypto/rsa.EncryptPKCS1v15": {1}, "crypto/rsa.DecryptPKCS1v15": {1},
}

func stripConv(v ssa.Value) ssa.Value {
	for {
		switch x := v.(type) {
		case *ssa.Convert:
			v = x.X
		case *ssa.ChangeType:
			v = x.X
		default:
			return v
		}
	}
}

// nonNegativeLen: v is a constant >= 0, a len()/cap(), or sums / products / min / max of such.
func nonNegativeLen(v ssa.Value, depth int) bool {
	if depth > 6 {
		return false
	}
	v = stripConv(v)
	if i, ok := constInt(v); ok {
		return i >= 0
	}
	switch x := v.(type) {
	case *ssa.Call:
		if b, ok := x.Call.Value.(*ssa.Builtin); ok {
			switch b.Name() {
			case "len", "cap":
				return true
			case "min", "max":
				for _, a := range x.Call.Args {
					if !nonNegativeLen(a, depth+1) {
						return false
					}
				}
				return true
			}
		}
	case *ssa.BinOp:
		switch x.Op {
		case token.ADD, token.MUL, token.QUO, token.SHR:
			return nonNegativeLen(x.X, depth+1) && nonNegativeLen(x.Y, depth+1)
		}
	case *ssa.Phi:
		for _, e := range x.Edges {
			if e != ssa.Value(x) && !nonNegativeLen(e, depth+1) {
				return false
			}
		}
		return len(x.Edges) > 0
	}
	return false
}

// checkCallbackErrorDeref (R-NIL): the handlers of the three chains keep the error of the failing step in a shared
// variable that the step's callback reads. `fmt.Errorf("...: %w", err)` tolerates a nil error; `err.Error()` - in the
// callback or in a helper it hands the error to - does not. Where a callback calls Error() on that variable, the step's
// logic must have stored a non-nil error into it on every path on which it fails (directly, or through the setter
// closure a factory-made step is given). A step that reports its failure only through its return value leaves the
// variable nil: the callback panics.
func (nc *nilCtx) checkCallbackErrorDeref(r *Report) {
	cx, fx := nc.cx, nc.cx.Fx
	w := cx.W
	for _, hk := range []string{kSSO, kLogout, kAttr} {
		h := w.Func(hk)
		if h == nil {
			continue
		}
		ch, err := w.extractChain(fx, h)
		if err != nil {
			continue
		}
		isErrCell := func(addr ssa.Value) *ssa.Alloc {
			c := fx.ownerCell(addr)
			if c != nil && c.Parent() == h && isErrorType(derefType(c.Type())) {
				return c
			}
			return nil
		}
		// does value v (inside f) stand for the content of an error cell of the handler?
		var cellOfValue func(v ssa.Value, depth int) *ssa.Alloc
		cellOfValue = func(v ssa.Value, depth int) *ssa.Alloc {
			if depth > 3 {
				return nil
			}
			switch x := v.(type) {
			case *ssa.UnOp:
				if x.Op == token.MUL {
					return isErrCell(x.X)
				}
			case *ssa.Parameter:
				var found *ssa.Alloc
				for _, a := range fx.argsOf[x] {
					c := cellOfValue(a, depth+1)
					if c == nil {
						return nil
					}
					found = c
				}
				return found
			}
			return nil
		}
		for _, s := range ch.Steps {
			for f := range s.EScp {
				for _, c := range callsIn(f) {
					com := c.Common()
					if !com.IsInvoke() || com.Method.Name() != "Error" || !isErrorType(com.Value.Type()) {
						continue
					}
					cell := cellOfValue(com.Value, 0)
					if cell == nil {
						continue
					}
					// `if err != nil { msg += err.Error() }`: guarded where it is called
					guarded := false
					if ci, isI := c.(ssa.Instruction); isI {
						pv := fx.path(com.Value)
						for _, a := range fx.AtomsAt(ci) {
							if a.Op == "NIL" && a.Neg && a.A == pv {
								guarded = true
							}
						}
					}
					if guarded {
						continue
					}
					// the step's logic stores into the cell on every failing path
					lf := s.Fn("logic")
					bad := ""
					if lf == nil {
						bad = "the step has no logic that could have set the error"
					} else if aps, ok := fx.atomPaths(lf, 4096); !ok {
						bad = "the paths of the step's logic cannot be enumerated"
					} else {
						for i := range aps {
							p := &aps[i]
							if p.Ret == nil || len(p.Ret.Results) == 0 {
								continue
							}
							if isNil, _ := fx.errNilness(p, fx.retVal(p, len(p.Ret.Results)-1)); isNil {
								continue // a passing path
							}
							stored := false
							for _, in := range p.Instrs() {
								if st, isSt := in.(*ssa.Store); isSt && isErrCell(st.Addr) == cell && !isNilConst(st.Val) {
									stored = true
								}
								// the setter a factory-made step is given: `func(e error) { err = e }`
								if cl, isCall := in.(*ssa.Call); isCall && !cl.Call.IsInvoke() && calleeOf(cl) == nil {
									if tg, okT := fx.funcTargets(cl.Call.Value); okT {
										for _, g := range tg {
											for _, st := range fx.info(g).stores {
												if isErrCell(st.Addr) == cell {
													stored = true
												}
											}
										}
									}
								}
							}
							if !stored {
								bad = "the step's logic can fail (" + w.InstrPos(p.Ret) + ") without having stored its error into the variable the callback reads"
								break
							}
						}
					}
					r.Check(bad == "", "R-NIL", "callback-error:"+w.FuncKey(f)+"@"+w.InstrPos(c), w.InstrPos(c), "Error() is called on the handler's error variable only where the failing step has set it", "Error() is called on the handler's error variable, but "+bad+": a nil error makes the callback panic")
				}
			}
		}
	}
}

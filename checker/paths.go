package main

import (
	"go/token"
	"go/types"
	"regexp"
	"strings"

	"golang.org/x/tools/go/ssa"
)

type condPol struct {
	Cond ssa.Value
	Pol  bool
}

// Path is one simple path (no block visited twice) from the entry block to a
// block ending in Return (or Panic).
type Path struct {
	Blocks []*ssa.BasicBlock
	Conds  []condPol
	Raw    []condPol // the conditions as branched on, before boolean locals were resolved (resolvePhis)
}

func (p *Path) Last() *ssa.BasicBlock { return p.Blocks[len(p.Blocks)-1] }

func (p *Path) Return() *ssa.Return {
	b := p.Last()
	if len(b.Instrs) == 0 {
		return nil
	}
	r, _ := b.Instrs[len(b.Instrs)-1].(*ssa.Return)
	return r
}

func (p *Path) Has(b *ssa.BasicBlock) bool {
	for _, x := range p.Blocks {
		if x == b {
			return true
		}
	}
	return false
}

// Instrs returns the instructions along the path in execution order.
func (p *Path) Instrs() []ssa.Instruction {
	var out []ssa.Instruction
	for _, b := range p.Blocks {
		out = append(out, b.Instrs...)
	}
	return out
}

// enumPaths enumerates simple entry-to-exit paths of fn starting at block from
// (nil = entry). ok=false when more than max paths exist.
func enumPaths(fn *ssa.Function, from *ssa.BasicBlock, max int) (paths []Path, ok bool) {
	if len(fn.Blocks) == 0 {
		return nil, true
	}
	if from == nil {
		from = fn.Blocks[0]
	}
	ok = true
	var cur Path
	on := map[*ssa.BasicBlock]bool{}
	var walk func(b *ssa.BasicBlock)
	walk = func(b *ssa.BasicBlock) {
		if !ok {
			return
		}
		cur.Blocks = append(cur.Blocks, b)
		on[b] = true
		defer func() {
			cur.Blocks = cur.Blocks[:len(cur.Blocks)-1]
			on[b] = false
		}()
		if len(b.Succs) == 0 {
			if len(paths) >= max {
				ok = false
				return
			}
			cp := Path{Blocks: append([]*ssa.BasicBlock(nil), cur.Blocks...), Conds: append([]condPol(nil), cur.Conds...)}
			if cp.resolvePhis() {
				paths = append(paths, cp)
			}
			return
		}
		var ifi *ssa.If
		if len(b.Instrs) > 0 {
			ifi, _ = b.Instrs[len(b.Instrs)-1].(*ssa.If)
		}
		for k, s := range b.Succs {
			if on[s] {
				continue // back edge: one traversal of each loop body is enough for path facts
			}
			if ifi != nil && b.Succs[0] != b.Succs[1] {
				cur.Conds = append(cur.Conds, condPol{ifi.Cond, k == 0})
				walk(s)
				cur.Conds = cur.Conds[:len(cur.Conds)-1]
			} else {
				walk(s)
			}
		}
	}
	walk(from)
	return paths, ok
}

// feasible rejects paths that contradict a local boolean flag: a condition that is a
// (negated) phi of boolean constants is evaluated with the edge the path arrived by.
func (p *Path) feasible() bool {
	for _, c := range p.Conds {
		v := c.Cond
		pol := c.Pol
		if k, isK := v.(*ssa.Const); isK && k.Value != nil {
			// a constant condition (`cond && false`): the other edge is dead code
			if s := k.Value.ExactString(); (s == "true") != pol {
				return false
			}
			continue
		}
		for {
			u, ok := v.(*ssa.UnOp)
			if !ok || u.Op != token.NOT {
				break
			}
			v = u.X
			pol = !pol
		}
		phi, ok := v.(*ssa.Phi)
		if !ok {
			continue
		}
		val, known := p.phiValue(phi, 0)
		if known && val != pol {
			return false
		}
	}
	return true
}

// phiValue: boolean value of phi on this path, if the edge taken carries a constant (following nested phis).
func (p *Path) phiValue(phi *ssa.Phi, depth int) (val, known bool) {
	if depth > 8 {
		return false, false
	}
	pb := phi.Block()
	idx := -1
	for i, b := range p.Blocks {
		if b == pb {
			idx = i
			break
		}
	}
	if idx <= 0 {
		return false, false
	}
	prev := p.Blocks[idx-1]
	for i, pred := range pb.Preds {
		if pred != prev {
			continue
		}
		switch e := phi.Edges[i].(type) {
		case *ssa.Const:
			if e.Value == nil {
				return false, false
			}
			s := e.Value.ExactString()
			return s == "true", s == "true" || s == "false"
		case *ssa.Phi:
			return p.phiValue(e, depth+1)
		}
		return false, false
	}
	return false, false
}

// boolFuncOfPaths evaluates, for a valuation of named atoms, whether some path in
// sel is consistent with it (every condition on the path has the value the
// valuation assigns to its atom).
func pathConsistent(p Path, name func(ssa.Value) (string, bool), val map[string]bool) bool {
	for _, c := range p.Conds {
		n, pos := name(c.Cond)
		if n == "" {
			continue
		}
		v, ok := val[n]
		if !ok {
			continue
		}
		want := c.Pol
		if !pos {
			want = !want
		}
		if v != want {
			return false
		}
	}
	return true
}

// APath is a feasible path with its conditions canonicalised to atoms.
type APath struct {
	Path
	Atoms []Atom
	Ret   *ssa.Return
}

// has: the path carries an atom op (with the given polarity) about a typed access path ending in suffix.
func (a *APath) has(op, suffix string, neg bool) bool {
	for _, x := range a.Atoms {
		if x.Op == op && x.Neg == neg && (hasSuffixPath(x.TA, suffix) || x.TB != "" && hasSuffixPath(x.TB, suffix)) {
			return true
		}
	}
	return false
}

func hasSuffixPath(p, suffix string) bool {
	return p == suffix || len(p) > len(suffix) && p[len(p)-len(suffix):] == suffix
}

// atomPaths enumerates the feasible paths of fn with their atoms.
func (fx *Facts) atomPaths(fn *ssa.Function, max int) ([]APath, bool) {
	ps, ok := enumPaths(fn, nil, max)
	if !ok {
		return nil, false
	}
	var out []APath
	for _, p := range ps {
		if !p.feasible() {
			continue
		}
		ap := APath{Path: p, Ret: p.Return()}
		for _, c := range p.Conds {
			ap.Atoms = append(ap.Atoms, fx.atomOf(c.Cond, c.Pol))
		}
		var feas bool
		if ap.Atoms, feas = fx.substAtoms(&ap.Path, ap.Atoms); !feas {
			continue
		}
		ap.Atoms = append(ap.Atoms, fx.entryAtomsAt(fn, nil)...)
		ap.Atoms = fx.expandAtoms(ap.Atoms)
		out = append(out, ap)
	}
	return out, true
}

// boolPaths: for a function returning one bool, the feasible paths split by returned
// value. When the returned value is itself a condition (the last operand of a && / ||
// chain), the path is split in two with that condition added as an atom.
func (fx *Facts) boolPaths(fn *ssa.Function, max int) (truePaths, falsePaths []APath, ok bool) {
	aps, ok := fx.atomPaths(fn, max)
	if !ok {
		return nil, nil, false
	}
	for _, ap := range aps {
		if ap.Ret == nil || len(ap.Ret.Results) != 1 {
			return nil, nil, false
		}
		v := ap.Ret.Results[0]
		if phi, isPhi := v.(*ssa.Phi); isPhi {
			// pick the edge the path arrived by
			pb := phi.Block()
			idx := -1
			for i, b := range ap.Blocks {
				if b == pb {
					idx = i
				}
			}
			if idx > 0 {
				for i, pred := range pb.Preds {
					if pred == ap.Blocks[idx-1] {
						v = phi.Edges[i]
					}
				}
			}
		}
		if c, isC := v.(*ssa.Const); isC && c.Value != nil {
			if c.Value.ExactString() == "true" {
				truePaths = append(truePaths, ap)
			} else {
				falsePaths = append(falsePaths, ap)
			}
			continue
		}
		if ta, feas := fx.substAtoms(&ap.Path, []Atom{fx.atomOf(v, true)}); feas {
			t := ap
			t.Atoms = append(append([]Atom(nil), ap.Atoms...), ta...)
			truePaths = append(truePaths, t)
		}
		if fa, feas := fx.substAtoms(&ap.Path, []Atom{fx.atomOf(v, false)}); feas {
			f := ap
			f.Atoms = append(append([]Atom(nil), ap.Atoms...), fa...)
			falsePaths = append(falsePaths, f)
		}
	}
	return truePaths, falsePaths, true
}

func atomsString(as []Atom) string {
	s := ""
	for i, a := range as {
		if i > 0 {
			s += " & "
		}
		s += a.String()
	}
	return s
}

// atomPathsTo enumerates the feasible simple paths from the entry of fn to block target
// (the path ends when target is entered) with their atoms.
func (fx *Facts) atomPathsTo(target *ssa.BasicBlock, max int) ([]APath, bool) {
	fn := target.Parent()
	var out []APath
	ok := true
	var cur Path
	on := map[*ssa.BasicBlock]bool{}
	var walk func(b *ssa.BasicBlock)
	walk = func(b *ssa.BasicBlock) {
		if !ok {
			return
		}
		cur.Blocks = append(cur.Blocks, b)
		on[b] = true
		defer func() {
			cur.Blocks = cur.Blocks[:len(cur.Blocks)-1]
			on[b] = false
		}()
		if b == target {
			if len(out) >= max {
				ok = false
				return
			}
			p := Path{Blocks: append([]*ssa.BasicBlock(nil), cur.Blocks...), Conds: append([]condPol(nil), cur.Conds...)}
			if p.resolvePhis() && p.feasible() {
				ap := APath{Path: p}
				for _, c := range p.Conds {
					ap.Atoms = append(ap.Atoms, fx.atomOf(c.Cond, c.Pol))
				}
				var feas bool
				if ap.Atoms, feas = fx.substAtoms(&ap.Path, ap.Atoms); !feas {
					return
				}
				ap.Atoms = append(ap.Atoms, fx.entryAtomsAt(fn, nil)...)
				ap.Atoms = fx.expandAtoms(ap.Atoms)
				out = append(out, ap)
			}
			return
		}
		var ifi *ssa.If
		if len(b.Instrs) > 0 {
			ifi, _ = b.Instrs[len(b.Instrs)-1].(*ssa.If)
		}
		for k, s := range b.Succs {
			if on[s] {
				continue
			}
			if ifi != nil && b.Succs[0] != b.Succs[1] {
				cur.Conds = append(cur.Conds, condPol{ifi.Cond, k == 0})
				walk(s)
				cur.Conds = cur.Conds[:len(cur.Conds)-1]
			} else {
				walk(s)
			}
		}
	}
	walk(fn.Blocks[0])
	if fx.loopPaths {
		// later iterations: a simple path from the entry sees a loop header's phis with their initial values only.
		// Starting at the header of every loop around target leaves those phis undetermined (any earlier iteration).
		fi := fx.info(fn)
		for _, h := range fn.Blocks {
			if h == target || !fi.reachable(h, target) || !fi.reachable(target, h) {
				continue
			}
			isHeader := false
			for _, pr := range h.Preds {
				if fi.reachable(h, pr) {
					isHeader = true
				}
			}
			hasPhi := false
			for _, in := range h.Instrs {
				if _, isPhi := in.(*ssa.Phi); isPhi {
					hasPhi = true
				}
			}
			if isHeader && hasPhi {
				cur = Path{}
				walk(h)
			}
		}
	}
	return out, ok
}

// resolvePhis rewrites conditions that are boolean locals - a (negated) phi - to the value that arrives on this
// path: a constant decides feasibility (false = the path contradicts the flag), any other value takes the
// phi's place as the condition (`tooShort := false; if min > 0 { tooShort = len(v) < min }; if tooShort {...}`).
func (p *Path) resolvePhis() bool {
	p.Raw = append([]condPol(nil), p.Conds...)
	for i := range p.Conds {
		for depth := 0; depth < 8; depth++ {
			v := p.Conds[i].Cond
			pol := p.Conds[i].Pol
			for {
				u, ok := v.(*ssa.UnOp)
				if !ok || u.Op != token.NOT {
					break
				}
				v = u.X
				pol = !pol
			}
			phi, ok := v.(*ssa.Phi)
			if !ok {
				break
			}
			pb := phi.Block()
			idx := -1
			for bi, b := range p.Blocks {
				if b == pb {
					idx = bi
					break
				}
			}
			if idx <= 0 {
				break
			}
			var edge ssa.Value
			for k, pred := range pb.Preds {
				if pred == p.Blocks[idx-1] {
					edge = phi.Edges[k]
				}
			}
			if edge == nil {
				break
			}
			if c, isC := edge.(*ssa.Const); isC {
				if c.Value == nil {
					break
				}
				s := c.Value.ExactString()
				if s != "true" && s != "false" {
					break
				}
				if (s == "true") != pol {
					return false
				}
				// the condition is settled by the path: make it a tautology that carries no atom
				p.Conds[i] = condPol{edge, pol}
				break
			}
			p.Conds[i] = condPol{edge, pol}
		}
	}
	// drop settled constant conditions
	out := p.Conds[:0]
	for _, c := range p.Conds {
		if k, isC := c.Cond.(*ssa.Const); isC {
			// a condition written as a constant (`x && false`) decides feasibility like a settled flag does
			if k.Value != nil {
				if s := k.Value.ExactString(); (s == "true" || s == "false") && (s == "true") != c.Pol {
					return false
				}
			}
			continue
		}
		out = append(out, c)
	}
	p.Conds = out
	return true
}

// ---------------------------------------------------------------------------
// Non-boolean locals on a path: `var d *T; if m != nil { d = m.D }; if d == nil || f(d.X) {...}`.
// d is a phi; on a given (acyclic) path the phi has the value of the edge the path arrived by, so atoms that
// mention the phi are rewritten with that value: NIL(phi) becomes NIL(m.D) on the one path and the constant
// true on the other (the atom is dropped, or the path is infeasible if the path took the opposite branch).
// Loop-header phis are left alone: their value on later iterations is not the value of the entry edge.
// ---------------------------------------------------------------------------

var identTail = regexp.MustCompile(`^[A-Za-z0-9_]`)

func replaceToken(s, tok, by string) (string, bool) {
	if !strings.Contains(s, tok) {
		return s, false
	}
	var b strings.Builder
	hit := false
	for {
		i := strings.Index(s, tok)
		if i < 0 {
			b.WriteString(s)
			break
		}
		rest := s[i+len(tok):]
		b.WriteString(s[:i])
		if identTail.MatchString(rest) {
			b.WriteString(tok)
		} else {
			b.WriteString(by)
			hit = true
		}
		s = rest
	}
	return b.String(), hit
}

// phiSubst: for the phis of blocks on the path (not loop headers): path string of the phi -> path string of the
// value arriving on this path.
func (fx *Facts) phiSubst(p *Path) [][2]string {
	var out [][2]string
	if len(p.Blocks) == 0 {
		return nil
	}
	fi := fx.info(p.Blocks[0].Parent())
	for i := len(p.Blocks) - 1; i > 0; i-- {
		b := p.Blocks[i]
		loop := false
		for _, pred := range b.Preds {
			if pred == b || fi.reachable(b, pred) {
				loop = true
			}
		}
		if loop {
			continue
		}
		for _, in := range b.Instrs {
			phi, ok := in.(*ssa.Phi)
			if !ok {
				break
			}
			if bt, isB := phi.Type().Underlying().(*types.Basic); isB && bt.Kind() == types.Bool {
				continue
			}
			for k, pred := range b.Preds {
				if pred == p.Blocks[i-1] {
					out = append(out, [2]string{fx.path(phi), fx.path(phi.Edges[k])})
				}
			}
		}
	}
	return out
}

// substAtoms adds, for atoms that mention a phi, their spelling with the path's phi values; ok=false if a rewritten atom is a constant that
// contradicts the branch the path took.
func (fx *Facts) substAtoms(p *Path, atoms []Atom) ([]Atom, bool) {
	sub := fx.phiSubst(p)
	if len(sub) == 0 {
		return atoms, true
	}
	var out []Atom
	for _, a := range atoms {
		changed := false
		orig := a
		for _, s := range sub {
			var h1, h2 bool
			a.A, h1 = replaceToken(a.A, s[0], s[1])
			a.B, h2 = replaceToken(a.B, s[0], s[1])
			changed = changed || h1 || h2
		}
		if changed {
			a.TA, a.TB = fx.T(a.A), fx.T(a.B)
			// constant outcomes
			val, known := false, false
			switch {
			case a.Op == "NIL" && a.A == "nil":
				val, known = true, true
			case a.Op == "NIL" && strings.HasPrefix(a.A, "&"):
				val, known = false, true
			case a.Op == "EMPTY" && a.A == "const:":
				val, known = true, true
			case a.Op == "EMPTY" && strings.HasPrefix(a.A, "const:"):
				val, known = false, true
			case a.Op == "EQ" && strings.HasPrefix(a.A, "const:") && strings.HasPrefix(a.B, "const:"):
				val, known = a.A == a.B, true
			case a.Op == "EQ" && a.A == a.B:
				val, known = true, true
			}
			if known {
				if val == a.Neg {
					return nil, false
				}
				out = append(out, orig) // settled by the path; the original spelling stays visible to the rules
				continue
			}
			if a.Op == "EQ" && a.A > a.B {
				a.A, a.B, a.TA, a.TB = a.B, a.A, a.TB, a.TA
			}
			out = append(out, orig)
		}
		out = append(out, a)
	}
	return out, true
}

package main

import (
	"go/token"

	"golang.org/x/tools/go/ssa"
)

type condPol struct {
	Cond ssa.Value
	Pol  bool
}

// Path is one simple path (no block visited twice) from the entry block to a
// block ending in Return (or Panic).
type Path struct {
	Blocks []*ssa.BasicBlock
	Conds  []condPol
	Raw    []condPol // the conditions as branched on, before boolean locals were resolved (resolvePhis)
}

func (p *Path) Last() *ssa.BasicBlock { return p.Blocks[len(p.Blocks)-1] }

func (p *Path) Return() *ssa.Return {
	b := p.Last()
	if len(b.Instrs) == 0 {
		return nil
	}
	r, _ := b.Instrs[len(b.Instrs)-1].(*ssa.Return)
	return r
}

func (p *Path) Has(b *ssa.BasicBlock) bool {
	for _, x := range p.Blocks {
		if x == b {
			return true
		}
	}
	return false
}

// Instrs returns the instructions along the path in execution order.
func (p *Path) Instrs() []ssa.Instruction {
	var out []ssa.Instruction
	for _, b := range p.Blocks {
		out = append(out, b.Instrs...)
	}
	return out
}

// enumPaths enumerates simple entry-to-exit paths of fn starting at block from
// (nil = entry). ok=false when more than max paths exist.
func enumPaths(fn *ssa.Function, from *ssa.BasicBlock, max int) (paths []Path, ok bool) {
	if len(fn.Blocks) == 0 {
		return nil, true
	}
	if from == nil {
		from = fn.Blocks[0]
	}
	ok = true
	var cur Path
	on := map[*ssa.BasicBlock]bool{}
	var walk func(b *ssa.BasicBlock)
	walk = func(b *ssa.BasicBlock) {
		if !ok {
			return
		}
		cur.Blocks = append(cur.Blocks, b)
		on[b] = true
		defer func() {
			cur.Blocks = cur.Blocks[:len(cur.Blocks)-1]
			on[b] = false
		}()
		if len(b.Succs) == 0 {
			if len(paths) >= max {
				ok = false
				return
			}
			cp := Path{Blocks: append([]*ssa.BasicBlock(nil), cur.Blocks...), Conds: append([]condPol(nil), cur.Conds...)}
			if cp.resolvePhis() {
				paths = append(paths, cp)
			}
			return
		}
		var ifi *ssa.If
		if len(b.Instrs) > 0 {
			ifi, _ = b.Instrs[len(b.Instrs)-1].(*ssa.If)
		}
		for k, s := range b.Succs {
			if on[s] {
				continue // back edge: one traversal of each loop body is enough for path facts
			}
			if ifi != nil && b.Succs[0] != b.Succs[1] {
				cur.Conds = append(cur.Conds, condPol{ifi.Cond, k == 0})
				walk(s)
				cur.Conds = cur.Conds[:len(cur.Conds)-1]
			} else {
				walk(s)
			}
		}
	}
	walk(from)
	return paths, ok
}

// feasible rejects paths that contradict a local boolean flag: a condition that is a
// (negated) phi of boolean constants is evaluated with the edge the path arrived by.
func (p *Path) feasible() bool {
	for _, c := range p.Conds {
		v := c.Cond
		pol := c.Pol
		for {
			u, ok := v.(*ssa.UnOp)
			if !ok || u.Op != token.NOT {
				break
			}
			v = u.X
			pol = !pol
		}
		phi, ok := v.(*ssa.Phi)
		if !ok {
			continue
		}
		val, known := p.phiValue(phi, 0)
		if known && val != pol {
			return false
		}
	}
	return true
}

// phiValue: boolean value of phi on this path, if the edge taken carries a constant (following nested phis).
func (p *Path) phiValue(phi *ssa.Phi, depth int) (val, known bool) {
	if depth > 8 {
		return false, false
	}
	pb := phi.Block()
	idx := -1
	for i, b := range p.Blocks {
		if b == pb {
			idx = i
			break
		}
	}
	if idx <= 0 {
		return false, false
	}
	prev := p.Blocks[idx-1]
	for i, pred := range pb.Preds {
		if pred != prev {
			continue
		}
		switch e := phi.Edges[i].(type) {
		case *ssa.Const:
			if e.Value == nil {
				return false, false
			}
			s := e.Value.ExactString()
			return s == "true", s == "true" || s == "false"
		case *ssa.Phi:
			return p.phiValue(e, depth+1)
		}
		return false, false
	}
	return false, false
}

// boolFuncOfPaths evaluates, for a valuation of named atoms, whether some path in
// sel is consistent with it (every condition on the path has the value the
// valuation assigns to its atom).
func pathConsistent(p Path, name func(ssa.Value) (string, bool), val map[string]bool) bool {
	for _, c := range p.Conds {
		n, pos := name(c.Cond)
		if n == "" {
			continue
		}
		v, ok := val[n]
		if !ok {
			continue
		}
		want := c.Pol
		if !pos {
			want = !want
		}
		if v != want {
			return false
		}
	}
	return true
}

// APath is a feasible path with its conditions canonicalised to atoms.
type APath struct {
	Path
	Atoms []Atom
	Ret   *ssa.Return
}

// has: the path carries an atom op (with the given polarity) about a typed access path ending in suffix.
func (a *APath) has(op, suffix string, neg bool) bool {
	for _, x := range a.Atoms {
		if x.Op == op && x.Neg == neg && (hasSuffixPath(x.TA, suffix) || x.TB != "" && hasSuffixPath(x.TB, suffix)) {
			return true
		}
	}
	return false
}

func hasSuffixPath(p, suffix string) bool {
	return p == suffix || len(p) > len(suffix) && p[len(p)-len(suffix):] == suffix
}

// atomPaths enumerates the feasible paths of fn with their atoms.
func (fx *Facts) atomPaths(fn *ssa.Function, max int) ([]APath, bool) {
	ps, ok := enumPaths(fn, nil, max)
	if !ok {
		return nil, false
	}
	var out []APath
	for _, p := range ps {
		if !p.feasible() {
			continue
		}
		ap := APath{Path: p, Ret: p.Return()}
		for _, c := range p.Conds {
			ap.Atoms = append(ap.Atoms, fx.atomOf(c.Cond, c.Pol))
		}
		ap.Atoms = fx.expandAtoms(ap.Atoms)
		out = append(out, ap)
	}
	return out, true
}

// boolPaths: for a function returning one bool, the feasible paths split by returned
// value. When the returned value is itself a condition (the last operand of a && / ||
// chain), the path is split in two with that condition added as an atom.
func (fx *Facts) boolPaths(fn *ssa.Function, max int) (truePaths, falsePaths []APath, ok bool) {
	aps, ok := fx.atomPaths(fn, max)
	if !ok {
		return nil, nil, false
	}
	for _, ap := range aps {
		if ap.Ret == nil || len(ap.Ret.Results) != 1 {
			return nil, nil, false
		}
		v := ap.Ret.Results[0]
		if phi, isPhi := v.(*ssa.Phi); isPhi {
			// pick the edge the path arrived by
			pb := phi.Block()
			idx := -1
			for i, b := range ap.Blocks {
				if b == pb {
					idx = i
				}
			}
			if idx > 0 {
				for i, pred := range pb.Preds {
					if pred == ap.Blocks[idx-1] {
						v = phi.Edges[i]
					}
				}
			}
		}
		if c, isC := v.(*ssa.Const); isC && c.Value != nil {
			if c.Value.ExactString() == "true" {
				truePaths = append(truePaths, ap)
			} else {
				falsePaths = append(falsePaths, ap)
			}
			continue
		}
		t := ap
		t.Atoms = append(append([]Atom(nil), ap.Atoms...), fx.atomOf(v, true))
		f := ap
		f.Atoms = append(append([]Atom(nil), ap.Atoms...), fx.atomOf(v, false))
		truePaths = append(truePaths, t)
		falsePaths = append(falsePaths, f)
	}
	return truePaths, falsePaths, true
}

func atomsString(as []Atom) string {
	s := ""
	for i, a := range as {
		if i > 0 {
			s += " & "
		}
		s += a.String()
	}
	return s
}

// atomPathsTo enumerates the feasible simple paths from the entry of fn to block target
// (the path ends when target is entered) with their atoms.
func (fx *Facts) atomPathsTo(target *ssa.BasicBlock, max int) ([]APath, bool) {
	fn := target.Parent()
	var out []APath
	ok := true
	var cur Path
	on := map[*ssa.BasicBlock]bool{}
	var walk func(b *ssa.BasicBlock)
	walk = func(b *ssa.BasicBlock) {
		if !ok {
			return
		}
		cur.Blocks = append(cur.Blocks, b)
		on[b] = true
		defer func() {
			cur.Blocks = cur.Blocks[:len(cur.Blocks)-1]
			on[b] = false
		}()
		if b == target {
			if len(out) >= max {
				ok = false
				return
			}
			p := Path{Blocks: append([]*ssa.BasicBlock(nil), cur.Blocks...), Conds: append([]condPol(nil), cur.Conds...)}
			if p.resolvePhis() && p.feasible() {
				ap := APath{Path: p}
				for _, c := range p.Conds {
					ap.Atoms = append(ap.Atoms, fx.atomOf(c.Cond, c.Pol))
				}
				ap.Atoms = fx.expandAtoms(ap.Atoms)
				out = append(out, ap)
			}
			return
		}
		var ifi *ssa.If
		if len(b.Instrs) > 0 {
			ifi, _ = b.Instrs[len(b.Instrs)-1].(*ssa.If)
		}
		for k, s := range b.Succs {
			if on[s] {
				continue
			}
			if ifi != nil && b.Succs[0] != b.Succs[1] {
				cur.Conds = append(cur.Conds, condPol{ifi.Cond, k == 0})
				walk(s)
				cur.Conds = cur.Conds[:len(cur.Conds)-1]
			} else {
				walk(s)
			}
		}
	}
	walk(fn.Blocks[0])
	return out, ok
}

// resolvePhis rewrites conditions that are boolean locals - a (negated) phi - to the value that arrives on this
// path: a constant decides feasibility (false = the path contradicts the flag), any other value takes the
// phi's place as the condition (`tooShort := false; if min > 0 { tooShort = len(v) < min }; if tooShort {...}`).
func (p *Path) resolvePhis() bool {
	p.Raw = append([]condPol(nil), p.Conds...)
	for i := range p.Conds {
		for depth := 0; depth < 8; depth++ {
			v := p.Conds[i].Cond
			pol := p.Conds[i].Pol
			for {
				u, ok := v.(*ssa.UnOp)
				if !ok || u.Op != token.NOT {
					break
				}
				v = u.X
				pol = !pol
			}
			phi, ok := v.(*ssa.Phi)
			if !ok {
				break
			}
			pb := phi.Block()
			idx := -1
			for bi, b := range p.Blocks {
				if b == pb {
					idx = bi
					break
				}
			}
			if idx <= 0 {
				break
			}
			var edge ssa.Value
			for k, pred := range pb.Preds {
				if pred == p.Blocks[idx-1] {
					edge = phi.Edges[k]
				}
			}
			if edge == nil {
				break
			}
			if c, isC := edge.(*ssa.Const); isC {
				if c.Value == nil {
					break
				}
				s := c.Value.ExactString()
				if s != "true" && s != "false" {
					break
				}
				if (s == "true") != pol {
					return false
				}
				// the condition is settled by the path: make it a tautology that carries no atom
				p.Conds[i] = condPol{edge, pol}
				break
			}
			p.Conds[i] = condPol{edge, pol}
		}
	}
	// drop settled constant conditions
	out := p.Conds[:0]
	for _, c := range p.Conds {
		if _, isC := c.Cond.(*ssa.Const); isC {
			continue
		}
		out = append(out, c)
	}
	p.Conds = out
	return true
}

package main

import (
	"golang.org/x/tools/go/ssa"
)

type condPol struct {
	Cond ssa.Value
	Pol  bool
}

// Path is one simple path (no block visited twice) from the entry block to a
// block ending in Return (or Panic).
type Path struct {
	Blocks []*ssa.BasicBlock
	Conds  []condPol
}

func (p *Path) Last() *ssa.BasicBlock { return p.Blocks[len(p.Blocks)-1] }

func (p *Path) Return() *ssa.Return {
	b := p.Last()
	if len(b.Instrs) == 0 {
		return nil
	}
	r, _ := b.Instrs[len(b.Instrs)-1].(*ssa.Return)
	return r
}

func (p *Path) Has(b *ssa.BasicBlock) bool {
	for _, x := range p.Blocks {
		if x == b {
			return true
		}
	}
	return false
}

// Instrs returns the instructions along the path in execution order.
func (p *Path) Instrs() []ssa.Instruction {
	var out []ssa.Instruction
	for _, b := range p.Blocks {
		out = append(out, b.Instrs...)
	}
	return out
}

// enumPaths enumerates simple entry-to-exit paths of fn starting at block from
// (nil = entry). ok=false when more than max paths exist.
func enumPaths(fn *ssa.Function, from *ssa.BasicBlock, max int) (paths []Path, ok bool) {
	if len(fn.Blocks) == 0 {
		return nil, true
	}
	if from == nil {
		from = fn.Blocks[0]
	}
	ok = true
	var cur Path
	on := map[*ssa.BasicBlock]bool{}
	var walk func(b *ssa.BasicBlock)
	walk = func(b *ssa.BasicBlock) {
		if !ok {
			return
		}
		cur.Blocks = append(cur.Blocks, b)
		on[b] = true
		defer func() {
			cur.Blocks = cur.Blocks[:len(cur.Blocks)-1]
			on[b] = false
		}()
		if len(b.Succs) == 0 {
			if len(paths) >= max {
				ok = false
				return
			}
			cp := Path{Blocks: append([]*ssa.BasicBlock(nil), cur.Blocks...), Conds: append([]condPol(nil), cur.Conds...)}
			paths = append(paths, cp)
			return
		}
		var ifi *ssa.If
		if len(b.Instrs) > 0 {
			ifi, _ = b.Instrs[len(b.Instrs)-1].(*ssa.If)
		}
		for k, s := range b.Succs {
			if on[s] {
				continue // back edge: one traversal of each loop body is enough for path facts
			}
			if ifi != nil && b.Succs[0] != b.Succs[1] {
				cur.Conds = append(cur.Conds, condPol{ifi.Cond, k == 0})
				walk(s)
				cur.Conds = cur.Conds[:len(cur.Conds)-1]
			} else {
				walk(s)
			}
		}
	}
	walk(from)
	return paths, ok
}

// boolFuncOfPaths evaluates, for a valuation of named atoms, whether some path in
// sel is consistent with it (every condition on the path has the value the
// valuation assigns to its atom).
func pathConsistent(p Path, name func(ssa.Value) (string, bool), val map[string]bool) bool {
	for _, c := range p.Conds {
		n, pos := name(c.Cond)
		if n == "" {
			continue
		}
		v, ok := val[n]
		if !ok {
			continue
		}
		want := c.Pol
		if !pos {
			want = !want
		}
		if v != want {
			return false
		}
	}
	return true
}

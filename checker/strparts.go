package main

import (
	"fmt"
	"go/token"
	"sort"
	"strings"

	"golang.org/x/tools/go/ssa"
)

// ---------------------------------------------------------------------------
// String composition: the ordered pieces a string value is put together from.
//
//   a + b                         parts(a) ++ parts(b)
//   fmt.Sprintf("lit%slit", x)    literal pieces and the %s / %v arguments, in order (only %s / %v verbs)
//   f(args) for a module function with one return       parts of the returned value with parameters replaced by
//                                                       the arguments of this call
//   a local strings.Builder written in straight-line code   the written pieces in order
//
// Anything else is a leaf (the value itself). Rules then say what the leaves must be, in order - so the same rule
// accepts `fmt.Sprintf("%s?%s", u, q)`, `u + "?" + q` and a helper that returns either.
// ---------------------------------------------------------------------------

type strPart struct {
	Lit   string    // literal text (Val == nil)
	Val   ssa.Value // a non-literal piece
	IsLit bool
	Sub   map[*ssa.Parameter]ssa.Value // the parameter bindings under which Val was reached (helper calls followed)
}

func (cx *Ctx) strParts(v ssa.Value) []strPart {
	return cx.strParts0(v, map[*ssa.Parameter]ssa.Value{}, 0)
}

func (cx *Ctx) strParts0(v ssa.Value, sub map[*ssa.Parameter]ssa.Value, depth int) []strPart {
	if depth > 12 {
		return []strPart{{Val: v}}
	}
	if s, ok := constString(v); ok {
		return []strPart{{Lit: s, IsLit: true}}
	}
	switch x := v.(type) {
	case *ssa.Parameter:
		if a, ok := sub[x]; ok {
			// the argument is evaluated in the caller: no substitution applies to it
			return cx.strParts0(a, map[*ssa.Parameter]ssa.Value{}, depth+1)
		}
	case *ssa.BinOp:
		if x.Op == token.ADD && isStringType(x.Type()) {
			return append(cx.strParts0(x.X, sub, depth+1), cx.strParts0(x.Y, sub, depth+1)...)
		}
	case *ssa.ChangeType:
		return cx.strParts0(x.X, sub, depth+1)
	case *ssa.Convert:
		// []byte(s) / string(b): the same text
		if isStringType(x.X.Type()) || isStringType(x.Type()) {
			return cx.strParts0(x.X, sub, depth+1)
		}
	case *ssa.MakeSlice:
		// make([]byte, 0, n): nothing yet
		if k, ok := constInt(x.Len); ok && k == 0 {
			return nil
		}
	case *ssa.Slice:
		if x.Low == nil && x.High == nil && x.Max == nil {
			return cx.strParts0(x.X, sub, depth+1)
		}
	case *ssa.UnOp:
		// a local assigned exactly once
		if x.Op == token.MUL {
			if cell, ok := x.X.(*ssa.Alloc); ok {
				if st := cx.Fx.storesToCell(cell); len(st) == 1 {
					return cx.strParts0(st[0], sub, depth+1)
				}
			}
			// a variable of the enclosing function, assigned once there (`prefix := scheme(flag) + "://"` captured by
			// the per-request closure)
			if fv, ok := x.X.(*ssa.FreeVar); ok {
				if cell := cx.Fx.ownerCell(fv); cell != nil {
					if st := cx.Fx.storesToCell(cell); len(st) == 1 {
						return cx.strParts0(st[0], map[*ssa.Parameter]ssa.Value{}, depth+1)
					}
				}
			}
		}
	case *ssa.Call:
		// append(octets, text...): concatenation
		if b, isB := x.Call.Value.(*ssa.Builtin); isB && b.Name() == "append" && len(x.Call.Args) == 2 {
			return append(cx.strParts0(x.Call.Args[0], sub, depth+1), cx.strParts0(x.Call.Args[1], sub, depth+1)...)
		}
		name := calleeName(x)
		if name == "(*strings.Builder).String" && len(x.Call.Args) == 1 {
			if al, ok := x.Call.Args[0].(*ssa.Alloc); ok {
				// a local Builder written in straight-line code: every write dominates the String() call
				type wr struct {
					c   *ssa.Call
					arg ssa.Value
				}
				var ws []wr
				okB := true
				for _, ref := range nonDebugRefs(al) {
					c, isC := ref.(*ssa.Call)
					if !isC {
						okB = false
						break
					}
					switch calleeName(c) {
					case "(*strings.Builder).WriteString":
						if !(c.Block() == x.Block() && instrIndex(c) < instrIndex(x) || c.Block() != x.Block() && c.Block().Dominates(x.Block())) {
							okB = false
						}
						ws = append(ws, wr{c, c.Call.Args[1]})
					case "(*strings.Builder).String", "(*strings.Builder).Len", "(*strings.Builder).Grow":
					default:
						okB = false
					}
				}
				if okB && len(ws) > 0 {
					sort.SliceStable(ws, func(i, j int) bool {
						bi, bj := ws[i].c.Block(), ws[j].c.Block()
						if bi == bj {
							return instrIndex(ws[i].c) < instrIndex(ws[j].c)
						}
						return bi.Dominates(bj)
					})
					var out []strPart
					for _, w := range ws {
						out = append(out, cx.strParts0(w.arg, sub, depth+1)...)
					}
					return out
				}
			}
		}
		if name == "fmt.Sprintf" && len(x.Call.Args) == 2 {
			if f, ok := constString(x.Call.Args[0]); ok {
				if parts, ok := cx.sprintfParts(f, x.Call.Args[1], sub, depth); ok {
					return parts
				}
			}
		}
		if f := calleeOf(x); f != nil && f.Blocks != nil && f.Pkg != nil && isModulePath(f.Pkg.Pkg.Path()) && f.Signature.Results().Len() == 1 && isStringType(f.Signature.Results().At(0).Type()) {
			if vf := cx; vf != nil {
				if rets := returnsOf(f); len(rets) == 1 && cx.stopParts == nil || len(rets) == 1 && !cx.stopParts(x) {
					ns := map[*ssa.Parameter]ssa.Value{}
					for i, p := range f.Params {
						if i < len(x.Call.Args) {
							a := x.Call.Args[i]
							// an argument that is itself a parameter under substitution
							if ap, isP := a.(*ssa.Parameter); isP {
								if aa, ok := sub[ap]; ok {
									a = aa
								}
							}
							ns[p] = a
						}
					}
					return cx.strParts0(rets[0].Results[0], ns, depth+1)
				}
			}
		}
	}
	return []strPart{{Val: v, Sub: sub}}
}

func (cx *Ctx) sprintfParts(format string, args ssa.Value, sub map[*ssa.Parameter]ssa.Value, depth int) ([]strPart, bool) {
	var out []strPart
	var lit strings.Builder
	argi := int64(0)
	for i := 0; i < len(format); i++ {
		c := format[i]
		if c != '%' {
			lit.WriteByte(c)
			continue
		}
		if i+1 >= len(format) {
			return nil, false
		}
		i++
		switch format[i] {
		case '%':
			lit.WriteByte('%')
		case 's', 'v':
			if lit.Len() > 0 {
				out = append(out, strPart{Lit: lit.String(), IsLit: true})
				lit.Reset()
			}
			e := varargElem(args, argi)
			argi++
			if e == nil {
				return nil, false
			}
			out = append(out, cx.strParts0(e, sub, depth+1)...)
		default:
			return nil, false
		}
	}
	if lit.Len() > 0 {
		out = append(out, strPart{Lit: lit.String(), IsLit: true})
	}
	return out, true
}

// mergeLits joins adjacent literal parts.
func mergeLits(ps []strPart) []strPart {
	var out []strPart
	for _, p := range ps {
		if p.IsLit && p.Lit == "" {
			continue
		}
		if p.IsLit && len(out) > 0 && out[len(out)-1].IsLit {
			out[len(out)-1].Lit += p.Lit
			continue
		}
		out = append(out, p)
	}
	return out
}

// checkRedirectTarget: the URL handed to http.Redirect in sendBackResponse is Response.AcsUrl, a '?' (or a choice
// between the constants '?' and '&'), and the result of BuildRedirectQuery - in this order and nothing else; in
// particular the query that was signed is sent as built, not edited afterwards.
func (cx *Ctx) checkRedirectTarget(r *Report, rule string) {
	w := cx.W
	sb := w.Func("provider.(*Response).sendBackResponse")
	if sb == nil {
		r.Fail(rule, "sendBackResponse:redirect-target", "", "anchor not found")
		return
	}
	lvf := cx.vflow("provider.(*Response).sendBackResponse")
	isQuery := func(c *ssa.Call) bool {
		f := calleeOf(c)
		return f != nil && w.FuncKey(f) == "provider.BuildRedirectQuery"
	}
	cx.stopParts = isQuery
	defer func() { cx.stopParts = nil }()
	n := 0
	var all []ssa.CallInstruction
	for _, g := range cx.privateHelpers(sb) {
		all = append(all, callsIn(g)...)
	}
	for _, c := range all {
		if calleeName(c) != "net/http.Redirect" || len(c.Common().Args) < 3 {
			continue
		}
		n++
		parts := mergeLits(cx.strParts(c.Common().Args[2]))
		bad := ""
		if len(parts) != 3 {
			bad = "the redirect target is composed of " + describeParts(cx, parts)
		} else {
			ll := lvf.Labels(parts[0].Val).leaves()
			if parts[0].IsLit || len(ll) != 1 || ll[0] != "param:provider.(*Response).sendBackResponse/#0.AcsUrl" {
				bad = "the redirect target does not start with Response.AcsUrl (" + describeParts(cx, parts) + ")"
			}
			sepOK := parts[1].IsLit && parts[1].Lit == "?"
			if phi, isPhi := parts[1].Val.(*ssa.Phi); isPhi && !parts[1].IsLit {
				sepOK = true
				for _, e := range phi.Edges {
					if s, ok := constString(e); !ok || s != "?" && s != "&" {
						sepOK = false
					}
				}
			}
			if !sepOK {
				bad = "consumer URL and query are not joined by '?' (" + describeParts(cx, parts) + ")"
			}
			qc, isCall := parts[2].Val.(*ssa.Call)
			if parts[2].IsLit || !isCall || !isQuery(qc) {
				bad = "the query sent is not the result of BuildRedirectQuery as built - the octets that were signed (" + describeParts(cx, parts) + ")"
			}
		}
		r.Check(bad == "", rule, "sendBackResponse:redirect-target", w.InstrPos(c), "redirects to Response.AcsUrl + '?' + BuildRedirectQuery(...)", bad)
	}
	if n == 0 {
		r.Fail(rule, "sendBackResponse:redirect-target", w.FnPos(sb), "no redirect delivery found in sendBackResponse")
	}
}

func describeParts(cx *Ctx, ps []strPart) string {
	var s []string
	for _, p := range ps {
		if p.IsLit {
			s = append(s, `"`+p.Lit+`"`)
		} else {
			s = append(s, cx.Fx.T(cx.Fx.path(p.Val)))
		}
	}
	return strings.Join(s, " + ")
}

// strAlt is one of the values a string-valued expression can take, with the atoms that hold where it is chosen.
type strAlt struct {
	Val   ssa.Value
	Atoms []Atom
	Tag   string
}

// strAlts expands a value chosen among several - a phi (a local assigned in the arms of a test) or a cell with
// several stores - into its alternatives. The atoms of an alternative are those holding on the edge that selects it
// (phi) or at the store (cell); a plain value has the atoms holding at `at`.
func (cx *Ctx) strAlts(v ssa.Value, at ssa.Instruction) []strAlt {
	fx := cx.Fx
	var out []strAlt
	seen := map[ssa.Value]bool{}
	var walk func(v ssa.Value, atoms []Atom, tag string, depth int)
	walk = func(v ssa.Value, atoms []Atom, tag string, depth int) {
		if depth > 6 || seen[v] {
			out = append(out, strAlt{v, atoms, tag})
			return
		}
		switch x := v.(type) {
		case *ssa.Phi:
			seen[v] = true
			for i, e := range x.Edges {
				pred := x.Block().Preds[i]
				walk(e, append(append([]Atom{}, atoms...), fx.AtomsOnEdge(pred, x.Block())...), fmt.Sprintf("%s/%d", tag, i), depth+1)
			}
			return
		case *ssa.UnOp:
			if x.Op == token.MUL {
				if cell, ok := x.X.(*ssa.Alloc); ok {
					var sts []*ssa.Store
					for _, ref := range nonDebugRefs(cell) {
						if st, ok := ref.(*ssa.Store); ok && st.Addr == cell {
							sts = append(sts, st)
						}
					}
					if len(sts) > 1 {
						seen[v] = true
						for i, st := range sts {
							walk(st.Val, append(append([]Atom{}, atoms...), fx.AtomsAt(st)...), fmt.Sprintf("%s/s%d", tag, i), depth+1)
						}
						return
					}
				}
			}
		}
		out = append(out, strAlt{v, atoms, tag})
	}
	walk(v, fx.AtomsAt(at), "", 0)
	return out
}

// strPartAlt is one way a string is put together: its pieces in order and the atoms that hold when it is built so.
type strPartAlt struct {
	Parts []strPart
	Atoms []Atom
	Tag   string
}

// strPartAlts expands a string built along several paths - `s := a; if c { s += b }; s += d` (a phi in the middle of
// a concatenation), or a local assigned in both arms of a test - into its alternatives (at most 16).
func (cx *Ctx) strPartAlts(v ssa.Value, at ssa.Instruction) []strPartAlt {
	fx := cx.Fx
	var rec func(v ssa.Value, depth int) []strPartAlt
	rec = func(v ssa.Value, depth int) []strPartAlt {
		if depth > 8 {
			return []strPartAlt{{Parts: cx.strParts(v)}}
		}
		switch x := v.(type) {
		case *ssa.Call:
			if b, isB := x.Call.Value.(*ssa.Builtin); isB && b.Name() == "append" && len(x.Call.Args) == 2 {
				var out []strPartAlt
				for _, l := range rec(x.Call.Args[0], depth+1) {
					for _, r := range rec(x.Call.Args[1], depth+1) {
						if len(out) >= 16 {
							break
						}
						out = append(out, strPartAlt{append(append([]strPart{}, l.Parts...), r.Parts...), append(append([]Atom{}, l.Atoms...), r.Atoms...), l.Tag + r.Tag})
					}
				}
				return out
			}
		case *ssa.BinOp:
			if x.Op == token.ADD && isStringType(x.Type()) {
				var out []strPartAlt
				for _, l := range rec(x.X, depth+1) {
					for _, r := range rec(x.Y, depth+1) {
						if len(out) >= 16 {
							break
						}
						out = append(out, strPartAlt{append(append([]strPart{}, l.Parts...), r.Parts...), append(append([]Atom{}, l.Atoms...), r.Atoms...), l.Tag + r.Tag})
					}
				}
				return out
			}
		case *ssa.Phi:
			var out []strPartAlt
			for i, e := range x.Edges {
				if e == ssa.Value(x) {
					continue
				}
				ea := fx.AtomsOnEdge(x.Block().Preds[i], x.Block())
				for _, a := range rec(e, depth+1) {
					if len(out) >= 16 {
						break
					}
					out = append(out, strPartAlt{a.Parts, append(append([]Atom{}, a.Atoms...), ea...), fmt.Sprintf("%s/%d", a.Tag, i)})
				}
			}
			if len(out) > 0 {
				return out
			}
		case *ssa.UnOp:
			if x.Op == token.MUL {
				if cell, ok := x.X.(*ssa.Alloc); ok {
					var sts []*ssa.Store
					for _, ref := range nonDebugRefs(cell) {
						if st, ok := ref.(*ssa.Store); ok && st.Addr == ssa.Value(cell) {
							sts = append(sts, st)
						}
					}
					if len(sts) > 1 {
						var out []strPartAlt
						for i, st := range sts {
							for _, a := range rec(st.Val, depth+1) {
								if len(out) >= 16 {
									break
								}
								out = append(out, strPartAlt{a.Parts, append(append([]Atom{}, a.Atoms...), fx.AtomsAt(st)...), fmt.Sprintf("%s/s%d", a.Tag, i)})
							}
						}
						return out
					}
				}
			}
		}
		return []strPartAlt{{Parts: cx.strParts(v)}}
	}
	base := fx.AtomsAt(at)
	out := rec(v, 0)
	for i := range out {
		out[i].Atoms = append(append([]Atom{}, base...), out[i].Atoms...)
	}
	return out
}

package main

import (
	"fmt"
	"go/types"
	"strings"

	"golang.org/x/tools/go/ssa"
)

func init() { register("C01", checkC01) }

func checkC01(cx *Ctx, r *Report) {
	w, fx := cx.W, cx.Fx
	cx.checkFailedResponsesFresh(r)
	cx.checkRecoverReports(r, cx.handlerScope())
	// storage is asked with the request's context (which carries the issuer / tenant in effect): keys, providers and
	// users are those of this request
	cx.checkStorageContext(r)
	cx.checkStorageIsTheApplications(r)
	// a failed reply must not carry an earlier Success message kept somewhere else (shared with C18)
	cx.checkSendsWhatItIsGiven(r)
	// request data must not be shared between requests through recycled buffers (R-POOL, see C15)
	cx.checkPoolEscape(r)
	r.Clauses = []string{
		"gate: in loginResponse the user-info lookup, key retrieval, the Success constructor and signing are all dominated by the passing edge of Done() of the request passed in; every return of a response has passed all of them with nil errors, every error return carries no response",
		"the request handed to loginResponse is result #0 of Storage.AuthRequestByID(ctx, Form.Get(\"id\")) on its nil-error edge; empty id and every failure end in an error reply",
		"only the three Success constructors read StatusCodeSuccess; every failed reply of the callback carries a non-Success status constant; sendBackResponse serialises exactly the response it is given",
		"failed replies carry no user data: nothing reachable from makeFailedResponse / errorResponse builds an assertion, reads user attributes or signs; Response.Signature/SigAlg are written only by createSignature",
	}
	r.NotDec = []string{"whether the storage's Done() reflects reality across interleavings (storage is outside the module)", "placement of id in query vs body (net/http)"}
	r.Assume = []string{"storage returns the authentication request it was asked for"}

	lr := w.Func("provider.(*IdentityProvider).loginResponse")
	cb := w.Func(kCallback)
	if lr == nil || cb == nil {
		r.Fail("R-GUARD", "anchors", "", "loginResponse / callbackHandleFunc not found")
		return
	}
	// --- gate -----------------------------------------------------------------------------
	doneAtom := func(atoms []Atom) bool {
		for _, a := range atoms {
			if a.Op == "CALL:iface:models.AuthRequestInt.Done" && !a.Neg && a.TA == "<models.AuthRequestInt>" {
				return true
			}
		}
		return false
	}
	gated := []struct {
		name  string
		match func(ssa.CallInstruction) bool
	}{
		{"SetUserinfoWithUserID", matchStorage("SetUserinfoWithUserID")},
		{"getResponseCert", func(c ssa.CallInstruction) bool {
			f := calleeOf(c)
			return f != nil && f == cx.fnCallingStorage("GetResponseSigningKey")
		}},
		{"makeSuccessfulResponse", matchFnKey(w, "provider.(*Response).makeSuccessfulResponse")},
		{"createSignature", matchFnKey(w, "provider.createSignature")},
	}
	lrScope := w.scopeOf(lr)
	okInside := map[ssa.CallInstruction]bool{}
	var gateErrs []ssa.Value
	for _, g := range gated {
		cs := w.callsTo(lrScope, g.match)
		var inLR []ssa.CallInstruction
		for _, c := range cs {
			// a gated effect moved into a helper of loginResponse (`attrs, err := p.userAttributes(ctx, req)`): the helper is
			// unexported, never used as a value and called from one place - the effect stands for that call, and the
			// atoms holding at the call hold inside the helper
			if lifted := cx.liftToCaller(c, lr); lifted != nil && lifted != c && doneAtom(fx.AtomsAt(c)) {
				// (Done() may have been tested inside that helper, on the request it was handed, or before its call)
				okInside[lifted] = true
				c = lifted
			}
			if c.Parent() == lr {
				inLR = append(inLR, c)
			} else if g.name != "getResponseCert" && g.name != "createSignature" || c.Parent().Parent() != nil {
				// a gated effect inside a helper/closure of loginResponse: the dominance argument does not see it
				if w.FuncKey(c.Parent()) != "provider.(*Response).makeSuccessfulResponse" {
					r.Fail("R-GUARD", "loginResponse:"+g.name+"@"+w.FuncKey(c.Parent()), w.InstrPos(c), g.name+" is reached from loginResponse through "+w.FuncKey(c.Parent())+", outside the Done() gate's dominance")
				}
			}
		}
		if len(inLR) != 1 {
			r.Fail("R-GUARD", "loginResponse:"+g.name, w.FnPos(lr), fmt.Sprintf("%d call sites of %s in loginResponse (expected exactly one, after the Done() test)", len(inLR), g.name))
			continue
		}
		c := inLR[0]
		r.Check(doneAtom(fx.AtomsAt(c)) || okInside[c], "R-GUARD", "loginResponse:"+g.name, w.InstrPos(c), "dominated by authRequest.Done() == true", g.name+" can run for a request whose Done() was not checked or is false")
		if call, ok := c.(*ssa.Call); ok {
			if e, has, _ := errResult(call); has && e != nil {
				gateErrs = append(gateErrs, e)
			}
		}
	}
	// returns of loginResponse
	aps, ok := fx.atomPaths(lr, 4096)
	if !ok {
		r.Undecided("R-GUARD", "loginResponse:returns", w.FnPos(lr), "too many paths")
	} else {
		bad := ""
		nSucc := 0
		for i := range aps {
			p := &aps[i]
			resp, errv := fx.retVal(p, 0), fx.retVal(p, 1)
			isNil, nonNil := fx.errNilness(p, errv)
			switch {
			case nonNil:
				if !isNilConst(resp) {
					bad = "an error return of loginResponse also returns a response at " + w.InstrPos(p.Ret)
				}
			case isNil:
				nSucc++
				if !doneAtom(p.Atoms) {
					bad = "loginResponse returns a response on a path that did not pass authRequest.Done() (" + w.InstrPos(p.Ret) + ")"
				}
				for _, e := range gateErrs {
					okE := false
					for _, cp := range p.Conds {
						if x, tnn, isNT := nilTest(cp.Cond); isNT && cp.Pol != tnn {
							for _, a := range fx.aliasesOf(e) {
								if a == x {
									okE = true
								}
							}
						}
					}
					if !okE {
						bad = "loginResponse returns a response although the error of " + fx.path(e) + " was not found nil on the path (" + w.InstrPos(p.Ret) + ")"
					}
				}
				// the response returned is the one built by makeSuccessfulResponse
				if c, isCall := resp.(*ssa.Call); !isCall || calleeOf(c) == nil || w.FuncKey(calleeOf(c)) != "provider.(*Response).makeSuccessfulResponse" {
					bad = "the response returned on success is not the result of makeSuccessfulResponse in loginResponse (" + w.InstrPos(p.Ret) + ")"
				}
			default:
				// `return p.signedSuccessfulResponse(ctx, response, attrs)`: both results are those of one piece of
				// loginResponse - its returns are judged instead, with what holds at its call
				okTail := false
				if ex0, is0 := resp.(*ssa.Extract); is0 && ex0.Index == 0 {
					if ex1, is1 := errv.(*ssa.Extract); is1 && ex1.Index == 1 && ex1.Tuple == ex0.Tuple {
						if hc, isC := ex0.Tuple.(*ssa.Call); isC {
							if h := calleeOf(hc); h != nil {
								for _, piece := range cx.privateHelpers(lr) {
									if piece == h && h != lr {
										if why := cx.loginTailReturns(h, doneAtom(p.Atoms) || doneAtom(fx.AtomsAt(hc)), doneAtom, gated0(gated)); why == "" {
											okTail = true
											nSucc++
										} else {
											bad = why
										}
									}
								}
							}
						}
					}
				}
				if !okTail && bad == "" {
					bad = "a return of loginResponse with an error value of unknown nil-ness at " + w.InstrPos(p.Ret)
				}
			}
		}
		r.Check(bad == "" && nSucc > 0, "R-GUARD", "loginResponse:returns", w.FnPos(lr), fmt.Sprintf("%d success path(s): Done() passed, all gated calls returned nil; error returns carry no response", nSucc), bad)
	}
	// no concurrency inside the gate
	for f := range lrScope {
		for _, b := range f.Blocks {
			for _, in := range b.Instrs {
				if _, isGo := in.(*ssa.Go); isGo {
					r.Fail("R-GUARD", "loginResponse:go@"+w.FuncKey(f), w.InstrPos(in), "a goroutine is started while building the login response: the sequential gate argument does not hold")
				}
			}
		}
	}

	// --- callback -----------------------------------------------------------------------------
	vf := cx.vflow(kCallback)
	ls, sites := vf.CallArgSources(matchFnKey(w, "provider.(*IdentityProvider).loginResponse"), 2)
	if len(sites) != 1 {
		r.Fail("R-VFG", "callback:loginResponse:request", "", fmt.Sprintf("%d call sites of loginResponse in the callback handler's scope", len(sites)))
	} else {
		r.checkSources("R-VFG", "callback:loginResponse:request", w.InstrPos(sites[0]), ls, []string{"ext:iface:provider.IDPStorage.AuthRequestByID#0"}, []string{"ext:iface:provider.IDPStorage.AuthRequestByID#0"}, true)
		// on the nil-error edge of the lookup
		okEdge := false
		for _, c := range callsIn(cb) {
			if storageMethod(c) == "AuthRequestByID" {
				if call, isCall := c.(*ssa.Call); isCall {
					if e, has, _ := errResult(call); has && e != nil {
						for _, a := range fx.AtomsAt(sites[0]) {
							if a.Op == "NIL" && !a.Neg {
								if x, _, isNT := nilTest(a.Cond); isNT {
									for _, al := range fx.aliasesOf(e) {
										if al == x {
											okEdge = true
										}
									}
								}
							}
						}
					}
				}
			}
		}
		r.Check(okEdge, "R-GUARD", "callback:loginResponse:lookup-ok", w.InstrPos(sites[0]), "reached only on the nil-error edge of AuthRequestByID", "loginResponse can be reached although looking up the stored request failed")
	}
	ls, sites = vf.CallArgSources(matchStorage("AuthRequestByID"), 1)
	idLeaf := `ext:(url.Values).Get("id")#0`
	if len(sites) != 1 {
		r.Fail("R-VFG", "callback:AuthRequestByID:id", "", fmt.Sprintf("%d call sites of AuthRequestByID in the callback handler's scope", len(sites)))
	} else {
		// ("" only as what a helper hands back together with its error: the empty id is refused, see below)
		r.checkSources("R-VFG", "callback:AuthRequestByID:id", w.InstrPos(sites[0]), ls, []string{idLeaf, "const:"}, []string{idLeaf}, true)
		emptyGuard := false
		for _, a := range fx.AtomsAt(sites[0]) {
			if a.Op == "EMPTY" && a.Neg {
				emptyGuard = true
			}
		}
		r.Check(emptyGuard, "R-GUARD", "callback:id-nonempty", w.InstrPos(sites[0]), "lookup only for a non-empty id", "the stored request is looked up with an empty id")
	}
	cx.checkErrReply(r, "R-ERR", kCallback, cb)
	cx.checkEmitExactlyOne(r, "R-EMIT", kCallback, cb)
	cx.checkErrPropagation(r, "R-ERR", "provider.(*IdentityProvider).loginResponse", lr)
	// every function loginResponse relies on hands its failures up (a swallowed signing or key error would
	// let an unsigned / half-built Success response through)
	for _, g := range w.sortedFuncs(lrScope) {
		res := g.Signature.Results()
		if g == lr || res.Len() == 0 || !isErrorType(res.At(res.Len()-1).Type()) {
			continue
		}
		cx.checkErrPropagation(r, "R-ERR", w.FuncKey(g), g)
	}

	// every sendBackResponse in the callback sends a failed response or the result of loginResponse under err == nil
	for _, c := range callsIn(cb) {
		f := calleeOf(c)
		if f == nil || w.FuncKey(f) != "provider.(*Response).sendBackResponse" {
			continue
		}
		if cx.isErrorReply(c) {
			r.Ok("R-GUARD", "callback:send@"+w.InstrPos(c), w.InstrPos(c), "sends a freshly built failed response")
			continue
		}
		resp := c.Common().Args[3]
		okS := false
		// one send for both outcomes: the variable holds the result of loginResponse where its error was found nil
		// and a freshly built failed response where it was not
		if phi, isPhi := resp.(*ssa.Phi); isPhi {
			okAll := len(phi.Edges) > 0
			for j, ev := range phi.Edges {
				if j >= len(phi.Block().Preds) {
					okAll = false
					break
				}
				pred := phi.Block().Preds[j]
				switch x := ev.(type) {
				case *ssa.Call:
					mf := calleeOf(x)
					if mf == nil || (w.FuncKey(mf) != "provider.(*Response).makeFailedResponse" && w.FuncKey(mf) != "provider.(*IdentityProvider).errorResponse") {
						okAll = false
					}
				case *ssa.Extract:
					lc, isCall := x.Tuple.(*ssa.Call)
					okEdge := false
					if isCall && x.Index == 0 && calleeOf(lc) == lr {
						if e, has, _ := errResult(lc); has && e != nil {
							pe := fx.path(e)
							for _, a := range fx.AtomsOnEdge(pred, phi.Block()) {
								if a.Op == "NIL" && !a.Neg && a.A == pe {
									okEdge = true
								}
							}
						}
					}
					if !okEdge {
						okAll = false
					}
				default:
					okAll = false
				}
			}
			okS = okAll
		}
		if ex, isEx := resp.(*ssa.Extract); isEx && ex.Index == 0 {
			if lc, isCall := ex.Tuple.(*ssa.Call); isCall && calleeOf(lc) == lr {
				if e, has, _ := errResult(lc); has && e != nil {
					for _, a := range fx.AtomsAt(c) {
						if a.Op == "NIL" && !a.Neg {
							if x, _, isNT := nilTest(a.Cond); isNT {
								for _, al := range fx.aliasesOf(e) {
									if al == x {
										okS = true
									}
								}
							}
						}
					}
				}
			}
		}
		r.Check(okS, "R-GUARD", "callback:send@"+w.InstrPos(c), w.InstrPos(c), "sends result #0 of loginResponse on its nil-error edge", "the callback sends a response that is neither a failed response nor the result of loginResponse under a nil error")
	}

	// --- Success constants and failed reasons ---------------------------------------------------
	cx.checkStatusGlobals(r)
	cbScope := w.scopeOf(cb)
	for _, c := range w.callsTo(cbScope, matchFnKey(w, "provider.(*Response).makeFailedResponse", "provider.(*IdentityProvider).errorResponse")) {
		idx := 1
		if w.FuncKey(calleeOf(c)) == "provider.(*IdentityProvider).errorResponse" {
			idx = 2
		}
		if c.Parent() != cb {
			continue // errorResponse forwards its own parameter
		}
		// ... and the message next to it says nothing about the user: no subject identifier, no attribute value, and
		// not the text of the user-info lookup's error (which storage composes from the user's record)
		if idx+1 < len(c.Common().Args) {
			var leaks []string
			msgL := vf.Deep(vf.Labels(c.Common().Args[idx+1]))
			// a message taken out of an error value (errors.Unwrap / errors.As / a method of a typed error): everything
			// the module's error types can carry may end up in it
			fromErr := false
			for l := range msgL {
				if strings.HasPrefix(l, "ext:errors.") || strings.HasPrefix(l, "alloc:{") || strings.HasPrefix(l, "dyncall:") {
					fromErr = true
				}
			}
			if fromErr {
				for _, fn := range w.Funcs {
					recv := fn.Signature.Recv()
					if recv == nil || fn.Name() != "Error" || !vf.scope[fn] && false {
						continue
					}
					st, isSt := derefType(recv.Type()).Underlying().(*types.Struct)
					if !isSt {
						continue
					}
					tk := typeKey(derefType(recv.Type()))
					for i := 0; i < st.NumFields(); i++ {
						fl, sites := vf.FieldStoreSources(tk, fname(st.Field(i)))
						if len(sites) > 0 {
							for l2, f2 := range vf.Deep(fl) {
								msgL[l2] |= f2
							}
						}
					}
				}
			}
			for _, l := range msgL.leaves() {
				if strings.Contains(l, "AuthRequestInt.GetUserID#") || strings.HasPrefix(l, "param:provider.(*Attributes).") || strings.Contains(l, ".SetUserinfoWithUserID#") || strings.HasPrefix(l, "alloc:{provider.Attributes}") {
					leaks = append(leaks, l)
				}
			}
			r.Check(len(leaks) == 0, "R-VFG", "callback:failed-message@"+w.InstrPos(c), w.InstrPos(c), "the status message of a failed reply carries no user data", "the status message of a failed reply can carry "+strings.Join(leaks, ", ")+": a non-Success reply discloses the subject identifier / user data")
		}
		okR, why := nonSuccessReason(cx.expandErrorObjects(vf, vf.Labels(c.Common().Args[idx])))
		r.Check(okR, "R-VFG", "callback:failed-reason@"+w.InstrPos(c), w.InstrPos(c), "non-Success status constant", "a failure reply of the callback can carry the status "+why)
	}
	// sendBackResponse serialises exactly its parameter
	if sb := w.Func("provider.(*Response).sendBackResponse"); sb != nil {
		lvf := cx.newVFlow("sendBackResponse", sb)
		ls, sites := lvf.CallArgSources(matchFnKey(w, "xml.Marshal"), 0)
		if len(sites) == 0 {
			r.Fail("R-VFG", "sendBackResponse:marshal", w.FnPos(sb), "sendBackResponse no longer marshals its response")
		} else {
			r.checkSources("R-VFG", "sendBackResponse:marshal", w.InstrPos(sites[0]), ls, []string{"param:provider.(*Response).sendBackResponse/#3"}, []string{"param:provider.(*Response).sendBackResponse/#3"}, true)
		}
		for _, c := range w.callsTo(w.scopeOf(sb), matchFnKey(w, "provider.(*Response).makeFailedResponse", "provider.makeResponse", "provider.(*Response).makeSuccessfulResponse")) {
			r.Fail("R-VFG", "sendBackResponse:builds-response", w.InstrPos(c), "sendBackResponse builds a response of its own: what is sent is not what the caller decided to send")
		}
	}
	// --- failed replies carry no user data ------------------------------------------------------
	for _, fk := range []string{"provider.(*Response).makeFailedResponse", "provider.(*IdentityProvider).errorResponse"} {
		f := w.Func(fk)
		if f == nil {
			r.Fail("R-WHO", fk, "", "anchor function not found")
			continue
		}
		sc := w.scopeOf(f)
		bad := ""
		for g := range sc {
			for _, st := range fx.info(g).stores {
				if fa, ok := st.Addr.(*ssa.FieldAddr); ok {
					o := fieldOwner(fa.X.Type())
					fn := fname(fieldVar(fa.X.Type(), fa.Field))
					if o == "saml.AssertionType" || o == "samlp.ResponseType" && (fn == "Assertion" || fn == "Signature" || fn == "EncryptedAssertion") {
						bad = "writes " + o + "." + fn + " at " + w.InstrPos(st)
					}
				}
			}
			for _, c := range callsIn(g) {
				if se := cx.successEffect(c); se != "" {
					bad = "reaches " + se + " at " + w.InstrPos(c)
				}
				if cal := calleeOf(c); cal != nil && (w.FuncKey(cal) == "provider.(*Attributes).GetSAML" || w.FuncKey(cal) == "provider.(*Attributes).GetNameID") {
					bad = "reads user attributes at " + w.InstrPos(c)
				}
			}
		}
		r.Check(bad == "", "R-WHO", fk+":no-user-data", w.FnPos(f), "builds no assertion, reads no user attribute, signs nothing", "a failed response "+bad)
	}
	// Response.Signature / SigAlg writers
	for _, fn := range w.Funcs {
		for _, st := range fx.info(fn).stores {
			fa, ok := st.Addr.(*ssa.FieldAddr)
			if !ok || fieldOwner(fa.X.Type()) != "provider.Response" {
				continue
			}
			name := fname(fieldVar(fa.X.Type(), fa.Field))
			if name != "Signature" {
				continue
			}
			k := w.FuncKey(fn)
			r.Check(k == "provider.createSignature", "R-WHO", "Response.Signature@"+k, w.InstrPos(st), "written by createSignature only", "Response.Signature is written outside createSignature: a reply that was not signed can carry a signature parameter")
		}
	}
	r.Min("R-GUARD", 5)
	_ = strings.Contains
}

// expandErrorObjects: `err.Error()` of an error value that is an object of a module type whose Error method hands
// back one of its fields (a typed error carrying the status code): the values stored into that field.
func (cx *Ctx) expandErrorObjects(vf *VFlow, ls LabelSet) LabelSet {
	w := cx.W
	out := LabelSet{}
	for l, f := range ls {
		if !strings.HasPrefix(l, "alloc:{") {
			out[l] |= f
			continue
		}
		tk := l[len("alloc:{"):]
		i := strings.Index(tk, "}")
		if i < 0 {
			out[l] |= f
			continue
		}
		tk = tk[:i] // e.g. provider.loginError
		field := ""
		for _, fn := range w.Funcs {
			recv := fn.Signature.Recv()
			if recv == nil || fn.Name() != "Error" || len(fn.Params) != 1 || typeKey(derefType(recv.Type())) != tk {
				continue
			}
			for _, ret := range returnsOf(fn) {
				if len(ret.Results) != 1 {
					field = ""
					break
				}
				name := ""
				switch x := ret.Results[0].(type) {
				case *ssa.UnOp:
					if fa, ok := x.X.(*ssa.FieldAddr); ok && (fa.X == ssa.Value(fn.Params[0])) {
						name = fname(fieldVar(fa.X.Type(), fa.Field))
					}
				case *ssa.Field:
					if st, ok := x.X.Type().Underlying().(*types.Struct); ok && x.X == ssa.Value(fn.Params[0]) {
						name = fname(st.Field(x.Field))
					}
				}
				if name == "" || field != "" && field != name {
					field = ""
					break
				}
				field = name
			}
		}
		if field == "" {
			out[l] |= f
			continue
		}
		fl, sites := vf.FieldStoreSources(tk, field)
		if len(sites) == 0 {
			out[l] |= f
			continue
		}
		for l2, f2 := range fl {
			out[l2] |= f2 | f
		}
	}
	return out
}

// gated0 flattens the matchers of the gated effects.
func gated0(gs []struct {
	name  string
	match func(ssa.CallInstruction) bool
}) []func(ssa.CallInstruction) bool {
	var out []func(ssa.CallInstruction) bool
	for _, g := range gs {
		out = append(out, g.match)
	}
	return out
}

// loginTailReturns: the returns of a piece of loginResponse whose two results loginResponse hands on: an error return
// carries no response; a success return passed Done() (at the call or inside), found the errors of the gated calls made
// in the piece nil, and returns the result of makeSuccessfulResponse. "" if so.
func (cx *Ctx) loginTailReturns(h *ssa.Function, doneAtCall bool, doneAtom func([]Atom) bool, gated []func(ssa.CallInstruction) bool) string {
	w, fx := cx.W, cx.Fx
	aps, ok := fx.atomPaths(h, 4096)
	if !ok {
		return "too many paths in " + w.FuncKey(h)
	}
	var gateErrs []ssa.Value
	for _, c := range callsIn(h) {
		for _, m := range gated {
			if m(c) {
				if call, isCall := c.(*ssa.Call); isCall {
					if e, has, _ := errResult(call); has && e != nil {
						gateErrs = append(gateErrs, e)
					}
				}
			}
		}
	}
	nSucc := 0
	for i := range aps {
		p := &aps[i]
		resp, errv := fx.retVal(p, 0), fx.retVal(p, 1)
		isNil, nonNil := fx.errNilness(p, errv)
		switch {
		case nonNil:
			if !isNilConst(resp) {
				return "an error return of " + w.FuncKey(h) + " also returns a response at " + w.InstrPos(p.Ret)
			}
		case isNil:
			nSucc++
			if !doneAtCall && !doneAtom(p.Atoms) {
				return w.FuncKey(h) + " returns a response on a path that did not pass authRequest.Done() (" + w.InstrPos(p.Ret) + ")"
			}
			for _, e := range gateErrs {
				okE := false
				for _, cp := range p.Conds {
					if x, tnn, isNT := nilTest(cp.Cond); isNT && cp.Pol != tnn {
						for _, a := range fx.aliasesOf(e) {
							if a == x {
								okE = true
							}
						}
					}
				}
				if !okE {
					return w.FuncKey(h) + " returns a response although the error of " + fx.path(e) + " was not found nil on the path (" + w.InstrPos(p.Ret) + ")"
				}
			}
			if c, isCall := resp.(*ssa.Call); !isCall || calleeOf(c) == nil || w.FuncKey(calleeOf(c)) != "provider.(*Response).makeSuccessfulResponse" {
				return "the response returned on success is not the result of makeSuccessfulResponse (" + w.InstrPos(p.Ret) + ")"
			}
		default:
			return "a return of " + w.FuncKey(h) + " with an error value of unknown nil-ness at " + w.InstrPos(p.Ret)
		}
	}
	if nSucc == 0 {
		return w.FuncKey(h) + " has no success return"
	}
	return ""
}

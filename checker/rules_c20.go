package main

import (
	"fmt"
	"go/token"
	"go/types"
	"sort"
	"strings"

	"golang.org/x/tools/go/ssa"
)

func init() { register("C20", checkC20) }

const checkerPkg = modPath + "/pkg/provider/checker"

// c20 atom naming -----------------------------------------------------------

type c20namer struct {
	fx *Facts
	fn *ssa.Function
	// parameters of a package helper the step closure returns the verdict of -> the arguments of that call
	subst map[ssa.Value]ssa.Value
}

// actual: v, or the argument a helper parameter stands for.
func (n *c20namer) actual(v ssa.Value) ssa.Value {
	for i := 0; i < 3; i++ {
		a, ok := n.subst[v]
		if !ok {
			break
		}
		v = a
	}
	return v
}

// d describes an operand in terms of the constructor's parameters.
func (n *c20namer) d(v ssa.Value) string {
	v = n.actual(v)
	switch x := v.(type) {
	case *ssa.Const:
		return n.fx.path(x)
	case *ssa.Call:
		if b, ok := x.Call.Value.(*ssa.Builtin); ok && len(x.Call.Args) == 1 {
			return b.Name() + "(" + n.d(x.Call.Args[0]) + ")"
		}
		if p := n.paramOfCallee(x); p != "" {
			return p + "()"
		}
		return "call:" + shortCallee(calleeName(x))
	case *ssa.UnOp:
		if x.Op == token.MUL {
			if fv, ok := x.X.(*ssa.FreeVar); ok {
				return n.role(fv)
			}
			if ia, ok := x.X.(*ssa.IndexAddr); ok {
				if n.isInduction(ia.Index) {
					return "elem(" + n.d(ia.X) + ")"
				}
			}
		}
	case *ssa.Extract:
		// range over string / map not expected here
	}
	return n.fx.path(v)
}

func (n *c20namer) paramOfCallee(c *ssa.Call) string {
	if c.Call.IsInvoke() {
		return ""
	}
	if u, ok := n.actual(c.Call.Value).(*ssa.UnOp); ok && u.Op == token.MUL {
		if fv, ok := u.X.(*ssa.FreeVar); ok {
			return n.role(fv)
		}
	}
	// a package helper that runs the callback it is given (exactly once, or not at all when it is nil), besides
	// logging: `callErrorFunc(errorFunc)`, `fail(errorFunc, err)`, `failf(errorFunc, "...", args...)`
	if h := calleeOf(c); h != nil && n.fn != nil && h.Pkg == n.fn.Pkg {
		if pi := callsParamOnceUnlessNil(h); pi >= 0 && pi < len(c.Call.Args) {
			if u, ok := n.actual(c.Call.Args[pi]).(*ssa.UnOp); ok && u.Op == token.MUL {
				if fv, ok := u.X.(*ssa.FreeVar); ok {
					return n.role(fv)
				}
			}
		}
	}
	return ""
}

// callsParamOnceUnlessNil: h has one func() parameter f that it calls exactly once on every path - except on paths
// that found f nil, where it is not called; apart from that h only logs (calls into the logging / fmt / log
// packages), stores nothing and returns nothing or a constant. Returns the index of f, or -1.
func callsParamOnceUnlessNil(h *ssa.Function) int {
	if h == nil || h.Blocks == nil {
		return -1
	}
	pi := -1
	for i, p := range h.Params {
		if sg, isSig := p.Type().Underlying().(*types.Signature); isSig && sg.Params().Len() == 0 && sg.Results().Len() == 0 {
			if pi >= 0 {
				return -1
			}
			pi = i
		}
	}
	if pi < 0 {
		return -1
	}
	for _, ret := range returnsOf(h) {
		for _, rv := range ret.Results {
			if _, isC := rv.(*ssa.Const); !isC {
				return -1
			}
		}
	}
	isLog := func(c ssa.CallInstruction) bool {
		nm := calleeName(c)
		return strings.Contains(nm, "/logging.") || strings.HasPrefix(nm, "log.") || strings.HasPrefix(nm, "fmt.Sprint") || strings.HasPrefix(nm, "log/slog.")
	}
	for _, b := range h.Blocks {
		for _, in := range b.Instrs {
			switch x := in.(type) {
			case *ssa.MapUpdate, *ssa.Go, *ssa.Defer, *ssa.Send:
				return -1
			case *ssa.Store:
				// only into the function's own temporaries (the variadic argument array of a log call)
				root := x.Addr
				if ia, ok := root.(*ssa.IndexAddr); ok {
					root = ia.X
				}
				if al, ok := root.(*ssa.Alloc); !ok || al.Parent() != h {
					return -1
				}
			case ssa.CallInstruction:
				if x.Common().Value != ssa.Value(h.Params[pi]) && !isLog(x) {
					return -1
				}
			}
		}
	}
	paths, ok := enumPaths(h, nil, 64)
	if !ok {
		return -1
	}
	for _, p := range paths {
		calls := 0
		for _, in := range p.Instrs() {
			if c, isC := in.(ssa.CallInstruction); isC && c.Common().Value == ssa.Value(h.Params[pi]) {
				calls++
			}
		}
		foundNil := false
		for _, cp := range p.Conds {
			if x, tnn, isNT := nilTest(cp.Cond); isNT && x == ssa.Value(h.Params[pi]) && cp.Pol != tnn {
				foundNil = true
			}
		}
		if !(calls == 1 && !foundNil || calls == 0 && foundNil) {
			return -1
		}
	}
	if len(paths) == 0 {
		return -1
	}
	return pi
}

// c20roles: the constructors' parameters by position (0 = receiver). The rules speak of these roles; what the
// parameters are called in the source does not matter.
var c20roles = map[string][]string{
	"WithValueNotEmptyCheck":       {"c", "valueName", "value", "errorFunc"},
	"WithValuesNotEmptyCheck":      {"c", "values", "errorFunc"},
	"WithValueLengthCheck":         {"c", "valueName", "value", "minlength", "maxlength", "errorFunc"},
	"WithValueEqualsCheck":         {"c", "valueName", "value", "equal", "errorFunc"},
	"WithConditionalValueNotEmpty": {"c", "cond", "valueName", "value", "errorFunc"},
	"WithConditionalLogicStep":     {"c", "cond", "logic", "errorFunc"},
	"WithLogicStep":                {"c", "logic", "errorFunc"},
	"WithValueStep":                {"c", "logic"},
}

// role: the positional role of the constructor parameter a free variable of the step closure captures.
func (n *c20namer) role(fv *ssa.FreeVar) string {
	cons := n.fn.Parent()
	if cons == nil {
		return fv.Name()
	}
	roles := c20roles[fnName(cons)]
	var p *ssa.Parameter
	switch b := n.fx.bindings[fv].(type) {
	case *ssa.Parameter:
		p = b
	case *ssa.Alloc:
		if st := n.fx.storesToCell(b); len(st) == 1 {
			p, _ = st[0].(*ssa.Parameter)
		}
	}
	if p == nil {
		return fv.Name()
	}
	for i, q := range cons.Params {
		if q == p && i < len(roles) {
			return roles[i]
		}
	}
	return fv.Name()
}

// isInduction: v is the index of a front-to-back range loop: phi(-1, v)+1, or phi(0, phi+1).
func (n *c20namer) isInduction(v ssa.Value) bool {
	if b, ok := v.(*ssa.BinOp); ok && b.Op == token.ADD {
		phi, ok := b.X.(*ssa.Phi)
		if !ok || n.fx.path(b.Y) != "const:1" || len(phi.Edges) != 2 {
			return false
		}
		ok1 := n.fx.path(phi.Edges[0]) == "const:-1" && phi.Edges[1] == v
		ok2 := n.fx.path(phi.Edges[1]) == "const:-1" && phi.Edges[0] == v
		return ok1 || ok2
	}
	if phi, ok := v.(*ssa.Phi); ok && len(phi.Edges) == 2 {
		for i := 0; i < 2; i++ {
			if n.fx.path(phi.Edges[i]) == "const:0" {
				if inc, ok := phi.Edges[1-i].(*ssa.BinOp); ok && inc.Op == token.ADD && inc.X == phi && n.fx.path(inc.Y) == "const:1" {
					return true
				}
			}
		}
	}
	return false
}

// name returns the atom name of a condition and whether the condition is the
// atom (true) or its negation (false).
func (n *c20namer) name(c ssa.Value) (string, bool) {
	switch x := c.(type) {
	case *ssa.UnOp:
		if x.Op == token.NOT {
			s, p := n.name(x.X)
			return s, !p
		}
	case *ssa.Call:
		if p := n.paramOfCallee(x); p != "" {
			return "C:" + p + "()", true
		}
		// slices.Contains(list, ""): some element of the list is empty
		if cn := calleeName(x); (cn == "slices.Contains" || strings.HasPrefix(cn, "slices.Contains[")) && len(x.Call.Args) == 2 {
			if k, isK := constString(x.Call.Args[1]); isK && k == "" {
				return "ANYEMPTY:" + n.d(x.Call.Args[0]), true
			}
		}
	case *ssa.BinOp:
		a, b := n.d(x.X), n.d(x.Y)
		switch x.Op {
		case token.EQL, token.NEQ:
			pos := x.Op == token.EQL
			if b == "nil" {
				return "NIL:" + a, pos
			}
			if a == "nil" {
				return "NIL:" + b, pos
			}
			if b == "const:" {
				return "E:" + a, pos
			}
			if a == "const:" {
				return "E:" + b, pos
			}
			if strings.HasPrefix(a, "len(") && b == "const:0" {
				return "E:" + a[4:len(a)-1], pos
			}
			if a > b {
				a, b = b, a
			}
			return "EQ:" + a + "|" + b, pos
		case token.LSS, token.GTR, token.LEQ, token.GEQ:
			op := x.Op
			ia := n.isInduction(x.X)
			ib := n.isInduction(x.Y)
			if op == token.GTR || op == token.GEQ {
				a, b = b, a
				ia, ib = ib, ia
				if op == token.GTR {
					op = token.LSS
				} else {
					op = token.LEQ
				}
			}
			if op == token.LSS {
				if ia && strings.HasPrefix(b, "len(") {
					return "INRANGE:" + b[4:len(b)-1], true
				}
				return "LT:" + a + "<" + b, true
			}
			// a <= b == !(b < a)
			if ib && strings.HasPrefix(a, "len(") {
				return "INRANGE:" + a[4:len(a)-1], false
			}
			return "LT:" + b + "<" + a, false
		}
	}
	return "?:" + n.fx.path(c), true
}

type c20expect struct {
	atoms    []string
	fail     func(v map[string]bool) bool
	passMust map[string]bool // atoms with a fixed value on every passing path
	doc      string
	once     []string // closures that must be called exactly once on every path where the listed guard atoms allow
}

var c20table = map[string]c20expect{
	"WithValueNotEmptyCheck": {atoms: []string{"E:value()"}, fail: func(v map[string]bool) bool { return v["E:value()"] }, doc: "value() is empty"},
	"WithValuesNotEmptyCheck": {atoms: []string{"INRANGE:values()", "E:elem(values())"},
		fail:     func(v map[string]bool) bool { return v["INRANGE:values()"] && v["E:elem(values())"] },
		passMust: map[string]bool{"INRANGE:values()": false}, doc: "some element of values() is empty (first such element, front to back)"},
	"WithValueLengthCheck": {atoms: []string{"LT:const:0<minlength", "LT:len(value())<minlength", "LT:const:0<maxlength", "LT:maxlength<len(value())"},
		fail: func(v map[string]bool) bool {
			return (v["LT:const:0<minlength"] && v["LT:len(value())<minlength"]) || (v["LT:const:0<maxlength"] && v["LT:maxlength<len(value())"])
		}, doc: "(min>0 and len<min) or (max>0 and len>max)"},
	"WithValueEqualsCheck":         {atoms: []string{"EQ:equal()|value()"}, fail: func(v map[string]bool) bool { return !v["EQ:equal()|value()"] }, doc: "value() != equal()"},
	"WithConditionalValueNotEmpty": {atoms: []string{"C:cond()", "E:value()"}, fail: func(v map[string]bool) bool { return v["C:cond()"] && v["E:value()"] }, doc: "cond() and value() empty"},
	"WithConditionalLogicStep":     {atoms: []string{"C:cond()", "NIL:logic()"}, fail: func(v map[string]bool) bool { return v["C:cond()"] && !v["NIL:logic()"] }, doc: "cond() and logic() returns an error"},
	"WithLogicStep":                {atoms: []string{"NIL:logic()"}, fail: func(v map[string]bool) bool { return !v["NIL:logic()"] }, doc: "logic() returns an error"},
	"WithValueStep":                {atoms: nil, fail: func(v map[string]bool) bool { return false }, doc: "never (logic() is run exactly once)"},
}

func valuations(atoms []string) []map[string]bool {
	n := len(atoms)
	var out []map[string]bool
	for m := 0; m < 1<<n; m++ {
		v := map[string]bool{}
		for i, a := range atoms {
			v[a] = m&(1<<i) != 0
		}
		out = append(out, v)
	}
	return out
}

func retConstBool(r *ssa.Return) (val, ok bool) {
	if r == nil || len(r.Results) != 1 {
		return false, false
	}
	c, isC := r.Results[0].(*ssa.Const)
	if !isC {
		c = constCallResult(r.Results[0]) // `return fail(errorFunc, err)` with fail returning the constant true
	}
	if c == nil || c.Value == nil {
		return false, false
	}
	s := c.Value.ExactString()
	return s == "true", s == "true" || s == "false"
}

func checkC20(cx *Ctx, r *Report) {
	w, fx := cx.W, cx.Fx
	r.Clauses = []string{
		"order: Checker.steps is written only by addStep as append(c.steps, f); every With* constructor calls addStep exactly once with the closure it creates; CheckFailed walks c.steps front to back",
		"short-circuit/exactly-once: CheckFailed returns true exactly at the first step returning true, later elements are not called; in every step closure the error callback runs exactly once on failing paths and never on passing paths",
		"condition: the failing paths of each step closure, as a boolean function of its conditions, equal the documented predicate (truth table over <=4 atoms)",
		"repeatable: step closures write no captured or package state",
	}
	r.NotDec = []string{"behaviour/purity of user-supplied closures (assumed pure, as the property reads)", "chains longer than memory"}
	r.Assume = []string{"closures passed to the checker are pure and do not re-enter the checker"}
	pkg := w.SSAPkg["checker"]
	if pkg == nil {
		r.Fail("R-CHK-ANCHOR", "package checker", "", "package pkg/provider/checker not found")
		return
	}
	// collect methods of *Checker
	var methods []*ssa.Function
	for _, fn := range w.Funcs {
		if fn.Pkg == pkg && fn.Parent() == nil && isCheckerMethod(fn) {
			methods = append(methods, fn)
		}
	}
	addStep := w.Func("checker.(*Checker).addStep")
	checkFailed := w.Func("checker.(*Checker).CheckFailed")
	if addStep == nil || checkFailed == nil {
		r.Fail("R-CHK-ANCHOR", "addStep/CheckFailed", "", "anchor functions addStep / CheckFailed not found in package checker")
		return
	}

	// --- who writes Checker.steps (whole module) -----------------------------
	nStores := 0
	for _, fn := range w.Funcs {
		for _, b := range fn.Blocks {
			for _, in := range b.Instrs {
				st, ok := in.(*ssa.Store)
				if !ok {
					continue
				}
				fa, ok := st.Addr.(*ssa.FieldAddr)
				if !ok {
					continue
				}
				n := namedOf(fa.X.Type())
				if n == nil || n.Obj().Pkg() == nil || n.Obj().Pkg().Path() != checkerPkg || n.Obj().Name() != "Checker" {
					continue
				}
				if fv := fieldVar(fa.X.Type(), fa.Field); fv == nil || fname(fv) != "steps" {
					continue // another field of the Checker: what a step closure may write is R-CHK-REPEAT's business
				}
				nStores++
				key := w.FuncKey(fn) + ":store-steps"
				if fn != addStep {
					r.Fail("R-CHK-ORDER", key, w.InstrPos(st), "Checker.steps is written outside addStep: step order is no longer the registration order")
					continue
				}
				okAppend := false
				if c, isCall := st.Val.(*ssa.Call); isCall {
					if bi, isB := c.Call.Value.(*ssa.Builtin); isB && bi.Name() == "append" && len(c.Call.Args) == 2 {
						first := fx.path(c.Call.Args[0])
						// second arg: slice of a one-element varargs array holding parameter f
						elemOK := false
						if sl, isSl := c.Call.Args[1].(*ssa.Slice); isSl {
							if al, isAl := sl.X.(*ssa.Alloc); isAl {
								cnt := 0
								for _, ref := range *al.Referrers() {
									if ia, isIA := ref.(*ssa.IndexAddr); isIA {
										for _, ref2 := range *ia.Referrers() {
											if s2, isS := ref2.(*ssa.Store); isS {
												cnt++
												if _, isP := s2.Val.(*ssa.Parameter); isP {
													elemOK = true
												} else {
													elemOK = false
												}
											}
										}
									}
								}
								if cnt != 1 {
									elemOK = false
								}
							}
						}
						okAppend = first == "addStep/c.steps" && elemOK
					}
				}
				r.Check(okAppend, "R-CHK-ORDER", key, w.InstrPos(st), "c.steps = append(c.steps, f)", "addStep does not append its parameter at the end of c.steps (order of evaluation would differ from order of registration)")
			}
		}
	}
	if nStores == 0 {
		r.Fail("R-CHK-ORDER", "addStep:store-steps", w.FnPos(addStep), "no store to Checker.steps found: steps are never recorded")
	}

	// --- constructors -------------------------------------------------------
	nCons := 0
	for _, m := range methods {
		if !strings.HasPrefix(fnName(m), "With") {
			continue
		}
		nCons++
		key := w.FuncKey(m)
		var addCalls []*ssa.Call
		other := ""
		for _, c := range callsIn(m) {
			cal := calleeOf(c)
			if cal == addStep {
				addCalls = append(addCalls, c.(*ssa.Call))
			} else if cal != nil && cal.Pkg == pkg {
				other = fnName(cal)
			} else if cal == nil {
				other = "dynamic call"
			}
		}
		if len(addCalls) == 0 {
			// a step kind expressed through another one: `return c.WithConditionalLogicStep(always, logic, errorFunc)`
			if d, why := c20Delegation(fx, m, methods); d != nil {
				r.Check(why == "", "R-CHK-CONS", key, w.FnPos(m), "registers exactly one step through "+fnName(d)+", whose condition is constantly true; the documented failing conditions agree", why)
				continue
			}
		}
		if other != "" {
			r.Fail("R-CHK-CONS", key, w.FnPos(m), "constructor does more than registering one step: calls "+other)
			continue
		}
		if len(addCalls) != 1 {
			r.Fail("R-CHK-CONS", key, w.FnPos(m), fmt.Sprintf("constructor calls addStep %d times (must be exactly once)", len(addCalls)))
			continue
		}
		ac := addCalls[0]
		fi := fx.info(m)
		dominatesAll := true
		for _, ret := range returnsOf(m) {
			if !(ac.Block() == ret.Block() || ac.Block().Dominates(ret.Block())) {
				dominatesAll = false
			}
		}
		if !dominatesAll || fi.reachable(ac.Block(), ac.Block()) {
			r.Fail("R-CHK-CONS", key, w.InstrPos(ac), "addStep is not called exactly once on every path of the constructor")
			continue
		}
		arg1 := ac.Call.Args[1]
		if ct, isCT := arg1.(*ssa.ChangeType); isCT {
			arg1 = ct.X
		}
		mc, isMC := arg1.(*ssa.MakeClosure)
		if !isMC || fx.path(ac.Call.Args[0]) != fnName(m)+"/c" {
			r.Fail("R-CHK-CONS", key, w.InstrPos(ac), "addStep is not called on the receiver with a closure created by the constructor")
			continue
		}
		r.Ok("R-CHK-CONS", key, w.InstrPos(ac), "registers exactly one step closure via addStep on every path")
		checkC20Closure(cx, r, m, mc.Fn.(*ssa.Function))
	}
	if nCons < 8 {
		r.Fail("R-CHK-CONS", "#constructors", "", fmt.Sprintf("found %d With* constructors, expected the 8 step kinds of the property", nCons))
	}

	// --- CheckFailed loop -----------------------------------------------------
	checkC20Loop(cx, r, checkFailed)
}

func checkC20Closure(cx *Ctx, r *Report, cons, cl *ssa.Function) {
	w, fx := cx.W, cx.Fx
	key := w.FuncKey(cons)
	exp, ok := c20table[fnName(cons)]
	nm := &c20namer{fx: fx, fn: cl}
	if fnName(cons) == "WithValuesNotEmptyCheck" {
		// the search for an empty element may be the library's (slices.Contains(values(), "")) instead of a loop
		for _, c := range callsIn(cl) {
			if cn := calleeName(c); cn == "slices.Contains" || strings.HasPrefix(cn, "slices.Contains[") {
				exp = c20expect{atoms: []string{"ANYEMPTY:values()"}, fail: func(v map[string]bool) bool { return v["ANYEMPTY:values()"] }, doc: exp.doc}
			}
		}
	}
	// repeatable: no stores to captured or package state, free variables are the constructor's parameters
	for _, fv := range cl.FreeVars {
		cell := fx.ownerCell(fv)
		isParamCell := false
		if cell != nil && cell.Parent() == cons {
			for _, p := range cons.Params {
				if cell.Comment == p.Name() {
					isParamCell = true
				}
			}
		}
		if !isParamCell {
			r.Fail("R-CHK-REPEAT", key+":capture:"+fv.Name(), w.FnPos(cl), "step closure captures state other than the constructor's parameters")
		}
	}
	stateWrite := false
	for _, b := range cl.Blocks {
		for _, in := range b.Instrs {
			switch x := in.(type) {
			case *ssa.Store:
				root := fx.path(x.Addr)
				if al, isAl := x.Addr.(*ssa.Alloc); isAl && al.Parent() == cl {
					continue
				}
				if ia, isIA := x.Addr.(*ssa.IndexAddr); isIA {
					if al, isAl := ia.X.(*ssa.Alloc); isAl && al.Parent() == cl {
						continue // varargs array for logging
					}
				}
				_ = root
				stateWrite = true
			case *ssa.MapUpdate, *ssa.Send, *ssa.Go:
				stateWrite = true
			}
		}
	}
	r.Check(!stateWrite, "R-CHK-REPEAT", key, w.FnPos(cl), "step closure writes no captured or package state", "step closure writes captured or package state: re-evaluating the chain would not repeat the same behaviour")

	if !ok {
		// a step kind the property does not list (a new With... constructor): there is no documented condition to hold
		// it to; what the property says of every step is decided - it reports failure exactly on the paths on which it
		// ran its failure callback, and ran it once
		checkC20UnlistedKind(cx, r, cons, cl)
		return
	}
	paths, okp := enumPaths(cl, nil, 256)
	if !okp {
		r.Undecided("R-CHK-COND", key, w.FnPos(cl), "too many paths in step closure")
		return
	}
	// `return failIfEmpty(valueName, value, errorFunc)`: the verdict is the one of a helper of the package that is
	// handed the constructor's parameters. Its paths continue the closure's; its parameters stand for the arguments.
	var helperFns []*ssa.Function
	{
		var out []Path
		for _, p := range paths {
			ret := p.Return()
			var hc *ssa.Call
			if ret != nil && len(ret.Results) == 1 {
				if c, isC := ret.Results[0].(*ssa.Call); isC && !c.Call.IsInvoke() && constCallResult(c) == nil {
					if h := calleeOf(c); h != nil && h.Blocks != nil && h.Parent() == nil && h.Pkg == cl.Pkg && len(h.Params) == len(c.Call.Args) {
						hc = c
					}
				}
			}
			if hc == nil {
				out = append(out, p)
				continue
			}
			h := calleeOf(hc)
			hps, okh := enumPaths(h, nil, 64)
			if !okh {
				r.Undecided("R-CHK-COND", key, w.FnPos(h), "too many paths in the helper the step closure returns the verdict of")
				return
			}
			if nm.subst == nil {
				nm.subst = map[ssa.Value]ssa.Value{}
			}
			for i, prm := range h.Params {
				if old, has := nm.subst[prm]; has && old != hc.Call.Args[i] {
					r.Undecided("R-CHK-COND", key, w.InstrPos(hc), "a helper is called with different arguments at several places of one step closure")
					return
				}
				nm.subst[prm] = hc.Call.Args[i]
			}
			helperFns = append(helperFns, h)
			for _, hp := range hps {
				q := Path{Blocks: append(append([]*ssa.BasicBlock{}, p.Blocks...), hp.Blocks...), Conds: append(append([]condPol{}, p.Conds...), hp.Conds...), Raw: append(append([]condPol{}, p.Raw...), hp.Raw...)}
				out = append(out, q)
			}
		}
		paths = out
	}
	for _, h := range helperFns {
		for _, b := range h.Blocks {
			for _, in := range b.Instrs {
				switch x := in.(type) {
				case *ssa.Store:
					if al, isAl := x.Addr.(*ssa.Alloc); isAl && al.Parent() == h {
						continue
					}
					if ia, isIA := x.Addr.(*ssa.IndexAddr); isIA {
						if al, isAl := ia.X.(*ssa.Alloc); isAl && al.Parent() == h {
							continue
						}
					}
					r.Fail("R-CHK-REPEAT", key+":helper", w.InstrPos(x), "the helper a step closure hands its verdict to writes state: re-evaluating the chain would not repeat the same behaviour")
				case *ssa.MapUpdate, *ssa.Send, *ssa.Go:
					r.Fail("R-CHK-REPEAT", key+":helper", w.InstrPos(in), "the helper a step closure hands its verdict to writes state: re-evaluating the chain would not repeat the same behaviour")
				case *ssa.Call:
					if nm.paramOfCallee(x) == "errorFunc" && fx.info(h).reachable(x.Block(), x.Block()) {
						r.Fail("R-CHK-ONCE", key+":helper", w.InstrPos(x), "error callback is called inside a loop")
					}
				}
			}
		}
	}
	// callback discipline per path
	okOnce := true
	detail := ""
	for _, p := range paths {
		ret := p.Return()
		val, isConst := retConstBool(ret)
		if !isConst {
			okOnce = false
			detail = "a step closure path does not return a constant true/false"
			break
		}
		nErr, nLogic, nCond := 0, 0, 0
		for _, in := range p.Instrs() {
			if c, isCall := in.(*ssa.Call); isCall {
				switch nm.paramOfCallee(c) {
				case "errorFunc":
					nErr++
				case "logic":
					nLogic++
				case "cond":
					nCond++
				}
			}
		}
		// a conditional step evaluates what it guards only after the condition returned true
		if hasCondParam(cons) {
			condTrue := false
			for _, cp := range p.Conds {
				if a, pos := nm.name(cp.Cond); a == "C:cond()" && pos == cp.Pol {
					condTrue = true
				}
			}
			condSeen := false
			for _, in := range p.Instrs() {
				if c, isCall := in.(*ssa.Call); isCall {
					switch pn := nm.paramOfCallee(c); pn {
					case "cond":
						condSeen = true
					case "", "errorFunc":
					default:
						if !condSeen || !condTrue {
							okOnce = false
							detail = "a conditional step evaluates " + pn + "() although its condition was not (yet) found true: the guarded check runs for requests the condition excludes"
						}
					}
				}
			}
		}
		if val && nErr != 1 {
			okOnce = false
			detail = fmt.Sprintf("a path reporting failure (return true) calls the error callback %d times", nErr)
		}
		if !val && nErr != 0 {
			okOnce = false
			detail = "a passing path (return false) calls the error callback"
		}
		if nLogic > 1 || nCond > 1 {
			okOnce = false
			detail = "logic/cond closure evaluated more than once on a path"
		}
		if fnName(cons) == "WithValueStep" && nLogic != 1 {
			okOnce = false
			detail = "value step does not run its logic exactly once"
		}
		if fnName(cons) == "WithLogicStep" && nLogic != 1 {
			okOnce = false
			detail = "logic step does not run its logic exactly once"
		}
	}
	// the error callback must not sit in a cycle
	for _, c := range callsIn(cl) {
		if cc, isCall := c.(*ssa.Call); isCall && nm.paramOfCallee(cc) == "errorFunc" {
			if fx.info(cl).reachable(cc.Block(), cc.Block()) {
				okOnce = false
				detail = "error callback is called inside a loop"
			}
		}
	}
	r.Check(okOnce, "R-CHK-ONCE", key, w.FnPos(cl), "error callback runs exactly once on failing paths, never on passing paths; returns true iff it ran", detail)

	// failing condition == documented predicate
	atomSet := map[string]bool{}
	for _, a := range exp.atoms {
		atomSet[a] = true
	}
	unknown := ""
	for _, p := range paths {
		for _, c := range p.Conds {
			n, _ := nm.name(c.Cond)
			if !atomSet[n] {
				unknown = n
			}
		}
	}
	if unknown != "" {
		r.Fail("R-CHK-COND", key, w.FnPos(cl), fmt.Sprintf("step closure branches on %q, which is not part of the documented condition (%s)", unknown, exp.doc))
		return
	}
	mismatch := ""
	for _, v := range valuations(exp.atoms) {
		actual := false
		for _, p := range paths {
			if val, _ := retConstBool(p.Return()); val && pathConsistent(p, nm.name, v) {
				actual = true
			}
		}
		if actual != exp.fail(v) {
			mismatch = fmt.Sprintf("for %v the step %s but the documented condition (%s) says it %s", fmtVal(v), failWord(actual), exp.doc, failWord(exp.fail(v)))
			break
		}
		// a valuation must not allow both outcomes unless atoms are under-determined by loops
		if exp.fail(v) {
			for _, p := range paths {
				if val, _ := retConstBool(p.Return()); !val && pathConsistent(p, nm.name, v) && fullyDetermined(p, nm.name, exp.atoms) {
					mismatch = fmt.Sprintf("for %v a passing path exists although the documented condition (%s) fails", fmtVal(v), exp.doc)
				}
			}
		}
	}
	if mismatch == "" && exp.passMust != nil {
		for _, p := range paths {
			if val, _ := retConstBool(p.Return()); !val {
				for a, want := range exp.passMust {
					found := false
					for _, c := range p.Conds {
						n, pos := nm.name(c.Cond)
						if n == a && (c.Pol == pos) == want {
							found = true
						}
					}
					if !found {
						mismatch = fmt.Sprintf("a passing path does not establish %s=%v (the loop can end before every element was examined)", a, want)
					}
				}
			}
		}
	}
	r.Check(mismatch == "", "R-CHK-COND", key, w.FnPos(cl), "fails exactly when: "+exp.doc, mismatch)
}

func fullyDetermined(p Path, name func(ssa.Value) (string, bool), atoms []string) bool {
	seen := map[string]bool{}
	for _, c := range p.Conds {
		n, _ := name(c.Cond)
		seen[n] = true
	}
	for _, a := range atoms {
		if !seen[a] {
			return false
		}
	}
	return true
}

func failWord(b bool) string {
	if b {
		return "fails"
	}
	return "passes"
}

func fmtVal(v map[string]bool) string {
	var ks []string
	for k := range v {
		ks = append(ks, k)
	}
	sort.Strings(ks)
	var s []string
	for _, k := range ks {
		s = append(s, fmt.Sprintf("%s=%v", k, v[k]))
	}
	return "{" + strings.Join(s, ", ") + "}"
}

func checkC20Loop(cx *Ctx, r *Report, cf *ssa.Function) {
	w, fx := cx.W, cx.Fx
	key := w.FuncKey(cf)
	nm := &c20namer{fx: fx, fn: cf}
	// `return slices.ContainsFunc(c.steps, f)` with f applying its argument: the library search runs front to back and
	// stops at the first element for which f - the step - returns true
	if len(cf.Blocks) == 1 {
		if rets := returnsOf(cf); len(rets) == 1 && len(rets[0].Results) == 1 {
			if sc, isC := rets[0].Results[0].(*ssa.Call); isC {
				if sl, pred, isSearch := elemSearchCall(sc); isSearch {
					problem := ""
					if fx.path(sl) != "CheckFailed/c.steps" {
						problem = "the searched list is not c.steps"
					}
					var pf *ssa.Function
					switch x := pred.(type) {
					case *ssa.Function:
						pf = x
					case *ssa.MakeClosure:
						if len(x.Bindings) == 0 {
							pf, _ = x.Fn.(*ssa.Function)
						}
					}
					// a method expression (`step.failed`) is a thunk that hands its argument on: judge the method
					for hops := 0; hops < 2 && pf != nil && len(pf.Blocks) == 1 && len(pf.Params) == 1; hops++ {
						cs := callsIn(pf)
						if len(cs) != 1 {
							break
						}
						g := calleeOf(cs[0])
						if g == nil || g.Blocks == nil || len(cs[0].Common().Args) != 1 || cs[0].Common().Args[0] != ssa.Value(pf.Params[0]) {
							break
						}
						if rets := returnsOf(pf); len(rets) != 1 || len(rets[0].Results) != 1 || rets[0].Results[0] != cs[0].Value() {
							break
						}
						pf = g
					}
					if pf == nil || len(pf.Params) != 1 || pf.Blocks == nil {
						problem = "the predicate handed to the search is not a plain function of the step"
					} else {
						n := 0
						for _, c := range callsIn(pf) {
							cc, isCall := c.(*ssa.Call)
							if !isCall || cc.Call.Value != ssa.Value(pf.Params[0]) {
								if isCall && calleeOf(cc) != nil && calleeOf(cc).Pkg != nil && calleeOf(cc).Pkg.Pkg.Path() != checkerPkg {
									continue // logging
								}
								problem = "the predicate does more than run the step"
								continue
							}
							n++
							for _, ret := range returnsOf(pf) {
								if len(ret.Results) != 1 || ret.Results[0] != ssa.Value(cc) {
									problem = "the predicate does not return the step's verdict"
								}
							}
						}
						if n != 1 && problem == "" {
							problem = "the predicate does not run the step exactly once"
						}
						if len(fx.info(pf).stores) > 0 {
							problem = "the predicate writes memory"
						}
					}
					for _, c := range callsIn(cf) {
						if c != ssa.CallInstruction(sc) {
							if cal := calleeOf(c); cal == nil || cal.Pkg == nil || cal.Pkg.Pkg.Path() == checkerPkg {
								problem = "CheckFailed does more than one search over the steps"
							}
						}
					}
					for _, st := range fx.info(cf).stores {
						r.Fail("R-CHK-LOOP", key+":store", w.InstrPos(st), "CheckFailed writes memory (steps must not be modified while evaluating)")
					}
					r.Check(problem == "", "R-CHK-LOOP", key, w.FnPos(cf), "slices.ContainsFunc over c.steps with the step itself as predicate: front to back, true exactly at the first step that returns true", problem)
					return
				}
			}
		}
	}
	// exactly one dynamic call: the step; its callee is element [induction] of c.steps
	var stepCall *ssa.Call
	for _, c := range callsIn(cf) {
		cc, isCall := c.(*ssa.Call)
		if !isCall {
			r.Fail("R-CHK-LOOP", key, w.InstrPos(c), "CheckFailed defers or spawns calls")
			return
		}
		if _, isB := cc.Call.Value.(*ssa.Builtin); isB {
			continue
		}
		if calleeOf(cc) != nil {
			if cal := calleeOf(cc); cal.Pkg != nil && cal.Pkg.Pkg.Path() == checkerPkg {
				r.Fail("R-CHK-LOOP", key, w.InstrPos(cc), "CheckFailed calls "+fnName(cal)+": evaluation is no longer a single pass over the steps")
				return
			}
			continue // logging
		}
		if stepCall != nil {
			r.Fail("R-CHK-LOOP", key, w.InstrPos(cc), "more than one step invocation site in CheckFailed")
			return
		}
		stepCall = cc
	}
	if stepCall == nil {
		r.Fail("R-CHK-LOOP", key, w.FnPos(cf), "CheckFailed never invokes a step")
		return
	}
	okElem := false
	if ld, isLd := stepCall.Call.Value.(*ssa.UnOp); isLd && ld.Op == token.MUL {
		if ia, isIA := ld.X.(*ssa.IndexAddr); isIA {
			okElem = nm.isInduction(ia.Index) && fx.path(ia.X) == "CheckFailed/c.steps"
		}
	}
	if !okElem {
		r.Fail("R-CHK-LOOP", key, w.InstrPos(stepCall), "the invoked step is not element i of c.steps for an index running front to back from 0")
		return
	}
	for _, st := range fx.info(cf).stores {
		r.Fail("R-CHK-LOOP", key+":store", w.InstrPos(st), "CheckFailed writes memory (steps must not be modified while evaluating)")
	}
	paths, ok := enumPaths(cf, nil, 64)
	if !ok {
		r.Undecided("R-CHK-LOOP", key, w.FnPos(cf), "too many paths")
		return
	}
	problem := ""
	sawTrue, sawFalse := false, false
	stepAtom := ""
	for _, p := range paths {
		val, isConst := retConstBool(p.Return())
		if !isConst {
			problem = "CheckFailed does not return a constant on some path (the result must be decided by the first failing step)"
			break
		}
		inRange, stepTrue, haveIn, haveStep := false, false, false, false
		for _, c := range p.Conds {
			n, pos := nm.name(c.Cond)
			switch {
			case strings.HasPrefix(n, "INRANGE:"):
				haveIn, inRange = true, c.Pol == pos
			case c.Cond == ssa.Value(stepCall):
				haveStep, stepTrue = true, c.Pol
				stepAtom = n
			default:
				inner := c.Cond
				neg := false
				for {
					u, isU := inner.(*ssa.UnOp)
					if !isU || u.Op != token.NOT {
						break
					}
					inner = u.X
					neg = !neg
				}
				if inner == ssa.Value(stepCall) {
					haveStep, stepTrue = true, c.Pol != neg
				} else {
					problem = "CheckFailed branches on " + n + ", which is neither the loop bound nor a step result"
				}
			}
		}
		if val {
			sawTrue = true
			if !(haveIn && inRange && haveStep && stepTrue) {
				problem = "return true is reachable without a step having returned true"
			}
		} else {
			sawFalse = true
			if !(haveIn && !inRange) || (haveStep && stepTrue) {
				problem = "return false is reachable before every step was evaluated (or after a failing step)"
			}
		}
	}
	_ = stepAtom
	if problem == "" && (!sawTrue || !sawFalse) {
		problem = "CheckFailed lacks a 'return true' after a failing step or a 'return false' after the last step"
	}
	// the false edge of the step test must continue with the next element (loop header)
	if problem == "" {
		refs := *stepCall.Referrers()
		found := false
		for _, ref := range refs {
			if ifi, isIf := ref.(*ssa.If); isIf {
				found = true
				nxt := ifi.Block().Succs[1]
				// following unconditional jumps, we must reach the block that re-tests the loop bound
				blockHasPhi := func(b *ssa.BasicBlock) bool {
					for _, in := range b.Instrs {
						if _, isPhi := in.(*ssa.Phi); isPhi {
							return true
						}
					}
					return false
				}
				// skip the increment block of a three-clause loop (no calls, single successor)
				for hops := 0; hops < 4 && !blockHasPhi(nxt) && len(nxt.Succs) == 1; hops++ {
					pure := true
					for _, in := range nxt.Instrs {
						switch in.(type) {
						case *ssa.BinOp, *ssa.Jump, *ssa.DebugRef:
						default:
							pure = false
						}
					}
					if !pure {
						break
					}
					nxt = nxt.Succs[0]
				}
				hasPhi := blockHasPhi(nxt)
				if !hasPhi {
					problem = "a passing step is not followed by the next element of c.steps"
				}
			}
		}
		if !found {
			problem = "the step result is not tested directly"
		}
	}
	r.Check(problem == "", "R-CHK-LOOP", key, w.FnPos(cf), "front-to-back loop over c.steps; returns true exactly at the first step that returns true; returns false only after the last", problem)
}

func hasCondParam(cons *ssa.Function) bool {
	for _, r := range c20roles[fnName(cons)] {
		if r == "cond" {
			return true
		}
	}
	return false
}

// c20Delegation: the constructor m registers its step by calling exactly one other step constructor d on the same
// receiver, on every path, handing over its own parameters in the same roles and a constantly true function as d's
// condition. Returns d (nil if m is not of this shape) and, if the documented failing condition of m is not the one
// of d with the condition fixed to true, why.
func c20Delegation(fx *Facts, m *ssa.Function, methods []*ssa.Function) (*ssa.Function, string) {
	isCons := map[*ssa.Function]bool{}
	for _, x := range methods {
		if strings.HasPrefix(fnName(x), "With") {
			isCons[x] = true
		}
	}
	var dc *ssa.Call
	for _, c := range callsIn(m) {
		cal := calleeOf(c)
		if cal == nil {
			if _, isB := c.Common().Value.(*ssa.Builtin); isB {
				continue
			}
			return nil, ""
		}
		if cal.Pkg != m.Pkg {
			continue // logging
		}
		cc, isCall := c.(*ssa.Call)
		if !isCall || !isCons[cal] || cal == m || dc != nil {
			return nil, ""
		}
		dc = cc
	}
	if dc == nil || len(m.Params) == 0 || len(dc.Call.Args) == 0 || dc.Call.Args[0] != ssa.Value(m.Params[0]) {
		return nil, ""
	}
	d := calleeOf(dc)
	for _, ret := range returnsOf(m) {
		if !(dc.Block() == ret.Block() || dc.Block().Dominates(ret.Block())) {
			return nil, ""
		}
		if len(ret.Results) != 1 || (ret.Results[0] != ssa.Value(dc) && ret.Results[0] != ssa.Value(m.Params[0])) {
			return nil, ""
		}
	}
	if fx.info(m).reachable(dc.Block(), dc.Block()) {
		return nil, ""
	}
	rm, rd := c20roles[fnName(m)], c20roles[fnName(d)]
	em, okm := c20table[fnName(m)]
	ed, okd := c20table[fnName(d)]
	if !okm || !okd || len(rd) != len(dc.Call.Args) {
		return d, "step kind without a documented failing condition in the checker's table"
	}
	fixed := map[string]bool{}
	for i := 1; i < len(dc.Call.Args); i++ {
		a := dc.Call.Args[i]
		if ct, isCT := a.(*ssa.ChangeType); isCT {
			a = ct.X
		}
		if p, isP := a.(*ssa.Parameter); isP {
			role := ""
			for j, q := range m.Params {
				if q == p && j < len(rm) {
					role = rm[j]
				}
			}
			if role != rd[i] {
				return d, fmt.Sprintf("%s hands its %s to %s as %s", fnName(m), role, fnName(d), rd[i])
			}
			continue
		}
		if rd[i] == "cond" && isConstTrueFunc(a) {
			fixed["C:cond()"] = true
			continue
		}
		return d, fmt.Sprintf("argument %d of the call to %s is neither a parameter of %s nor a constantly true condition", i, fnName(d), fnName(m))
	}
	inM := map[string]bool{}
	for _, a := range em.atoms {
		inM[a] = true
	}
	for _, a := range ed.atoms {
		if _, isFixed := fixed[a]; !inM[a] && !isFixed {
			return d, fmt.Sprintf("%s depends on %s, which %s does not determine", fnName(d), a, fnName(m))
		}
	}
	for _, v := range valuations(em.atoms) {
		vd := map[string]bool{}
		for k, b := range v {
			vd[k] = b
		}
		for k, b := range fixed {
			vd[k] = b
		}
		if em.fail(v) != ed.fail(vd) {
			return d, fmt.Sprintf("for %v %s %s but the documented condition of %s (%s) says it %s", fmtVal(v), fnName(d), failWord(ed.fail(vd)), fnName(m), em.doc, failWord(em.fail(v)))
		}
	}
	return d, ""
}

// isConstTrueFunc: a func() bool without captured state whose every return is the constant true and which calls nothing.
func isConstTrueFunc(v ssa.Value) bool {
	var fn *ssa.Function
	switch x := v.(type) {
	case *ssa.Function:
		fn = x
	case *ssa.MakeClosure:
		if len(x.Bindings) == 0 {
			fn, _ = x.Fn.(*ssa.Function)
		}
	}
	if fn == nil || fn.Blocks == nil || len(fn.Params) != 0 || len(callsIn(fn)) != 0 {
		return false
	}
	rets := returnsOf(fn)
	for _, ret := range rets {
		if val, ok := retConstBool(ret); !ok || !val {
			return false
		}
	}
	return len(rets) > 0
}

// checkC20UnlistedKind: the general clauses for a step kind without an entry in the table of documented conditions.
func checkC20UnlistedKind(cx *Ctx, r *Report, cons, cl *ssa.Function) {
	w, fx := cx.W, cx.Fx
	key := w.FuncKey(cons)
	// the failure callback: the constructor's parameter of type func()
	var cb *ssa.FreeVar
	for _, fv := range cl.FreeVars {
		cell := fx.ownerCell(fv)
		if cell == nil {
			continue
		}
		if sig, isSig := derefType(cell.Type()).Underlying().(*types.Signature); isSig && sig.Params().Len() == 0 && sig.Results().Len() == 0 {
			if cb != nil {
				r.Undecided("R-CHK-COND", key, w.FnPos(cons), "unlisted step kind with more than one func() parameter: which one is the failure callback cannot be told")
				return
			}
			cb = fv
		}
	}
	if cb == nil {
		r.Undecided("R-CHK-COND", key, w.FnPos(cons), "unlisted step kind without a failure callback parameter")
		return
	}
	paths, okp := enumPaths(cl, nil, 256)
	if !okp {
		r.Undecided("R-CHK-COND", key, w.FnPos(cl), "too many paths in step closure")
		return
	}
	bad := ""
	n := 0
	for _, p := range paths {
		if !p.feasible() {
			continue
		}
		ret := p.Return()
		if ret == nil || len(ret.Results) != 1 {
			continue
		}
		ap := APath{Path: p, Ret: ret}
		k, isK := fx.retVal(&ap, 0).(*ssa.Const)
		if !isK || k.Value == nil {
			bad = "the verdict of the step is not a constant on a path (" + w.InstrPos(ret) + ")"
			break
		}
		failed := k.Value.ExactString() == "true"
		calls := 0
		for _, in := range p.Instrs() {
			c, isC := in.(ssa.CallInstruction)
			if !isC {
				continue
			}
			if ld, isLd := c.Common().Value.(*ssa.UnOp); isLd && ld.X == ssa.Value(cb) {
				calls++
				if _, isCall := in.(*ssa.Call); !isCall {
					bad = "the failure callback is deferred or started as a goroutine"
				}
			}
		}
		n++
		if failed && calls != 1 || !failed && calls != 0 {
			bad = fmt.Sprintf("a path reports failed=%v after running the failure callback %d time(s) (%s)", failed, calls, w.InstrPos(ret))
		}
	}
	for _, b := range cl.Blocks {
		for _, in := range b.Instrs {
			if c, isC := in.(ssa.CallInstruction); isC {
				if ld, isLd := c.Common().Value.(*ssa.UnOp); isLd && ld.X == ssa.Value(cb) && fx.info(cl).reachable(b, b) {
					bad = "the failure callback is called inside a loop"
				}
			}
		}
	}
	r.Check(bad == "" && n > 0, "R-CHK-COND", key, w.FnPos(cons), "step kind not listed by the property: reports failure exactly where it ran its failure callback, once", bad)
}

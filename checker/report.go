package main

import (
	"bufio"
	"encoding/json"
	"fmt"
	"os"
	"path/filepath"
	"sort"
	"strings"
	"time"
)

// Obligation is one enumerated instance of a rule and its verdict.
type Obligation struct {
	Rule    string `json:"rule"`
	Key     string `json:"key"`
	Pos     string `json:"pos,omitempty"`
	Verdict string `json:"verdict"` // ok | violation | undecided | known-finding
	Detail  string `json:"detail,omitempty"`
}

type Report struct {
	Property string
	Tier     string
	Obl      []Obligation
	Clauses  []string // decided clauses, free text
	NotDec   []string // what is not decided
	Assume   []string
	Extra    map[string]any
	seen     map[string]bool
}

func newReport(prop, tier string) *Report {
	return &Report{Property: prop, Tier: tier, Extra: map[string]any{}, seen: map[string]bool{}}
}

func (r *Report) add(o Obligation) {
	k := o.Rule + "|" + o.Key + "|" + o.Verdict
	if r.seen[k] {
		return
	}
	r.seen[k] = true
	r.Obl = append(r.Obl, o)
}

func (r *Report) Ok(rule, key, pos, detail string) {
	r.add(Obligation{rule, key, pos, "ok", detail})
}
func (r *Report) Fail(rule, key, pos, detail string) {
	r.add(Obligation{rule, key, pos, "violation", detail})
}
func (r *Report) Undecided(rule, key, pos, detail string) {
	r.add(Obligation{rule, key, pos, "undecided", "undecided: " + detail})
}

// Check records ok or violation depending on cond.
func (r *Report) Check(cond bool, rule, key, pos, okDetail, failDetail string) bool {
	if cond {
		r.Ok(rule, key, pos, okDetail)
	} else {
		r.Fail(rule, key, pos, failDetail)
	}
	return cond
}

// Min fails when a rule matched fewer instances than its semantic minimum
// (a rule that matches nothing would otherwise pass vacuously forever).
func (r *Report) Min(rule string, min int) {
	n := 0
	for _, o := range r.Obl {
		if o.Rule == rule {
			n++
		}
	}
	if n < min {
		r.Fail(rule, "#instances", "", fmt.Sprintf("rule matched %d instances, semantic minimum is %d: a verification step has disappeared", n, min))
	}
}

func (r *Report) Count(rule string) int {
	n := 0
	for _, o := range r.Obl {
		if o.Rule == rule {
			n++
		}
	}
	return n
}

type knownFinding struct {
	Property, Rule, Key, Text string
}

func loadKnownFindings(path string) ([]knownFinding, error) {
	f, err := os.Open(path)
	if err != nil {
		if os.IsNotExist(err) {
			return nil, nil
		}
		return nil, err
	}
	defer f.Close()
	var out []knownFinding
	sc := bufio.NewScanner(f)
	sc.Buffer(make([]byte, 1<<20), 1<<20)
	for sc.Scan() {
		line := strings.TrimSpace(sc.Text())
		if !strings.HasPrefix(line, "finding:") {
			continue // "fixed:" entries and comments suppress nothing
		}
		rest := strings.TrimSpace(strings.TrimPrefix(line, "finding:"))
		kf := knownFinding{}
		fields := strings.SplitN(rest, " ", 4)
		if len(fields) < 3 {
			return nil, fmt.Errorf("malformed known finding: %q", line)
		}
		for _, f := range fields[:3] {
			switch {
			case strings.HasPrefix(f, "property="):
				kf.Property = strings.TrimPrefix(f, "property=")
			case strings.HasPrefix(f, "rule="):
				kf.Rule = strings.TrimPrefix(f, "rule=")
			case strings.HasPrefix(f, "key="):
				kf.Key = strings.TrimPrefix(f, "key=")
			}
		}
		if len(fields) == 4 {
			kf.Text = fields[3]
		}
		if kf.Property == "" || kf.Rule == "" || kf.Key == "" {
			return nil, fmt.Errorf("malformed known finding: %q", line)
		}
		out = append(out, kf)
	}
	return out, sc.Err()
}

type runInfo struct {
	Packages  int
	Files     int
	Functions int
	WallS     float64
	Seed      int
	VerifDir  string
}

// finish applies the known-findings file, prints the protocol lines, writes
// evidence and returns the process exit code.
func (r *Report) finish(info runInfo, kfs []knownFinding) int {
	sort.SliceStable(r.Obl, func(i, j int) bool {
		if r.Obl[i].Rule != r.Obl[j].Rule {
			return r.Obl[i].Rule < r.Obl[j].Rule
		}
		return r.Obl[i].Key < r.Obl[j].Key
	})
	nviol := 0
	known := 0
	var viol []Obligation
	for i := range r.Obl {
		o := &r.Obl[i]
		if o.Verdict != "violation" && o.Verdict != "undecided" {
			continue
		}
		matched := false
		if o.Verdict == "violation" {
			for _, kf := range kfs {
				if kf.Property == r.Property && kf.Rule == o.Rule && kf.Key == o.Key {
					matched = true
					fmt.Printf("KNOWN-FINDING: property=%s rule=%s key=%s %s [%s] %s\n", r.Property, o.Rule, o.Key, kf.Text, o.Pos, o.Detail)
					break
				}
			}
		}
		if matched {
			o.Verdict = "known-finding"
			known++
			continue
		}
		nviol++
		viol = append(viol, *o)
	}
	evDir := filepath.Join(info.VerifDir, "evidence")
	os.MkdirAll(filepath.Join(evDir, "violations"), 0o755)
	// remove stale violation files of this property
	if old, _ := filepath.Glob(filepath.Join(evDir, "violations", r.Property+"-*.json")); old != nil {
		for _, f := range old {
			os.Remove(f)
		}
	}
	for i, o := range viol {
		p := filepath.Join(evDir, "violations", fmt.Sprintf("%s-%d.json", r.Property, i+1))
		b, _ := json.MarshalIndent(map[string]any{"property": r.Property, "rule": o.Rule, "key": o.Key, "pos": o.Pos, "detail": o.Detail, "verdict": o.Verdict}, "", " ")
		os.WriteFile(p, b, 0o644)
		fmt.Printf("VIOLATION property=%s replay=%s\n", r.Property, p)
		fmt.Printf("  rule=%s key=%s at %s: %s\n", o.Rule, o.Key, o.Pos, o.Detail)
	}
	// evidence
	perRule := map[string]map[string]int{}
	for _, o := range r.Obl {
		m := perRule[o.Rule]
		if m == nil {
			m = map[string]int{}
			perRule[o.Rule] = m
		}
		m[o.Verdict]++
		m["total"]++
	}
	discharged := 0
	for _, o := range r.Obl {
		if o.Verdict == "ok" {
			discharged++
		}
	}
	// samples: up to 3 per rule, violations first
	var samples []Obligation
	cnt := map[string]int{}
	for _, o := range r.Obl {
		if o.Verdict != "ok" {
			samples = append(samples, o)
		}
	}
	for _, o := range r.Obl {
		if o.Verdict == "ok" && cnt[o.Rule] < 3 {
			cnt[o.Rule]++
			samples = append(samples, o)
		}
	}
	if len(samples) > 60 {
		samples = samples[:60]
	}
	distinct := map[string]bool{}
	for _, o := range r.Obl {
		distinct[o.Rule+"|"+o.Key] = true
	}
	cov := map[string]any{
		"explanation": fmt.Sprintf("static analysis of %s's working tree (no execution): %d module packages, %d files, %d functions (SSA) loaded and type-checked; %d rule instances (obligations) enumerated from the source by %d rules for %s, %d discharged, %d known findings, %d violations. Decided clauses: %s",
			info.repoName(), info.Packages, info.Files, info.Functions, len(r.Obl), len(perRule), r.Property, discharged, known, nviol, strings.Join(r.Clauses, " | ")),
		"obligations":         len(r.Obl),
		"discharged":          discharged,
		"evaluations":         len(r.Obl),
		"distinct_nontrivial": len(distinct),
		"rule":                "one obligation per (rule, construct) enumerated from the resolved program; distinct = distinct (rule,key) pairs; every one is non-trivial in that it names a construct of the repository that the rule had to examine",
		"samples":             samples,
		"per_rule":            perRule,
		"known_findings":      known,
		"packages":            info.Packages,
		"files":               info.Files,
		"functions":           info.Functions,
		"not_decided":         r.NotDec,
		"checker_cmd":         fmt.Sprintf("/verif/run.sh %s %s", r.Property, r.Tier),
		"trusted_base":        []string{"go/types", "golang.org/x/tools/go/ssa", "golang.org/x/tools/go/packages", "rule tables in /verif/checker"},
		"exhaustive":          true,
	}
	for k, v := range r.Extra {
		cov[k] = v
	}
	ev := map[string]any{
		"property_id": r.Property,
		"tier":        r.Tier,
		"seed":        info.Seed,
		"level":       "other",
		"coverage":    cov,
		"assumptions": r.Assume,
		"wall_s":      info.WallS,
		"violations":  nviol,
	}
	b, _ := json.MarshalIndent(ev, "", " ")
	if err := os.WriteFile(filepath.Join(evDir, r.Property+".json"), b, 0o644); err != nil {
		fmt.Fprintln(os.Stderr, "cannot write evidence:", err)
		return 2
	}
	fmt.Printf("%s %s: %d obligations, %d ok, %d known findings, %d violations (%.1fs)\n", r.Property, r.Tier, len(r.Obl), discharged, known, nviol, info.WallS)
	for rule, m := range perRule {
		_ = rule
		_ = m
	}
	rules := make([]string, 0, len(perRule))
	for k := range perRule {
		rules = append(rules, k)
	}
	sort.Strings(rules)
	for _, k := range rules {
		fmt.Printf("  %-14s %3d instances, %3d ok\n", k, perRule[k]["total"], perRule[k]["ok"])
	}
	if nviol > 0 {
		return 1
	}
	return 0
}

func (i runInfo) repoName() string { return "zitadel/saml" }

var startTime = time.Now()

package main

import (
	"fmt"
	"go/token"
	"strings"

	"golang.org/x/tools/go/ssa"
)

func init() { register("C14", checkC14) }

const maxInflateBound = 64 << 20

var decompressorCtors = map[string]bool{
	"compress/flate.NewReader": true, "compress/flate.NewReaderDict": true, "compress/gzip.NewReader": true, "compress/zlib.NewReader": true,
	"compress/zlib.NewReaderDict": true, "compress/bzip2.NewReader": true, "compress/lzw.NewReader": true,
}

var unboundedConsumers = map[string]bool{
	"io.ReadAll": true, "io/ioutil.ReadAll": true, "io.Copy": true, "io.CopyBuffer": true, "(*bytes.Buffer).ReadFrom": true, "encoding/xml.NewDecoder": true,
	"encoding/json.NewDecoder": true, "bufio.NewReader": true, "bufio.NewReaderSize": true, "bufio.NewScanner": true, "(*strings.Builder).ReadFrom": true,
	"encoding/xml.NewTokenDecoder": true, "io.ReadFull": true, "io.ReadAtLeast": true, "(*github.com/beevik/etree.Document).ReadFrom": true,
}

// checkC14 (R-BOUND): every decompressing reader created in the module reaches consumers only through a limiter
// with a compile-time constant bound <= 64 MiB, and the over-long case is an error.
func checkC14(cx *Ctx, r *Report) {
	w := cx.W
	r.Clauses = []string{
		"every reader created by compress/{flate,gzip,zlib,bzip2,lzw} anywhere in the module (not only on handler paths) flows into a consumer (ReadAll, Copy, decoder, buffer) only through io.LimitReader / io.LimitedReader / io.CopyN / http.MaxBytesReader with a compile-time constant bound <= 64 MiB; any other use of the raw reader is reported",
		"reading exactly up to the bound is told apart from an over-long stream: the result's length is compared with the bound and the over-long case returns an error (the message is not accepted)",
	}
	r.NotDec = []string{"peak heap of the XML decoder on the (bounded) inflated data", "net/http's own limits on the compressed request size"}
	r.Assume = []string{"io.LimitReader and compress/flate behave as documented"}
	n := cx.checkDecompressors(r)
	if n == 0 {
		r.Fail("R-BOUND", "#decompressors", "", "no decompressing reader found in the module although the IdP accepts DEFLATE-encoded requests: the inflating code is no longer visible to the analysis")
	}
	// no alternative inflate implementation hidden behind an interface: the module's decode entry points all go through InflateAndDecode
	for _, dk := range []string{"xml.DecodeAuthNRequest", "xml.DecodeLogoutRequest", "xml.DecodeResponse", "xml.DecodeSignature"} {
		f := w.Func(dk)
		if f == nil {
			continue
		}
		uses := false
		for _, c := range callsIn(decodeWorker(w, throughDelegation(f))) {
			if cal := calleeOf(c); cal != nil && w.FuncKey(cal) == "xml.InflateAndDecode" {
				uses = true
			}
		}
		r.Check(uses, "R-BOUND", dk+":via-InflateAndDecode", w.FnPos(f), "decodes through the bounded InflateAndDecode", dk+" no longer decodes through InflateAndDecode: its input is inflated (or streamed) elsewhere")
	}
	// SSO and SLO decode through these entry points
	for _, hk := range []struct{ h, d string }{{kSSO, "xml.DecodeAuthNRequest"}, {kLogout, "xml.DecodeLogoutRequest"}} {
		h := w.Func(hk.h)
		if h == nil {
			continue
		}
		cs := w.callsTo(w.scopeOf(h), matchFnKey(w, hk.d))
		r.Check(len(cs) > 0, "R-BOUND", hk.h+":decoder", w.FnPos(h), "uses "+hk.d, "the handler no longer decodes its request through "+hk.d)
	}
}

// checkReaderUses follows a reader value to its uses.
func (cx *Ctx) checkReaderUses(r *Report, key string, fn *ssa.Function, rd ssa.Value, seen map[ssa.Value]bool, depth int) {
	w := cx.W
	if seen[rd] || depth > 12 {
		return
	}
	seen[rd] = true
	nUse := 0
	for _, ref := range nonDebugRefs(rd) {
		switch x := ref.(type) {
		case *ssa.MakeInterface:
			cx.checkReaderUses(r, key, fn, x, seen, depth+1)
		case *ssa.ChangeInterface:
			cx.checkReaderUses(r, key, fn, x, seen, depth+1)
		case *ssa.ChangeType:
			cx.checkReaderUses(r, key, fn, x, seen, depth+1)
		case *ssa.Phi:
			cx.checkReaderUses(r, key, fn, x, seen, depth+1)
		case *ssa.TypeAssert:
			cx.checkReaderUses(r, key, fn, x, seen, depth+1)
		case *ssa.Extract:
			if x.Index == 0 {
				cx.checkReaderUses(r, key, fn, x, seen, depth+1)
			}
		case *ssa.Store:
			// stored in a local variable: follow the loads
			if cell := cx.Fx.ownerCell(x.Addr); cell != nil && x.Val == rd {
				for _, f2 := range append([]*ssa.Function{cell.Parent()}, cell.Parent().AnonFuncs...) {
					for _, b := range f2.Blocks {
						for _, in := range b.Instrs {
							if ld, ok := in.(*ssa.UnOp); ok && cx.Fx.ownerCell(ld.X) == cell {
								cx.checkReaderUses(r, key, fn, ld, seen, depth+1)
							}
						}
					}
				}
			} else {
				r.Fail("R-BOUND", key+":escape", w.InstrPos(x), "the decompressing reader is stored into a structure: its consumers cannot be enumerated")
			}
		case *ssa.Defer:
			// defer r.Close()
		case *ssa.Return:
			r.Fail("R-BOUND", key+":escape", w.InstrPos(x), "the raw decompressing reader is returned to callers: its consumers are not bounded here")
		case ssa.CallInstruction:
			nUse++
			name := calleeName(x)
			com := x.Common()
			switch {
			case com.IsInvoke() && com.Method.Name() == "Close" && com.Value == rd:
			case com.IsInvoke() && com.Method.Name() == "Reset" && com.Value == rd:
				r.Fail("R-BOUND", key+":reset", w.InstrPos(x), "the decompressing reader is re-armed with Reset: a limit placed on it bounds each stream, not what the request inflates to in total")
			case name == "io.LimitReader":
				fi := cx.Fx.info(x.Parent())
				sb := cx.symBound(com.Args[1])
				switch {
				case fi.reachable(x.Block(), x.Block()):
					r.Fail("R-BOUND", key+":limit", w.InstrPos(x), "the limiter is created inside a loop: each pass may read up to the bound, the total is unbounded")
				case !sb.ok:
					r.Fail("R-BOUND", key+":limit", w.InstrPos(x), "the limit of io.LimitReader is not a compile-time constant (nor a parameter that every caller gives a constant): a configuration or request value decides how much is inflated")
				case sb.min <= 0 || sb.max > maxInflateBound+1:
					r.Fail("R-BOUND", key+":limit", w.InstrPos(x), fmt.Sprintf("the limit %d..%d is outside (0, 64 MiB]", sb.min, sb.max))
				default:
					r.Ok("R-BOUND", key+":limit", w.InstrPos(x), fmt.Sprintf("consumed through io.LimitReader with the constant bound %s", sb))
					cx.checkOverlong(r, key, x.(*ssa.Call), sb)
				}
			case name == "io.CopyN":
				b, ok := constInt(com.Args[2])
				r.Check(ok && b > 0 && b <= maxInflateBound+1, "R-BOUND", key+":limit", w.InstrPos(x), "io.CopyN with a constant bound", "io.CopyN without a constant bound <= 64 MiB")
			case name == "net/http.MaxBytesReader":
				b, ok := constInt(com.Args[2])
				r.Check(ok && b > 0 && b <= maxInflateBound+1, "R-BOUND", key+":limit", w.InstrPos(x), "http.MaxBytesReader with a constant bound", "http.MaxBytesReader without a constant bound <= 64 MiB")
			case unboundedConsumers[name]:
				r.Fail("R-BOUND", key+":unbounded", w.InstrPos(x), "the decompressing reader is consumed by "+shortCallee(name)+" without a limiter: the inflated size is bounded only by the compression ratio")
			default:
				if f := calleeOf(x); f != nil && f.Blocks != nil && f.Pkg != nil && isModulePath(f.Pkg.Pkg.Path()) {
					// passed to a module function: follow the parameter
					for i, a := range com.Args {
						if a == rd && i < len(f.Params) {
							cx.checkReaderUses(r, key, f, f.Params[i], seen, depth+1)
						}
					}
				} else if strings.HasPrefix(name, "(") && len(com.Args) > 0 && com.Args[0] == rd {
					// a method of the reader itself (Read): manual read loops are not an idiom of this repo
					r.Undecided("R-BOUND", key+":manual-read", w.InstrPos(x), "the reader is read manually ("+name+"); the rule cannot bound a hand-written loop")
				} else {
					r.Fail("R-BOUND", key+":unbounded", w.InstrPos(x), "the decompressing reader is handed to "+shortCallee(name)+", which is not a limiter with a constant bound")
				}
			}
		}
	}
	_ = nUse
}

// checkOverlong: the data read through the limiter is compared with the bound and the over-long case is an error.
func (cx *Ctx) checkOverlong(r *Report, key string, lim *ssa.Call, bound symBound) {
	w, fx := cx.W, cx.Fx
	fn := lim.Parent()
	// find the ReadAll consuming the limiter, then a length test against bound-1 whose true edge returns an error
	aps, ok := fx.atomPaths(fn, 4096)
	if !ok {
		r.Undecided("R-BOUND", key+":overlong", w.InstrPos(lim), "too many paths")
		return
	}
	okLong := false
	bad := ""
	for i := range aps {
		p := &aps[i]
		through := false
		for _, b := range p.Blocks {
			if b == lim.Block() {
				through = true
			}
		}
		if !through {
			continue
		}
		var cmp *Atom
		for j := range p.Atoms {
			a := &p.Atoms[j]
			if a.Op == "LT" && strings.HasPrefix(a.B, "len(") {
				if b, _ := parseSym(a.A); b == bound.base {
					cmp = a
				}
			}
		}
		errv := fx.retVal(p, fn.Signature.Results().Len()-1)
		isNil, nonNil := fx.errNilness(p, errv)
		if cmp != nil && !cmp.Neg {
			// over-long branch
			_, c := parseSym(cmp.A)
			if c != bound.k-1 {
				bad = fmt.Sprintf("the over-long test is len > %s but the limiter reads up to %s bytes: a stream longer than the cap is truncated silently or a legal one refused", symString(bound.base, c), symString(bound.base, bound.k))
			}
			if !nonNil {
				bad = "an over-long stream does not end in an error"
			}
			okLong = true
		}
		if isNil && cmp == nil {
			bad = "data is returned without comparing its length with the bound: an over-long stream is silently truncated and accepted"
		}
	}
	r.Check(okLong && bad == "", "R-BOUND", key+":overlong", w.InstrPos(lim), "more than the bound is an error; nothing is returned without the length test", bad)
}

// symBound: a limit of the form <base> + k, where base is "" (a constant) or the access path of a parameter that
// every caller in the module gives a constant; min/max are the values the limit can take.
type symBound struct {
	base     string
	k        int64
	min, max int64
	ok       bool
}

func symString(base string, k int64) string {
	if base == "" {
		return fmt.Sprint(k)
	}
	if i := strings.LastIndex(base, "/"); i >= 0 {
		base = base[i+1:]
	}
	switch {
	case k == 0:
		return base
	case k > 0:
		return fmt.Sprintf("%s+%d", base, k)
	}
	return fmt.Sprintf("%s%d", base, k)
}

func (s symBound) String() string {
	if s.base == "" {
		return fmt.Sprint(s.k)
	}
	return fmt.Sprintf("%s (= %d..%d)", symString(s.base, s.k), s.min, s.max)
}

// parseSym splits an access path of the form const:N / (X+const:K) / X.
func parseSym(p string) (string, int64) {
	if strings.HasPrefix(p, "const:") {
		var c int64
		fmt.Sscanf(strings.TrimPrefix(p, "const:"), "%d", &c)
		return "", c
	}
	if strings.HasPrefix(p, "(") && strings.HasSuffix(p, ")") {
		in := p[1 : len(p)-1]
		if i := strings.LastIndex(in, "+const:"); i > 0 {
			var c int64
			if _, err := fmt.Sscanf(in[i+len("+const:"):], "%d", &c); err == nil {
				return in[:i], c
			}
		}
		if i := strings.LastIndex(in, "-const:"); i > 0 {
			var c int64
			if _, err := fmt.Sscanf(in[i+len("-const:"):], "%d", &c); err == nil {
				return in[:i], -c
			}
		}
	}
	return p, 0
}

func (cx *Ctx) symBound(v ssa.Value) symBound {
	if c, ok := constInt(v); ok {
		return symBound{"", c, c, c, true}
	}
	var k int64
	cur := v
	for depth := 0; depth < 6; depth++ {
		switch x := cur.(type) {
		case *ssa.Convert:
			cur = x.X
			continue
		case *ssa.ChangeType:
			cur = x.X
			continue
		case *ssa.BinOp:
			if c, ok := constInt(x.Y); ok && (x.Op == token.ADD || x.Op == token.SUB) {
				if x.Op == token.ADD {
					k += c
				} else {
					k -= c
				}
				cur = x.X
				continue
			}
		case *ssa.Parameter:
			args := cx.Fx.argsOf[x]
			if len(args) == 0 || token.IsExported(x.Parent().Name()) {
				return symBound{}
			}
			sb := symBound{base: cx.Fx.path(x), k: k, ok: true}
			for i, a := range args {
				c, ok := constInt(a)
				if !ok {
					return symBound{}
				}
				if i == 0 || c+k < sb.min {
					sb.min = c + k
				}
				if i == 0 || c+k > sb.max {
					sb.max = c + k
				}
			}
			return sb
		}
		break
	}
	return symBound{}
}

// checkDecompressors applies R-BOUND to every decompressing reader of the module; returns how many were found.
func (cx *Ctx) checkDecompressors(r *Report) int {
	w := cx.W
	n := 0
	for _, fn := range w.Funcs {
		for _, c := range callsIn(fn) {
			name := calleeName(c)
			if !decompressorCtors[name] {
				continue
			}
			call, ok := c.(*ssa.Call)
			if !ok {
				continue
			}
			n++
			key := w.FuncKey(fn) + ":" + shortCallee(name)
			var rd ssa.Value = call
			if call.Call.Signature().Results().Len() > 1 {
				rd = nil
				for _, ref := range *call.Referrers() {
					if e, ok := ref.(*ssa.Extract); ok && e.Index == 0 {
						rd = e
					}
				}
			}
			if rd == nil {
				r.Undecided("R-BOUND", key, w.InstrPos(call), "reader result not found")
				continue
			}
			cx.checkReaderUses(r, key, fn, rd, map[ssa.Value]bool{}, 0)
		}
	}
	return n
}

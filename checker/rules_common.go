package main

import (
	"fmt"
	"go/constant"
	"go/token"
	"go/types"
	"sort"
	"strings"

	"golang.org/x/tools/go/ssa"
)

const (
	kSSO      = "provider.(*IdentityProvider).ssoHandleFunc"
	kCallback = "provider.(*IdentityProvider).callbackHandleFunc"
	kLogout   = "provider.(*IdentityProvider).logoutHandleFunc"
	kAttr     = "provider.(*IdentityProvider).attributeQueryHandleFunc"
	kCert     = "provider.(*IdentityProvider).certificateHandleFunc"
	kMeta     = "provider.(*Provider).metadataHandle"
	kHealth   = "provider.healthHandler"
	kReady    = "provider.readyHandler$1"
	kNewSP    = "serviceprovider.NewServiceProvider"
)

// ---------------------------------------------------------------------------
// Entry points: derived from the routing code on every run.
// ---------------------------------------------------------------------------

// boundTarget resolves a function value used as a handler: a bound-method closure
// (p.ssoHandleFunc), a plain function (healthHandler) or the closure returned by a
// factory call (readyHandler(...)).
func (cx *Ctx) handlerTargets(v ssa.Value) []*ssa.Function {
	w := cx.W
	switch x := v.(type) {
	case *ssa.ChangeType:
		return cx.handlerTargets(x.X)
	case *ssa.MakeInterface:
		return cx.handlerTargets(x.X)
	case *ssa.MakeClosure:
		fn := x.Fn.(*ssa.Function)
		if strings.HasPrefix(fn.Synthetic, "bound method wrapper") {
			if obj, ok := fn.Object().(*types.Func); ok {
				if m := w.Prog.FuncValue(obj); m != nil {
					return []*ssa.Function{canon(m)}
				}
			}
			return nil
		}
		return []*ssa.Function{fn}
	case *ssa.Function:
		return []*ssa.Function{canon(x)}
	case *ssa.Call:
		// a handler wrapped by a module function - observe(name, next) returning next or a closure around it: the
		// targets of this very call are the closures the wrapper makes and the handlers passed to this call
		if f := calleeOf(x); f != nil && f.Blocks != nil && f.Pkg != nil && isModulePath(f.Pkg.Pkg.Path()) {
			var out []*ssa.Function
			seen := map[*ssa.Function]bool{}
			add := func(fs []*ssa.Function) {
				for _, h := range fs {
					if !seen[h] {
						seen[h] = true
						out = append(out, h)
					}
				}
			}
			argOf := func(p *ssa.Parameter) ssa.Value {
				for i, q := range f.Params {
					if q == p && i < len(x.Call.Args) {
						return x.Call.Args[i]
					}
				}
				return nil
			}
			ok := true
			for _, ret := range returnsOf(f) {
				if len(ret.Results) != 1 {
					ok = false
					break
				}
				var vals []ssa.Value
				var collect func(v ssa.Value, d int)
				collect = func(v ssa.Value, d int) {
					if phi, isPhi := v.(*ssa.Phi); isPhi && d < 4 {
						for _, e := range phi.Edges {
							collect(e, d+1)
						}
						return
					}
					vals = append(vals, v)
				}
				collect(ret.Results[0], 0)
				for _, rv := range vals {
					for {
						if ct, isCT := rv.(*ssa.ChangeType); isCT {
							rv = ct.X
							continue
						}
						break
					}
					// a captured parameter lives in a cell: `return next` loads it
					if ld, isLd := rv.(*ssa.UnOp); isLd && ld.Op == token.MUL {
						if cell, isCell := ld.X.(*ssa.Alloc); isCell {
							if st := cx.Fx.storesToCell(cell); len(st) == 1 {
								if p, isP := st[0].(*ssa.Parameter); isP {
									rv = p
								}
							}
						}
					}
					switch y := rv.(type) {
					case *ssa.Parameter:
						if a := argOf(y); a != nil {
							add(cx.handlerTargets(a))
						} else {
							ok = false
						}
					case *ssa.MakeClosure:
						cl := y.Fn.(*ssa.Function)
						add([]*ssa.Function{cl})
						// function-typed parameters of the wrapper the closure captures: the wrapped handlers
						for _, b := range y.Bindings {
							var p *ssa.Parameter
							switch z := b.(type) {
							case *ssa.Parameter:
								p = z
							case *ssa.Alloc:
								if st := cx.Fx.storesToCell(z); len(st) == 1 {
									p, _ = st[0].(*ssa.Parameter)
								}
							}
							if p == nil {
								continue
							}
							if _, isSig := p.Type().Underlying().(*types.Signature); !isSig {
								continue
							}
							if a := argOf(p); a != nil {
								add(cx.handlerTargets(a))
							}
						}
					default:
						ok = false
					}
				}
			}
			if ok && len(out) > 0 {
				return out
			}
		}
		tg, _ := cx.Fx.funcTargets(x)
		return tg
	}
	tg, _ := cx.Fx.funcTargets(v)
	return tg
}

type routeInfo struct {
	Handler  *ssa.Function
	Endpoint string // access path of the endpoint whose Relative() is the route ("GetRoutes/p.endpoints.singleSignOnEndpoint"), or the constant path
	Pos      string
}

// entryPoints returns the routed handlers (key -> function). Fewer than the 8 routes
// of the pinned design is reported by the caller.
func (cx *Ctx) routes() []routeInfo {
	if cx.routesMemo != nil {
		return cx.routesMemo
	}
	w, fx := cx.W, cx.Fx
	var out []routeInfo
	// CreateRouter: router.HandleFunc(path, handler) / router.Handle(path, handler)
	if cr := w.Func("provider.CreateRouter"); cr != nil {
		// (registration may sit in private pieces of CreateRouter: registerProbeRoutes(router, ...))
		var regCalls []ssa.CallInstruction
		for _, g := range cx.privateHelpers(cr) {
			regCalls = append(regCalls, callsIn(g)...)
		}
		for _, c := range regCalls {
			n := calleeName(c)
			if n != "(*github.com/gorilla/mux.Router).HandleFunc" && n != "(*github.com/gorilla/mux.Router).Handle" {
				continue
			}
			args := c.Common().Args
			if len(args) < 3 {
				continue
			}
			ep := fx.path(args[1])
			if ec, ok := args[1].(*ssa.Call); ok && strings.HasSuffix(calleeName(ec), "Endpoint).Relative") && len(ec.Call.Args) == 1 {
				ep = "Relative(" + fx.path(ec.Call.Args[0]) + ")"
			}
			for _, h := range cx.handlerTargets(args[2]) {
				out = append(out, routeInfo{h, ep, w.InstrPos(c)})
			}
		}
	}
	// GetRoutes: []*Route{{endpoint.Relative(), handler}, ...}
	if gr := w.Func("provider.(*IdentityProvider).GetRoutes"); gr != nil {
		type rt struct {
			ep string
			h  []*ssa.Function
			p  string
		}
		byObj := map[ssa.Value]*rt{}
		for _, b := range gr.Blocks {
			for _, in := range b.Instrs {
				st, ok := in.(*ssa.Store)
				if !ok {
					continue
				}
				fa, ok := st.Addr.(*ssa.FieldAddr)
				if !ok || typeKey(fa.X.Type()) != "provider.Route" {
					continue
				}
				r := byObj[fa.X]
				if r == nil {
					r = &rt{p: w.InstrPos(st)}
					byObj[fa.X] = r
				}
				switch fname(fieldVar(fa.X.Type(), fa.Field)) {
				case "Endpoint":
					if c, ok := st.Val.(*ssa.Call); ok && strings.HasSuffix(calleeName(c), "Endpoint).Relative") && len(c.Call.Args) == 1 {
						r.ep = "Relative(" + fx.path(c.Call.Args[0]) + ")"
					} else {
						r.ep = fx.path(st.Val)
					}
				case "HandleFunc":
					r.h = cx.handlerTargets(st.Val)
				}
			}
		}
		var rs []*rt
		for _, r := range byObj {
			rs = append(rs, r)
		}
		sort.Slice(rs, func(i, j int) bool { return rs[i].p < rs[j].p })
		for _, r := range rs {
			for _, h := range r.h {
				out = append(out, routeInfo{h, r.ep, r.p})
			}
		}
	}
	cx.routesMemo = out
	return out
}

// handlerScope: module functions reachable from the routed handlers and NewServiceProvider.
func (cx *Ctx) handlerScope() map[*ssa.Function]bool {
	if cx.hscope != nil {
		return cx.hscope
	}
	m := map[*ssa.Function]bool{}
	for _, r := range cx.routes() {
		cx.W.refClosure(r.Handler, m)
	}
	// code that runs per request but is wired up when the router is built: the interceptor chain, the
	// probe closures, and the issuer closures the exported factories return
	for _, k := range []string{"provider.CreateRouter", "provider.issuerFromForwardedOrHost$1$1", "provider.StaticIssuer$1$1"} {
		if f := cx.W.Func(k); f != nil {
			cx.W.refClosure(f, m)
		}
	}
	// methods of module values handed out as interfaces (AttributeSetter)
	vf := cx.newVFlowFns(m)
	cx.hscope = vf.scope
	return cx.hscope
}

func (cx *Ctx) newVFlowFns(seed map[*ssa.Function]bool) *VFlow {
	var fns []*ssa.Function
	for f := range seed {
		fns = append(fns, f)
	}
	return cx.newVFlow("*", fns...)
}

func (cx *Ctx) vflow(key string) *VFlow {
	if cx.vfMemo == nil {
		cx.vfMemo = map[string]*VFlow{}
	}
	if v, ok := cx.vfMemo[key]; ok {
		return v
	}
	fn := cx.W.Func(key)
	if fn == nil {
		return nil
	}
	v := cx.newVFlow(key, fn)
	cx.vfMemo[key] = v
	return v
}

func (cx *Ctx) chain(r *Report, key string) *Chain {
	if cx.chMemo == nil {
		cx.chMemo = map[string]*Chain{}
		cx.chErr = map[string]string{}
	}
	fn := cx.W.Func(key)
	if _, ok := cx.chMemo[key]; !ok {
		switch {
		case fn == nil:
			cx.chMemo[key], cx.chErr[key] = nil, "anchor function not found: the handler was renamed or removed"
		default:
			ch, err := cx.W.extractChain(cx.Fx, fn)
			if err != nil {
				cx.chMemo[key], cx.chErr[key] = nil, "validation chain not recognised: "+err.Error()
			} else {
				cx.chMemo[key] = ch
			}
		}
	}
	// every report that relies on the chain records the outcome (several properties may run in one process)
	ch := cx.chMemo[key]
	seen := false
	for _, o := range r.Obl {
		if o.Rule == "R-CHAIN" && o.Key == key {
			seen = true
		}
	}
	if !seen {
		switch {
		case fn == nil:
			r.Fail("R-CHAIN", key, "", cx.chErr[key])
		case ch == nil:
			r.Undecided("R-CHAIN", key, cx.W.FnPos(fn), cx.chErr[key])
		default:
			r.Ok("R-CHAIN", key, cx.W.FnPos(fn), fmt.Sprintf("%d steps extracted; every registration executes exactly once before the single CheckFailed", len(ch.Steps)))
		}
	}
	return ch
}

// requireC20 makes chain-based rules refuse to run when the checker package does not
// have the semantics the chain model assumes (property C20).
func (cx *Ctx) requireC20(r *Report) bool {
	if cx.c20ok == 0 {
		tmp := newReport("C20", "quick")
		checkC20(cx, tmp)
		cx.c20ok = 1
		for _, o := range tmp.Obl {
			if o.Verdict != "ok" {
				cx.c20ok = 2
				cx.c20why = o.Rule + " " + o.Key + ": " + o.Detail
			}
		}
	}
	if cx.c20ok == 2 {
		r.Fail("R-CHAIN-SEM", "checker package", "", "the chain model is not valid on this tree because property C20 fails ("+cx.c20why+"); chain-based clauses cannot be decided")
		return false
	}
	r.Ok("R-CHAIN-SEM", "checker package", "", "C20's clauses hold: steps run in registration order, stop at the first failure, callback exactly once")
	return true
}

// ---------------------------------------------------------------------------
// Step recognition helpers
// ---------------------------------------------------------------------------

func matchStorage(method string) func(ssa.CallInstruction) bool {
	return func(c ssa.CallInstruction) bool { return storageMethod(c) == method }
}

func matchFnKey(w *World, keys ...string) func(ssa.CallInstruction) bool {
	set := map[string]bool{}
	for _, k := range keys {
		set[k] = true
	}
	return func(c ssa.CallInstruction) bool {
		f := calleeOf(c)
		return f != nil && set[w.FuncKey(f)]
	}
}

// matchDecoder: a call to a function of the module's xml package whose first result is a pointer to the given
// wire type (the request decoder, whatever it is called).
func matchDecoder(w *World, typ string) func(ssa.CallInstruction) bool {
	return func(c ssa.CallInstruction) bool {
		f := calleeOf(c)
		if f == nil || f.Pkg == nil || f.Pkg.Pkg.Path() != modPath+"/pkg/provider/xml" {
			return false
		}
		res := f.Signature.Results()
		if res.Len() < 1 || typeKey(res.At(0).Type()) != typ {
			return false
		}
		// a decoder delegating to a (generic) helper decoder of the same type: the call inside the decoder is not
		// a call site of "the decoder", its caller's is
		if p := c.Parent(); p != nil && p.Pkg != nil && p.Pkg.Pkg.Path() == modPath+"/pkg/provider/xml" {
			if pr := p.Signature.Results(); pr.Len() >= 1 && typeKey(pr.At(0).Type()) == typ {
				return false
			}
		}
		return true
	}
}

// delegateOf: fn does nothing but `return g(args...)` for a module function g with a body (all results of the
// one call are returned, in order, on every return): g and the call; otherwise nil. Following it lets a rule about
// "what DecodeX does" look at the helper that does it.
func delegateOf(fn *ssa.Function) (*ssa.Function, *ssa.Call) {
	rets := returnsOf(fn)
	if len(rets) == 0 {
		return nil, nil
	}
	var del *ssa.Call
	for _, ret := range rets {
		var c *ssa.Call
		switch len(ret.Results) {
		case 0:
			return nil, nil
		case 1:
			c, _ = ret.Results[0].(*ssa.Call)
		default:
			for i, rv := range ret.Results {
				e, ok := rv.(*ssa.Extract)
				if !ok || e.Index != i {
					return nil, nil
				}
				cc, isC := e.Tuple.(*ssa.Call)
				if !isC || c != nil && cc != c {
					return nil, nil
				}
				c = cc
			}
		}
		if c == nil || del != nil && del != c {
			return nil, nil
		}
		del = c
	}
	g := calleeOf(del)
	if g == nil || g.Blocks == nil || g.Pkg == nil || !isModulePath(g.Pkg.Pkg.Path()) || isMockPath(g.Pkg.Pkg.Path()) {
		return nil, nil
	}
	// nothing else happens in fn: no other call
	for _, c := range callsIn(fn) {
		if c != ssa.CallInstruction(del) {
			return nil, nil
		}
	}
	return g, del
}

// throughDelegation follows delegateOf up to three hops.
func throughDelegation(fn *ssa.Function) *ssa.Function {
	for hops := 0; hops < 3 && fn != nil; hops++ {
		g, _ := delegateOf(fn)
		if g == nil {
			break
		}
		fn = g
	}
	return fn
}

// checkDecodesWholeMessage: the request decoder dk (followed through plain delegation) turns the complete transport
// string into bytes with InflateAndDecode - whose base64 / DEFLATE errors cover the whole input - and parses exactly
// those bytes with encoding/xml.Unmarshal. A streaming decoder stops at the end of the root element and never sees
// a transport error behind it, so a message that does not decode would be treated as decoded.
func (cx *Ctx) checkDecodesWholeMessage(r *Report, rule, dk string) {
	w := cx.W
	f := w.Func(dk)
	if f == nil {
		r.Fail(rule, dk+":whole-message", "", "anchor not found")
		return
	}
	f = decodeWorker(w, throughDelegation(f))
	var inflate, unmarshal *ssa.Call
	for _, c := range callsIn(f) {
		call, ok := c.(*ssa.Call)
		if !ok {
			continue
		}
		if cal := calleeOf(call); cal != nil && w.FuncKey(cal) == "xml.InflateAndDecode" {
			inflate = call
		}
		if calleeName(call) == "encoding/xml.Unmarshal" {
			unmarshal = call
		}
	}
	bad := ""
	switch {
	case inflate == nil:
		bad = dk + " does not obtain its bytes from InflateAndDecode"
	case unmarshal == nil:
		bad = dk + " does not parse with encoding/xml.Unmarshal (a streaming decoder stops at the end of the root element: transport errors behind it go unnoticed)"
	default:
		ok := false
		if e, isE := unmarshal.Call.Args[0].(*ssa.Extract); isE && e.Tuple == ssa.Value(inflate) && e.Index == 0 {
			ok = true
		}
		for _, a := range cx.Fx.aliasesOf(unmarshal.Call.Args[0]) {
			if e, isE := a.(*ssa.Extract); isE && e.Tuple == ssa.Value(inflate) && e.Index == 0 {
				ok = true
			}
		}
		if !ok {
			for _, ref := range nonDebugRefs(inflate) {
				if e, isE := ref.(*ssa.Extract); isE && e.Index == 0 {
					for _, a := range cx.Fx.aliasesOf(e) {
						if a == unmarshal.Call.Args[0] {
							ok = true
						}
					}
				}
			}
		}
		if !ok {
			bad = dk + " parses bytes other than the ones InflateAndDecode returned"
		}
	}
	r.Check(bad == "", rule, dk+":whole-message", w.FnPos(f), "InflateAndDecode of the complete transport string, then xml.Unmarshal of exactly those bytes", bad)
}

// decodeWorker: the function that does a decoder's work. A decoder that does not call InflateAndDecode itself but one
// helper of its own package that does (`decodeInto(encoding, b64, message, target)`, up to two levels) is judged on
// that helper: the same bytes-then-Unmarshal discipline, one level down.
func decodeWorker(w *World, f *ssa.Function) *ssa.Function {
	calls := func(g *ssa.Function) bool {
		for _, c := range callsIn(g) {
			if cal := calleeOf(c); cal != nil && w.FuncKey(cal) == "xml.InflateAndDecode" {
				return true
			}
		}
		return false
	}
	cur := f
	for depth := 0; depth < 3 && cur != nil; depth++ {
		if calls(cur) {
			return cur
		}
		var next *ssa.Function
		for _, c := range callsIn(cur) {
			g := calleeOf(c)
			if g == nil || g.Blocks == nil || g.Pkg != cur.Pkg || g == cur {
				continue
			}
			h := throughDelegation(g)
			if calls(h) || func() bool {
				for _, c2 := range callsIn(h) {
					if g2 := calleeOf(c2); g2 != nil && g2.Blocks != nil && g2.Pkg == cur.Pkg && calls(throughDelegation(g2)) {
						return true
					}
				}
				return false
			}() {
				if next != nil && next != h {
					return f // ambiguous: judge the decoder itself
				}
				next = h
			}
		}
		cur = next
	}
	return f
}

// decoderErrorOK: ev is the error of InflateAndDecode / encoding/xml, possibly handed up by a helper of the decoder's
// own package whose every error return is such an error.
func decoderErrorOK(w *World, ev ssa.Value, pkg *ssa.Package, depth int) bool {
	var c *ssa.Call
	switch x := ev.(type) {
	case *ssa.Extract:
		c, _ = x.Tuple.(*ssa.Call)
	case *ssa.Call:
		c = x
	}
	if c == nil {
		return false
	}
	n := calleeName(c)
	if strings.HasSuffix(n, "xml.InflateAndDecode") || n == "encoding/xml.Unmarshal" || n == "(*encoding/xml.Decoder).Decode" {
		return true
	}
	g := calleeOf(c)
	if g == nil || g.Blocks == nil || g.Pkg != pkg || depth >= 2 {
		return false
	}
	res := g.Signature.Results()
	if res.Len() == 0 || !isErrorType(res.At(res.Len()-1).Type()) {
		return false
	}
	for _, ret := range returnsOf(g) {
		e := ret.Results[len(ret.Results)-1]
		if isNilConst(e) {
			continue
		}
		if !decoderErrorOK(w, e, pkg, depth+1) {
			return false
		}
	}
	return true
}

func matchAnyCall(ms ...func(ssa.CallInstruction) bool) func(ssa.CallInstruction) bool {
	return func(c ssa.CallInstruction) bool {
		for _, m := range ms {
			if m(c) {
				return true
			}
		}
		return false
	}
}

// stepsReaching: steps whose logic/cond/value closures (not the error callback) can reach a matching call.
func (cx *Ctx) stepsReaching(ch *Chain, match func(ssa.CallInstruction) bool) []*Step {
	var out []*Step
	for _, s := range ch.Steps {
		if cx.W.scopeHasCall(s.Scope, match) {
			out = append(out, s)
		}
	}
	return out
}

// roleFactory: key of the factory function that created the closure playing role in step s ("" if a literal of the handler).
func (cx *Ctx) roleFactory(s *Step, role string) string {
	f := s.Fn(role)
	if f == nil || f.Parent() == nil {
		return ""
	}
	return cx.W.FuncKey(f.Parent())
}

// stepByFactory: steps whose role closure was made by the factory function key.
func (cx *Ctx) stepsByFactory(ch *Chain, role, factoryKey string) []*Step {
	var out []*Step
	for _, s := range ch.Steps {
		if cx.roleFactory(s, role) == factoryKey || len(cx.factoryCallsOfStep(s, role, factoryKey)) > 0 {
			out = append(out, s)
		}
	}
	return out
}

// factoryCallsOfStep: the calls of the factory function whose result is the step's role closure - handed over
// directly (`WithLogicStep(factory(...), ...)`), or kept in a handler local that the role closure (a function literal
// wrapping it, e.g. to record the error) calls: `check := factory(...)` ... `func() error { err = check(); return err }`.
func (cx *Ctx) factoryCallsOfStep(s *Step, role, factoryKey string) []*ssa.Call {
	w, fx := cx.W, cx.Fx
	isFactoryCall := func(v ssa.Value) *ssa.Call {
		if c, ok := v.(*ssa.Call); ok {
			if g := calleeOf(c); g != nil && w.FuncKey(g) == factoryKey {
				return c
			}
		}
		return nil
	}
	if c := isFactoryCall(s.Arg[role]); c != nil {
		return []*ssa.Call{c}
	}
	var out []*ssa.Call
	seen := map[*ssa.Call]bool{}
	for _, f := range s.Role[role] {
		if f.Parent() == nil || w.FuncKey(f.Parent()) == factoryKey {
			continue
		}
		for _, c := range callsIn(f) {
			// the (former) factory called from inside the role closure: `func() error { return check(a, b, c) }`
			if cc, isCall := c.(*ssa.Call); isCall {
				if fc := isFactoryCall(cc); fc != nil && !seen[fc] {
					seen[fc] = true
					out = append(out, fc)
					continue
				}
			}
			if c.Common().IsInvoke() || calleeOf(c) != nil {
				continue
			}
			v := c.Common().Value
			if fc := isFactoryCall(v); fc != nil && !seen[fc] {
				seen[fc] = true
				out = append(out, fc)
				continue
			}
			ld, ok := v.(*ssa.UnOp)
			if !ok || ld.Op != token.MUL {
				continue
			}
			cell := fx.ownerCell(ld.X)
			if cell == nil {
				continue
			}
			for _, st := range fx.storesToCell(cell) {
				if fc := isFactoryCall(st); fc != nil && !seen[fc] {
					seen[fc] = true
					out = append(out, fc)
				}
			}
		}
	}
	return out
}

// suffixScope: functions reachable from calls made in the suffix (after the chain passed).
func (cx *Ctx) suffixCalls(ch *Chain) []ssa.CallInstruction {
	var out []ssa.CallInstruction
	for _, b := range ch.suffixBlocks() {
		for _, in := range b.Instrs {
			if c, ok := in.(ssa.CallInstruction); ok {
				out = append(out, c)
			}
		}
	}
	return out
}

func (cx *Ctx) scopeOfCalls(cs []ssa.CallInstruction) map[*ssa.Function]bool {
	m := map[*ssa.Function]bool{}
	for _, c := range cs {
		if f := calleeOf(c); f != nil {
			cx.W.refClosure(f, m)
		}
		var ops [16]*ssa.Value
		for _, op := range c.Operands(ops[:0]) {
			if op == nil || *op == nil {
				continue
			}
			switch v := (*op).(type) {
			case *ssa.MakeClosure:
				cx.W.refClosure(v.Fn.(*ssa.Function), m)
			case *ssa.Function:
				cx.W.refClosure(v, m)
			}
		}
	}
	return m
}

// stepIndexOfFn: the step (and role) a function belongs to, by scope membership; -1 when it is not part of any step.
func stepOfFn(ch *Chain, fn *ssa.Function) (*Step, bool) {
	for _, s := range ch.Steps {
		if s.Scope[fn] {
			return s, false
		}
		if s.EScp[fn] {
			return s, true
		}
	}
	return nil, false
}

// ---------------------------------------------------------------------------
// Error-result helpers
// ---------------------------------------------------------------------------

func isErrorType(t types.Type) bool {
	n, ok := t.(*types.Named)
	return ok && n.Obj().Pkg() == nil && n.Obj().Name() == "error"
}

// errResult returns the SSA value holding the error result of call c (nil if c
// returns no error, discarded=true if the error result is never extracted).
func errResult(c *ssa.Call) (v ssa.Value, has bool, discarded bool) {
	res := c.Call.Signature().Results()
	if res.Len() == 0 || !isErrorType(res.At(res.Len()-1).Type()) {
		return nil, false, false
	}
	if res.Len() == 1 {
		return c, true, len(nonDebugRefs(c)) == 0
	}
	for _, ref := range *c.Referrers() {
		if e, ok := ref.(*ssa.Extract); ok && e.Index == res.Len()-1 {
			return e, true, len(nonDebugRefs(e)) == 0
		}
	}
	return nil, true, true
}

func nonDebugRefs(v ssa.Value) []ssa.Instruction {
	var out []ssa.Instruction
	if v.Referrers() == nil {
		return nil
	}
	for _, r := range *v.Referrers() {
		if _, ok := r.(*ssa.DebugRef); !ok {
			out = append(out, r)
		}
	}
	return out
}

// aliasesOf: v plus the loads of a cell that v was stored into, as long as no other
// store to that cell can intervene (same function; cell written only with v, or loads in
// the block of the store after it).
func (fx *Facts) aliasesOf(v ssa.Value) []ssa.Value {
	out := fx.aliasesOf0(v)
	// a value handed to a module function / local closure that returns that parameter unchanged
	// (`report := func(err error) error { errF(err); return err }`) lives on in the call's result
	seen := map[ssa.Value]bool{}
	for i := 0; i < len(out) && i < 64; i++ {
		x := out[i]
		if seen[x] {
			continue
		}
		seen[x] = true
		for _, ref := range nonDebugRefs(x) {
			call, ok := ref.(*ssa.Call)
			if !ok || call.Call.IsInvoke() {
				continue
			}
			var tgt *ssa.Function
			if f := calleeOf(call); f != nil {
				tgt = f
			} else if _, isB := call.Call.Value.(*ssa.Builtin); !isB {
				if tg, ok := fx.funcTargets(call.Call.Value); ok && len(tg) == 1 {
					tgt = tg[0]
				}
			}
			if tgt == nil || tgt.Blocks == nil || tgt.Pkg == nil || !isModulePath(tgt.Pkg.Pkg.Path()) {
				continue
			}
			idx, isID := identityParam(tgt)
			if !isID || idx >= len(call.Call.Args) || call.Call.Args[idx] != x {
				continue
			}
			for _, a := range fx.aliasesOf0(call) {
				if !seen[a] {
					out = append(out, a)
				}
			}
		}
	}
	return out
}

// throughIdentity: v is the result of calling a module function / local closure that returns one of its parameters
// unchanged: the argument (repeatedly).
func (fx *Facts) throughIdentity(v ssa.Value) ssa.Value {
	for d := 0; d < 4; d++ {
		call, ok := v.(*ssa.Call)
		if !ok || call.Call.IsInvoke() {
			return v
		}
		var tgt *ssa.Function
		if f := calleeOf(call); f != nil {
			tgt = f
		} else if _, isB := call.Call.Value.(*ssa.Builtin); !isB {
			if tg, ok := fx.funcTargets(call.Call.Value); ok && len(tg) == 1 {
				tgt = tg[0]
			}
		}
		if tgt == nil || tgt.Blocks == nil || tgt.Pkg == nil || !isModulePath(tgt.Pkg.Pkg.Path()) {
			return v
		}
		idx, isID := identityParam(tgt)
		if !isID || idx >= len(call.Call.Args) {
			return v
		}
		v = call.Call.Args[idx]
	}
	return v
}

// identityParam: fn has one result and every return yields the same parameter (not a captured variable).
func identityParam(fn *ssa.Function) (int, bool) {
	if fn.Signature.Results().Len() != 1 {
		return 0, false
	}
	var par *ssa.Parameter
	n := 0
	for _, ret := range returnsOf(fn) {
		p, ok := ret.Results[0].(*ssa.Parameter)
		if !ok || (par != nil && p != par) {
			return 0, false
		}
		par = p
		n++
	}
	if n == 0 || par == nil {
		return 0, false
	}
	for i, q := range fn.Params {
		if q == par {
			return i, true // static calls pass the receiver as argument 0, as fn.Params does
		}
	}
	return 0, false
}

func (fx *Facts) aliasesOf0(v ssa.Value) []ssa.Value {
	out := []ssa.Value{v}
	// a variable kept in registers: the phis the value flows into may hold it
	seenPhi := map[*ssa.Phi]bool{}
	var phis func(x ssa.Value, d int)
	phis = func(x ssa.Value, d int) {
		if d > 4 {
			return
		}
		for _, ref := range nonDebugRefs(x) {
			if p, ok := ref.(*ssa.Phi); ok && !seenPhi[p] {
				seenPhi[p] = true
				out = append(out, p)
				phis(p, d+1)
			}
		}
	}
	phis(v, 0)
	for _, ref := range nonDebugRefs(v) {
		st, ok := ref.(*ssa.Store)
		if !ok || st.Val != v {
			continue
		}
		cell := fx.ownerCell(st.Addr)
		if cell == nil {
			continue
		}
		b := st.Block()
		after := false
		for _, in := range b.Instrs {
			if in == ssa.Instruction(st) {
				after = true
				continue
			}
			if !after {
				continue
			}
			if s2, ok := in.(*ssa.Store); ok && fx.ownerCell(s2.Addr) == cell {
				break
			}
			if ld, ok := in.(*ssa.UnOp); ok && ld.Op == token.MUL && fx.ownerCell(ld.X) == cell {
				out = append(out, ld)
			}
		}
		// loads in blocks dominated by the store block, when no other store to the cell exists in this function after it
		fn := st.Parent()
		otherStore := false
		for _, s2 := range fx.info(fn).stores {
			if s2 != st && fx.ownerCell(s2.Addr) == cell {
				sb := s2.Block()
				if sb == b && instrIndex(s2) > instrIndex(st) || sb != b && fx.info(fn).reachable(b, sb) {
					otherStore = true
				}
			}
		}
		if otherStore {
			// the variable is assigned elsewhere too (`err = f()` in one case of a switch, tested after it):
			// a load the store can reach may see this value
			for _, bb := range fn.Blocks {
				if bb == b || !fx.info(fn).reachable(b, bb) {
					continue
				}
				for _, in := range bb.Instrs {
					if ld, ok := in.(*ssa.UnOp); ok && ld.Op == token.MUL && fx.ownerCell(ld.X) == cell {
						out = append(out, ld)
					}
				}
			}
		}
		if !otherStore {
			for _, bb := range fn.Blocks {
				if bb == b || !fx.info(fn).reachable(b, bb) {
					continue
				}
				for _, in := range bb.Instrs {
					if ld, ok := in.(*ssa.UnOp); ok && ld.Op == token.MUL && fx.ownerCell(ld.X) == cell {
						out = append(out, ld)
					}
				}
			}
		}
	}
	return out
}

// nilTest: if cond is `x != nil` / `x == nil` returns x and whether the true edge means non-nil.
func nilTest(cond ssa.Value) (x ssa.Value, trueIsNonNil bool, ok bool) {
	neg := false
	for {
		u, isU := cond.(*ssa.UnOp)
		if !isU || u.Op != token.NOT {
			break
		}
		cond = u.X
		neg = !neg
	}
	b, isB := cond.(*ssa.BinOp)
	if !isB || (b.Op != token.NEQ && b.Op != token.EQL) {
		return nil, false, false
	}
	var o ssa.Value
	switch {
	case isNilConst(b.Y):
		o = b.X
	case isNilConst(b.X):
		o = b.Y
	default:
		return nil, false, false
	}
	return o, (b.Op == token.NEQ) != neg, true
}

// errBranches: the blocks entered when the error value e (or an alias) is found non-nil.
func (fx *Facts) errBranches(e ssa.Value) (nonNil []*ssa.BasicBlock, tested bool) {
	for _, a := range fx.aliasesOf(e) {
		for _, ref := range nonDebugRefs(a) {
			b, ok := ref.(*ssa.BinOp)
			if !ok {
				continue
			}
			x, _, isNT := nilTest(b)
			if !isNT || x != a {
				continue
			}
			// find Ifs using b (possibly through NOT)
			var conds []ssa.Value
			conds = append(conds, b)
			for i := 0; i < len(conds); i++ {
				for _, r2 := range nonDebugRefs(conds[i]) {
					switch y := r2.(type) {
					case *ssa.UnOp:
						if y.Op == token.NOT {
							conds = append(conds, y)
						}
					case *ssa.If:
						_, tnn, _ := nilTest(y.Cond)
						tested = true
						if tnn {
							nonNil = append(nonNil, y.Block().Succs[0])
						} else {
							nonNil = append(nonNil, y.Block().Succs[1])
						}
					}
				}
			}
		}
	}
	return
}

// errTest: one branch on the nil-ness of an error value: the block that tests, the block entered when it is non-nil,
// and the value tested (e itself or an alias - possibly a phi that merges e with other errors).
type errTest struct {
	from, to *ssa.BasicBlock
	val      ssa.Value
}

func (fx *Facts) errTests(e ssa.Value) []errTest {
	var out []errTest
	for _, a := range fx.aliasesOf(e) {
		for _, ref := range nonDebugRefs(a) {
			b, ok := ref.(*ssa.BinOp)
			if !ok {
				continue
			}
			x, _, isNT := nilTest(b)
			if !isNT || x != a {
				continue
			}
			conds := []ssa.Value{b}
			for i := 0; i < len(conds); i++ {
				for _, r2 := range nonDebugRefs(conds[i]) {
					switch y := r2.(type) {
					case *ssa.UnOp:
						if y.Op == token.NOT {
							conds = append(conds, y)
						}
					case *ssa.If:
						_, tnn, _ := nilTest(y.Cond)
						to := y.Block().Succs[1]
						if tnn {
							to = y.Block().Succs[0]
						}
						out = append(out, errTest{y.Block(), to, a})
					}
				}
			}
		}
	}
	return out
}

// tookFailingEdge: path p passes a test that found the error e non-nil - the tested value being e on this path (a
// phi that merges several errors stands for e only where the path entered it with e).
func (fx *Facts) tookFailingEdge(p *Path, e ssa.Value) bool {
	nonNil, isNil := fx.errOutcomesOnPath(p, e)
	return nonNil && !isNil // found non-nil and nil on one path: not a path
}

// errOutcomesOnPath: whether path p passes a test that found e non-nil / nil (tests of a phi count where the path
// entered the phi with e).
func (fx *Facts) errOutcomesOnPath(p *Path, e ssa.Value) (sawNonNil, sawNil bool) {
	al := map[ssa.Value]bool{e: true}
	for _, a := range fx.aliasesOf(e) {
		if _, isPhi := a.(*ssa.Phi); !isPhi {
			al[a] = true
		}
	}
	for _, t := range fx.errTests(e) {
		took, other := false, false
		for i := 0; i+1 < len(p.Blocks); i++ {
			if p.Blocks[i] == t.from {
				if p.Blocks[i+1] == t.to {
					took = true
				} else {
					other = true
				}
			}
		}
		if !took && !other {
			continue
		}
		v := t.val
		okVal := true
		for d := 0; d < 6; d++ {
			phi, isPhi := v.(*ssa.Phi)
			if !isPhi {
				break
			}
			okVal = false
			pb := phi.Block()
			for i := len(p.Blocks) - 1; i > 0; i-- {
				if p.Blocks[i] != pb {
					continue
				}
				for j, pred := range pb.Preds {
					if pred == p.Blocks[i-1] && j < len(phi.Edges) {
						v = phi.Edges[j]
						okVal = true
					}
				}
				break
			}
			if !okVal {
				break
			}
		}
		same := okVal && al[v]
		if okVal && !same {
			for _, a := range fx.aliasesOf(v) {
				if al[a] {
					same = true
				}
			}
		}
		if !same {
			continue
		}
		if took {
			sawNonNil = true
		}
		if other {
			sawNil = true
		}
	}
	return
}

func (fx *Facts) tookFailingEdgeOld(p *Path, e ssa.Value) bool {
	al := map[ssa.Value]bool{e: true}
	for _, a := range fx.aliasesOf(e) {
		if _, isPhi := a.(*ssa.Phi); !isPhi {
			al[a] = true
		}
	}
	for _, t := range fx.errTests(e) {
		took := false
		for i := 0; i+1 < len(p.Blocks); i++ {
			if p.Blocks[i] == t.from && p.Blocks[i+1] == t.to {
				took = true
			}
		}
		if !took {
			continue
		}
		v := t.val
		okVal := true
		for d := 0; d < 6; d++ {
			phi, isPhi := v.(*ssa.Phi)
			if !isPhi {
				break
			}
			okVal = false
			pb := phi.Block()
			for i := len(p.Blocks) - 1; i > 0; i-- {
				if p.Blocks[i] != pb {
					continue
				}
				for j, pred := range pb.Preds {
					if pred == p.Blocks[i-1] && j < len(phi.Edges) {
						v = phi.Edges[j]
						okVal = true
					}
				}
				break
			}
			if !okVal {
				break
			}
		}
		if okVal && (al[v] || func() bool {
			for _, a := range fx.aliasesOf(v) {
				if al[a] {
					return true
				}
			}
			return false
		}()) {
			return true
		}
	}
	return false
}

// isReturned: e (or an alias) is an operand of a Return.
func (fx *Facts) isReturned(e ssa.Value) bool {
	for _, a := range fx.aliasesOf(e) {
		for _, ref := range nonDebugRefs(a) {
			if _, ok := ref.(*ssa.Return); ok {
				return true
			}
		}
	}
	return false
}

func constInt(v ssa.Value) (int64, bool) {
	c, ok := v.(*ssa.Const)
	if !ok || c.Value == nil || c.Value.Kind() != constant.Int {
		return 0, false
	}
	i, ok := constant.Int64Val(c.Value)
	return i, ok
}

func constString(v ssa.Value) (string, bool) {
	c, ok := v.(*ssa.Const)
	if !ok || c.Value == nil || c.Value.Kind() != constant.String {
		return "", false
	}
	return constant.StringVal(c.Value), true
}

// blocksFrom: blocks reachable from b (including b).
func blocksFrom(b *ssa.BasicBlock) []*ssa.BasicBlock {
	seen := map[*ssa.BasicBlock]bool{}
	var out []*ssa.BasicBlock
	var dfs func(x *ssa.BasicBlock)
	dfs = func(x *ssa.BasicBlock) {
		if seen[x] {
			return
		}
		seen[x] = true
		out = append(out, x)
		for _, s := range x.Succs {
			dfs(s)
		}
	}
	dfs(b)
	return out
}

// isParamIdx: v is parameter number idx of its function.
func isParamIdx(v ssa.Value, idx int) bool {
	p, ok := v.(*ssa.Parameter)
	return ok && idx < len(p.Parent().Params) && p.Parent().Params[idx] == p
}

// fnCallingStorage: the module function (in the handler scope) that contains the call of the given storage method.
func (cx *Ctx) fnCallingStorage(method string) *ssa.Function {
	for _, fn := range cx.W.sortedFuncs(cx.handlerScope()) {
		for _, c := range callsIn(fn) {
			if storageMethod(c) == method {
				return fn
			}
		}
	}
	return nil
}

func pkgOfNamed(t types.Type) *types.Package {
	if n := namedOf(t); n != nil {
		return n.Obj().Pkg()
	}
	return nil
}

// iterationCanSkip: block S lies in a loop and an iteration of that loop can be completed without passing S
// (a `continue`, a conditional body).
func iterationCanSkip(fi *fnInfo, S *ssa.BasicBlock) bool {
	if !fi.reachable(S, S) {
		return false
	}
	for _, B := range fi.fn.Blocks {
		if B == S || !fi.reachable(S, B) || !fi.reachable(B, S) {
			continue
		}
		if reachAvoidingBlock(B, B, S) {
			return true
		}
	}
	return false
}

// iterationCanSkipUnless: like iterationCanSkip, but an iteration that skips the append by way of a block for which
// excused holds does not count (the skip happens only in a case the rule does not speak about).
func iterationCanSkipUnless(fi *fnInfo, S *ssa.BasicBlock, excused func(*ssa.BasicBlock) bool) bool {
	return iterationCanSkipUnlessEdge(fi, S, excused, nil)
}

// iterationCanSkipUnlessEdge: additionally, edges (block, successor index) can be excused (a `continue` that jumps
// straight back to the loop header has no block of its own).
func iterationCanSkipUnlessEdge(fi *fnInfo, S *ssa.BasicBlock, excused func(*ssa.BasicBlock) bool, excusedEdge func(*ssa.BasicBlock, int) bool) bool {
	if !fi.reachable(S, S) {
		return false
	}
	for _, B := range fi.fn.Blocks {
		if B == S || excused(B) || !fi.reachable(S, B) || !fi.reachable(B, S) {
			continue
		}
		seen := map[*ssa.BasicBlock]bool{}
		var dfs func(x *ssa.BasicBlock) bool
		dfs = func(x *ssa.BasicBlock) bool {
			for k, sc := range x.Succs {
				if deadEdge(x, k) || sc == S || excused(sc) || excusedEdge != nil && excusedEdge(x, k) {
					continue
				}
				if sc == B {
					return true
				}
				if !seen[sc] {
					seen[sc] = true
					if dfs(sc) {
						return true
					}
				}
			}
			return false
		}
		if dfs(B) {
			return true
		}
	}
	return false
}

// checkNoPassWithoutProvider: a request whose issuer has no registered service provider never passes a validation
// step. In every step closure of the chain (and every error-returning module function it reaches), a path that
// established that the looked-up *ServiceProvider is nil must fail the step: `if sp == nil { return }` turns the
// "unknown requester" case into an accepted request (answered with Success / persisted) instead of a refusal.
func (cx *Ctx) checkNoPassWithoutProvider(r *Report, ch *Chain, tag string) {
	w, fx := cx.W, cx.Fx
	const spT = "<serviceprovider.ServiceProvider>"
	n := 0
	seen := map[*ssa.Function]bool{}
	for _, s := range ch.Steps {
		var fns []*ssa.Function
		roleOf := map[*ssa.Function]string{}
		for _, role := range []string{"logic", "value", "values"} {
			for _, f := range s.Role[role] {
				fns = append(fns, f)
				roleOf[f] = role
			}
		}
		for _, f := range w.sortedFuncs(s.Scope) {
			if _, isRole := roleOf[f]; isRole {
				continue
			}
			res := f.Signature.Results()
			if res.Len() > 0 && isErrorTypeT(res.At(res.Len()-1).Type()) {
				fns = append(fns, f)
				roleOf[f] = "helper"
			}
		}
		for _, f := range fns {
			if seen[f] || f.Blocks == nil {
				continue
			}
			seen[f] = true
			aps, ok := fx.atomPaths(f, 4096)
			if !ok {
				continue
			}
			n++
			bad := ""
			for i := range aps {
				p := &aps[i]
				if p.Ret == nil {
					continue
				}
				if k := len(p.Ret.Results); k > 0 && isErrorTypeT(p.Ret.Results[k-1].Type()) {
					if _, nonNil := fx.errNilness(p, fx.retVal(p, k-1)); nonNil {
						continue
					}
				}
				for _, a := range p.Atoms {
					if a.Op == "NIL" && !a.Neg && a.TA == spT {
						bad = "a path that found the service provider absent (" + a.String() + ") lets the request pass at " + w.InstrPos(p.Ret)
					}
				}
			}
			r.Check(bad == "", "R-GUARD", tag+":no-pass-without-provider@"+w.FuncKey(f), w.FnPos(f), "no passing path under a nil service provider", bad+": a request from an issuer without a registered provider is accepted")
		}
	}
	if n == 0 {
		r.Fail("R-GUARD", tag+":no-pass-without-provider", w.FnPos(ch.Fn), "no step closure of the chain could be analysed")
	}
}

// checkStorageContext (R-CTX): the context handed to storage is the request's. The issuer in effect travels in the
// request context (IssuerFromContext), and storage implementations key what they return on it; a call that hands
// storage context.Background() / context.TODO() (even wrapped in WithTimeout / WithValue) makes storage answer for
// the default issuer. Only a positive finding is reported: a background root reaching the context argument.
func (cx *Ctx) checkStorageContext(r *Report) {
	w, fx := cx.W, cx.Fx
	n := 0
	for _, f := range w.sortedFuncs(cx.handlerScope()) {
		for _, c := range callsIn(f) {
			if storageMethod(c) == "" || len(c.Common().Args) == 0 {
				continue
			}
			a0 := c.Common().Args[0]
			if n := namedOf(a0.Type()); n == nil || n.Obj().Pkg() == nil || n.Obj().Pkg().Path() != "context" {
				continue
			}
			n++
			roots := map[string]bool{}
			seen := map[ssa.Value]bool{}
			var walk func(v ssa.Value, depth int)
			walk = func(v ssa.Value, depth int) {
				if v == nil || seen[v] || depth > 12 {
					return
				}
				seen[v] = true
				switch x := v.(type) {
				case *ssa.Call:
					switch nm := calleeName(x); {
					case nm == "context.Background" || nm == "context.TODO":
						roots["background@"+w.InstrPos(x)] = true
					case strings.HasPrefix(nm, "context.With"):
						if len(x.Call.Args) > 0 {
							walk(x.Call.Args[0], depth+1)
						}
					case nm == "(*net/http.Request).Context":
						roots["request"] = true
					default:
						if g := calleeOf(x); g != nil && g.Blocks != nil && g.Pkg != nil && isModulePath(g.Pkg.Pkg.Path()) {
							for _, ret := range returnsOf(g) {
								if len(ret.Results) > 0 {
									walk(ret.Results[0], depth+1)
								}
							}
						} else {
							roots["other"] = true
						}
					}
				case *ssa.Extract:
					if cc, ok := x.Tuple.(*ssa.Call); ok && x.Index == 0 && strings.HasPrefix(calleeName(cc), "context.With") && len(cc.Call.Args) > 0 {
						walk(cc.Call.Args[0], depth+1)
					} else if ok {
						if g := calleeOf(cc); g != nil && g.Blocks != nil && g.Pkg != nil && isModulePath(g.Pkg.Pkg.Path()) {
							for _, ret := range returnsOf(g) {
								if x.Index < len(ret.Results) {
									walk(ret.Results[x.Index], depth+1)
								}
							}
						} else {
							roots["other"] = true
						}
					}
				case *ssa.Parameter:
					args := fx.argsOf[x]
					if len(args) == 0 {
						roots["param"] = true
					}
					for _, a := range args {
						walk(a, depth+1)
					}
				case *ssa.Phi:
					for _, e := range x.Edges {
						walk(e, depth+1)
					}
				case *ssa.UnOp:
					if cell := fx.ownerCell(x.X); cell != nil {
						for _, s := range fx.storesToCell(cell) {
							walk(s, depth+1)
						}
					} else {
						roots["other"] = true
					}
				case *ssa.MakeInterface:
					walk(x.X, depth+1)
				case *ssa.ChangeInterface:
					walk(x.X, depth+1)
				case *ssa.ChangeType:
					walk(x.X, depth+1)
				default:
					roots["other"] = true
				}
			}
			walk(a0, 0)
			bad := ""
			for k := range roots {
				if strings.HasPrefix(k, "background@") {
					bad = strings.TrimPrefix(k, "background@")
				}
			}
			r.Check(bad == "", "R-CTX", w.FuncKey(f)+":"+storageMethod(c), w.InstrPos(c), "the context handed to storage does not come from context.Background()/TODO()", "storage is called with a context rooted at context.Background()/TODO() (created at "+bad+"): the values of the request context - the issuer in effect among them - are lost, storage answers for the default issuer")
		}
	}
	if n == 0 {
		r.Fail("R-CTX", "#storage-calls", "", "no storage call with a context argument found in the handlers' scope")
	}
}

// followDelegation: fn only hands on the verdict of one module function - `func() error { return g(a, b) }`, also
// with the result kept in a captured variable first (`err = g(a, b); return err`): g (repeatedly, three levels).
func (cx *Ctx) followDelegation(fn *ssa.Function) *ssa.Function {
	fx := cx.Fx
	for d := 0; d < 3 && fn != nil; d++ {
		if len(fn.Blocks) != 1 {
			return fn
		}
		var call *ssa.Call
		n := 0
		for _, c := range callsIn(fn) {
			if _, isB := c.Common().Value.(*ssa.Builtin); isB {
				continue
			}
			n++
			call, _ = c.(*ssa.Call)
		}
		rets := returnsOf(fn)
		if n != 1 || call == nil || len(rets) != 1 || len(rets[0].Results) != 1 {
			return fn
		}
		g := calleeOf(call)
		if g == nil || g.Blocks == nil || g.Pkg == nil || !isModulePath(g.Pkg.Pkg.Path()) {
			return fn
		}
		rv := rets[0].Results[0]
		same := rv == ssa.Value(call)
		if !same {
			for _, a := range fx.aliasesOf(call) {
				if a == rv {
					same = true
				}
			}
		}
		if !same {
			return fn
		}
		fn = g
	}
	return fn
}

// nilTestReturned: the outcome of comparing e (or an alias) with nil is a result of the function (`return err != nil`).
func (fx *Facts) nilTestReturned(e ssa.Value) bool {
	for _, a := range fx.aliasesOf(e) {
		for _, ref := range nonDebugRefs(a) {
			b, ok := ref.(*ssa.BinOp)
			if !ok {
				continue
			}
			if x, _, isNT := nilTest(b); !isNT || x != a {
				continue
			}
			conds := []ssa.Value{b}
			for i := 0; i < len(conds); i++ {
				for _, r2 := range nonDebugRefs(conds[i]) {
					switch y := r2.(type) {
					case *ssa.UnOp:
						if y.Op == token.NOT {
							conds = append(conds, y)
						}
					case *ssa.Return:
						return true
					}
				}
			}
		}
	}
	return false
}

// verdictFormedByHelper: e (or an alias) is handed to a module function that compares the corresponding parameter with
// nil, and what that function returns is returned here (`return stepFailed(logic(), errorFunc)`): the verdict is
// formed there.
func (fx *Facts) verdictFormedByHelper(e ssa.Value) bool {
	for _, a := range fx.aliasesOf(e) {
		for _, ref := range nonDebugRefs(a) {
			c, ok := ref.(*ssa.Call)
			if !ok {
				continue
			}
			g := calleeOf(c)
			if g == nil || g.Blocks == nil || g.Pkg == nil || !isModulePath(g.Pkg.Pkg.Path()) {
				continue
			}
			returned := false
			for _, r2 := range nonDebugRefs(c) {
				if _, isR := r2.(*ssa.Return); isR {
					returned = true
				}
			}
			if !returned {
				continue
			}
			for i, arg := range c.Call.Args {
				if arg != a || i >= len(g.Params) {
					continue
				}
				if _, tested := fx.errBranches(g.Params[i]); tested && fx.resultTellsNilness(g, g.Params[i]) {
					return true
				}
			}
		}
	}
	return false
}

// resultTellsNilness: what g returns where it found the parameter nil differs from what it returns where it found it
// non-nil (constants on both sides, no value in common): the caller that returns g's result reports the failure.
func (fx *Facts) resultTellsNilness(g *ssa.Function, prm *ssa.Parameter) bool {
	aps, ok := fx.atomPaths(g, 256)
	if !ok || g.Signature.Results().Len() != 1 {
		return false
	}
	onNil, onErr := map[string]bool{}, map[string]bool{}
	for i := range aps {
		p := &aps[i]
		if p.Ret == nil {
			continue
		}
		isNil, nonNil := fx.errNilness(p, prm)
		c, isC := fx.retVal(p, 0).(*ssa.Const)
		if !isC || c.Value == nil || !isNil && !nonNil {
			return false
		}
		if isNil {
			onNil[c.Value.ExactString()] = true
		} else {
			onErr[c.Value.ExactString()] = true
		}
	}
	if len(onNil) == 0 || len(onErr) == 0 {
		return false
	}
	for k := range onNil {
		if onErr[k] {
			return false
		}
	}
	return true
}

// liftToCaller: the call c sits in an unexported module helper (not a closure, never used as a value) that is called
// from exactly one place; follow such single call sites up to a call inside fn (three levels). nil if c cannot be
// attributed to a single call in fn this way; c itself if it already is in fn.
func (cx *Ctx) liftToCaller(c ssa.CallInstruction, fn *ssa.Function) ssa.CallInstruction {
	fx := cx.Fx
	if fx.sitesOf == nil {
		fx.buildCallSites()
	}
	for d := 0; d < 4; d++ {
		h := c.Parent()
		if h == fn {
			return c
		}
		if h == nil || h.Parent() != nil || fx.addrTaken[h] || token.IsExported(h.Name()) {
			return nil
		}
		sites := fx.sitesOf[h]
		if len(sites) != 1 {
			return nil
		}
		c = sites[0]
	}
	return nil
}

// checkProviderFromStorage: the service provider a handler works with is what storage returned for this request -
// the result of GetServiceProvider has no source other than result #0 of Storage.GetEntityByID. A provider kept from
// an earlier request (a cache in the IdentityProvider) may have been removed or changed since.
func (cx *Ctx) checkProviderFromStorage(r *Report, handlers ...string) {
	w := cx.W
	n := 0
	for _, hk := range handlers {
		vf := cx.vflow(hk)
		if vf == nil {
			continue
		}
		for _, c := range w.callsTo(vf.scope, matchFnKey(w, "provider.(*IdentityProvider).GetServiceProvider")) {
			call, ok := c.(*ssa.Call)
			if !ok {
				continue
			}
			n++
			ls := LabelSet{}
			vf.callResult(call, 0, 0, ls, map[string]bool{}, 0)
			r.checkSources("R-VFG", "provider-from-storage@"+w.FuncKey(c.Parent()), w.InstrPos(c), ls, []string{"ext:iface:provider.IDPStorage.GetEntityByID#0", "ext:iface:provider.EntityStorage.GetEntityByID#0"}, nil, false)
		}
	}
	r.Check(n > 0, "R-VFG", "provider-from-storage#sites", "", fmt.Sprintf("%d lookups", n), "no call of GetServiceProvider found in the handlers")
}

// checkLookupByIssuer: in the three request handlers the service provider is looked up under the Issuer of the
// decoded request and nothing else (not under another field of the message such as a NameID qualifier): whoever is
// named there is the party the reply is delivered to.
func (cx *Ctx) checkLookupByIssuer(r *Report) {
	w := cx.W
	for _, h := range []struct{ hk, short, typ string }{{kSSO, "sso", "samlp.AuthnRequestType"}, {kLogout, "slo", "samlp.LogoutRequestType"}, {kAttr, "attr", "samlp.AttributeQueryType"}} {
		vf := cx.vflow(h.hk)
		if vf == nil {
			continue
		}
		ls, sites := vf.CallArgSources(matchStorage("GetEntityByID"), 1)
		if len(sites) == 0 {
			r.Fail("R-VFG", h.short+":lookup-by-issuer", "", "the handler does not look the service provider up")
			continue
		}
		want := "decoded:*" + strings.TrimPrefix(h.typ, "samlp.AttributeQueryType") + ".Issuer.Text"
		if h.typ != "samlp.AttributeQueryType" {
			want = "decoded:" + h.typ + ".Issuer.Text"
		} else {
			want = "decoded:*AttributeQuery*.Issuer.Text" // decoded as part of the SOAP envelope
		}
		r.checkSources("R-VFG", h.short+":lookup-by-issuer", w.InstrPos(sites[0]), ls, []string{want}, []string{want}, true)
	}
}

// checkRequestNotRewritten: the issuer is derived from the request's Host and the configured forwarding headers as
// they arrived. Module code does not assign Request.Host / Request.URL / Request.Header of the incoming request, and
// the handler chain is not wrapped in third-party middleware known to do so (gorilla/handlers.ProxyHeaders sets
// r.Host from X-Forwarded-Host, r.URL.Scheme from X-Forwarded-Proto and r.RemoteAddr from X-Forwarded-For).
func (cx *Ctx) checkRequestNotRewritten(r *Report) {
	w := cx.W
	n := 0
	for _, fn := range w.Funcs {
		for _, c := range callsIn(fn) {
			nm := calleeName(c)
			if strings.HasSuffix(nm, "gorilla/handlers.ProxyHeaders") || strings.HasSuffix(nm, "middleware.RealIP") || strings.HasSuffix(nm, "gorilla/handlers.CanonicalHost") {
				r.Fail("R-WHO", "request-rewriting-middleware@"+w.FuncKey(fn), w.InstrPos(c), shortCallee(nm)+" rewrites the Host / scheme of the request from X-Forwarded-* headers before the issuer is derived: the issuer follows a header that was not configured as a forwarding header")
			}
		}
		for _, st := range cx.Fx.info(fn).stores {
			fa, ok := st.Addr.(*ssa.FieldAddr)
			if !ok {
				continue
			}
			owner, field := fieldOwner(fa.X.Type()), fname(fieldVar(fa.X.Type(), fa.Field))
			if owner == "http.Request" && (field == "Host" || field == "URL" || field == "Header") || owner == "url.URL" && (field == "Host" || field == "Scheme") {
				n++
				// a URL the module builds itself (url.Parse result, literal) is not the request's
				if owner == "url.URL" {
					if _, isAlloc := fa.X.(*ssa.Alloc); isAlloc {
						continue
					}
					if c, isCall := fa.X.(*ssa.Extract); isCall {
						_ = c
						continue
					}
				}
				r.Fail("R-WHO", "request-rewritten@"+w.FuncKey(fn), w.InstrPos(st), "module code assigns "+owner+"."+field+" of a request: the issuer derived afterwards no longer comes from the Host and forwarding headers that arrived")
			}
		}
	}
	r.Ok("R-WHO", "request-not-rewritten", "", fmt.Sprintf("no Host-rewriting middleware in the handler chain, %d candidate stores examined", n))
}

// errNilSides: the blocks entered when the error value e (or an alias) is found nil.
func (fx *Facts) errNilSides(e ssa.Value) []*ssa.BasicBlock {
	var out []*ssa.BasicBlock
	for _, a := range fx.aliasesOf(e) {
		for _, ref := range nonDebugRefs(a) {
			b, ok := ref.(*ssa.BinOp)
			if !ok {
				continue
			}
			x, _, isNT := nilTest(b)
			if !isNT || x != a {
				continue
			}
			conds := []ssa.Value{b}
			for i := 0; i < len(conds); i++ {
				for _, r2 := range nonDebugRefs(conds[i]) {
					switch y := r2.(type) {
					case *ssa.UnOp:
						if y.Op == token.NOT {
							conds = append(conds, y)
						}
					case *ssa.If:
						_, tnn, _ := nilTest(y.Cond)
						if tnn {
							out = append(out, y.Block().Succs[1])
						} else {
							out = append(out, y.Block().Succs[0])
						}
					}
				}
			}
		}
	}
	return out
}

// constCallResult: v is the result of a statically called module function with one result whose every return yields
// the same constant: that constant.
func constCallResult(v ssa.Value) *ssa.Const {
	c, ok := v.(*ssa.Call)
	if !ok {
		return nil
	}
	g := calleeOf(c)
	if g == nil || g.Blocks == nil || g.Pkg == nil || !isModulePath(g.Pkg.Pkg.Path()) || g.Signature.Results().Len() != 1 {
		return nil
	}
	var k *ssa.Const
	for _, ret := range returnsOf(g) {
		rc, isC := ret.Results[0].(*ssa.Const)
		if !isC || rc.Value == nil || k != nil && k.Value.ExactString() != rc.Value.ExactString() {
			return nil
		}
		k = rc
	}
	return k
}

// checkReceivedValuesUnchanged: what the verifier is given - message, RelayState, SigAlg, Signature - are the form
// values as received (no trimming, case folding or re-encoding on the way): the service provider signed exactly the
// octets it sent, and any edit makes a correct signature fail (C07) or lets a modified value pass (C05).
func (cx *Ctx) checkReceivedValuesUnchanged(r *Report) {
	w := cx.W
	vf := cx.vflow(kSSO)
	if vf == nil {
		return
	}
	fv := func(n string) string { return fmt.Sprintf("ext:(*http.Request).FormValue(%q)#0", n) }
	spKey := matchFnKey(w, "serviceprovider.(*ServiceProvider).ValidateRedirectSignature")
	for _, s := range []struct {
		key string
		idx int
		src string
	}{{"request", 1, "SAMLRequest"}, {"relayState", 2, "RelayState"}, {"sigAlg", 3, "SigAlg"}, {"signature", 4, "Signature"}} {
		ls, sites := vf.CallArgSources(spKey, s.idx)
		if len(sites) == 0 {
			r.Fail("R-VFG", "sso:received:"+s.key, "", "the redirect signature verifier is not called from the SSO handler")
			continue
		}
		r.checkSources("R-VFG", "sso:received:"+s.key, w.InstrPos(sites[0]), ls, []string{fv(s.src)}, []string{fv(s.src)}, true)
	}
}

// checkNoTemplateBypass: no value of a type html/template does not escape (template.HTML, URL, JS ...) is created
// anywhere in the module: what is put into a page arrives at the receiver exactly as it was given.
func (cx *Ctx) checkNoTemplateBypass(r *Report) {
	w := cx.W
	n := 0
	for _, fn := range w.Funcs {
		for _, b := range fn.Blocks {
			for _, in := range b.Instrs {
				if v, ok := in.(ssa.Value); ok {
					if bt := isBypassType(v.Type()); bt != "" {
						n++
						r.Fail("R-TPL", "bypass:"+w.FuncKey(fn)+":"+bt, w.InstrPos(in), "a value of type "+bt+" is created: html/template does not escape it, tags in it are dropped and character references resolved - the value the receiver gets is not the value that was put in")
					}
				}
			}
		}
	}
	if n == 0 {
		r.Ok("R-TPL", "no-bypass-types", "", "no html/template bypass type is constructed in the module")
	}
}

// checkCallbackLookupKey: the stored request is looked up under the id parameter of the callback as it was received
// (decoded once by net/http): a second decoding, trimming or cutting makes the callback answer for another stored
// request than the one the caller named.
func (cx *Ctx) checkCallbackLookupKey(r *Report) {
	w := cx.W
	vf := cx.vflow(kCallback)
	if vf == nil {
		return
	}
	ls, sites := vf.CallArgSources(matchStorage("AuthRequestByID"), 1)
	idLeaf := `ext:(url.Values).Get("id")#0`
	if len(sites) != 1 {
		r.Fail("R-VFG", "callback:AuthRequestByID:id", "", fmt.Sprintf("%d call sites of AuthRequestByID in the callback handler's scope", len(sites)))
		return
	}
	r.checkSources("R-VFG", "callback:AuthRequestByID:id", w.InstrPos(sites[0]), ls, []string{idLeaf, "const:"}, []string{idLeaf}, true)
}

// checkKeyDescriptorCertificate: the certificate published in the KeyDescriptor is the plain base64 of the signing
// certificate's bytes (no line wrapping or other text edits: the KeyDescriptor is part of the signed metadata, and
// what consumers compare / verify with is this text).
func (cx *Ctx) checkKeyDescriptorCertificate(r *Report) {
	w := cx.W
	vm := cx.vflow(kMeta)
	if vm == nil {
		return
	}
	cert := []string{"ext:iface:provider.IdentityProviderStorage.GetResponseSigningKey#0.Certificate", "global:base64.StdEncoding"}
	lso, own := vm.StoreSourcesIn("provider.(*IdentityProviderConfig).getMetadata", "xml_dsig.X509DataType", "X509Certificate")
	if len(own) == 0 {
		r.Fail("R-VFG", "metadata:KeyDescriptor-certificate", "", "getMetadata fills no X509Certificate")
		return
	}
	r.checkSources("R-VFG", "metadata:KeyDescriptor-certificate", w.InstrPos(own[0]), lso, cert, cert[:1], false)
	_, hasB64 := lso["via:(*base64.Encoding).EncodeToString"]
	r.Check(hasB64, "R-VFG", "metadata:KeyDescriptor-encoding", w.InstrPos(own[0]), "base64 of the DER certificate", "the KeyDescriptor certificate is not the base64 encoding of the certificate bytes")
}

// checkFailedResponsesFresh: the message a failed reply carries is built from scratch by its constructor: what
// makeFailedResponse / errorResponse / makeFailedLogoutResponse return comes from an allocation made during that
// very call, not from an object kept in the Response (an envelope shared with the Success message keeps its
// Assertion and Signature).
func (cx *Ctx) checkFailedResponsesFresh(r *Report) {
	w := cx.W
	for _, k := range []string{"provider.(*Response).makeFailedResponse", "provider.(*LogoutResponse).makeFailedLogoutResponse"} {
		fn := w.Func(k)
		if fn == nil {
			r.Fail("R-VFG", "fresh:"+k, "", "anchor not found")
			continue
		}
		vf := cx.newVFlow("fresh:"+k, fn)
		ls := LabelSet{}
		for _, ret := range returnsOf(fn) {
			if len(ret.Results) > 0 {
				ls.addAll(vf.Labels(ret.Results[0]), 0)
			}
		}
		bad := ""
		for _, l := range ls.leaves() {
			if !strings.HasPrefix(l, "alloc:") && l != "const:zero" {
				bad = l
			}
		}
		r.Check(bad == "" && len(ls) > 0, "R-VFG", "fresh:"+k, w.FnPos(fn), "returns a message allocated by this call", "the failed message can be "+bad+", an object that outlives the call: what an earlier (Success) message put into it - assertion, signature - is sent with the failure status")
	}
}

// checkSigningContextMethod: a signing context made with goxmldsig's constructors signs with rsa-sha256 until
// SetSignatureMethod is called: every function of the module that creates one sets the method (from the algorithm it
// is given) before the context leaves it - otherwise the SigAlg announced and the algorithm used differ.
func (cx *Ctx) checkSigningContextMethod(r *Report) {
	w := cx.W
	n := 0
	for _, fn := range w.Funcs {
		for _, c := range callsIn(fn) {
			nm := calleeName(c)
			if !strings.HasSuffix(nm, "goxmldsig.NewDefaultSigningContext") && !strings.HasSuffix(nm, "goxmldsig.NewSigningContext") {
				continue
			}
			call, ok := c.(*ssa.Call)
			if !ok {
				continue
			}
			n++
			// the context value (first result)
			var ctxVals []ssa.Value
			ctxVals = append(ctxVals, call)
			for _, ref := range nonDebugRefs(call) {
				if ex, isEx := ref.(*ssa.Extract); isEx && ex.Index == 0 {
					ctxVals = append(ctxVals, ex)
				}
			}
			set := false
			for _, c2 := range callsIn(fn) {
				if strings.HasSuffix(calleeName(c2), "goxmldsig.SigningContext).SetSignatureMethod") && len(c2.Common().Args) >= 2 {
					recv := c2.Common().Args[0]
					for _, cv := range ctxVals {
						if recv == cv {
							set = true
						}
						for _, a := range cx.Fx.aliasesOf(cv) {
							if a == recv {
								set = true
							}
						}
					}
					// every return that hands the context out is dominated by the call
					if set {
						for _, ret := range returnsOf(fn) {
							if len(ret.Results) > 0 && !isNilConst(ret.Results[0]) && !(c2.Block() == ret.Block() || c2.Block().Dominates(ret.Block())) {
								set = false
							}
						}
					}
				}
			}
			r.Check(set, "R-VFG", "signing-context-method@"+w.FuncKey(fn), w.InstrPos(c), "SetSignatureMethod is called on the new context before it is handed out", w.FuncKey(fn)+" creates a signing context and hands it out without setting the signature method: it signs with the library default (rsa-sha256) whatever algorithm is configured and announced in SigAlg")
		}
	}
	if n == 0 {
		r.Ok("R-VFG", "signing-context-method", "", "no goxmldsig signing context is created in the module")
	}
}

// checkAlgorithmValidatedBeforeSigner: a signer / signing context is created only after the configured algorithm
// passed isValidSignatureAlgorithm (the libraries map unknown or empty identifiers to a default instead of failing).
func (cx *Ctx) checkAlgorithmValidatedBeforeSigner(r *Report) {
	w, fx := cx.W, cx.Fx
	n := 0
	for _, fn := range w.Funcs {
		if fn.Pkg == nil || shortPkg(fn.Pkg.Pkg.Path()) != "signature" {
			continue
		}
		for _, c := range callsIn(fn) {
			nm := calleeName(c)
			// (a goxmldsig signing context rejects an unknown identifier itself, in SetSignatureMethod - see
			// checkSigningContextMethod; xmlsig does not)
			if !strings.HasSuffix(nm, "xmlsig.NewSignerWithOptions") && !strings.HasSuffix(nm, "xmlsig.NewSigner") {
				continue
			}
			n++
			ok := false
			for _, a := range fx.AtomsAt(c.(ssa.Instruction)) {
				if a.Op == "NIL" && !a.Neg && strings.Contains(a.A, "isValidSignatureAlgorithm") {
					ok = true
				}
			}
			// or the function is only reached from callers that validated (entry atoms are part of AtomsAt)
			r.Check(ok, "R-GUARD", "algorithm-validated@"+w.FuncKey(fn)+":"+shortCallee(nm), w.InstrPos(c), "created only after isValidSignatureAlgorithm returned nil", w.FuncKey(fn)+" creates a signer without having validated the configured algorithm: the signing library maps an empty or unknown identifier to a default (rsa-sha1) instead of failing, and a Success assertion is issued where the key configuration is unusable")
		}
	}
	if n == 0 {
		r.Fail("R-GUARD", "algorithm-validated", "", "no signer construction found in package signature")
	}
}

// checkContextKeys: every context key of the module is written by one function only. Two keys of the same type
// with the same constant value are one key to context.Value: whatever the second stores (a request id taken from a
// header) replaces what the first stored (the issuer in effect).
func (cx *Ctx) checkContextKeys(r *Report) {
	w := cx.W
	type site struct {
		fn  *ssa.Function
		pos string
	}
	byKey := map[string][]site{}
	for _, fn := range w.Funcs {
		for _, c := range callsIn(fn) {
			if calleeName(c) != "context.WithValue" || len(c.Common().Args) < 3 {
				continue
			}
			k := c.Common().Args[1]
			if mi, ok := k.(*ssa.MakeInterface); ok {
				k = mi.X
			}
			kc, ok := k.(*ssa.Const)
			if !ok {
				// a package variable initialised with a constant (`var issuerKey valueKey = 1`)
				if ld, isLd := k.(*ssa.UnOp); isLd {
					if g, isG := ld.X.(*ssa.Global); isG && g.Pkg != nil {
						if ini := g.Pkg.Func("init"); ini != nil {
							for _, st := range cx.Fx.info(ini).stores {
								if st.Addr == ssa.Value(g) {
									kc, _ = st.Val.(*ssa.Const)
								}
							}
						}
					}
				}
			}
			if kc == nil || kc.Value == nil {
				continue
			}
			key := typeKey(kc.Type()) + "=" + kc.Value.ExactString()
			byKey[key] = append(byKey[key], site{fn, w.InstrPos(c)})
		}
	}
	var keys []string
	for k := range byKey {
		keys = append(keys, k)
	}
	sort.Strings(keys)
	for _, k := range keys {
		fns := map[*ssa.Function]bool{}
		where := ""
		for _, s := range byKey[k] {
			fns[s.fn] = true
			where += " " + s.pos
		}
		r.Check(len(fns) == 1, "R-WHO", "context-key:"+k, "", "written by one function", "the context key "+k+" is written by "+fmt.Sprint(len(fns))+" functions ("+strings.TrimSpace(where)+"): two constants of one type with the same value are the same key - a value stored for another purpose replaces the issuer in effect")
	}
	if len(keys) == 0 {
		r.Fail("R-WHO", "context-key", "", "no context key with a constant value found: the issuer no longer travels in the request context under the module's key")
	}
}

// privateHelpers: fn and the functions that are merely pieces of it - unexported, top-level, same package, never used
// as a value, every call site of which lies in fn or in another such piece (two levels). A function that was split
// into `sendPostResponse` / `sendRedirectResponse` is still one unit for the rules that speak about what it does.
func (cx *Ctx) privateHelpers(fn *ssa.Function) []*ssa.Function {
	fx := cx.Fx
	if fx.sitesOf == nil {
		fx.buildCallSites()
	}
	in := map[*ssa.Function]bool{fn: true}
	out := []*ssa.Function{fn}
	for round := 0; round < 2; round++ {
		for _, f := range append([]*ssa.Function{}, out...) {
			for _, c := range callsIn(f) {
				g := calleeOf(c)
				if g == nil || in[g] || g.Blocks == nil || g.Parent() != nil || g.Pkg != fn.Pkg || token.IsExported(g.Name()) || fx.addrTaken[g] {
					continue
				}
				all := len(fx.sitesOf[g]) > 0
				for _, s := range fx.sitesOf[g] {
					if !in[s.Parent()] {
						all = false
					}
				}
				if all {
					in[g] = true
					out = append(out, g)
				}
			}
		}
	}
	return out
}

// viaSites: for a call c inside one of fn's private helpers, the call instructions in fn through which c is reached
// (c itself when it is in fn) - every one of them, a piece may be used in several places.
func (cx *Ctx) viaSites(fn *ssa.Function, c ssa.CallInstruction) []ssa.CallInstruction {
	cur := []ssa.CallInstruction{c}
	for hops := 0; hops < 3; hops++ {
		var next []ssa.CallInstruction
		moved := false
		for _, x := range cur {
			if x.Parent() == fn {
				next = append(next, x)
				continue
			}
			sites := cx.Fx.sitesOf[x.Parent()]
			if len(sites) == 0 {
				next = append(next, x)
				continue
			}
			next = append(next, sites...)
			moved = true
		}
		cur = next
		if !moved {
			break
		}
	}
	return cur
}

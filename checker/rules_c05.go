package main

import (
	"fmt"
	"go/token"
	"go/types"
	"sort"
	"strings"

	"golang.org/x/tools/go/ssa"
)

func init() { register("C05", checkC05) }

const (
	cPost     = "const:urn:oasis:names:tc:SAML:2.0:bindings:HTTP-POST"
	cRedirect = "const:urn:oasis:names:tc:SAML:2.0:bindings:HTTP-Redirect"
)

// xs:boolean attributes kept as strings in the metadata model.
var xsBoolFields = map[string]bool{
	"md.IndexedEndpointType.IsDefault":                       true,
	"md.SPSSODescriptorType.AuthnRequestsSigned":             true,
	"md.SPSSODescriptorType.WantAssertionsSigned":            true,
	"md.IDPSSODescriptorType.WantAuthnRequestsSigned":        true,
	"md.RequestedAttributeType.IsRequired":                   true,
	"provider.IdentityProviderConfig.WantAuthRequestsSigned": true,
}

// xsBoolHelpers: module functions func(string) bool whose result is true exactly for "true" and "1".
func (cx *Ctx) xsBoolHelpers() map[*ssa.Function]bool {
	out := map[*ssa.Function]bool{}
	for _, fn := range cx.W.Funcs {
		sig := fn.Signature
		if fn.Parent() != nil || sig.Params().Len() != 1 || sig.Results().Len() != 1 || !isStringType(sig.Params().At(0).Type()) || sig.Results().At(0).Type().String() != "bool" {
			continue
		}
		t, f, ok := cx.Fx.boolPaths(fn, 64)
		if !ok || len(t) == 0 {
			continue
		}
		// optional strings.TrimSpace on the parameter is accepted (xs:boolean collapses white space)
		arg := cx.Fx.fnTok(fn) + "/" + fn.Params[0].Name()
		isArg := func(p string) bool {
			return p == arg || strings.HasPrefix(p, "call@") && strings.HasSuffix(p, "strings.TrimSpace")
		}
		good := true
		sawTrue, saw1 := false, false
		for _, p := range t {
			// a true path must end by matching "true" or "1"
			m := false
			for _, a := range p.Atoms {
				if a.Op == "EQ" && !a.Neg && (isArg(a.A) || isArg(a.B)) {
					switch {
					case a.A == "const:true" || a.B == "const:true":
						m, sawTrue = true, true
					case a.A == "const:1" || a.B == "const:1":
						m, saw1 = true, true
					}
				}
			}
			if !m {
				good = false
			}
		}
		for _, p := range f {
			// a false path must have excluded both
			n := 0
			for _, a := range p.Atoms {
				if a.Op == "EQ" && a.Neg && (isArg(a.A) || isArg(a.B)) && (a.A == "const:true" || a.B == "const:true" || a.A == "const:1" || a.B == "const:1") {
					n++
				}
			}
			if n < 2 {
				good = false
			}
		}
		if good && sawTrue && saw1 {
			out[fn] = true
		}
	}
	return out
}

// xsBoolCanonicalisers: module functions func(string) string that hand back the canonical lexical form of an xs:boolean
// without changing what it says: on every path the result is the parameter itself, a true form ("true" / "1") under
// the positive outcome of a verified complete truth test of the parameter, or some other constant under its negative
// outcome (or for the empty parameter). What such a function returns is true exactly when the enforcement - which
// goes through the same verified test - takes the configured value for true.
func (cx *Ctx) xsBoolCanonicalisers() map[*ssa.Function]bool {
	if cx.xsCanon != nil {
		return cx.xsCanon
	}
	out := map[*ssa.Function]bool{}
	cx.xsCanon = out
	helpers := cx.xsBoolHelpers()
	fx := cx.Fx
	for _, fn := range cx.W.Funcs {
		sig := fn.Signature
		if fn.Parent() != nil || sig.Params().Len() != 1 || sig.Results().Len() != 1 || !isStringType(sig.Params().At(0).Type()) || !isStringType(sig.Results().At(0).Type()) {
			continue
		}
		aps, ok := fx.atomPaths(fn, 64)
		if !ok || len(aps) == 0 {
			continue
		}
		good, sawTrue, sawOther := true, false, false
		for i := range aps {
			p := &aps[i]
			if p.Ret == nil {
				continue
			}
			rv := fx.retVal(p, 0)
			if rv == ssa.Value(fn.Params[0]) {
				continue
			}
			k, isK := constString(rv)
			if !isK {
				good = false
				break
			}
			pos, neg, empty := false, false, false
			for _, a := range p.Atoms {
				if strings.HasPrefix(a.Op, "CALL:") {
					if c, isC := stripNot(a.Cond).(*ssa.Call); isC && calleeOf(c) != nil && helpers[calleeOf(c)] && len(c.Call.Args) == 1 && c.Call.Args[0] == ssa.Value(fn.Params[0]) {
						if a.Neg {
							neg = true
						} else {
							pos = true
						}
					}
				}
				if a.Op == "EMPTY" && !a.Neg && a.A == fx.path(fn.Params[0]) {
					empty = true
				}
			}
			if k == "true" || k == "1" {
				sawTrue = true
				if !pos {
					good = false
				}
			} else {
				sawOther = true
				if !neg && !empty {
					good = false
				}
			}
		}
		if good && sawTrue && sawOther {
			out[fn] = true
		}
	}
	return out
}

// checkXSBool (R-XSBOOL): every comparison of an xs:boolean string field with a constant, anywhere in the
// module, happens inside a verified complete helper; and every helper call on such a field is to a verified one.
func (cx *Ctx) checkXSBool(r *Report, rule string, only map[string]bool) {
	w := cx.W
	helpers := cx.xsBoolHelpers()
	isBoolField := func(v ssa.Value) string {
		ld, ok := v.(*ssa.UnOp)
		if !ok || ld.Op != token.MUL {
			return ""
		}
		fa, ok := ld.X.(*ssa.FieldAddr)
		if !ok {
			return ""
		}
		k := fieldOwner(fa.X.Type()) + "." + fname(fieldVar(fa.X.Type(), fa.Field))
		if xsBoolFields[k] {
			return k
		}
		return ""
	}
	n := 0
	for _, fn := range w.Funcs {
		for _, b := range fn.Blocks {
			for _, in := range b.Instrs {
				switch x := in.(type) {
				case *ssa.BinOp:
					if x.Op != token.EQL && x.Op != token.NEQ {
						continue
					}
					for _, pair := range [][2]ssa.Value{{x.X, x.Y}, {x.Y, x.X}} {
						k := isBoolField(pair[0])
						if k == "" || only != nil && !only[k] {
							continue
						}
						if c, isC := pair[1].(*ssa.Const); isC {
							n++
							cs, _ := constString(c)
							if cs == "" {
								r.Ok(rule, k+"@"+w.FuncKey(fn), w.InstrPos(x), "presence test of the attribute (compared with \"\")")
								continue
							}
							r.Fail(rule, k+"@"+w.FuncKey(fn), w.InstrPos(x), fmt.Sprintf("xs:boolean attribute %s is compared with the single literal %q: the other lexical form of true (\"true\"/\"1\") is not recognised", k, cs))
						}
					}
				case *ssa.Call:
					for _, a := range x.Call.Args {
						k := isBoolField(a)
						if k == "" || only != nil && !only[k] {
							continue
						}
						n++
						cal := calleeOf(x)
						if cal != nil && helpers[cal] {
							r.Ok(rule, k+"@"+w.FuncKey(fn), w.InstrPos(x), "tested through "+w.FuncKey(cal)+", verified to accept exactly \"true\" and \"1\"")
						} else if cal != nil && cx.xsBoolCanonicalisers()[cal] {
							r.Ok(rule, k+"@"+w.FuncKey(fn), w.InstrPos(x), "canonicalised by "+w.FuncKey(cal)+": a true form exactly under the verified complete truth test of the value")
						} else {
							r.Fail(rule, k+"@"+w.FuncKey(fn), w.InstrPos(x), fmt.Sprintf("xs:boolean attribute %s is passed to %s, which is not a verified complete truth test (\"true\" or \"1\")", k, calleeName(x)))
						}
					}
				}
			}
		}
	}
	_ = n
}

func checkC05(cx *Ctx, r *Report) {
	w, fx := cx.W, cx.Fx
	cx.checkVerifiedOctetsOfParams(r)
	// storage is asked with the request's context (which carries the issuer / tenant in effect): keys, providers and
	// users are those of this request
	cx.checkStorageContext(r)
	cx.checkStorageIsTheApplications(r)
	// request data must not be shared between requests through recycled buffers (R-POOL, see C15)
	cx.checkPoolEscape(r)
	r.Clauses = []string{
		"position: the certificate and both signature-verification steps (each with its '...Necessary' predicate as condition) precede the single persist step; no callback or earlier step persists or redirects to login (with C08)",
		"required => verified: on every path on which a '...VerificationNecessary' predicate returns false, either the binding differs or SP metadata present, AuthnRequestsSigned not true, IdP metadata present, WantAuthnRequestsSigned not true and no signature provided were all established",
		"xs:boolean completeness of the two flags (R-XSBOOL)",
		"verifier discipline: a verifier returns nil only as the propagated verdict of, or under the passing edge of, rsa.VerifyPKCS1v15 / dsa.Verify / ValidationContext.Validate",
		"what is verified is what is used: message, RelayState, SigAlg and Signature handed to the verifier, the decoder and storage all come unchanged from the same form values; the key comes from the looked-up service provider",
	}
	r.NotDec = []string{"cryptographic soundness of the primitives", "XML signature wrapping / parser differentials between etree and encoding/xml", "body-vs-query precedence of FormValue", "cross-binding carriers (signature of the other binding present): ignored, not verified; the unit tests pin this"}
	r.Assume = []string{"chain semantics (C20, re-checked)", "storage returns the registered ServiceProvider built by NewServiceProvider"}
	if !cx.requireC20(r) {
		return
	}
	k := cx.ssoChain(r)
	if k == nil {
		return
	}
	cx.checkNoPassWithoutProvider(r, k.ch, "sso")
	// --- position ------------------------------------------------------------
	type sc struct {
		name, condFactory string
		st                *Step
	}
	for _, s := range []sc{{"cert", "provider.certificateCheckNecessary", k.cert}, {"sig-redirect", "provider.signatureRedirectVerificationNecessary", k.sigRedirect}, {"sig-post", "provider.signaturePostVerificationNecessary", k.sigPost}} {
		if s.st == nil || k.persist == nil {
			continue
		}
		if s.st.Idx >= k.persist.Idx {
			r.Fail("R-ORDER", "sso:"+s.name+"<persist", s.st.Pos, "the "+s.name+" step is registered after the persist step: the request is stored before it is verified")
			continue
		}
		if s.st.Kind != "WithConditionalLogicStep" || cx.roleFactory(s.st, "cond") != s.condFactory {
			r.Fail("R-ORDER", "sso:"+s.name+"<persist", s.st.Pos, "the "+s.name+" step is not conditioned by "+s.condFactory+" (found "+s.st.Kind+" / "+cx.roleFactory(s.st, "cond")+")")
			continue
		}
		r.Ok("R-ORDER", "sso:"+s.name+"<persist", s.st.Pos, "precedes the persist step, conditioned by "+s.condFactory)
	}
	if k.sp != nil && k.decode != nil {
		for _, s := range []*Step{k.cert, k.sigRedirect, k.sigPost} {
			if s != nil && (s.Idx < k.sp.Idx || s.Idx < k.decode.Idx) {
				r.Fail("R-ORDER", "sso:sp<verify", s.Pos, "a verification step runs before the request was decoded and its service provider looked up")
			}
		}
	}
	// --- predicates -----------------------------------------------------------
	cx.checkXSBool(r, "R-XSBOOL", map[string]bool{"md.SPSSODescriptorType.AuthnRequestsSigned": true, "md.IDPSSODescriptorType.WantAuthnRequestsSigned": true, "provider.IdentityProviderConfig.WantAuthRequestsSigned": true})
	// the flag the predicates read is the configured flag, unchanged (a recoded flag would be enforced differently from what was configured)
	if vfm := cx.vflow(kSSO); vfm != nil {
		ls, sites := vfm.FieldStoreSources("md.IDPSSODescriptorType", "WantAuthnRequestsSigned")
		if len(sites) == 0 {
			r.Fail("R-VFG", "sso:WantAuthnRequestsSigned", "", "the IdP descriptor consulted by the SSO handler never gets WantAuthnRequestsSigned")
		} else {
			r.checkSources("R-VFG", "sso:WantAuthnRequestsSigned", w.InstrPos(sites[0]), ls, []string{"param:*.WantAuthRequestsSigned"}, []string{"param:*.WantAuthRequestsSigned"}, true)
		}
	}
	r.Min("R-XSBOOL", 2)
	helpers := cx.xsBoolHelpers()
	for _, pd := range []struct {
		st            *Step
		binding, name string
	}{{k.sigRedirect, cRedirect, "redirect"}, {k.sigPost, cPost, "post"}} {
		if pd.st == nil {
			continue
		}
		cf := pd.st.Fn("cond")
		if cf == nil {
			r.Undecided("R-PRED", "sso:"+pd.name, pd.st.Pos, "condition closure not resolved")
			continue
		}
		_, falsePaths, ok := fx.boolPaths(cf, 4096)
		if !ok {
			r.Undecided("R-PRED", "sso:"+pd.name, w.FnPos(cf), "predicate shape not recognised")
			continue
		}
		bad := ""
		for _, p := range falsePaths {
			bindingExcluded := false
			var spNil, descNil, spFlag, idpNil, idpFlag, provided *bool
			set := func(pp **bool, v bool) { *pp = &v }
			for _, a := range p.Atoms {
				switch {
				case a.Op == "EQ" && (a.A == pd.binding || a.B == pd.binding) && (strings.HasSuffix(a.A, ".Binding") || strings.HasSuffix(a.B, ".Binding")):
					if a.Neg {
						bindingExcluded = true
					}
				case a.Op == "NIL" && strings.HasSuffix(a.TA, "<serviceprovider.ServiceProvider>.Metadata"):
					set(&spNil, !a.Neg)
				case a.Op == "NIL" && strings.HasSuffix(a.A, ".SPSSODescriptor"):
					set(&descNil, !a.Neg)
				case a.Op == "NIL" && a.TA == "<md.IDPSSODescriptorType>":
					set(&idpNil, !a.Neg)
				case strings.HasPrefix(a.Op, "CALL:") && strings.HasSuffix(a.A, ".AuthnRequestsSigned") && cx.isHelperAtom(a, helpers):
					set(&spFlag, !a.Neg)
				case strings.HasPrefix(a.Op, "CALL:") && strings.HasSuffix(a.A, ".WantAuthnRequestsSigned") && cx.isHelperAtom(a, helpers):
					set(&idpFlag, !a.Neg)
				case a.Op == "EQ" && (a.A == "const:true" || a.B == "const:true") && (strings.HasSuffix(a.A+a.B, ".AuthnRequestsSigned")):
					// literal comparison: reported by R-XSBOOL; counts as the flag for the skeleton
					set(&spFlag, !a.Neg)
				case a.Op == "EQ" && (a.A == "const:true" || a.B == "const:true") && (strings.HasSuffix(a.A+a.B, ".WantAuthnRequestsSigned")):
					set(&idpFlag, !a.Neg)
				case pd.name == "redirect" && a.Op == "EMPTY" && strings.HasSuffix(a.A, ".Sig"):
					set(&provided, a.Neg)
				case pd.name == "post" && strings.HasPrefix(a.Op, "CALL:") && strings.Contains(a.Op, "dyn"):
					// signaturePostProvided(signatureF)() - resolved below
					set(&provided, !a.Neg)
				}
			}
			if bindingExcluded {
				continue
			}
			f := func(b *bool) bool { return b != nil && !*b }
			if !(f(spNil) && f(descNil) && f(spFlag) && f(idpNil) && f(idpFlag) && f(provided)) {
				bad = "the predicate can return false although the request uses this binding and not all of {SP metadata present, AuthnRequestsSigned false, IdP metadata present, WantAuthnRequestsSigned false, no signature provided} were established: " + atomsString(p.Atoms)
				break
			}
		}
		r.Check(bad == "", "R-PRED", "sso:"+pd.name, w.FnPos(cf), "returns false only if the binding differs or nothing requires / provides a signature", bad)
	}
	// signaturePostProvided: true whenever a non-empty SignatureValue is present
	if sp := w.Func("provider.signaturePostProvided$1"); sp != nil {
		_, fp, ok := fx.boolPaths(sp, 256)
		bad := ""
		if !ok {
			bad = "shape not recognised"
		}
		for _, p := range fp {
			okp := false
			for _, a := range p.Atoms {
				if a.Op == "NIL" && !a.Neg { // signature absent
					okp = true
				}
				if a.Op == "EMPTY" && !a.Neg && strings.HasSuffix(a.A, ".SignatureValue.Text") {
					okp = true
				}
				if strings.HasPrefix(a.Op, "CALL:reflect.DeepEqual") && !a.Neg { // equal to the zero SignatureValueType => Text empty
					okp = true
				}
			}
			if !okp {
				bad = "returns false although a signature element with a non-empty SignatureValue is present: " + atomsString(p.Atoms)
			}
		}
		r.Check(bad == "", "R-PRED", "signaturePostProvided", w.FnPos(sp), "false only when the Signature element is absent or its value empty", bad)
	} else {
		r.Fail("R-PRED", "signaturePostProvided", "", "anchor provider.signaturePostProvided not found")
	}

	// --- verifier discipline ---------------------------------------------------
	cx.checkVerifierDiscipline(r)
	cx.checkVerifierArguments(r)
	r.Min("R-VERIFIER", 4)
	// ValidatePost validates the element it was given (the document root), not an element found by searching for a signature
	if vp := w.Func("signature.ValidatePost"); vp != nil {
		pvf := cx.newVFlow("ValidatePost", vp)
		ls, sites := pvf.CallArgSources(matchCallee("(*github.com/russellhaering/goxmldsig.ValidationContext).Validate"), 1)
		if len(sites) == 0 {
			r.Fail("R-VFG", "ValidatePost:validated-element", w.FnPos(vp), "ValidationContext.Validate is not called")
		} else {
			r.checkSources("R-VFG", "ValidatePost:validated-element", w.InstrPos(sites[0]), ls, []string{"ext:etreeutils.NSDetatch#0"}, []string{"ext:etreeutils.NSDetatch#0"}, true)
			ld, ds := pvf.CallArgSources(matchCallee("github.com/russellhaering/goxmldsig/etreeutils.NSDetatch"), 1)
			if len(ds) > 0 {
				r.checkSources("R-VFG", "ValidatePost:detached-element", w.InstrPos(ds[0]), ld, []string{"param:signature.ValidatePost/#1"}, []string{"param:signature.ValidatePost/#1"}, true)
			}
		}
	}
	if vps := w.Func("serviceprovider.(*ServiceProvider).ValidatePostSignature"); vps != nil {
		pvf := cx.newVFlow("ValidatePostSignature", vps)
		ls, sites := pvf.CallArgSources(matchFnKey(w, "signature.ValidatePost"), 1)
		if len(sites) > 0 {
			r.checkSources("R-VFG", "ValidatePostSignature:root", w.InstrPos(sites[0]), ls, []string{"ext:(*etree.Document).Root#0"}, []string{"ext:(*etree.Document).Root#0"}, true)
		}
	}
	// the verifier closures are what the steps run
	if k.sigRedirect != nil && k.sigRedirect.Fn("logic") != w.Func("provider.verifyRedirectSignature$1") {
		r.Fail("R-VERIFIER", "sso:sig-redirect:logic", k.sigRedirect.Pos, "logic of the redirect signature step is not the closure of verifyRedirectSignature")
	}

	// --- wiring ----------------------------------------------------------------
	vf := cx.vflow(kSSO)
	fv := func(name string) string { return `ext:(*http.Request).FormValue("` + name + `")#0` }
	type sink struct {
		key   string
		match func(ssa.CallInstruction) bool
		idx   int
		allow []string
		req   []string
	}
	spKey := matchFnKey(w, "serviceprovider.(*ServiceProvider).ValidateRedirectSignature")
	sinks := []sink{
		{"ValidateRedirectSignature:request", spKey, 1, []string{fv("SAMLRequest")}, []string{fv("SAMLRequest")}},
		{"ValidateRedirectSignature:relayState", spKey, 2, []string{fv("RelayState")}, []string{fv("RelayState")}},
		{"ValidateRedirectSignature:sigAlg", spKey, 3, []string{fv("SigAlg")}, []string{fv("SigAlg")}},
		{"ValidateRedirectSignature:signature", spKey, 4, []string{fv("Signature")}, []string{fv("Signature")}},
		{"DecodeAuthNRequest:message", matchDecoder(w, "samlp.AuthnRequestType"), 1, []string{fv("SAMLRequest")}, []string{fv("SAMLRequest")}},
		{"DecodeAuthNRequest:encoding", matchDecoder(w, "samlp.AuthnRequestType"), 0, []string{fv("SAMLEncoding"), "const:urn:oasis:names:tc:SAML:2.0:bindings:URL-Encoding:DEFLATE", "const:"}, []string{fv("SAMLEncoding")}},
		{"CreateAuthRequest:relayState", matchStorage("CreateAuthRequest"), 4, []string{fv("RelayState")}, []string{fv("RelayState")}},
		{"verifyPost:base64-input", matchCallee("(*encoding/base64.Encoding).DecodeString"), 1, []string{fv("SAMLRequest"), "param:*", "ext:*"}, nil},
	}
	// r.Form.Get(name) after ParseForm reads the same merged parameters as r.FormValue(name): either spelling is fine,
	// as long as every consumer of a parameter reads it the same way (what is verified is what is decoded and stored)
	spelling := map[string]map[string]bool{}
	normalise := func(ls LabelSet) LabelSet {
		out := LabelSet{}
		for l, f := range ls {
			const pre = `ext:(url.Values).Get("`
			if strings.HasPrefix(l, pre) && strings.HasSuffix(l, `")#0`) {
				name := strings.TrimSuffix(strings.TrimPrefix(l, pre), `")#0`)
				if spelling[name] == nil {
					spelling[name] = map[string]bool{}
				}
				spelling[name]["Form.Get"] = true
				out[fv(name)] |= f
				continue
			}
			const pre2 = `ext:(*http.Request).FormValue("`
			if strings.HasPrefix(l, pre2) && strings.HasSuffix(l, `")#0`) {
				name := strings.TrimSuffix(strings.TrimPrefix(l, pre2), `")#0`)
				if spelling[name] == nil {
					spelling[name] = map[string]bool{}
				}
				spelling[name]["FormValue"] = true
			}
			out[l] |= f
		}
		return out
	}
	defer func() {
		for name, sp := range spelling {
			r.Check(len(sp) <= 1, "R-VFG", "sso:form-parameter-read-one-way:"+name, "", "every consumer reads the parameter the same way", "the request parameter "+name+" is read with FormValue at one place and with Form.Get at another: for multipart requests the two differ, what is verified is then not what is decoded or stored")
		}
	}()
	for _, s := range sinks {
		ls, sites := vf.CallArgSources(s.match, s.idx)
		ls = normalise(ls)
		if len(sites) == 0 {
			r.Fail("R-VFG", "sso:"+s.key, "", "sink call site not found in the SSO handler's scope")
			continue
		}
		if s.key == "verifyPost:base64-input" {
			// only the site inside verifyPostSignature's closure
			ls = LabelSet{}
			n := 0
			for _, c := range sites {
				if w.FuncKey(c.Parent()) == "provider.verifyPostSignature$1" {
					ls.addAll(vf.Labels(c.Common().Args[1]), 0)
					n++
				}
			}
			ls = normalise(ls)
			if n == 0 {
				r.Fail("R-VFG", "sso:"+s.key, "", "verifyPostSignature no longer base64-decodes the message it verifies")
				continue
			}
			r.checkSources("R-VFG", "sso:"+s.key, w.InstrPos(sites[0]), ls, []string{fv("SAMLRequest")}, []string{fv("SAMLRequest")}, true)
			continue
		}
		r.checkSources("R-VFG", "sso:"+s.key, w.InstrPos(sites[0]), ls, s.allow, s.req, true)
	}
	// the persisted request object is the decoded one
	ls, sites := vf.CallArgSources(matchStorage("CreateAuthRequest"), 1)
	if len(sites) > 0 {
		r.checkSources("R-VFG", "sso:CreateAuthRequest:request", w.InstrPos(sites[0]), ls, []string{"alloc:{samlp.AuthnRequestType}*", "decoded:samlp.AuthnRequestType", "const:zero"}, []string{"decoded:samlp.AuthnRequestType"}, false)
	}
	// key material
	ls, sites = vf.CallArgSources(matchFnKey(w, "signature.ValidateRedirect"), 3)
	if len(sites) > 0 {
		r.checkSources("R-VFG", "sso:ValidateRedirect:key", w.InstrPos(sites[0]), ls, []string{"ext:iface:provider.IDPStorage.GetEntityByID#0.*"}, []string{"ext:iface:provider.IDPStorage.GetEntityByID#0.*"}, true)
	} else {
		r.Fail("R-VFG", "sso:ValidateRedirect:key", "", "signature.ValidateRedirect is no longer reached from the SSO handler")
	}
	ls, sites = vf.CallArgSources(matchFnKey(w, "signature.ValidatePost"), 0)
	if len(sites) > 0 {
		// certificates parsed from the looked-up SP's metadata
		ls2, s2 := vf.CallArgSources(matchFnKey(w, "xml.GetCertsFromKeyDescriptors"), 0)
		if len(s2) > 0 {
			r.checkSources("R-VFG", "sso:ValidatePost:certs", w.InstrPos(s2[0]), ls2, []string{"ext:iface:provider.IDPStorage.GetEntityByID#0.Metadata.SPSSODescriptor.KeyDescriptor"}, []string{"ext:iface:provider.IDPStorage.GetEntityByID#0.Metadata.SPSSODescriptor.KeyDescriptor"}, true)
		} else {
			r.Fail("R-VFG", "sso:ValidatePost:certs", w.InstrPos(sites[0]), "the certificates used for POST verification are no longer taken from the service provider's key descriptors")
		}
	}
	cx.checkSigningCertsOnly(r)
	cx.checkVerificationKeysFromGivenMetadata(r)
	// signerPublicKey is written only by NewServiceProvider
	for _, fn := range w.Funcs {
		for _, st := range fx.info(fn).stores {
			if fa, ok := st.Addr.(*ssa.FieldAddr); ok && fieldOwner(fa.X.Type()) == "serviceprovider.ServiceProvider" {
				fld := fname(fieldVar(fa.X.Type(), fa.Field))
				r.Check(w.FuncKey(fn) == kNewSP, "R-WHO", "ServiceProvider."+fld+"@"+w.FuncKey(fn), w.InstrPos(st), "written by the constructor only", "ServiceProvider."+fld+" is written outside NewServiceProvider: the verification key / metadata of a registered provider can change after registration")
			}
		}
	}
	r.Min("R-WHO", 2)
	// binding is one of the two constants
	bl, bs := vf.FieldStoreSources("provider.AuthRequestForm", "Binding")
	if len(bs) == 0 {
		r.Fail("R-VFG", "sso:AuthRequestForm.Binding", "", "no store to AuthRequestForm.Binding found")
	} else {
		r.checkSources("R-VFG", "sso:AuthRequestForm.Binding", w.InstrPos(bs[0]), bl, []string{cPost, cRedirect, "const:"}, []string{cPost, cRedirect}, true)
		if _, has := bl["const:"]; has {
			r.Fail("R-VFG", "sso:AuthRequestForm.Binding:empty", w.InstrPos(bs[0]), "the binding of a request can stay empty: then neither signature step applies")
		}
	}
}

// isFreshError: v is certainly a non-nil error (error constructor result or package-level error variable).
// gFacts: the facts of the loaded program (set in main), for helpers that have no receiver.
var gFacts *Facts

func isFreshError(v ssa.Value) bool { return isFreshErrorDepth(v, 0) }

func isFreshErrorDepth(v ssa.Value, depth int) bool {
	switch x := v.(type) {
	case *ssa.Call:
		switch calleeName(x) {
		case "fmt.Errorf", "errors.New":
			return true
		case "errors.Join":
			return joinedSome(x, func(v ssa.Value) bool { return isFreshErrorDepth(v, depth+1) })
		}
		// a module helper / local closure every return of which makes an error: missing := func(name string) error { return fmt.Errorf(...) }
		if depth < 3 && gFacts != nil {
			f := calleeOf(x)
			if f == nil && !x.Call.IsInvoke() {
				if _, isB := x.Call.Value.(*ssa.Builtin); !isB {
					if tg, ok := gFacts.funcTargets(x.Call.Value); ok && len(tg) == 1 {
						f = tg[0]
					}
				}
			}
			if f != nil && f.Blocks != nil && f.Pkg != nil && isModulePath(f.Pkg.Pkg.Path()) && f.Signature.Results().Len() == 1 && isErrorType(f.Signature.Results().At(0).Type()) {
				rets := returnsOf(f)
				all := len(rets) > 0
				for _, ret := range rets {
					if !isFreshErrorDepth(ret.Results[0], depth+1) {
						all = false
					}
				}
				if all {
					return true
				}
			}
		}
	case *ssa.UnOp:
		if _, ok := x.X.(*ssa.Global); ok && x.Op == token.MUL {
			return true
		}
		// `err = fmt.Errorf(...); return err`: a load straight after the store of a made error into the same cell
		// (nothing in between that could write the cell)
		if x.Op == token.MUL && depth < 3 {
			b := x.Block()
			for i := instrIndex(x) - 1; b != nil && i >= 0; i-- {
				switch p := b.Instrs[i].(type) {
				case *ssa.Store:
					if p.Addr == x.X {
						return isFreshErrorDepth(p.Val, depth+1)
					}
					return false
				case ssa.CallInstruction:
					return false
				}
			}
		}
	case *ssa.MakeInterface:
		return true
	}
	return false
}

func (cx *Ctx) isHelperAtom(a Atom, helpers map[*ssa.Function]bool) bool {
	c, ok := a.Cond.(*ssa.Call)
	if !ok {
		// the atom's Cond may be wrapped in NOT
		v := a.Cond
		for {
			u, isU := v.(*ssa.UnOp)
			if !isU {
				break
			}
			v = u.X
		}
		c, ok = v.(*ssa.Call)
		if !ok {
			return false
		}
	}
	f := calleeOf(c)
	return f != nil && helpers[f]
}

// checkVerifier (R-VERIFIER): every return of fn yields, as its error, (a) the propagated result of a
// verifying call, (b) a freshly made / package-level non-nil error, or (c) nil only under the passing edge
// of a verifying call.
func (cx *Ctx) checkVerifier(r *Report, fn *ssa.Function, isCrypto func(ssa.CallInstruction) bool) {
	w := cx.W
	key := w.FuncKey(fn)
	st, pos, msg := cx.verifierEval(fn, isCrypto)
	switch st {
	case "ok":
		r.Ok("R-VERIFIER", key, pos, msg)
	case "undecided":
		r.Undecided("R-VERIFIER", key, pos, msg)
	case "nocalls":
		// a verifier made by a factory (`verifyRSA(hash) func(key, data, sig) error`): the function literals it hands
		// out are the verifiers
		nOK, bad := 0, ""
		for _, lit := range fn.AnonFuncs {
			switch st2, _, msg2 := cx.verifierEval(lit, isCrypto); st2 {
			case "ok":
				nOK++
			case "nocalls":
			default:
				bad = msg2
			}
		}
		if nOK > 0 && bad == "" && len(returnsOf(fn)) > 0 {
			allLits := true
			for _, ret := range returnsOf(fn) {
				if len(ret.Results) != 1 {
					allLits = false
					continue
				}
				if _, isMC := ret.Results[0].(*ssa.MakeClosure); !isMC {
					allLits = false
				}
			}
			if allLits {
				r.Ok("R-VERIFIER", key, pos, "hands out verifier closures, each under the discipline")
				return
			}
		}
		r.Fail("R-VERIFIER", key, pos, "the function performs no cryptographic verification call any more")
	default:
		r.Fail("R-VERIFIER", key, pos, msg)
	}
}

// verifierEval decides the verifier discipline for fn: status ok | fail | undecided | nocalls.
func (cx *Ctx) verifierEval(fn *ssa.Function, isCrypto func(ssa.CallInstruction) bool) (status, pos, msg string) {
	w, fx := cx.W, cx.Fx
	// verdict values: error results (or bool results) of verifying calls and their aliases
	verdict := map[ssa.Value]bool{}
	var vcalls []*ssa.Call
	for _, c := range callsIn(fn) {
		call, ok := c.(*ssa.Call)
		if !ok || !isCrypto(c) {
			continue
		}
		vcalls = append(vcalls, call)
		if e, has, _ := errResult(call); has && e != nil {
			for _, a := range fx.aliasesOf(e) {
				verdict[a] = true
			}
		} else {
			verdict[call] = true // bool verdict (dsa.Verify)
		}
	}
	if len(vcalls) == 0 {
		return "nocalls", w.FnPos(fn), ""
	}
	res0 := fn.Signature.Results()
	if res0.Len() == 0 || !isErrorTypeT(res0.At(res0.Len()-1).Type()) {
		return "nocalls", w.FnPos(fn), "not an error-returning function"
	}
	aps, ok := fx.atomPaths(fn, 4096)
	if !ok {
		return "undecided", w.FnPos(fn), "too many paths"
	}
	for _, p := range aps {
		if p.Ret == nil {
			continue
		}
		res := p.Ret.Results
		if len(res) == 0 {
			continue
		}
		o := res[len(res)-1]
		// a named result returned after deferred calls is a load of its cell: what the path stored there last
		if _, isLd := o.(*ssa.UnOp); isLd {
			pp := p
			if rv := fx.retVal(&pp, len(res)-1); rv != nil {
				o = rv
			}
		}
		if phi, isPhi := o.(*ssa.Phi); isPhi {
			pb := phi.Block()
			for i, b := range p.Blocks {
				if b == pb && i > 0 {
					for j, pred := range pb.Preds {
						if pred == p.Blocks[i-1] {
							o = phi.Edges[j]
						}
					}
				}
			}
		}
		if verdict[o] {
			continue
		}
		o = fx.throughIdentity(o)
		if verdict[o] {
			continue
		}
		if !isNilConst(o) {
			// a value that is certainly a non-nil error: made by an error constructor, a package-level
			// error, or an error found non-nil on this path. An error value found nil (or never tested)
			// on this path counts as nil.
			if isFreshError(o) {
				continue
			}
			nonNil := false
			for _, cp := range p.Conds {
				if x, tnn, isNT := nilTest(cp.Cond); isNT && cp.Pol == tnn {
					for _, a := range fx.aliasesOf(x) {
						if a == o {
							nonNil = true
						}
					}
					if x == o {
						nonNil = true
					}
					// o may itself be a later load of the cell x was loaded from
					for _, a := range fx.aliasesOf(o) {
						if a == x {
							nonNil = true
						}
					}
				}
			}
			if nonNil {
				continue
			}
		}
		// nil: some verifying call must have passed on this path
		passed := false
		for _, cp := range p.Conds {
			if x, tnn, isNT := nilTest(cp.Cond); isNT && verdict[x] && cp.Pol != tnn {
				passed = true
			}
			v := cp.Cond
			pol := cp.Pol
			for {
				u, isU := v.(*ssa.UnOp)
				if !isU || u.Op != token.NOT {
					break
				}
				v, pol = u.X, !pol
			}
			if verdict[v] && pol { // bool verdict true
				if _, isCall := v.(*ssa.Call); isCall {
					passed = true
				}
			}
		}
		if !passed {
			return "fail", w.InstrPos(p.Ret), "returns nil on a path on which no signature verification succeeded (" + atomsString(p.Atoms) + ")"
		}
	}
	return "ok", w.FnPos(fn), fmt.Sprintf("nil only as / under the verdict of %d verifying call(s)", len(vcalls))
}

// checkVerifierArguments (R-VFG): inside signature.ValidateRedirect the value checked as signature is the signature
// handed in, and the digest checked is a hash result - not the other way round (a swapped pair makes every correctly
// signed request fail, and would let a crafted "signature" equal to a digest be compared with itself).
func (cx *Ctx) checkVerifierArguments(r *Report) {
	w := cx.W
	vr := w.Func("signature.ValidateRedirect")
	if vr == nil {
		r.Fail("R-VFG", "ValidateRedirect:arguments", "", "anchor not found")
		return
	}
	lvf := cx.newVFlow("verifier-args", vr)
	sig := "param:signature.ValidateRedirect/#2"
	sum := "ext:iface:hash.Hash.Sum#0"
	n := 0
	for _, a := range []struct {
		key   string
		match func(ssa.CallInstruction) bool
		idx   int
		allow []string
	}{
		{"rsa:signature", matchCallee("crypto/rsa.VerifyPKCS1v15"), 3, []string{sig}},
		{"rsa:digest", matchCallee("crypto/rsa.VerifyPKCS1v15"), 2, []string{sum, "ext:crypto/sha*", "ext:sha1.*", "ext:sha256.*", "ext:sha512.*", "const:zero"}},
		{"dsa:signature", matchCallee("encoding/asn1.Unmarshal"), 0, []string{sig}},
		{"dsa:digest", matchCallee("crypto/dsa.Verify"), 1, []string{sum, "ext:crypto/sha*", "ext:sha1.*", "ext:sha256.*", "ext:sha512.*", "const:zero"}},
	} {
		ls, sites := lvf.CallArgSources(a.match, a.idx)
		if len(sites) == 0 {
			continue
		}
		n++
		r.checkSources("R-VFG", "ValidateRedirect:"+a.key, w.InstrPos(sites[0]), ls, a.allow, nil, false)
	}
	r.Check(n >= 2, "R-VFG", "ValidateRedirect:#arguments", w.FnPos(vr), fmt.Sprintf("%d verifier argument positions checked", n), "the cryptographic verification calls of ValidateRedirect were not found")
}

// checkSigningCertsOnly: every certificate GetCertsFromKeyDescriptors can return was appended on a path that
// established use == "" or use == "signing" for its key descriptor: a key published for another purpose
// (encryption) never verifies a request signature.
func (cx *Ctx) checkSigningCertsOnly(r *Report) {
	w, fx := cx.W, cx.Fx
	gc := w.Func("xml.GetCertsFromKeyDescriptors")
	if gc == nil {
		r.Fail("R-GUARD", "GetCertsFromKeyDescriptors:signing-only", "", "anchor not found")
		return
	}
	// the appends that can contribute to a returned slice
	var appends []*ssa.Call
	seen := map[ssa.Value]bool{}
	ok := true
	var back func(v ssa.Value, d int)
	back = func(v ssa.Value, d int) {
		if seen[v] || d > 30 {
			return
		}
		seen[v] = true
		switch x := v.(type) {
		case *ssa.Phi:
			for _, e := range x.Edges {
				back(e, d+1)
			}
		case *ssa.Call:
			if b, isB := x.Call.Value.(*ssa.Builtin); isB && b.Name() == "append" {
				appends = append(appends, x)
				back(x.Call.Args[0], d+1)
				return
			}
			ok = false
		case *ssa.Slice:
			// an empty literal []string{}
			if al, isAl := x.X.(*ssa.Alloc); isAl {
				if arr, isArr := al.Type().Underlying().(*types.Pointer).Elem().Underlying().(*types.Array); isArr && arr.Len() == 0 {
					return
				}
			}
			ok = false
		case *ssa.Const:
		case *ssa.MakeSlice:
		case *ssa.UnOp:
			if cell, isCell := x.X.(*ssa.Alloc); isCell && x.Op == token.MUL {
				for _, s := range fx.storesToCell(cell) {
					back(s, d+1)
				}
				return
			}
			ok = false
		default:
			ok = false
		}
	}
	for _, ret := range returnsOf(gc) {
		if len(ret.Results) > 0 {
			back(ret.Results[0], 0)
		}
	}
	if !ok {
		r.Undecided("R-GUARD", "GetCertsFromKeyDescriptors:signing-only", w.FnPos(gc), "the returned list is not built by appends alone")
		return
	}
	bad := ""
	for _, ap := range appends {
		pts, okp := fx.atomPathsTo(ap.Block(), 4096)
		if !okp {
			r.Undecided("R-GUARD", "GetCertsFromKeyDescriptors:signing-only", w.InstrPos(ap), "too many paths")
			return
		}
		for _, p := range pts {
			// (the test may sit in a predicate of the use attribute: each way that predicate can come out true counts)
			for _, atoms := range fx.altExpansions(p.Atoms, 16) {
				okUse := false
				for _, a := range atoms {
					if a.Neg || !strings.HasSuffix(a.TA, ".Use") && !strings.HasSuffix(a.TB, ".Use") {
						continue
					}
					if a.Op == "EMPTY" || a.Op == "EQ" && (a.A == "const:signing" || a.B == "const:signing") {
						okUse = true
					}
				}
				if !okUse {
					bad = "a certificate is added to the returned list at " + w.InstrPos(ap) + " on a path that did not establish use == \"\" or use == \"signing\" (" + atomsStringT(atoms) + ")"
				}
			}
		}
	}
	r.Check(bad == "" && len(appends) > 0, "R-GUARD", "GetCertsFromKeyDescriptors:signing-only", w.FnPos(gc), fmt.Sprintf("%d append site(s), each under use == \"\" or use == \"signing\"", len(appends)), bad+": a request signed with a key the service provider did not publish for signing is accepted")
}

// checkVerifiedOctetsOfParams: inside ValidateRedirectSignature what is verified is built from the values the
// function was given - through the encoding steps only (QueryEscape, formatting, concatenation). A trimmed, folded
// or otherwise rewritten copy that is verified instead (or as a second try) is not what the handler goes on to use:
// a message the service provider did not sign passes.
func (cx *Ctx) checkVerifiedOctetsOfParams(r *Report) {
	w := cx.W
	vr := w.Func("serviceprovider.(*ServiceProvider).ValidateRedirectSignature")
	if vr == nil {
		r.Fail("R-VFG", "ValidateRedirectSignature:octets-of-params", "", "anchor not found")
		return
	}
	lvf := cx.newVFlow("ValidateRedirectSignature:params", vr)
	n := 0
	for _, idx := range []int{0, 1} {
		ls, sites := lvf.CallArgSources(matchFnKey(w, "signature.ValidateRedirect"), idx)
		if len(sites) == 0 {
			continue
		}
		n++
		var extra []string
		for _, l := range lvf.Deep(ls).keys() {
			if strings.HasPrefix(l, "via:") {
				switch l {
				case "via:url.QueryEscape", "via:fmt.Sprintf", "via:concat", "via:strings.Builder", "via:strings.Join":
				default:
					extra = append(extra, l)
				}
			}
		}
		r.Check(len(extra) == 0, "R-VFG", fmt.Sprintf("ValidateRedirectSignature:octets-of-params#%d", idx), w.InstrPos(sites[0]), "built from the function's parameters through the encoding steps only", "what is verified is a rewritten copy of the values the function was given ("+strings.Join(extra, ", ")+"): a signature over other octets than the ones the handler uses is accepted")
	}
	if n == 0 {
		r.Fail("R-VFG", "ValidateRedirectSignature:octets-of-params", w.FnPos(vr), "the redirect verifier is no longer called")
	}
	// one verification decides: a second attempt over other octets (without the RelayState, with trimmed values, ...)
	// accepts a message whose parameters the service provider did not sign
	_, sites := lvf.CallArgSources(matchFnKey(w, "signature.ValidateRedirect"), 1)
	inLoop := false
	for _, c := range sites {
		if cx.Fx.info(c.Parent()).reachable(c.Block(), c.Block()) {
			inLoop = true
		}
	}
	if len(sites) > 0 {
		r.Check(len(sites) == 1 && !inLoop, "R-GUARD", "ValidateRedirectSignature:one-verification", w.InstrPos(sites[0]), "the signature is verified once, over one string", fmt.Sprintf("the redirect signature is verified at %d places (or in a loop): when the octets prescribed by the binding do not verify, others are tried - a message whose RelayState or other parameters were not signed is accepted", len(sites)))
	}
}

// checkVerificationKeysFromGivenMetadata (R-VFG): the certificates a request signature is verified against are parsed
// from the metadata document the function was handed - the registration of the provider storage returned for this
// request. A function that can answer from a package-level table, a sync.Map or a field of a long-lived object keeps
// the keys of an earlier registration in force: after a key rotation, requests signed with the retired key are still
// accepted and the new key is refused.
func (cx *Ctx) checkVerificationKeysFromGivenMetadata(r *Report) {
	w := cx.W
	n := 0
	for _, fn := range w.Funcs {
		if fn.Parent() != nil || fn.Pkg == nil {
			continue
		}
		res := fn.Signature.Results()
		if res.Len() == 0 || res.At(0).Type().String() != "[]*crypto/x509.Certificate" {
			continue
		}
		n++
		key := w.FuncKey(fn)
		vf := cx.newVFlow(key, fn)
		ls := LabelSet{}
		for _, ret := range returnsOf(fn) {
			if len(ret.Results) > 0 {
				ls.addAll(vf.Deep(vf.Labels(ret.Results[0])), 0)
			}
		}
		var bad []string
		for _, l := range ls.leaves() {
			if strings.HasPrefix(l, "global:") || strings.HasPrefix(l, "ext:(*sync.") || strings.HasPrefix(l, "dyncall:") || strings.HasPrefix(l, "opaque:") {
				bad = append(bad, l)
			}
		}
		r.Check(len(bad) == 0, "R-VFG", "certs:"+key, w.FnPos(fn), "certificates come from the function's arguments: "+ls.String(),
			"the certificates returned can come from "+strings.Join(bad, ", ")+" instead of the metadata handed to the function: keys of an earlier registration stay in force after the provider's keys were replaced")
	}
	if n == 0 {
		r.Fail("R-VFG", "certs:#functions", "", "no function returning []*x509.Certificate found: the source of the verification keys cannot be established")
	}
}

// checkVerifierDiscipline (R-VERIFIER, shared with C11): every function on the way from the handler's verification
// step to the cryptographic primitive returns nil only as / under the verdict of a verifying call. "Unsigned or
// wrongly signed requests are refused" - what C05 states and what C11's "advertised as true exactly when unsigned
// requests are refused" relies on - is exactly that.
func (cx *Ctx) checkVerifierDiscipline(r *Report) {
	w, fx := cx.W, cx.Fx
	verifierKeys := []string{"provider.verifyRedirectSignature$1", "provider.verifyPostSignature$1", "serviceprovider.(*ServiceProvider).ValidateRedirectSignature",
		"serviceprovider.(*ServiceProvider).ValidatePostSignature", "signature.ValidateRedirect", "signature.ValidatePost", "signature.verifyRSA", "signature.verifyDSA"}
	vset := map[*ssa.Function]bool{}
	for _, vk := range verifierKeys {
		if f := w.Func(vk); f != nil {
			vset[f] = true
		}
	}
	// A module helper that is not one of the anchors counts as a verifying call when it obeys the verifier
	// discipline itself (verifyECDSA next to verifyRSA / verifyDSA); it is then reported as its own obligation.
	type helperVerdict struct{ status, pos, msg string }
	discovered := map[*ssa.Function]*helperVerdict{}
	var isCrypto func(c ssa.CallInstruction) bool
	isCrypto = func(c ssa.CallInstruction) bool {
		switch calleeName(c) {
		case "crypto/rsa.VerifyPKCS1v15", "crypto/dsa.Verify", "(*github.com/russellhaering/goxmldsig.ValidationContext).Validate", "crypto/rsa.VerifyPSS", "crypto/ecdsa.Verify", "crypto/ecdsa.VerifyASN1", "crypto/ed25519.Verify":
			return true
		}
		isVerifierFn := func(f *ssa.Function) bool {
			if vset[f] {
				return true
			}
			if f.Blocks == nil || f.Pkg == nil || !isModulePath(f.Pkg.Pkg.Path()) || isMockPath(f.Pkg.Pkg.Path()) {
				return false
			}
			if hv, ok := discovered[f]; ok {
				return hv.status == "ok"
			}
			discovered[f] = &helperVerdict{status: "busy"}
			st, pos, msg := cx.verifierEval(f, isCrypto)
			discovered[f] = &helperVerdict{st, pos, msg}
			return st == "ok"
		}
		if f := calleeOf(c); f != nil {
			return isVerifierFn(f)
		}
		// a verifier kept as a function value (a table of algorithms): every function the value can denote
		// must be a verifier
		if c.Common().IsInvoke() {
			return false
		}
		if _, isB := c.Common().Value.(*ssa.Builtin); isB {
			return false
		}
		tg, ok := fx.funcTargets(c.Common().Value)
		if !ok || len(tg) == 0 {
			return false
		}
		for _, f := range tg {
			if !isVerifierFn(f) {
				return false
			}
		}
		return true
	}
	for _, vk := range verifierKeys {
		fn := w.Func(vk)
		if fn == nil {
			// verifyRSA was introduced by a repair; its absence is fine if ValidateRedirect calls the primitive directly
			if vk == "signature.verifyRSA" {
				continue
			}
			r.Fail("R-VERIFIER", vk, "", "anchor function not found")
			continue
		}
		cx.checkVerifier(r, fn, isCrypto)
	}
	{
		var hs []*ssa.Function
		for f := range discovered {
			hs = append(hs, f)
		}
		sort.Slice(hs, func(i, j int) bool { return w.FuncKey(hs[i]) < w.FuncKey(hs[j]) })
		for _, f := range hs {
			switch hv := discovered[f]; hv.status {
			case "ok":
				r.Ok("R-VERIFIER", w.FuncKey(f), w.FnPos(f), "helper of a verifier: "+hv.msg)
			case "fail", "undecided":
				// a helper that calls a verification primitive but may return nil without its verdict
				r.Fail("R-VERIFIER", w.FuncKey(f), hv.pos, hv.msg)
			}
		}
	}
}

package main

import (
	"go/types"
	"sort"

	"golang.org/x/tools/go/ssa"
)

// checkStorageIsTheApplications (R-STORAGE, shared): every clause that says "what storage returned for this request"
// reads the results of interface calls on the storage interfaces of package provider as answers of the embedding
// application's storage. That reading is only right when no type of the module itself sits behind those interfaces
// and answers on its own: a decorator that remembers earlier answers (a request cache, a provider cache, a key
// cache) hands a handler the state of an earlier request - a completed login that has been revoked since, a
// service provider that was deregistered - and is invisible at the call sites, which still say `storage.X(ctx, …)`.
// Rule: for every non-mock module type that implements one of the storage interfaces, every interface method it
// declares itself (methods promoted from an embedded storage are delegation by construction) returns, on every path,
// exactly the results of one call of the same method on a storage-typed value with its own parameters as arguments,
// and stores nothing outside its frame.
func (cx *Ctx) checkStorageIsTheApplications(r *Report) {
	w := cx.W
	var ifaces []*types.Named
	for _, p := range w.Pkgs {
		if p.PkgPath != modPath+"/pkg/provider" {
			continue
		}
		sc := p.Types.Scope()
		for _, nm := range sc.Names() {
			tn, ok := sc.Lookup(nm).(*types.TypeName)
			if !ok || !storageIfaces[nm] {
				continue
			}
			if n, ok := tn.Type().(*types.Named); ok && types.IsInterface(n) {
				ifaces = append(ifaces, n)
			}
		}
	}
	if len(ifaces) == 0 {
		r.Fail("R-STORAGE", "#interfaces", "", "no storage interface found in package provider")
		return
	}
	n := 0
	for _, p := range w.Pkgs {
		if isMockPath(p.PkgPath) {
			continue
		}
		sc := p.Types.Scope()
		names := sc.Names()
		sort.Strings(names)
		for _, nm := range names {
			tn, ok := sc.Lookup(nm).(*types.TypeName)
			if !ok || tn.IsAlias() {
				continue
			}
			named, ok := tn.Type().(*types.Named)
			if !ok || types.IsInterface(named) || named.TypeParams().Len() > 0 {
				continue
			}
			for _, T := range []types.Type{types.NewPointer(named)} {
				var impl *types.Named
				for _, I := range ifaces {
					if types.Implements(T, I.Underlying().(*types.Interface)) {
						impl = I
						break
					}
				}
				if impl == nil {
					continue
				}
				n++
				key := shortPkg(p.PkgPath) + "." + nm
				bad := ""
				ms := types.NewMethodSet(T)
				for _, I := range ifaces {
					it := I.Underlying().(*types.Interface)
					if !types.Implements(T, it) {
						continue
					}
					for i := 0; i < it.NumMethods() && bad == ""; i++ {
						m := it.Method(i)
						sel := ms.Lookup(m.Pkg(), m.Name())
						if sel == nil {
							continue
						}
						fo, _ := sel.Obj().(*types.Func)
						if fo == nil {
							continue
						}
						if recv := fo.Type().(*types.Signature).Recv(); recv != nil && types.IsInterface(recv.Type()) {
							continue // promoted from an embedded storage interface
						}
						fn := w.Prog.FuncValue(fo)
						if fn == nil || fn.Blocks == nil {
							continue
						}
						if why := notAStorageDelegate(fn, m.Name()); why != "" {
							bad = m.Name() + " " + why + " (" + w.FnPos(fn) + ")"
						}
					}
				}
				r.Check(bad == "", "R-STORAGE", key, w.Pos(tn.Pos()), "module type behind a storage interface only hands calls on",
					"module type "+key+" implements the storage interface "+impl.Obj().Name()+" and its method "+bad+": what a handler reads as the answer of the application's storage for this request can be an answer the module kept from an earlier request")
				break
			}
		}
	}
	if n == 0 {
		r.Ok("R-STORAGE", "#implementations", "", "no module type implements a storage interface: every storage call leaves the module")
	}
}

// notAStorageDelegate: "" when fn returns, on every path, the results of one invoke of method name with fn's own
// parameters (in order) as arguments, and has no store or map update to anything but its own locals.
func notAStorageDelegate(fn *ssa.Function, name string) string {
	var del *ssa.Call
	// a function with a defer returns through result cells (go/ssa spills them): the values stored there count
	resultValues := func(rv ssa.Value) []ssa.Value {
		if u, ok := rv.(*ssa.UnOp); ok {
			if a, ok := u.X.(*ssa.Alloc); ok {
				var out []ssa.Value
				for _, ref := range *a.Referrers() {
					if st, ok := ref.(*ssa.Store); ok && st.Addr == ssa.Value(a) {
						out = append(out, st.Val)
					}
				}
				if len(out) > 0 {
					return out
				}
			}
		}
		return []ssa.Value{rv}
	}
	for _, ret := range returnsOf(fn) {
		for i, rv0 := range ret.Results {
			for _, rv := range resultValues(rv0) {
				var c *ssa.Call
				if len(ret.Results) == 1 {
					c, _ = rv.(*ssa.Call)
				} else if e, ok := rv.(*ssa.Extract); ok && e.Index == i {
					c, _ = e.Tuple.(*ssa.Call)
				}
				if c == nil {
					return "returns a value that is not the result of the storage call"
				}
				if del != nil && del != c {
					return "returns the results of different calls"
				}
				del = c
			}
		}
	}
	if del != nil {
		com := del.Common()
		if !com.IsInvoke() || com.Method.Name() != name {
			return "answers with the result of another function"
		}
		params := fn.Params
		if len(params) > 0 && fn.Signature.Recv() != nil {
			params = params[1:]
		}
		if len(com.Args) != len(params) {
			return "hands on different arguments"
		}
		for i, a := range com.Args {
			if a != ssa.Value(params[i]) {
				return "hands on different arguments"
			}
		}
	}
	// the address of a result handed to another function (`defer s.observe(..., &err)`): the answer can be replaced there
	for _, b := range fn.Blocks {
		for _, in := range b.Instrs {
			c, isC := in.(ssa.CallInstruction)
			if !isC {
				continue
			}
			for _, a := range c.Common().Args {
				if al, isAl := a.(*ssa.Alloc); isAl && al.Parent() == fn {
					for _, ret := range returnsOf(fn) {
						for _, rv := range ret.Results {
							if u, isU := rv.(*ssa.UnOp); isU && u.X == ssa.Value(al) {
								return "hands the address of its result to " + shortCallee(calleeName(c)) + ", which can replace the storage's answer"
							}
						}
					}
				}
			}
		}
	}
	for _, b := range fn.Blocks {
		for _, in := range b.Instrs {
			switch x := in.(type) {
			case *ssa.MapUpdate:
				return "keeps state (map update)"
			case *ssa.Store:
				if _, local := x.Addr.(*ssa.Alloc); !local {
					return "keeps state (store outside its frame)"
				}
			}
		}
	}
	return ""
}

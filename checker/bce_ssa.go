package main

import (
	"fmt"
	"go/ast"
	"go/token"
	"go/types"

	"golang.org/x/tools/go/ssa"
)

// ---------------------------------------------------------------------------
// SSA proof of x[i] with constant i: a lower bound on len(x).
//
//   minLen(slice of a whole array [n]T)            = n        (a composite literal)
//   minLen(nil)                                     = 0
//   minLen(phi)                                     = min over the edges
//   minLen(append(a, b...))                         = minLen(a) + minLen(b)
//   minLen(load of field F of object o)             = min over all stores, anywhere in the function, to field F of
//                                                     that struct type (field-based may-alias), provided
//       - o is an allocation of this function that has not escaped to a call before the index expression
//         (so no other function can have written the field), and
//       - one store to o.F dominates the index expression (so the zero value is not what is read).
//   a pointer-typed field on the way (ret.Subject.SubjectConfirmation) is resolved the same way to the set of local
//   allocations it can hold.
// ---------------------------------------------------------------------------

type bceProver struct {
	cx   *Ctx
	fn   *ssa.Function
	at   ssa.Instruction
	why  string
	busy map[ssa.Value]bool
}

func (cx *Ctx) ssaIndexAt(pos token.Pos) (ssa.Instruction, ssa.Value, ssa.Value) {
	for _, fn := range cx.W.Funcs {
		for _, b := range fn.Blocks {
			for _, in := range b.Instrs {
				switch x := in.(type) {
				case *ssa.IndexAddr:
					if x.Pos() == pos {
						return x, x.X, x.Index
					}
				case *ssa.Index:
					if x.Pos() == pos {
						return x, x.X, x.Index
					}
				}
			}
		}
	}
	return nil, nil, nil
}

// bceSSAProof proves the bounds check of index expression ix from the construction of the indexed slice.
func (cx *Ctx) bceSSAProof(ix *ast.IndexExpr) (bool, string) {
	in, x, idx := cx.ssaIndexAt(ix.Lbrack)
	if in == nil {
		return false, "no SSA index instruction at this position"
	}
	i, ok := constInt(idx)
	if !ok {
		// x[slices.IndexFunc(x, pred)] (or slices.Index) where the result was found >= 0: the library hands back -1
		// or a valid index of the very slice it searched
		if ic, isC := idx.(*ssa.Call); isC && len(ic.Call.Args) >= 1 {
			if n := calleeName(ic); n == "slices.IndexFunc" || n == "slices.Index" || len(n) > 13 && (n[:13] == "slices.Index[" || n[:17] == "slices.IndexFunc[") {
				if ic.Call.Args[0] == x || cx.Fx.path(ic.Call.Args[0]) == cx.Fx.path(x) {
					for _, a := range cx.Fx.AtomsAt(in) {
						if bo, isB := stripNot(a.Cond).(*ssa.BinOp); isB && a.Op == "LT" && a.Neg && (bo.X == ssa.Value(ic) && a.B == "const:0") {
							return true, "index found by " + n + " over the same slice and tested >= 0"
						}
					}
				}
			}
		}
		// x[pos(x)] where pos is a module function that hands back a negative constant or a position it met while
		// ranging over the very slice it was given, and the result was found >= 0
		if ic, isC := idx.(*ssa.Call); isC {
			if g := calleeOf(ic); g != nil && g.Blocks != nil && g.Pkg != nil && isModulePath(g.Pkg.Pkg.Path()) && g.Signature.Results().Len() == 1 {
				for k, a := range ic.Call.Args {
					if k >= len(g.Params) || !(a == x || cx.Fx.path(a) != "" && cx.Fx.path(a) == cx.Fx.path(x)) {
						continue
					}
					all := true
					for _, ret := range returnsOf(g) {
						if !cx.negOrPositionOf(ret.Results[0], g.Params[k], map[ssa.Value]bool{}) {
							all = false
						}
					}
					if !all {
						continue
					}
					for _, at := range cx.Fx.AtomsAt(in) {
						if bo, isB := stripNot(at.Cond).(*ssa.BinOp); isB && at.Op == "LT" && at.Neg && bo.X == ssa.Value(ic) && at.B == "const:0" {
							return true, "index handed back by " + g.Name() + ", which returns a negative constant or a position of the slice it ranged over, and tested >= 0"
						}
					}
				}
			}
		}
		return false, "index is not a constant"
	}
	p := &bceProver{cx: cx, fn: in.Parent(), at: in, busy: map[ssa.Value]bool{}}
	n, ok := p.minLen(x, 0)
	if !ok {
		return false, p.why
	}
	if int64(n) > i {
		return true, fmt.Sprintf("every value the indexed slice can hold at this point has at least %d element(s); index %d", n, i)
	}
	return false, fmt.Sprintf("the indexed slice may have only %d element(s); index is %d", n, i)
}

func (p *bceProver) fail(s string) (int, bool) {
	if p.why == "" {
		p.why = s
	}
	return 0, false
}

func (p *bceProver) before(in ssa.Instruction) bool {
	if in.Block() == p.at.Block() {
		if instrIndex(in) < instrIndex(p.at) {
			return true
		}
	}
	return p.cx.Fx.info(p.fn).reachable(in.Block(), p.at.Block())
}

func (p *bceProver) dominates(in ssa.Instruction) bool {
	if in.Block() == p.at.Block() {
		return instrIndex(in) < instrIndex(p.at)
	}
	return in.Block().Dominates(p.at.Block())
}

func (p *bceProver) minLen(v ssa.Value, depth int) (int, bool) {
	if depth > 30 || p.busy[v] {
		return p.fail("construction too deep to follow")
	}
	p.busy[v] = true
	defer delete(p.busy, v)
	switch x := v.(type) {
	case *ssa.Const:
		return 0, true
	case *ssa.Slice:
		if x.Low != nil || x.High != nil || x.Max != nil {
			return p.fail("the slice is re-sliced with bounds")
		}
		if al, ok := x.X.(*ssa.Alloc); ok {
			if arr, ok := al.Type().Underlying().(*types.Pointer).Elem().Underlying().(*types.Array); ok {
				return int(arr.Len()), true
			}
		}
		if _, ok := x.X.Type().Underlying().(*types.Slice); ok {
			return p.minLen(x.X, depth+1)
		}
		return p.fail("slice of something that is not a literal's array")
	case *ssa.Phi:
		m := -1
		for _, e := range x.Edges {
			n, ok := p.minLen(e, depth+1)
			if !ok {
				return 0, false
			}
			if m < 0 || n < m {
				m = n
			}
		}
		if m < 0 {
			m = 0
		}
		return m, true
	case *ssa.Call:
		if b, ok := x.Call.Value.(*ssa.Builtin); ok && b.Name() == "append" && len(x.Call.Args) == 2 {
			a, ok := p.minLen(x.Call.Args[0], depth+1)
			if !ok {
				return 0, false
			}
			bn, ok := p.minLen(x.Call.Args[1], depth+1)
			if !ok {
				bn = 0
				p.why = ""
			}
			return a + bn, true
		}
		return p.fail("the slice is the result of a call")
	case *ssa.UnOp:
		if x.Op != token.MUL {
			break
		}
		switch a := x.X.(type) {
		case *ssa.Alloc:
			// a local slice variable kept in memory
			m := -1
			for _, ref := range *a.Referrers() {
				switch y := ref.(type) {
				case *ssa.Store:
					if y.Addr != ssa.Value(a) {
						return p.fail("the address of the slice variable is stored")
					}
					n, ok := p.minLen(y.Val, depth+1)
					if !ok {
						return 0, false
					}
					if m < 0 || n < m {
						m = n
					}
				case *ssa.UnOp, *ssa.DebugRef:
				default:
					return p.fail("the address of the slice variable escapes")
				}
			}
			if m < 0 {
				m = 0
			}
			return m, true
		case *ssa.FieldAddr:
			objs, ok := p.localObjs(a.X, depth+1)
			if !ok {
				return 0, false
			}
			return p.fieldMinLen(objs, a, depth+1)
		}
	}
	return p.fail("the indexed slice is not built in this function")
}

// fieldMinLen: lower bound of the length of slice field fa.Field of every object in objs.
func (p *bceProver) fieldMinLen(objs []*ssa.Alloc, fa *ssa.FieldAddr, depth int) (int, bool) {
	fv := fieldVar(fa.X.Type(), fa.Field)
	m := -1
	must := map[*ssa.Alloc]bool{}
	for _, b := range p.fn.Blocks {
		for _, in := range b.Instrs {
			st, ok := in.(*ssa.Store)
			if !ok {
				continue
			}
			sfa, ok := st.Addr.(*ssa.FieldAddr)
			if !ok || fieldVar(sfa.X.Type(), sfa.Field) != fv {
				continue
			}
			n, ok := p.minLen(st.Val, depth+1)
			if !ok {
				return 0, false
			}
			if m < 0 || n < m {
				m = n
			}
			if al, ok := sfa.X.(*ssa.Alloc); ok && p.dominates(st) {
				must[al] = true
			}
		}
	}
	for _, o := range objs {
		if !must[o] {
			return p.fail("field " + fv.Name() + " of a local object is not assigned on every path before the index expression")
		}
	}
	if m < 0 {
		m = 0
	}
	return m, true
}

// localObjs: the allocations of this function a pointer value can denote; fails if it can denote anything else
// or if one of them has escaped to a call before the index expression.
func (p *bceProver) localObjs(v ssa.Value, depth int) ([]*ssa.Alloc, bool) {
	if depth > 30 {
		p.fail("construction too deep to follow")
		return nil, false
	}
	switch x := v.(type) {
	case *ssa.Alloc:
		if _, ok := x.Type().Underlying().(*types.Pointer).Elem().Underlying().(*types.Struct); !ok {
			break
		}
		if p.escapedBefore(x, map[*ssa.Alloc]bool{}) {
			p.fail("the object holding the slice is handed to another function before the index expression")
			return nil, false
		}
		return []*ssa.Alloc{x}, true
	case *ssa.Phi:
		var out []*ssa.Alloc
		for _, e := range x.Edges {
			o, ok := p.localObjs(e, depth+1)
			if !ok {
				return nil, false
			}
			out = append(out, o...)
		}
		return out, true
	case *ssa.UnOp:
		if x.Op != token.MUL {
			break
		}
		switch a := x.X.(type) {
		case *ssa.FieldAddr:
			// pointer field of local objects: the objects stored into it
			owners, ok := p.localObjs(a.X, depth+1)
			if !ok {
				return nil, false
			}
			fv := fieldVar(a.X.Type(), a.Field)
			must := map[*ssa.Alloc]bool{}
			var out []*ssa.Alloc
			for _, b := range p.fn.Blocks {
				for _, in := range b.Instrs {
					st, ok := in.(*ssa.Store)
					if !ok {
						continue
					}
					sfa, ok := st.Addr.(*ssa.FieldAddr)
					if !ok || fieldVar(sfa.X.Type(), sfa.Field) != fv {
						continue
					}
					o, ok := p.localObjs(st.Val, depth+1)
					if !ok {
						return nil, false
					}
					out = append(out, o...)
					if al, ok := sfa.X.(*ssa.Alloc); ok && p.dominates(st) {
						must[al] = true
					}
				}
			}
			for _, o := range owners {
				if !must[o] {
					p.fail("pointer field " + fv.Name() + " of a local object is not assigned on every path before the index expression")
					return nil, false
				}
			}
			return out, true
		case *ssa.Alloc:
			// pointer variable kept in memory
			var out []*ssa.Alloc
			for _, ref := range *a.Referrers() {
				switch y := ref.(type) {
				case *ssa.Store:
					if y.Addr != ssa.Value(a) {
						p.fail("the address of a pointer variable is stored")
						return nil, false
					}
					o, ok := p.localObjs(y.Val, depth+1)
					if !ok {
						return nil, false
					}
					out = append(out, o...)
				case *ssa.UnOp, *ssa.DebugRef:
				default:
					p.fail("the address of a pointer variable escapes")
					return nil, false
				}
			}
			return out, true
		}
	}
	p.fail("the object holding the slice is not allocated in this function")
	return nil, false
}

// escapedBefore: the allocation (or an address inside it) is handed to a call, converted, or stored somewhere
// that is not a non-escaped local allocation, at an instruction that can execute before the index expression.
func (p *bceProver) escapedBefore(o *ssa.Alloc, seen map[*ssa.Alloc]bool) bool {
	if seen[o] {
		return false
	}
	seen[o] = true
	var addrUse func(a ssa.Value) bool
	addrUse = func(a ssa.Value) bool {
		refs := a.Referrers()
		if refs == nil {
			return true
		}
		for _, ref := range *refs {
			switch y := ref.(type) {
			case *ssa.DebugRef, *ssa.Return:
			case *ssa.UnOp:
				// load through the address: a copy of the value; pointers inside are tracked by their own allocation
			case *ssa.FieldAddr:
				if addrUse(y) {
					return true
				}
			case *ssa.IndexAddr:
				if addrUse(y) {
					return true
				}
			case *ssa.Store:
				if y.Addr == a {
					continue // store into the object
				}
				// the address is stored somewhere
				if !p.before(y) {
					continue
				}
				base := y.Addr
				for {
					if f, ok := base.(*ssa.FieldAddr); ok {
						base = f.X
						continue
					}
					if ia, ok := base.(*ssa.IndexAddr); ok {
						base = ia.X
						continue
					}
					break
				}
				bal, ok := base.(*ssa.Alloc)
				if !ok || p.escapedBefore(bal, seen) {
					return true
				}
			default:
				if in, ok := ref.(ssa.Instruction); ok && !p.before(in) {
					continue
				}
				return true
			}
		}
		return false
	}
	return addrUse(o)
}

// negOrPositionOf: v is a negative constant, the index of a `for i := range list` loop over the parameter list (the
// incremented loop counter, found below len(list) on the edge it is taken from), or a merge of such values.
func (cx *Ctx) negOrPositionOf(v ssa.Value, list *ssa.Parameter, seen map[ssa.Value]bool) bool {
	if seen[v] {
		return true
	}
	seen[v] = true
	fx := cx.Fx
	switch x := v.(type) {
	case *ssa.Const:
		n, ok := constInt(x)
		return ok && n < 0
	case *ssa.Phi:
		for i, e := range x.Edges {
			if bo, isB := e.(*ssa.BinOp); isB {
				// the loop counter: phi(-1, counter+1) + 1, below len(list) on this edge
				ph, isPhi := bo.X.(*ssa.Phi)
				one, isOne := constInt(bo.Y)
				if bo.Op != token.ADD || !isPhi || !isOne || one != 1 {
					return false
				}
				for _, pe := range ph.Edges {
					if pe == ssa.Value(bo) {
						continue
					}
					if n, ok := constInt(pe); !ok || n != -1 {
						return false
					}
				}
				below := false
				for _, a := range fx.AtomsOnEdge(x.Block().Preds[i], x.Block()) {
					if a.Op == "LT" && !a.Neg && a.A == fx.path(bo) && a.B == "len("+fx.path(list)+")" {
						below = true
					}
				}
				if !below {
					return false
				}
				continue
			}
			if !cx.negOrPositionOf(e, list, seen) {
				return false
			}
		}
		return true
	}
	return false
}

package main

import (
	"fmt"
	"go/token"
	"strings"

	"golang.org/x/tools/go/ssa"
)

func init() { register("C06", checkC06) }

const cDeflate = "const:urn:oasis:names:tc:SAML:2.0:bindings:URL-Encoding:DEFLATE"

// retVal resolves result i of the path's return: a phi to the edge taken, a load of a named
// result cell to the last value stored into it along the path.
func (fx *Facts) retVal(ap *APath, i int) ssa.Value {
	if ap.Ret == nil || i >= len(ap.Ret.Results) {
		return nil
	}
	v := ap.Ret.Results[i]
	for depth := 0; depth < 6; depth++ {
		switch x := v.(type) {
		case *ssa.Phi:
			pb := x.Block()
			next := ssa.Value(nil)
			for bi, b := range ap.Blocks {
				if b == pb && bi > 0 {
					for j, pred := range pb.Preds {
						if pred == ap.Blocks[bi-1] {
							next = x.Edges[j]
						}
					}
				}
			}
			if next == nil {
				return v
			}
			v = next
		case *ssa.UnOp:
			if x.Op != token.MUL {
				return v
			}
			var cell ssa.Value
			var viaPtr *ssa.Alloc // the variable of the caller a pointer parameter stands for (`*err`)
			switch c := x.X.(type) {
			case *ssa.Alloc:
				cell = c
			case *ssa.FreeVar:
				cell = c // a captured variable: the last value this closure stored into it on the path
			case *ssa.UnOp:
				if viaPtr = fx.ownerCell(c); viaPtr == nil {
					return v
				}
				cell = c
			default:
				return v
			}
			var last ssa.Value
			for _, in := range ap.Instrs() {
				if in == ssa.Instruction(x) {
					break
				}
				if st, ok := in.(*ssa.Store); ok && (st.Addr == cell || viaPtr != nil && fx.ownerCell(st.Addr) == viaPtr) {
					last = st.Val
				}
				if _, isFV := cell.(*ssa.FreeVar); isFV || viaPtr != nil {
					// a call made after the store may re-assign a captured variable (another closure sharing it)
					if _, isCall := in.(*ssa.Call); isCall && last != nil && !isErrorType(x.Type()) {
						last = nil
					}
				}
			}
			if last == nil {
				return v
			}
			v = last
		default:
			return v
		}
	}
	return v
}

// errIsNilOnPath: the error value o is nil on this path (constant nil, or tested nil on the path).
// errIsNonNilOnPath: certainly non-nil.
func (fx *Facts) errNilness(ap *APath, o ssa.Value) (isNil, isNonNil bool) {
	if o == nil {
		return false, false
	}
	o = fx.throughIdentity(o) // `return report(err)` with report handing its argument back
	if isNilConst(o) {
		return true, false
	}
	if isFreshError(o) {
		return false, true
	}
	same := func(x ssa.Value) bool {
		if x == o {
			return true
		}
		for _, a := range fx.aliasesOf(x) {
			if a == o {
				return true
			}
		}
		for _, a := range fx.aliasesOf(o) {
			if a == x {
				return true
			}
		}
		return false
	}
	for _, cp := range ap.Conds {
		if x, tnn, ok := nilTest(cp.Cond); ok && same(x) {
			if cp.Pol == tnn {
				return false, true
			}
			return true, false
		}
	}
	return false, false
}

func checkC06(cx *Ctx, r *Report) {
	w, fx := cx.W, cx.Fx
	cx.checkProviderFromStorage(r, kSSO)
	cx.checkStorageIsTheApplications(r)
	// request data must not be shared between requests through recycled buffers (R-POOL, see C15)
	cx.checkPoolEscape(r)
	r.Clauses = []string{
		"every validity condition is a guard on the way to the persist step: non-empty SAMLRequest; SigAlg implies Signature; decode (base64, encoding in {\"\", DEFLATE}, XML) errors reject; service provider lookup by Issuer; ID, Version, Issuer non-empty, Issuer equal to the provider's entity ID; Destination empty or one of the advertised SSO locations of this request's metadata; Conditions window",
		"the time window guard equals the documented orderings: NotBefore rejects iff t > now, NotOnOrAfter rejects iff t <= now, unparseable bounds reject",
		"decoding is strict: no decoder option that accepts malformed XML is set anywhere in the module",
	}
	r.NotDec = []string{"that time.Parse with the layout accepts exactly the supported lexical forms", "XML well-formedness as judged by encoding/xml"}
	r.Assume = []string{"chain semantics (C20, re-checked)", "getter closures passed to the checker are pure"}
	cx.checkDecodesWholeMessage(r, "R-STRICT", "xml.DecodeAuthNRequest")
	cx.errDisciplineOfHandler(r, kSSO)
	if !cx.requireC20(r) {
		return
	}
	k := cx.ssoChain(r)
	if k == nil {
		return
	}
	ch := k.ch
	cx.checkNoPassWithoutProvider(r, ch, "sso")
	// --- steps in front of persist ---------------------------------------------------
	var reqNonEmpty, sigAlgSig *Step
	for _, s := range ch.Steps {
		vfn := s.Fn("value")
		if vfn == nil {
			continue
		}
		p, ok := fx.getterResult(vfn)
		if !ok {
			continue
		}
		if s.Kind == "WithValueNotEmptyCheck" && strings.HasSuffix(fx.T(p), "<provider.AuthRequestForm>.AuthRequest") {
			reqNonEmpty = s
		}
		if s.Kind == "WithConditionalValueNotEmpty" && strings.HasSuffix(fx.T(p), "<provider.AuthRequestForm>.Sig") {
			if cf := s.Fn("cond"); cf != nil {
				tp, fp, ok := fx.boolPaths(cf, 64)
				good := ok && len(tp) == 1 && len(fp) == 1 && len(tp[0].Atoms) == 1 && tp[0].Atoms[0].Op == "EMPTY" && tp[0].Atoms[0].Neg && strings.HasSuffix(tp[0].Atoms[0].TA, "<provider.AuthRequestForm>.SigAlg")
				if good {
					sigAlgSig = s
				}
			}
		}
	}
	need := func(name string, s *Step, before *Step, what string) {
		switch {
		case s == nil:
			r.Fail("R-ORDER", "sso:"+name, w.FnPos(ch.Fn), "no step "+what+": a request violating it reaches the persist step")
		case before != nil && s.Idx >= before.Idx:
			r.Fail("R-ORDER", "sso:"+name, s.Pos, "the step "+what+" is registered after the step it has to protect")
		default:
			r.Ok("R-ORDER", "sso:"+name, s.Pos, what)
		}
	}
	need("req-nonempty", reqNonEmpty, k.persist, "rejecting an empty SAMLRequest")
	need("sigalg=>sig", sigAlgSig, k.persist, "rejecting a SigAlg without Signature")
	need("form<decode", k.form, k.decode, "parsing the form")
	need("decode<sp", k.decode, k.sp, "decoding the request")
	need("sp<content", k.sp, k.content, "looking up the service provider by Issuer")
	need("content<persist", k.content, k.persist, "checking the required content")
	need("decode<persist", k.decode, k.persist, "decoding the request")

	// each of these steps is a logic step whose error is propagated (R-ERR inside the closures)
	for _, st := range []*Step{k.form, k.decode, k.sp} {
		if st == nil {
			continue
		}
		lf := st.Fn("logic")
		if lf == nil {
			r.Undecided("R-ERR", "sso:"+stepName(cx, st), st.Pos, "logic closure not resolved")
			continue
		}
		cx.checkErrPropagation(r, "R-ERR", "sso:"+stepName(cx, st), lf)
	}
	// SP lookup key is the decoded Issuer text
	vf := cx.vflow(kSSO)
	ls, sites := vf.CallArgSources(matchStorage("GetEntityByID"), 1)
	if len(sites) == 0 {
		r.Fail("R-VFG", "sso:GetEntityByID:entityID", "", "no service provider lookup in the SSO handler")
	} else {
		r.checkSources("R-VFG", "sso:GetEntityByID:entityID", w.InstrPos(sites[0]), ls, []string{"decoded:samlp.AuthnRequestType.Issuer.Text"}, []string{"decoded:samlp.AuthnRequestType.Issuer.Text"}, true)
	}

	// the encoding handed to the decoder is what the client sent (or the redirect-binding default): it is never blanked
	if ls, sites := vf.FieldStoreSources("provider.AuthRequestForm", "Encoding"); len(sites) > 0 {
		fvEnc := `ext:(*http.Request).FormValue("SAMLEncoding")#0`
		r.checkSources("R-VFG", "sso:AuthRequestForm.Encoding", w.InstrPos(sites[0]), ls, []string{fvEnc, cDeflate}, []string{fvEnc}, true)
	} else {
		r.Fail("R-VFG", "sso:AuthRequestForm.Encoding", "", "the SAMLEncoding parameter is not read")
	}
	cx.checkTags(r, "R-TAG", "samlp.AuthnRequestType", "saml.NameIDType", "saml.ConditionsType")
	// --- InflateAndDecode ---------------------------------------------------------------
	cx.checkInflateCases(r, "R-GUARD")
	for _, dk := range []string{"xml.DecodeAuthNRequest", "xml.DecodeLogoutRequest"} {
		if f := w.Func(dk); f != nil {
			cx.checkErrPropagation(r, "R-ERR", dk, f)
		} else {
			r.Fail("R-ERR", dk, "", "anchor function not found")
		}
	}
	// strict decoding: nobody configures a lenient xml.Decoder
	nLenient := 0
	for _, fn := range w.Funcs {
		for _, st := range fx.info(fn).stores {
			if fa, ok := st.Addr.(*ssa.FieldAddr); ok && fieldOwner(fa.X.Type()) == "xml.Decoder" {
				n := namedOf(fa.X.Type())
				if n != nil && n.Obj().Pkg() != nil && n.Obj().Pkg().Path() == "encoding/xml" {
					nLenient++
					r.Fail("R-WHO", "xml.Decoder."+fname(fieldVar(fa.X.Type(), fa.Field))+"@"+w.FuncKey(fn), w.InstrPos(st), "an encoding/xml decoder option is changed: requests that are not well-formed XML may be accepted")
				}
			}
		}
	}
	if nLenient == 0 {
		r.Ok("R-WHO", "xml.Decoder options", "", "no store to a field of encoding/xml.Decoder in the module")
	}

	// --- required content -----------------------------------------------------------------
	cx.checkRequiredContent(r, k, vf)
	// --- destination ---------------------------------------------------------------------
	cx.checkDestination(r, "provider.verifyRequestDestinationOfAuthRequest", "SingleSignOnService")
	cx.checkDestinationContent(r, kSSO, "sso", "provider.verifyRequestDestinationOfAuthRequest")
	lsm, msites := vf.CallArgSources(matchFnKey(w, "provider.verifyRequestDestinationOfAuthRequest"), 0)
	if len(msites) > 0 {
		r.checkSources("R-VFG", "sso:destination:metadata", w.InstrPos(msites[0]), lsm, []string{"alloc:{md.IDPSSODescriptorType}*"}, []string{"alloc:{md.IDPSSODescriptorType}*"}, false)
		// built for this request's context: GetMetadata's ctx argument is r.Context()
		lc, cs := vf.CallArgSources(matchFnKey(w, "provider.(*IdentityProvider).GetMetadata"), 1)
		if len(cs) > 0 {
			r.checkSources("R-VFG", "sso:destination:context", w.InstrPos(cs[0]), lc, []string{"ext:(*http.Request).Context#0"}, []string{"ext:(*http.Request).Context#0"}, true)
		}
	} else {
		r.Fail("R-VFG", "sso:destination:metadata", "", "verifyRequestDestinationOfAuthRequest is not called from the SSO chain")
	}
	// --- time window ------------------------------------------------------------------------
	cx.checkTimeWindow(r, "R-GUARD")
	r.Min("R-GUARD", 6)
}

// nilTestedCall: for a NIL atom whose subject is a call result, the call.
func nilTestedCall(cond ssa.Value) (*ssa.Call, bool) {
	x, _, ok := nilTest(cond)
	if !ok {
		return nil, false
	}
	switch y := x.(type) {
	case *ssa.Call:
		return y, true
	case *ssa.Extract:
		if c, isC := y.Tuple.(*ssa.Call); isC {
			return c, true
		}
	}
	return nil, false
}

// isTimeCheckCall: c calls the closure made by checkIfRequestTimeIsStillValid(lower, upper, ...) where the
// two getters return the access paths with the given suffixes.
func (cx *Ctx) isTimeCheckCall(c *ssa.Call, lowerSuffix, upperSuffix string) bool {
	fac, ok := c.Call.Value.(*ssa.Call)
	if !ok {
		return false
	}
	f := calleeOf(fac)
	if f == nil || cx.W.FuncKey(f) != "provider.checkIfRequestTimeIsStillValid" || len(fac.Call.Args) < 2 {
		return false
	}
	return cx.getterSuffix(fac.Call.Args[0], lowerSuffix) && cx.getterSuffix(fac.Call.Args[1], upperSuffix)
}

func (cx *Ctx) getterSuffix(v ssa.Value, suffix string) bool {
	tg, ok := cx.Fx.funcTargets(v)
	if !ok || len(tg) != 1 {
		return false
	}
	p, ok := cx.Fx.getterResult(tg[0])
	return ok && strings.HasSuffix(cx.Fx.T(p), suffix)
}

// checkErrPropagation (R-ERR, local form): in fn (which returns an error as its last result), every
// call to a module function / interface method / closure whose last result is an error has that error
// tested (or returned directly), and every path through the non-nil branch returns a non-nil error.
func (cx *Ctx) checkErrPropagation(r *Report, rule, key string, fn *ssa.Function) {
	w, fx := cx.W, cx.Fx
	res := fn.Signature.Results()
	if res.Len() == 0 || !isErrorType(res.At(res.Len()-1).Type()) {
		r.Undecided(rule, key, w.FnPos(fn), "function does not return an error")
		return
	}
	aps, ok := fx.atomPaths(fn, 8192)
	if !ok {
		r.Undecided(rule, key, w.FnPos(fn), "too many paths")
		return
	}
	cx.checkDeferredErrOverwrite(r, rule, key, fn)
	n := 0
	for _, c := range callsIn(fn) {
		call, isCall := c.(*ssa.Call)
		if !isCall {
			continue
		}
		e, has, discarded := errResult(call)
		if !has {
			continue
		}
		if !cx.errDisciplined(call) {
			continue
		}
		n++
		ckey := key + ":" + shortCallee(calleeName(call))
		if discarded || e == nil {
			r.Fail(rule, ckey, w.InstrPos(call), "the error result of "+calleeName(call)+" is discarded")
			continue
		}
		nonNil, tested := fx.errBranches(e)
		if fx.isReturned(e) && !tested {
			// handed on untested (`return f()`, `x, err := f(); return x, err`): the caller gets the verdict
			r.Ok(rule, ckey, w.InstrPos(call), "error returned to the caller")
			continue
		}
		// tested (whether or not it is also returned somewhere): what matters is where the failing branch leads
		if !tested {
			r.Fail(rule, ckey, w.InstrPos(call), "the error result of "+calleeName(call)+" is neither tested nor returned")
			continue
		}
		bad := ""
		for i := range aps {
			p := &aps[i]
			// the path took the non-nil edge of a test of this very error (a block that several edges enter, or a
			// variable that merges several errors, is not enough)
			if p.Ret == nil || !fx.tookFailingEdge(&p.Path, e) {
				continue
			}
			_, isNonNil := fx.errNilness(p, fx.retVal(p, res.Len()-1))
			if !isNonNil {
				// accept returning the tested error itself
				rv := fx.retVal(p, res.Len()-1)
				okAlias := false
				for _, a := range fx.aliasesOf(e) {
					if a == rv {
						okAlias = true
					}
				}
				if !okAlias {
					bad = "after " + calleeName(call) + " failed, a path returns without a (certainly) non-nil error at " + w.InstrPos(p.Ret)
				}
			}
		}
		// ... and no path that made the call returns "no error" without having found the call's error nil (the test
		// sits on some other branch: `if sp == nil { if err == nil {...}; return err }; return nil`)
		if bad == "" {
			for i := range aps {
				p := &aps[i]
				if !p.Has(call.Block()) || p.Ret == nil {
					continue
				}
				// the call comes before the return on this path
				rv := fx.retVal(p, res.Len()-1)
				if !isNilConst(rv) {
					continue
				}
				foundNil, _ := fx.errNilness(p, e)
				if sawNonNil, sawNil := fx.errOutcomesOnPath(&p.Path, e); sawNonNil && sawNil {
					continue // the same error found non-nil and nil: not a path
				} else if sawNil && !sawNonNil {
					foundNil = true
				}
				if !foundNil {
					// an alias tested nil
					for _, a := range fx.aliasesOf(e) {
						if n, _ := fx.errNilness(p, a); n {
							foundNil = true
						}
					}
				}
				if !foundNil {
					bad = "a path returns nil at " + w.InstrPos(p.Ret) + " although the error of " + calleeName(call) + " was not found nil on it: the failure is swallowed"
					break
				}
			}
		}
		// nothing that counts as success may be reachable from the failing branch - also not through a back edge
		// (a retry loop that calls the storage again after it failed)
		if bad == "" {
			bad = cx.successAfterFailure(nonNil, call)
		}
		r.Check(bad == "", rule, ckey, w.InstrPos(call), "error tested; the failing branch returns a non-nil error and reaches no success effect", bad)
	}
	if n == 0 {
		r.Ok(rule, key, w.FnPos(fn), "no fallible module/storage call")
	}
}

// successAfterFailure: from the blocks entered when the error of call was found non-nil, a success effect (persist,
// user-info lookup, Success constructor, signing, redirect) is reachable in the control-flow graph, back edges included.
func (cx *Ctx) successAfterFailure(nonNil []*ssa.BasicBlock, call *ssa.Call) string {
	seen := map[*ssa.BasicBlock]bool{}
	for _, nb := range nonNil {
		for _, b := range blocksFrom(nb) {
			if seen[b] {
				continue
			}
			seen[b] = true
			if b == call.Block() {
				return fmt.Sprintf("after %s failed the function can come round to the same call again at %s (a retry: the failure does not end the request, a later attempt that succeeds makes it count for nothing)", shortCallee(calleeName(call)), cx.W.InstrPos(call))
			}
			for _, in := range b.Instrs {
				c2, ok := in.(ssa.CallInstruction)
				if !ok {
					continue
				}
				if se := cx.successEffect(c2); se != "" {
					return fmt.Sprintf("after %s failed the function can still reach %s at %s (the failure does not end the request: retry / continue)", shortCallee(calleeName(call)), se, cx.W.InstrPos(c2))
				}
			}
		}
	}
	return ""
}

// errDisciplined: calls whose error must be handled: module functions, closures, interface methods of the
// module's storage/model interfaces, and the standard decoders.
func (cx *Ctx) errDisciplined(c *ssa.Call) bool {
	if storageMethod(c) != "" {
		return true
	}
	if cx.errAll {
		// strict mode (signing code): every call that reports an error counts, library and interface calls included
		if _, has, _ := errResult(c); has {
			return true
		}
	}
	if f := calleeOf(c); f != nil {
		if f.Pkg != nil && isModulePath(f.Pkg.Pkg.Path()) {
			return true
		}
		switch fnFullName(f) {
		case "encoding/xml.Unmarshal", "(*encoding/xml.Decoder).Decode", "(*encoding/base64.Encoding).DecodeString", "io.ReadAll", "io/ioutil.ReadAll", "(*net/http.Request).ParseForm", "time.Parse", "net/url.Parse":
			return true
		}
		return false
	}
	if c.Call.IsInvoke() {
		return false
	}
	if _, isB := c.Call.Value.(*ssa.Builtin); isB {
		return false
	}
	return true // closure / function value
}

// checkInflateCases: InflateAndDecode returns data only for the encodings "" and DEFLATE; every other value is an error.
func (cx *Ctx) checkInflateCases(r *Report, rule string) {
	w, fx := cx.W, cx.Fx
	fn := w.Func("xml.InflateAndDecode")
	if fn == nil {
		r.Fail(rule, "xml.InflateAndDecode", "", "anchor function not found")
		return
	}
	encParam := fn.Params[0].Name()
	// follow a plain delegation: InflateAndDecode(...) { return inflateWithX(..., encoding, ...) }
	for hops := 0; hops < 3; hops++ {
		rets := returnsOf(fn)
		var del *ssa.Call
		okDel := len(rets) > 0
		for _, ret := range rets {
			if len(ret.Results) != 2 {
				okDel = false
				break
			}
			e0, ok0 := ret.Results[0].(*ssa.Extract)
			e1, ok1 := ret.Results[1].(*ssa.Extract)
			if !ok0 || !ok1 || e0.Tuple != e1.Tuple {
				okDel = false
				break
			}
			c, isC := e0.Tuple.(*ssa.Call)
			if !isC || calleeOf(c) == nil || calleeOf(c).Blocks == nil || del != nil && del != c {
				okDel = false
				break
			}
			del = c
		}
		if !okDel || del == nil {
			break
		}
		idx := -1
		for i, a := range del.Call.Args {
			if p, isP := a.(*ssa.Parameter); isP && p.Name() == encParam {
				idx = i
			}
		}
		if idx < 0 {
			break
		}
		fn = calleeOf(del)
		encParam = fn.Params[idx].Name()
	}
	// the encodings kept in a package-level table: `decode, ok := contentDecoders[encoding]`
	if tbl := cx.encodingTable(fn, encParam); tbl != nil {
		bad := ""
		for k, targets := range tbl.entries {
			switch k {
			case "":
			case cDeflateValue:
				for _, t := range targets {
					if !cx.createsDecompressor(t, 0) {
						bad = "the decoder registered for DEFLATE (" + w.FuncKey(t) + ") does not inflate"
					}
				}
			default:
				bad = fmt.Sprintf("the table of encodings has an entry for %q, which is neither empty nor DEFLATE", k)
			}
		}
		if _, has := tbl.entries[cDeflateValue]; !has && bad == "" {
			bad = "the table of encodings has no entry for DEFLATE"
		}
		if !tbl.missIsError && bad == "" {
			bad = "an identifier that is not in the table is not refused"
		}
		r.Check(bad == "", rule, "xml.InflateAndDecode:cases", w.FnPos(fn), fmt.Sprintf("table of %d encodings (\"\" and DEFLATE); an identifier outside it is an error", len(tbl.entries)), bad)
		cx.checkErrPropagation(r, "R-ERR", "xml.InflateAndDecode", fn)
		return
	}
	aps, ok := fx.atomPaths(fn, 4096)
	if !ok {
		r.Undecided(rule, "xml.InflateAndDecode", w.FnPos(fn), "too many paths")
		return
	}
	bad := ""
	nOK := 0
	for i := range aps {
		p := &aps[i]
		_, nonNil := fx.errNilness(p, fx.retVal(p, 1))
		if nonNil {
			continue
		}
		// data may be returned: the encoding must have matched one of the two cases
		matched, deflate := false, false
		for _, a := range p.Atoms {
			if a.Neg {
				continue
			}
			if a.Op == "EMPTY" && strings.HasSuffix(a.A, "/"+encParam) {
				matched = true
			}
			if a.Op == "EQ" && (a.A == cDeflate || a.B == cDeflate) && (strings.HasSuffix(a.A, "/"+encParam) || strings.HasSuffix(a.B, "/"+encParam)) {
				matched, deflate = true, true
			}
		}
		if !matched {
			bad = "data can be returned for an encoding identifier that is neither empty nor DEFLATE (silent pass-through): " + atomsString(p.Atoms)
			break
		}
		// under DEFLATE what is returned is what the inflater produced: the path creates the decompressor and does
		// not return the bytes it was created on (a compressed stream may start with any octet, so "looks like
		// XML already" is not a reason to skip it; DeflateAndBase64 followed by this function is the identity)
		if deflate {
			var inputs []ssa.Value
			for _, in := range p.Instrs() {
				if c, isC := in.(*ssa.Call); isC {
					if decompressorCtors[calleeName(c)] && len(c.Call.Args) > 0 {
						inputs = append(inputs, c.Call.Args[0])
					} else if cal := calleeOf(c); cal != nil && cx.createsDecompressor(cal, 0) {
						// the inflating part moved into a helper: what it is given is the compressed input
						inputs = append(inputs, c.Call.Args...)
					}
				}
			}
			ret := fx.throughIdentity(fx.retVal(p, 0))
			if len(inputs) == 0 {
				bad = "under the DEFLATE identifier data is returned on a path that does not inflate it: " + atomsString(p.Atoms)
				break
			}
			for _, in := range inputs {
				for _, src := range readerSources(in) {
					if fx.throughIdentity(src) == ret {
						bad = "under the DEFLATE identifier the compressed bytes themselves are returned"
					}
				}
			}
			if bad != "" {
				break
			}
		}
		nOK++
	}
	r.Check(bad == "" && nOK > 0, rule, "xml.InflateAndDecode:cases", w.FnPos(fn), fmt.Sprintf("%d data-returning paths, all under encoding == \"\" or == DEFLATE; every other identifier is an error", nOK), bad)
	cx.checkErrPropagation(r, "R-ERR", "xml.InflateAndDecode", fn)
}

// checkDestination: nil is returned only when Destination is empty or equals the Location of an element of
// metadata.<listField>.
func (cx *Ctx) checkDestination(r *Report, fnKey, listField string) {
	w, fx := cx.W, cx.Fx
	fn := w.Func(fnKey)
	if fn == nil {
		r.Fail("R-GUARD", fnKey, "", "anchor function not found")
		return
	}
	aps, ok := fx.atomPaths(fn, 4096)
	if !ok {
		r.Undecided("R-GUARD", fnKey, w.FnPos(fn), "too many paths")
		return
	}
	lvf := cx.newVFlow(fnKey, fn)
	bad := ""
	n := 0
	isDestT := func(t string) bool { return strings.HasPrefix(t, "<samlp.") && strings.HasSuffix(t, ">.Destination") }
	isLocT := func(t string) bool {
		return strings.HasPrefix(t, "<md.") && strings.Contains(t, "."+listField+"[") && strings.HasSuffix(t, "].Location")
	}
	for i := range aps {
		p := &aps[i]
		rv := fx.retVal(p, 0)
		isNil, nonNil := fx.errNilness(p, rv)
		atoms := p.Atoms
		if tc, isCall := fx.throughIdentity(rv).(*ssa.Call); isCall && !isNil && !nonNil {
			// the verdict of a helper is handed on (`return verifyDestination(request.Destination, list)`): the path
			// accepts when the helper does, under what holds on the helper's accepting paths
			if sa := fx.callSummaryAtoms(tc, true); sa != nil {
				isNil = true
				atoms = append(append([]Atom{}, atoms...), sa...)
			}
		}
		if !isNil {
			continue
		}
		n++
		good := false
		// (inside a helper the element is a copy taken while ranging over the list: the comparison then names the
		// element type, and the loop bound names the list)
		overList := false
		for _, a := range atoms {
			if a.Op == "LT" && !a.Neg && strings.Contains(a.B, "."+listField+")") {
				overList = true
			}
		}
		isElemLocT := func(t string) bool { return overList && t == "<md.EndpointType>.Location" }
		for _, a := range atoms {
			if a.Op == "EQ" && !a.Neg && (isDestT(a.TA) && (isLocT(a.TB) || isElemLocT(a.TB)) || isDestT(a.TB) && (isLocT(a.TA) || isElemLocT(a.TA))) {
				good = true // established inside a helper, in terms of the arguments of its call
			}
			if a.Op == "EMPTY" && !a.Neg && strings.HasPrefix(a.TA, "<samlp.") && strings.HasSuffix(a.TA, ">.Destination") {
				good = true
			}
			if a.Op == "EQ" && !a.Neg {
				b, isB := a.Cond.(*ssa.BinOp)
				if !isB {
					continue
				}
				for _, pair := range [][2]ssa.Value{{b.X, b.Y}, {b.Y, b.X}} {
					if tp := fx.T(fx.path(pair[0])); !strings.HasPrefix(tp, "<samlp.") || !strings.HasSuffix(tp, ">.Destination") {
						continue
					}
					ll := lvf.Labels(pair[1]).leaves()
					if len(ll) == 1 && matchLabel("param:*/#0."+listField+"[].Location", ll[0]) {
						good = true
					}
				}
			}
		}
		if !good {
			bad = "nil is returned although Destination is non-empty and was not found equal to a " + listField + " location (" + atomsString(atoms) + ")"
		}
	}
	r.Check(bad == "" && n > 0, "R-GUARD", fnKey, w.FnPos(fn), fmt.Sprintf("%d accepting paths: Destination empty, or equal to the Location of an element of metadata.%s", n, listField), bad)
}

// checkDestinationAccepts (C07 direction of the destination rule): the function refuses only a request that names a
// Destination and only when no comparison with an advertised location came out equal; a matching Destination is
// accepted by some path. (checkDestination decides the other direction: nothing else is accepted.)
func (cx *Ctx) checkDestinationAccepts(r *Report, fnKey string) {
	w, fx := cx.W, cx.Fx
	fn := w.Func(fnKey)
	if fn == nil {
		r.Fail("R-GUARD", fnKey+":accepts", "", "anchor function not found")
		return
	}
	aps, ok := fx.atomPaths(fn, 4096)
	if !ok {
		r.Undecided("R-GUARD", fnKey+":accepts", w.FnPos(fn), "too many paths")
		return
	}
	isDest := func(t string) bool { return strings.HasPrefix(t, "<samlp.") && strings.HasSuffix(t, ">.Destination") }
	bad := ""
	sawMatch := false
	type vpath struct {
		atoms         []Atom
		isNil, nonNil bool
	}
	var vps []vpath
	for i := range aps {
		p := &aps[i]
		rv := fx.retVal(p, 0)
		isNil, nonNil := fx.errNilness(p, rv)
		if tc, isCall := fx.throughIdentity(rv).(*ssa.Call); isCall && !isNil && !nonNil {
			// the verdict of a helper handed on: one accepting and one refusing continuation
			sa, fa := fx.callSummaryAtoms(tc, true), fx.callSummaryAtoms(tc, false)
			if sa != nil || fa != nil {
				vps = append(vps, vpath{append(append([]Atom{}, p.Atoms...), sa...), true, false})
				vps = append(vps, vpath{append(append([]Atom{}, p.Atoms...), fa...), false, true})
				continue
			}
		}
		vps = append(vps, vpath{p.Atoms, isNil, nonNil})
	}
	for _, vp := range vps {
		p := &APath{Atoms: vp.atoms}
		isNil, nonNil := vp.isNil, vp.nonNil
		named, matched := false, false
		for _, a := range p.Atoms {
			if a.Op == "EMPTY" && a.Neg && isDest(a.TA) {
				named = true
			}
			if a.Op == "EQ" && !a.Neg && (isDest(a.TA) || isDest(a.TB)) {
				matched = true
			}
		}
		if isNil && matched {
			sawMatch = true
			// the match must not hinge on other parts of the request (`endpoint.Binding == request.ProtocolBinding &&
			// endpoint.Location == request.Destination`): a request addressed to the advertised location is then
			// refused for an attribute that has nothing to do with where it was sent
			for _, a := range p.Atoms {
				if a.Op != "EQ" || a.Neg {
					continue
				}
				// only what this function (or the helper it hands the decision to) tests - not what its callers
				// have established before calling it
				own := false
				if in, isIn := a.Cond.(ssa.Instruction); isIn && in.Parent() != nil {
					own = in.Parent() == fn
					for _, c := range callsIn(fn) {
						if g := calleeOf(c); g != nil && g == in.Parent() {
							own = true
						}
					}
				}
				if !own {
					continue
				}
				for _, t := range []string{a.TA, a.TB} {
					if strings.HasPrefix(t, "<samlp.") && !isDest(t) {
						bad = "a request whose Destination equals an advertised location is accepted only if " + a.String() + " holds as well: conformant requests are refused for a reason unrelated to their destination"
					}
				}
			}
		}
		if nonNil || !isNil {
			if !named {
				bad = "a request without Destination can be refused (" + atomsString(p.Atoms) + "): the attribute is optional"
			}
			if matched {
				bad = "a request whose Destination equals an advertised location can still be refused (" + atomsString(p.Atoms) + ")"
			}
		}
	}
	if !sawMatch {
		// a match that only sets a flag and lets the loop run on is accepted on a path that passes the loop
		// header twice; look for a live block that lies under the positive comparison instead
		for _, b := range fn.Blocks {
			eq, dead := false, false
			for _, a := range fx.AtomsAtBlock(b) {
				if a.Op == "EQ" && !a.Neg && (isDest(a.TA) || isDest(a.TB)) {
					eq = true
				}
				if k, isK := stripNot(a.Cond).(*ssa.Const); isK && k.Value != nil && a.Op == "TRUE" {
					if (k.Value.ExactString() == "true") == a.Neg {
						dead = true
					}
				}
			}
			if len(b.Instrs) > 0 {
				if ifi, isIf := b.Instrs[len(b.Instrs)-1].(*ssa.If); isIf {
					if _, isK := ifi.Cond.(*ssa.Const); isK {
						dead = true // only decides on a constant: what lies behind it is judged there
					}
				}
			}
			if eq && !dead {
				sawMatch = true
			}
		}
	}
	if bad == "" && !sawMatch {
		bad = "no path accepts a request because its Destination equals an advertised location: every request that names its destination is refused"
	}
	r.Check(bad == "", "R-GUARD", fnKey+":accepts", w.FnPos(fn), "refuses only a named Destination that matched nothing; a matching Destination is accepted", bad)
}

// checkDestinationContent: in the scope of handler hk, the locations the Destination is compared with are built
// from the endpoint configuration and the issuer in this request's context only (not read back from provider-wide
// state such as a descriptor cache).
func (cx *Ctx) checkDestinationContent(r *Report, hk, short, fnKey string) {
	w, fx := cx.W, cx.Fx
	fn := w.Func(fnKey)
	vf := cx.vflow(hk)
	if fn == nil || vf == nil {
		return
	}
	n := 0
	// the function and the function literals it creates (a predicate handed to slices.ContainsFunc)
	fns := []*ssa.Function{fn}
	for i := 0; i < len(fns); i++ {
		fns = append(fns, fns[i].AnonFuncs...)
	}
	// a helper the function hands the Destination to: the parameter that receives it stands for it
	destParam := map[ssa.Value]bool{}
	for _, c := range callsIn(fn) {
		g := calleeOf(c)
		if g == nil || g.Blocks == nil || g.Pkg != fn.Pkg || g == fn {
			continue
		}
		for ai, a := range c.Common().Args {
			if tp := fx.T(fx.path(a)); strings.HasPrefix(tp, "<samlp.") && strings.HasSuffix(tp, ">.Destination") && ai < len(g.Params) {
				destParam[g.Params[ai]] = true
				fns = append(fns, g)
				// ... also inside the function literals of the helper that capture the parameter
				// (`isDestination := func(e md.EndpointType) bool { return e.Location == destination }`)
				for _, an := range g.AnonFuncs {
					fns = append(fns, an)
					for _, fv := range an.FreeVars {
						bound := false
						switch b := fx.bindings[fv].(type) {
						case *ssa.Parameter:
							bound = b == g.Params[ai]
						case *ssa.Alloc:
							if st := fx.storesToCell(b); len(st) == 1 && st[0] == ssa.Value(g.Params[ai]) {
								bound = true
							}
						}
						if !bound {
							continue
						}
						destParam[fv] = true
						for _, ref := range *fv.Referrers() {
							if ld, isLd := ref.(*ssa.UnOp); isLd && ld.Op == token.MUL {
								destParam[ld] = true
							}
						}
					}
				}
			}
		}
	}
	for _, g := range fns {
		for _, b := range g.Blocks {
			for _, in := range b.Instrs {
				bo, ok := in.(*ssa.BinOp)
				if !ok || bo.Op != token.EQL {
					continue
				}
				for _, pair := range [][2]ssa.Value{{bo.X, bo.Y}, {bo.Y, bo.X}} {
					if tp := fx.T(fx.path(pair[0])); !destParam[pair[0]] && (!strings.HasPrefix(tp, "<samlp.") || !strings.HasSuffix(tp, ">.Destination")) {
						continue
					}
					if _, isK := pair[1].(*ssa.Const); isK {
						continue // `Destination == ""`: the emptiness test, not the comparison with a location
					}
					n++
					ls := vf.Deep(vf.Labels(pair[1]))
					r.checkSources("R-VFG", short+":destination:locations", w.InstrPos(bo), ls,
						[]string{"const:*", "ext:iface:context.Context.Value#0", "param:*/#0.conf.Endpoints.*", "param:*/#0.identityProvider.conf.Endpoints.*"},
						[]string{"ext:iface:context.Context.Value#0"}, false)
				}
			}
		}
	}
	if n == 0 {
		r.Fail("R-VFG", short+":destination:locations", w.FnPos(fn), "the destination check compares with nothing")
	}
}

// checkTimeWindow: the closure of checkIfRequestTimeIsStillValid accepts only if, for each bound that is
// present, parsing succeeded and now is on the right side of it.
func (cx *Ctx) checkTimeWindow(r *Report, rule string) {
	w, fx := cx.W, cx.Fx
	fn := w.Func("provider.checkIfRequestTimeIsStillValid$1")
	if fn == nil {
		r.Fail(rule, "checkIfRequestTimeIsStillValid", "", "anchor closure not found")
		return
	}
	closure := fn
	// the check itself may be a plain function of values the closure calls with the getters' results and the
	// current time (`return checkRequestTime(time.Now().UTC(), notBefore(), notOnOrAfter(), layout)`): its
	// parameters then stand for those values
	paramRole := map[ssa.Value]string{}
	worker, workerCall := timeCheckWorker(fn)
	if worker != nil {
		fn = worker
	}
	aps, ok := fx.atomPaths(fn, 8192)
	if !ok {
		r.Undecided(rule, "checkIfRequestTimeIsStillValid", w.FnPos(fn), "too many paths")
		return
	}
	// the getters by position in the factory's signature (lower bound, upper bound): names do not matter
	roleOfFV := func(fv *ssa.FreeVar) string {
		var p *ssa.Parameter
		switch b := fx.bindings[fv].(type) {
		case *ssa.Parameter:
			p = b
		case *ssa.Alloc:
			if st := fx.storesToCell(b); len(st) == 1 {
				p, _ = st[0].(*ssa.Parameter)
			}
		}
		if p != nil && closure.Parent() != nil {
			for i, q := range closure.Parent().Params {
				if q == p {
					switch i {
					case 0:
						return "notBefore"
					case 1:
						return "notOnOrAfter"
					}
				}
			}
		}
		return fv.Name()
	}
	var fvOf func(v ssa.Value) string
	fvOf = func(v ssa.Value) string { // role of the getter free variable a call invokes
		if role, isP := paramRole[v]; isP && role != "now" {
			return role
		}
		c, ok := v.(*ssa.Call)
		if !ok {
			// a local that holds the getter's result: `nb := notBefore()`
			if ld, isLd := v.(*ssa.UnOp); isLd && ld.Op == token.MUL {
				if cell, isCell := ld.X.(*ssa.Alloc); isCell {
					if st := fx.storesToCell(cell); len(st) == 1 {
						return fvOf(st[0])
					}
				}
			}
			return ""
		}
		if ld, ok := c.Call.Value.(*ssa.UnOp); ok && ld.Op == token.MUL {
			if fv, ok := ld.X.(*ssa.FreeVar); ok {
				return roleOfFV(fv)
			}
		}
		if fv, ok := c.Call.Value.(*ssa.FreeVar); ok {
			return roleOfFV(fv)
		}
		return ""
	}
	isNow := func(v ssa.Value) bool {
		for i := 0; i < 4; i++ {
			if paramRole[v] == "now" {
				return true
			}
			c, ok := v.(*ssa.Call)
			if !ok {
				return false
			}
			switch calleeName(c) {
			case "time.Now":
				return true
			case "(time.Time).UTC", "(time.Time).Local", "(time.Time).Round", "(time.Time).Truncate":
				v = c.Call.Args[0]
			default:
				return false
			}
		}
		return false
	}
	if worker != nil {
		for i, a := range workerCall.Call.Args {
			if i >= len(worker.Params) {
				break
			}
			switch {
			case isNow(a):
				paramRole[worker.Params[i]] = "now"
			case fvOf(a) != "":
				paramRole[worker.Params[i]] = fvOf(a)
			}
		}
	}
	parsedOf := func(v ssa.Value) string { // "notBefore" / "notOnOrAfter" if v is time.Parse(layout, <getter>())#0
		e, ok := v.(*ssa.Extract)
		if !ok || e.Index != 0 {
			return ""
		}
		c, ok := e.Tuple.(*ssa.Call)
		if !ok || calleeName(c) != "time.Parse" || len(c.Call.Args) != 2 {
			return ""
		}
		return fvOf(c.Call.Args[1])
	}
	name := func(v ssa.Value) string {
		if isNow(v) {
			return "now"
		}
		return parsedOf(v)
	}
	type rel struct{ op, a, b string } // LT(a,b) / EQ(a,b) with truth value
	bad := ""
	nAcc := 0
	for i := range aps {
		p := &aps[i]
		isNil, _ := fx.errNilness(p, fx.retVal(p, 0))
		if !isNil {
			continue
		}
		nAcc++
		empty := map[string]bool{}
		parsedOK := map[string]bool{}
		truth := map[rel]bool{}
		for _, a := range p.Atoms {
			switch {
			case a.Op == "EMPTY":
				if b, ok := stripNot(a.Cond).(*ssa.BinOp); ok {
					for _, o := range []ssa.Value{b.X, b.Y} {
						if n := fvOf(o); n != "" && !a.Neg {
							empty[n] = true
						}
					}
				}
			case a.Op == "NIL" && !a.Neg:
				if x, _, ok := nilTest(a.Cond); ok {
					if e, isE := x.(*ssa.Extract); isE && e.Index == 1 {
						if c, isC := e.Tuple.(*ssa.Call); isC && calleeName(c) == "time.Parse" && len(c.Call.Args) == 2 {
							parsedOK[fvOf(c.Call.Args[1])] = true
						}
					}
				}
			case strings.HasPrefix(a.Op, "CALL:(time.Time)."):
				c, ok := stripNot(a.Cond).(*ssa.Call)
				if !ok || len(c.Call.Args) != 2 {
					continue
				}
				x, y := name(c.Call.Args[0]), name(c.Call.Args[1])
				if x == "" || y == "" {
					bad = "a time comparison on operands the rule cannot identify: " + a.String()
					continue
				}
				switch strings.TrimPrefix(a.Op, "CALL:(time.Time).") {
				case "After":
					truth[rel{"LT", y, x}] = !a.Neg
				case "Before":
					truth[rel{"LT", x, y}] = !a.Neg
				case "Equal":
					truth[rel{"EQ", x, y}] = !a.Neg
					truth[rel{"EQ", y, x}] = !a.Neg
				}
			}
		}
		get := func(op, a, b string) (val, known bool) { v, k := truth[rel{op, a, b}]; return v, k }
		// lower bound
		if !empty["notBefore"] {
			lt, k := get("LT", "now", "notBefore")
			okLower := parsedOK["notBefore"] && k && !lt
			if !okLower {
				// equivalent spelling: !(t.After(now)) is the only documented one; also accept t <= now via Before/Equal
				bad = "a request is accepted although its lower bound is present and 'parsed and not after now' was not established: " + atomsString(p.Atoms)
			}
		}
		if !empty["notOnOrAfter"] {
			okUpper := false
			if parsedOK["notOnOrAfter"] {
				if lt, k := get("LT", "now", "notOnOrAfter"); k && lt {
					okUpper = true
				}
				eq, k1 := get("EQ", "notOnOrAfter", "now")
				lt, k2 := get("LT", "notOnOrAfter", "now")
				if k1 && k2 && !eq && !lt {
					okUpper = true
				}
			}
			if !okUpper {
				bad = "a request is accepted although its upper bound is present and 'parsed and strictly after now' was not established: " + atomsString(p.Atoms)
			}
		}
	}
	r.Check(bad == "" && nAcc > 0, rule, "checkIfRequestTimeIsStillValid", w.FnPos(fn), fmt.Sprintf("%d accepting paths: each present bound parsed; lower <= now < upper", nAcc), bad)
	// rejecting side: a request inside the window with parseable bounds is not rejected for another reason
	for i := range aps {
		p := &aps[i]
		_, nonNil := fx.errNilness(p, fx.retVal(p, 0))
		if !nonNil {
			isNil, _ := fx.errNilness(p, fx.retVal(p, 0))
			if !isNil {
				r.Undecided(rule, "checkIfRequestTimeIsStillValid:returns", w.InstrPos(p.Ret), "a return value that is neither certainly nil nor certainly an error")
			}
		}
	}
}

func stripNot(v ssa.Value) ssa.Value {
	for {
		u, ok := v.(*ssa.UnOp)
		if !ok || u.Op != token.NOT {
			return v
		}
		v = u.X
	}
}

// readerSources: the byte slices / strings a reader value was made from (bytes.NewBuffer(x), bytes.NewReader(x),
// strings.NewReader(x), bufio.NewReader(r) ...), or the value itself.
func readerSources(v ssa.Value) []ssa.Value {
	out := []ssa.Value{v}
	for i := 0; i < 6; i++ {
		switch x := v.(type) {
		case *ssa.MakeInterface:
			v = x.X
		case *ssa.ChangeInterface:
			v = x.X
		case *ssa.Call:
			switch calleeName(x) {
			case "bytes.NewBuffer", "bytes.NewReader", "strings.NewReader", "bufio.NewReader", "bytes.NewBufferString", "io.LimitReader":
				if len(x.Call.Args) > 0 {
					v = x.Call.Args[0]
					out = append(out, v)
					continue
				}
			}
			return out
		default:
			return out
		}
	}
	return out
}

// createsDecompressor: the module function (or one it calls, three levels deep) creates a decompressing reader.
func (cx *Ctx) createsDecompressor(fn *ssa.Function, depth int) bool {
	if fn == nil || fn.Blocks == nil || fn.Pkg == nil || !isModulePath(fn.Pkg.Pkg.Path()) || depth > 3 {
		return false
	}
	for _, c := range callsIn(fn) {
		if decompressorCtors[calleeName(c)] {
			return true
		}
		if cal := calleeOf(c); cal != nil && cal != fn && cx.createsDecompressor(cal, depth+1) {
			return true
		}
	}
	return false
}

// checkRequiredContent: every accepting path of the content step has established ID, Version and Issuer non-empty,
// Issuer equal to the entity ID of the looked-up provider, the Destination check and the Conditions window.
func (cx *Ctx) checkRequiredContent(r *Report, k *ssoKeys, vf *VFlow) {
	w, fx := cx.W, cx.Fx
	if k.content != nil {
		cl := cx.followDelegation(k.content.Fn("logic"))
		aps, ok := fx.atomPaths(cl, 8192)
		if !ok || cl == nil {
			r.Undecided("R-GUARD", "checkRequestRequiredContent", k.content.Pos, "closure not resolved / too many paths")
		} else {
			type cond struct {
				name string
				ok   func(p *APath) bool
			}
			conds := []cond{
				{"ID non-empty", func(p *APath) bool { return p.has("EMPTY", "<samlp.AuthnRequestType>.Id", true) }},
				{"Version non-empty", func(p *APath) bool { return p.has("EMPTY", "<samlp.AuthnRequestType>.Version", true) }},
				{"Issuer non-empty", func(p *APath) bool { return p.has("EMPTY", "<samlp.AuthnRequestType>.Issuer.Text", true) }},
				{"Issuer equals the service provider's entity ID", func(p *APath) bool {
					for _, a := range p.Atoms {
						if a.Op == "EQ" && !a.Neg && (strings.HasSuffix(a.TA, "<samlp.AuthnRequestType>.Issuer.Text") && strings.HasSuffix(a.B, "ServiceProvider).GetEntityID") || strings.HasSuffix(a.TB, "<samlp.AuthnRequestType>.Issuer.Text") && strings.HasSuffix(a.A, "ServiceProvider).GetEntityID")) {
							return true
						}
					}
					return false
				}},
				{"Destination verified", func(p *APath) bool {
					for _, a := range p.Atoms {
						if a.Op == "NIL" && !a.Neg && strings.HasSuffix(a.A, "provider.verifyRequestDestinationOfAuthRequest") {
							return true
						}
					}
					return false
				}},
				{"Conditions window verified when a bound is present", func(p *APath) bool {
					if p.has("NIL", "<samlp.AuthnRequestType>.Conditions", false) {
						return true
					}
					if p.has("EMPTY", "<samlp.AuthnRequestType>.Conditions.NotOnOrAfter", false) && p.has("EMPTY", "<samlp.AuthnRequestType>.Conditions.NotBefore", false) {
						return true
					}
					for _, a := range p.Atoms {
						if a.Op == "NIL" && !a.Neg {
							if c, isCall := nilTestedCall(a.Cond); isCall && cx.isTimeCheckCall(c, "<samlp.AuthnRequestType>.Conditions.NotBefore", "<samlp.AuthnRequestType>.Conditions.NotOnOrAfter") {
								return true
							}
						}
					}
					return false
				}},
			}
			nAccept := 0
			for i := range aps {
				p := &aps[i]
				rv := fx.retVal(p, 0)
				isNil, nonNil := fx.errNilness(p, rv)
				// a verdict handed through (`return verifyX(...)`) may be nil: the path is an accepting candidate,
				// and the condition that call verifies counts as established
				tail := ""
				if rc, isCall := rv.(*ssa.Call); isCall && !isNil && !nonNil {
					if f := calleeOf(rc); f != nil && w.FuncKey(f) == "provider.verifyRequestDestinationOfAuthRequest" {
						tail = "Destination verified"
					} else if cx.isTimeCheckCall(rc, "<samlp.AuthnRequestType>.Conditions.NotBefore", "<samlp.AuthnRequestType>.Conditions.NotOnOrAfter") {
						tail = "Conditions window verified when a bound is present"
					} else {
						tail = "?"
					}
				}
				if !isNil && tail == "" {
					continue
				}
				nAccept++
				for _, c := range conds {
					if c.name == tail {
						continue
					}
					if !c.ok(p) {
						r.Fail("R-GUARD", "checkRequestRequiredContent:"+c.name, w.InstrPos(p.Ret), "the content check can accept a request without having established: "+c.name+" (path: "+atomsString(p.Atoms)+")")
					}
				}
			}
			for _, c := range conds {
				r.Ok("R-GUARD", "checkRequestRequiredContent:"+c.name, w.FnPos(cl), fmt.Sprintf("established on each of the %d accepting paths", nAccept))
			}
			if nAccept == 0 {
				r.Fail("R-GUARD", "checkRequestRequiredContent", w.FnPos(cl), "no accepting path found")
			}
			// the SP whose entity ID is compared is the looked-up one, the request the decoded one
			for _, c := range callsIn(cl) {
				if f := calleeOf(c); f != nil && w.FuncKey(f) == "serviceprovider.(*ServiceProvider).GetEntityID" {
					l := vf.Labels(c.Common().Args[0])
					r.checkSources("R-VFG", "content:sp", w.InstrPos(c), l, []string{"ext:iface:provider.IDPStorage.GetEntityByID#0"}, []string{"ext:iface:provider.IDPStorage.GetEntityByID#0"}, true)
				}
			}
		}
	}
}

const cDeflateValue = "urn:oasis:names:tc:SAML:2.0:bindings:URL-Encoding:DEFLATE"

type encTable struct {
	entries     map[string][]*ssa.Function
	missIsError bool
}

// encodingTable: fn looks its encoding parameter up in a package-level map of decoder functions with constant string
// keys, filled at initialisation only: the entries, and whether a miss makes fn return a non-nil error.
func (cx *Ctx) encodingTable(fn *ssa.Function, encParam string) *encTable {
	w, fx := cx.W, cx.Fx
	var lk *ssa.Lookup
	for _, b := range fn.Blocks {
		for _, in := range b.Instrs {
			if l, ok := in.(*ssa.Lookup); ok {
				if p, isP := l.Index.(*ssa.Parameter); isP && p.Name() == encParam {
					lk = l
				}
			}
		}
	}
	if lk == nil || !lk.CommaOk {
		return nil
	}
	ld, ok := lk.X.(*ssa.UnOp)
	if !ok {
		return nil
	}
	g, ok := ld.X.(*ssa.Global)
	if !ok || g.Pkg == nil {
		return nil
	}
	// written at initialisation only
	t := &encTable{entries: map[string][]*ssa.Function{}}
	var mm ssa.Value
	for _, f := range w.Funcs {
		for _, st := range fx.info(f).stores {
			if st.Addr == ssa.Value(g) {
				if !isInitFunc(f) {
					return nil
				}
				mm = st.Val
			}
		}
		for _, b := range f.Blocks {
			for _, in := range b.Instrs {
				if mu, isMU := in.(*ssa.MapUpdate); isMU && !isInitFunc(f) {
					if l2, isLd := mu.Map.(*ssa.UnOp); isLd && l2.X == ssa.Value(g) {
						return nil
					}
				}
			}
		}
	}
	if mm == nil {
		return nil
	}
	for _, ref := range nonDebugRefs(mm) {
		mu, isMU := ref.(*ssa.MapUpdate)
		if !isMU || mu.Map != mm {
			continue
		}
		k, isK := constString(mu.Key)
		if !isK {
			return nil
		}
		tg, okT := fx.funcTargets(mu.Value)
		if !okT {
			return nil
		}
		t.entries[k] = tg
	}
	// a miss is an error: on the false edge of the ok result every return carries a certainly non-nil error
	aps, okp := fx.atomPaths(fn, 4096)
	if !okp {
		return nil
	}
	t.missIsError = true
	ri := fn.Signature.Results().Len() - 1
	for i := range aps {
		p := &aps[i]
		miss := false
		for _, cp := range p.Conds {
			if ex, isEx := stripNot(cp.Cond).(*ssa.Extract); isEx && ex.Tuple == ssa.Value(lk) && ex.Index == 1 {
				pol := cp.Pol
				for v := cp.Cond; ; {
					u, isU := v.(*ssa.UnOp)
					if !isU || u.Op != token.NOT {
						break
					}
					v, pol = u.X, !pol
				}
				if !pol {
					miss = true
				}
			}
		}
		if miss {
			if _, nonNil := fx.errNilness(p, fx.retVal(p, ri)); !nonNil {
				t.missIsError = false
			}
		}
	}
	return t
}

// timeCheckWorker: the closure fn only hands on the verdict of one module function of its package, called with values
// it computes on the spot: that function and the call. nil otherwise.
func timeCheckWorker(fn *ssa.Function) (*ssa.Function, *ssa.Call) {
	rets := returnsOf(fn)
	if len(rets) != 1 || len(rets[0].Results) != 1 || len(fn.Blocks) != 1 {
		return nil, nil
	}
	c, ok := rets[0].Results[0].(*ssa.Call)
	if !ok || c.Call.IsInvoke() {
		return nil, nil
	}
	g := calleeOf(c)
	if g == nil || g.Blocks == nil || g.Pkg != fn.Pkg || g.Parent() != nil {
		return nil, nil
	}
	return g, c
}

// checkDeferredErrOverwrite: what a function with deferred calls returns is what its result variables hold when the
// deferred calls are done. A deferred function literal that assigns the named error result decides the verdict after
// every `return` of the body has spoken: `defer func() { if err = ctx.Err(); err != nil { log } }()` turns the storage's
// failure into success. An assignment there is accepted only when it cannot turn a failure into "no error": the value
// stored is certainly an error (made on the spot, or found non-nil before the store), or the result was found nil
// before the store (`if cerr := f.Close(); err == nil { err = cerr }`).
func (cx *Ctx) checkDeferredErrOverwrite(r *Report, rule, key string, fn *ssa.Function) {
	w, fx := cx.W, cx.Fx
	res := fn.Signature.Results()
	last := res.Len() - 1
	var cell *ssa.Alloc
	for _, ret := range returnsOf(fn) {
		if len(ret.Results) != res.Len() {
			continue
		}
		if u, ok := ret.Results[last].(*ssa.UnOp); ok {
			if a, ok := u.X.(*ssa.Alloc); ok {
				cell = a
			}
		}
	}
	if cell == nil {
		return
	}
	for _, b := range fn.Blocks {
		for _, in := range b.Instrs {
			d, ok := in.(*ssa.Defer)
			if !ok {
				continue
			}
			// `defer s.observe(ctx, "call", &err)`: a deferred module function handed the address of the result
			if _, isLit := d.Call.Value.(*ssa.MakeClosure); isLit {
				// (a function literal: handled below through what it captures)
			} else if g := calleeOf(d); g != nil && g.Blocks != nil {
				args := d.Call.Args
				for ai, a := range args {
					if a != ssa.Value(cell) || ai >= len(g.Params) {
						continue
					}
					prm := g.Params[ai]
					for _, gb := range g.Blocks {
						for _, gin := range gb.Instrs {
							st, isSt := gin.(*ssa.Store)
							if !isSt || st.Addr != ssa.Value(prm) {
								continue
							}
							okStore := isFreshError(st.Val)
							if !okStore {
								oldP := []string{deref(fx.path(st.Addr)), strings.TrimPrefix(fx.path(st.Addr), "&"), "*" + fx.path(st.Addr)}
								vp := fx.path(st.Val)
								for _, at := range fx.AtomsAt(st) {
									if at.Op != "NIL" {
										continue
									}
									if at.Neg && vp != "" && at.A == vp {
										okStore = true
									}
									if !at.Neg && (at.A == oldP[0] || at.A == oldP[1] || at.A == oldP[2]) {
										okStore = true
									}
								}
							}
							r.Check(okStore, rule, key+":deferred-overwrite@"+w.InstrPos(st), w.InstrPos(st), "the deferred assignment to the error result cannot turn a failure into success",
								"the deferred call of "+g.Name()+" is handed the address of the error result of "+fn.Name()+" and assigns it without having found it nil and without the value stored being certainly an error: the failure the body returned is replaced after the return, the caller sees success")
						}
					}
				}
				continue
			}
			mc, ok := d.Call.Value.(*ssa.MakeClosure)
			if !ok {
				continue
			}
			lit, _ := mc.Fn.(*ssa.Function)
			if lit == nil || lit.Blocks == nil {
				continue
			}
			var fv *ssa.FreeVar
			for i, bnd := range mc.Bindings {
				if bnd == ssa.Value(cell) && i < len(lit.FreeVars) {
					fv = lit.FreeVars[i]
				}
			}
			if fv == nil {
				continue
			}
			for _, lb := range lit.Blocks {
				for _, lin := range lb.Instrs {
					st, ok := lin.(*ssa.Store)
					if !ok || st.Addr != ssa.Value(fv) {
						continue
					}
					okStore := isFreshError(st.Val)
					if jc, isC := st.Val.(*ssa.Call); isC && !okStore && calleeName(jc) == "errors.Join" {
						// err = errors.Join(err, cerr): what was an error stays one
						okStore = joinedSome(jc, func(v ssa.Value) bool {
							u, isU := v.(*ssa.UnOp)
							return isU && u.Op == token.MUL && u.X == ssa.Value(fv)
						})
					}
					if !okStore {
						oldP := []string{deref(fx.path(st.Addr)), strings.TrimPrefix(fx.path(st.Addr), "&")}
						vp := fx.path(st.Val)
						for _, a := range fx.AtomsAt(st) {
							if a.Op != "NIL" {
								continue
							}
							if a.Neg && vp != "" && a.A == vp {
								okStore = true // the value stored was found to be an error
							}
							if !a.Neg && (a.A == oldP[0] || a.A == oldP[1]) {
								okStore = true // nothing to lose: the result was found nil
							}
						}
					}
					r.Check(okStore, rule, key+":deferred-overwrite@"+w.InstrPos(st), w.InstrPos(st), "the deferred assignment to the error result cannot turn a failure into success",
						"a deferred function assigns the named error result of "+fn.Name()+" without having found it nil and without the value stored being certainly an error: the failure the body returned is replaced after the return, the caller sees success")
				}
			}
		}
	}
}

package main

import (
	"fmt"
	"go/ast"
	"go/token"
	"go/types"
	"os"
	"path/filepath"
	"sort"
	"strings"

	"golang.org/x/tools/go/packages"
	"golang.org/x/tools/go/ssa"
	"golang.org/x/tools/go/ssa/ssautil"
)

const modPath = "github.com/zitadel/saml"

// World is the resolved program: type-checked syntax, SSA and indexes, built
// from the working tree of the repository on every run.
type World struct {
	RepoDir   string
	Fset      *token.FileSet
	Pkgs      []*packages.Package          // module packages, sorted by path
	PkgBy     map[string]*packages.Package // by import path (all, incl. deps)
	Prog      *ssa.Program
	SSAPkg    map[string]*ssa.Package         // module packages by short name ("provider", "xml", ...)
	wrapperOf map[*ssa.Function]*ssa.Function // implementation -> the wrapper whose name and key it takes
	Funcs     []*ssa.Function                 // all module functions incl. anonymous, excl. mock
	funcBy    map[string]*ssa.Function
	alias     map[*ssa.Function]string // renamed helper -> its name in the reference tree
	Renamed   []string
	declOf    map[*ssa.Function]ast.Node
	NFiles    int
	infra     []string // infrastructure problems (type errors, ...)
	fx        *Facts   // set once the facts are built: lets refClosure follow function values kept in variables
	soleImpl  map[*types.Named]types.Type
}

func shortPkg(path string) string {
	if i := strings.LastIndex(path, "/"); i >= 0 {
		return path[i+1:]
	}
	return path
}

func isModulePath(p string) bool {
	return p == modPath || strings.HasPrefix(p, modPath+"/")
}

func isMockPath(p string) bool { return strings.HasSuffix(p, "/mock") }

func loadWorld(repo string) (*World, error) {
	abs, err := filepath.Abs(repo)
	if err != nil {
		return nil, err
	}
	w := &World{RepoDir: abs, PkgBy: map[string]*packages.Package{}, SSAPkg: map[string]*ssa.Package{},
		funcBy: map[string]*ssa.Function{}, declOf: map[*ssa.Function]ast.Node{}}
	cfg := &packages.Config{
		Mode:       packages.LoadAllSyntax,
		Dir:        abs,
		Tests:      false,
		BuildFlags: []string{"-mod=readonly"},
		Env:        append(os.Environ(), "GOWORK=off"),
	}
	pkgs, err := packages.Load(cfg, "./...")
	if err != nil {
		return nil, fmt.Errorf("packages.Load: %w", err)
	}
	if len(pkgs) == 0 {
		return nil, fmt.Errorf("no packages loaded from %s", abs)
	}
	var errs []string
	packages.Visit(pkgs, nil, func(p *packages.Package) {
		w.PkgBy[p.PkgPath] = p
		for _, e := range p.Errors {
			errs = append(errs, e.Error())
		}
	})
	if len(errs) > 0 {
		sort.Strings(errs)
		if len(errs) > 10 {
			errs = errs[:10]
		}
		return nil, fmt.Errorf("the tree does not type-check: %s", strings.Join(errs, "; "))
	}
	w.Fset = pkgs[0].Fset
	for _, p := range pkgs {
		if isModulePath(p.PkgPath) {
			w.Pkgs = append(w.Pkgs, p)
			w.NFiles += len(p.Syntax)
		}
	}
	sort.Slice(w.Pkgs, func(i, j int) bool { return w.Pkgs[i].PkgPath < w.Pkgs[j].PkgPath })
	if len(w.Pkgs) == 0 {
		return nil, fmt.Errorf("no module packages (%s) among %d loaded", modPath, len(pkgs))
	}
	prog, _ := ssautil.AllPackages(pkgs, ssa.InstantiateGenerics)
	prog.Build()
	w.Prog = prog
	for _, p := range w.Pkgs {
		sp := prog.Package(p.Types)
		if sp == nil {
			return nil, fmt.Errorf("no SSA for %s", p.PkgPath)
		}
		if !isMockPath(p.PkgPath) {
			w.SSAPkg[shortPkg(p.PkgPath)] = sp
		}
	}
	for fn := range ssautil.AllFunctions(prog) {
		// an instance of a generic module function is module code: give it the package of its origin so that
		// every "is this a module function" test sees it (go/ssa leaves Pkg nil for instances)
		if fn.Pkg == nil && fn.Origin() != nil && fn.Origin().Pkg != nil && strings.HasPrefix(fn.Synthetic, "instance of") {
			fn.Pkg = fn.Origin().Pkg
		}
	}
	for fn := range ssautil.AllFunctions(prog) {
		// the body of a range-over-func loop is a synthetic yield function: it is source code all the same
		if fn.Pkg == nil || fn.Synthetic != "" && fn.Name() != "init" && !strings.HasPrefix(fn.Synthetic, "range-over-func") && !strings.HasPrefix(fn.Synthetic, "instance of") {
			continue
		}
		pp := fn.Pkg.Pkg.Path()
		if !isModulePath(pp) || isMockPath(pp) {
			continue
		}
		if fn.Blocks == nil {
			continue
		}
		w.Funcs = append(w.Funcs, fn)
		w.funcBy[w.FuncKey(fn)] = fn
	}
	w.resolveWrappers()
	w.resolveRenamedAnchors()
	w.resolveRenamedFields()
	sort.Slice(w.Funcs, func(i, j int) bool { return w.FuncKey(w.Funcs[i]) < w.FuncKey(w.Funcs[j]) })
	return w, nil
}

// fingerprint of a top-level function: package, receiver type and signature (no names).
func (w *World) fingerprint(fn *ssa.Function) string {
	q := func(p *types.Package) string { return shortPkg(p.Path()) }
	recv := ""
	if r := fn.Signature.Recv(); r != nil {
		recv = types.TypeString(r.Type(), q)
	}
	sig := fn.Signature
	var ps, rs []string
	for i := 0; i < sig.Params().Len(); i++ {
		ps = append(ps, types.TypeString(sig.Params().At(i).Type(), q))
	}
	for i := 0; i < sig.Results().Len(); i++ {
		rs = append(rs, types.TypeString(sig.Results().At(i).Type(), q))
	}
	v := ""
	if sig.Variadic() {
		v = "..."
	}
	return fmt.Sprintf("%s|%s|(%s)%s|(%s)", shortPkg(fn.Pkg.Pkg.Path()), recv, strings.Join(ps, ","), v, strings.Join(rs, ","))
}

// resolveRenamedAnchors: the rules name unexported helper functions of the reference tree (anchorSig, generated by
// -dump anchors). Renaming such a helper does not change behaviour, so a name that is gone is re-bound to the one
// new function (a name the reference tree does not have) with the same package, receiver and signature; FuncKey
// then keeps reporting the reference name. Ambiguous or missing matches stay unresolved (the rule reports the
// missing anchor).
func (w *World) resolveRenamedAnchors() {
	if w.alias == nil {
		w.alias = map[*ssa.Function]string{}
	}
	var missing []string
	for k := range anchorSig {
		if w.funcBy[k] == nil {
			missing = append(missing, k)
		}
	}
	if len(missing) == 0 {
		return
	}
	sort.Strings(missing)
	var fresh []*ssa.Function
	for _, fn := range w.Funcs {
		if fn.Parent() != nil || fn.Synthetic != "" {
			continue
		}
		if _, known := anchorSig[w.FuncKey(fn)]; !known && !token.IsExported(fn.Name()) {
			fresh = append(fresh, fn)
		}
	}
	cands := map[string][]*ssa.Function{}
	claims := map[*ssa.Function]int{}
	for _, k := range missing {
		for _, fn := range fresh {
			if w.fingerprint(fn) == anchorSig[k] {
				cands[k] = append(cands[k], fn)
				claims[fn]++
			}
		}
	}
	// second chance: a free function that became a method of its first parameter's type (or the reverse) keeps its
	// flattened signature (receiver first); argument and parameter positions in SSA are the same for both forms
	flat := func(fp string) string {
		parts := strings.SplitN(fp, "|", 4)
		if len(parts) != 4 {
			return fp
		}
		ps := strings.TrimSuffix(strings.TrimPrefix(parts[2], "("), ")")
		variadic := ""
		if strings.HasSuffix(parts[2], "...") {
			ps = strings.TrimSuffix(strings.TrimPrefix(strings.TrimSuffix(parts[2], "..."), "("), ")")
			variadic = "..."
		}
		if parts[1] != "" {
			if ps == "" {
				ps = parts[1]
			} else {
				ps = parts[1] + "," + ps
			}
		}
		return parts[0] + "|(" + ps + ")" + variadic + "|" + parts[3]
	}
	for _, k := range missing {
		if len(cands[k]) > 0 {
			continue
		}
		for _, fn := range fresh {
			if claims[fn] == 0 && flat(w.fingerprint(fn)) == flat(anchorSig[k]) && w.fingerprint(fn) != anchorSig[k] {
				cands[k] = append(cands[k], fn)
			}
		}
		for _, fn := range cands[k] {
			claims[fn]++
		}
	}
	for _, k := range missing {
		if len(cands[k]) == 1 && claims[cands[k][0]] == 1 {
			w.alias[cands[k][0]] = k
			full := fnFullName(cands[k][0])
			renamedFull[cands[k][0]] = strings.TrimSuffix(full, cands[k][0].Name()) + k[strings.LastIndex(k, ".")+1:]
			w.Renamed = append(w.Renamed, k+" -> "+cands[k][0].Name())
		}
	}
	if len(w.alias) > 0 {
		w.funcBy = map[string]*ssa.Function{}
		for _, fn := range w.Funcs {
			w.funcBy[w.FuncKey(fn)] = fn
		}
	}
}

// FuncKey is the stable name of a module function: "provider.(*IdentityProvider).ssoHandleFunc",
// "provider.checkCertificate", "provider.checkCertificate$1".
func (w *World) FuncKey(fn *ssa.Function) string {
	if fn == nil {
		return "<nil>"
	}
	if fn.Parent() != nil {
		// anonymous: parentKey$N
		name := fn.Name() // e.g. checkCertificate$1 or ssoHandleFunc$3
		pk := w.FuncKey(fn.Parent())
		// A factory's product is "$1" whatever helper closures the factory defines before it: the rules name
		// "the closure verifyRedirectSignature returns" as verifyRedirectSignature$1.
		if rc := returnedClosure(fn.Parent()); rc != nil {
			if rc == fn {
				return pk + "$1"
			}
			if strings.HasSuffix(name, "$1") {
				return pk + "$helper1"
			}
		}
		if i := strings.LastIndex(name, "$"); i >= 0 {
			return pk + name[i:]
		}
		return pk + "$" + name
	}
	if a, ok := w.alias[fn]; ok {
		return a
	}
	pkg := ""
	if fn.Pkg != nil {
		pkg = shortPkg(fn.Pkg.Pkg.Path())
	} else if fn.Object() != nil && fn.Object().Pkg() != nil {
		pkg = shortPkg(fn.Object().Pkg().Path())
	}
	if recv := fn.Signature.Recv(); recv != nil {
		t := recv.Type()
		star := ""
		if p, ok := t.(*types.Pointer); ok {
			t = p.Elem()
			star = "*"
		}
		tn := t.String()
		if n, ok := t.(*types.Named); ok {
			tn = n.Obj().Name()
		}
		return fmt.Sprintf("%s.(%s%s).%s", pkg, star, tn, fn.Name())
	}
	return pkg + "." + fn.Name()
}

// returnedClosure: p's first result has a function type and every return yields a closure of the same
// anonymous function of p: that function (p is a factory); nil otherwise.
func returnedClosure(p *ssa.Function) *ssa.Function {
	res := p.Signature.Results()
	if res.Len() == 0 {
		return nil
	}
	if _, ok := res.At(0).Type().Underlying().(*types.Signature); !ok {
		return nil
	}
	var out *ssa.Function
	for _, b := range p.Blocks {
		if len(b.Instrs) == 0 {
			continue
		}
		ret, ok := b.Instrs[len(b.Instrs)-1].(*ssa.Return)
		if !ok || len(ret.Results) == 0 {
			continue
		}
		var f *ssa.Function
		switch v := ret.Results[0].(type) {
		case *ssa.MakeClosure:
			f, _ = v.Fn.(*ssa.Function)
		case *ssa.Function:
			f = v
		}
		if f == nil || f.Parent() != p || (out != nil && out != f) {
			return nil
		}
		out = f
	}
	return out
}

// Func resolves a function by key; nil when the anchor no longer exists.
func (w *World) Func(key string) *ssa.Function { return w.funcBy[key] }

func (w *World) Pos(p token.Pos) string {
	if !p.IsValid() {
		return "-"
	}
	pos := w.Fset.Position(p)
	rel, err := filepath.Rel(w.RepoDir, pos.Filename)
	if err != nil || strings.HasPrefix(rel, "..") {
		rel = pos.Filename
		if i := strings.Index(rel, "/pkg/mod/"); i >= 0 {
			rel = rel[i+len("/pkg/mod/"):]
		}
	}
	return fmt.Sprintf("%s:%d", rel, pos.Line)
}

func (w *World) FnPos(fn *ssa.Function) string {
	if fn == nil {
		return "-"
	}
	return w.Pos(fn.Pos())
}

func (w *World) InstrPos(i ssa.Instruction) string {
	p := i.Pos()
	if !p.IsValid() {
		if v, ok := i.(ssa.Value); ok {
			_ = v
		}
		// fall back to the closest positioned instruction in the block
		b := i.Block()
		if b != nil {
			for _, j := range b.Instrs {
				if j.Pos().IsValid() {
					p = j.Pos()
					if j == i {
						break
					}
				}
			}
		}
		if !p.IsValid() && i.Parent() != nil {
			p = i.Parent().Pos()
		}
	}
	return w.Pos(p)
}

// calleeOf returns the statically known callee of a call (function, method or
// closure literal), or nil for interface / dynamic calls.
func calleeOf(c ssa.CallInstruction) *ssa.Function {
	com := c.Common()
	if com.IsInvoke() {
		return nil
	}
	switch v := com.Value.(type) {
	case *ssa.Function:
		if g := wrapperImpl[v]; g != nil {
			return g // a call of a wrapper is a call of its implementation (resolveWrappers)
		}
		return v
	case *ssa.MakeClosure:
		if f, ok := v.Fn.(*ssa.Function); ok {
			return f
		}
	}
	return nil
}

// fnName is fn.Name() with a wrapped implementation carrying the name of its wrapper.
func fnName(fn *ssa.Function) string {
	if fn == nil {
		return ""
	}
	root := fn
	for root.Parent() != nil {
		root = root.Parent()
	}
	if x := implWrapper[root]; x != nil {
		return x.Name() + strings.TrimPrefix(fn.Name(), root.Name())
	}
	return fn.Name()
}

var implWrapper = map[*ssa.Function]*ssa.Function{}

// canon: the function a reference to fn stands for (a wrapper stands for its implementation).
func canon(fn *ssa.Function) *ssa.Function {
	if g := wrapperImpl[fn]; g != nil {
		return g
	}
	return fn
}

// wrapperImpl: wrapper -> implementation (see resolveWrappers). Package level because calleeOf has no World.
var wrapperImpl = map[*ssa.Function]*ssa.Function{}

// calleeName renders any call target: "net/http.Error", "(*net/http.Request).FormValue",
// "iface:provider.AuthStorage.CreateAuthRequest", "dyn".
func calleeName(c ssa.CallInstruction) string {
	com := c.Common()
	if com.IsInvoke() {
		recv := com.Value.Type()
		tn := recv.String()
		if n, ok := recv.(*types.Named); ok {
			if n.Obj().Pkg() != nil {
				tn = shortPkg(n.Obj().Pkg().Path()) + "." + n.Obj().Name()
			} else {
				tn = n.Obj().Name()
			}
		}
		return "iface:" + tn + "." + com.Method.Name()
	}
	if f := calleeOf(c); f != nil {
		return fnFullName(f)
	}
	if b, ok := com.Value.(*ssa.Builtin); ok {
		return "builtin:" + b.Name()
	}
	return "dyn"
}

// fieldAlias: renamed unexported struct field -> the name it had in the reference tree (see resolveRenamedFields).
var fieldAlias = map[*types.Var]string{}

// fname: the name rules know a struct field by.
func fname(v *types.Var) string {
	if a, ok := fieldAlias[v]; ok {
		return a
	}
	return v.Name()
}

// resolveRenamedFields: the rules name unexported fields of the module's own structs (fieldSig, generated by
// -dump anchors). Renaming such a field changes no behaviour: a name that is gone is re-bound to the one new
// unexported field of the same struct that has the same type (if several, the one at the same position).
func (w *World) resolveRenamedFields() {
	for owner, fields := range fieldSig {
		i := strings.LastIndex(owner, ".")
		st := w.structOf(owner)
		if st == nil || i < 0 {
			continue
		}
		have := map[string]bool{}
		for k := 0; k < st.NumFields(); k++ {
			have[st.Field(k).Name()] = true
		}
		known := map[string]bool{}
		for _, f := range fields {
			known[f[0]] = true
		}
		q := func(p *types.Package) string { return shortPkg(p.Path()) }
		for idx, f := range fields {
			if have[f[0]] {
				continue
			}
			var cands []*types.Var
			for k := 0; k < st.NumFields(); k++ {
				v := st.Field(k)
				if !known[v.Name()] && !v.Exported() && types.TypeString(v.Type(), q) == f[1] {
					cands = append(cands, v)
				}
			}
			if len(cands) > 1 && idx < st.NumFields() {
				for _, c := range cands {
					if st.Field(idx) == c {
						cands = []*types.Var{c}
					}
				}
			}
			if len(cands) == 1 {
				fieldAlias[cands[0]] = f[0]
				w.Renamed = append(w.Renamed, owner+"."+f[0]+" -> "+cands[0].Name())
			}
		}
	}
}

// renamedFull: renamed helper -> the full name it had in the reference tree (see resolveRenamedAnchors).
var renamedFull = map[*ssa.Function]string{}

func fnFullName(f *ssa.Function) string {
	if n, ok := renamedFull[f]; ok {
		return n
	}
	if x := implWrapper[f]; x != nil {
		f = x // an implementation is known under its wrapper's name
	}
	if f.Object() != nil {
		if fo, ok := f.Object().(*types.Func); ok {
			return fo.FullName()
		}
	}
	return f.String()
}

// ifaceMethod returns the method name if c is an interface call, else "".
func ifaceMethod(c ssa.CallInstruction) string {
	if c.Common().IsInvoke() {
		return c.Common().Method.Name()
	}
	return ""
}

// namedOf unwraps pointers and returns the named type, or nil.
func namedOf(t types.Type) *types.Named {
	for {
		switch x := t.(type) {
		case *types.Pointer:
			t = x.Elem()
		case *types.Named:
			return x
		case *types.Alias:
			t = types.Unalias(x)
		default:
			return nil
		}
	}
}

func typeKey(t types.Type) string {
	n := namedOf(t)
	if n == nil || n.Obj().Pkg() == nil {
		return t.String()
	}
	return shortPkg(n.Obj().Pkg().Path()) + "." + n.Obj().Name()
}

// isXMLModelPkg reports packages under pkg/provider/xml/ that declare wire structs.
func isXMLModelPkg(p *types.Package) bool {
	return p != nil && strings.HasPrefix(p.Path(), modPath+"/pkg/provider/xml/")
}

// resolveWrappers: a function that does nothing but hand its parameters, in order, to one other function of its
// package - which nothing else calls or mentions - is a wrapper around its implementation (`func F(a, b) R { return
// fImpl(a, b) }`, the result of "extract / rename and keep the old name"). The implementation takes the wrapper's
// key and name: rules that name F analyse fImpl, and both count as F wherever functions are matched by key.
func (w *World) resolveWrappers() {
	sites := map[*ssa.Function]int{}
	taken := map[*ssa.Function]bool{}
	for _, fn := range w.Funcs {
		var ops [16]*ssa.Value
		for _, b := range fn.Blocks {
			for _, in := range b.Instrs {
				var callee ssa.Value
				if c, ok := in.(ssa.CallInstruction); ok {
					callee = c.Common().Value
					if g := c.Common().StaticCallee(); g != nil {
						sites[g]++
					}
				}
				for _, op := range in.Operands(ops[:0]) {
					if op == nil || *op == nil || *op == callee {
						continue
					}
					if g, ok := (*op).(*ssa.Function); ok {
						taken[g] = true
					}
				}
			}
		}
	}
	w.wrapperOf = map[*ssa.Function]*ssa.Function{}
	wrapperImpl = map[*ssa.Function]*ssa.Function{}
	implWrapper = map[*ssa.Function]*ssa.Function{}
	if w.alias == nil {
		w.alias = map[*ssa.Function]string{}
	}
	for _, x := range w.Funcs {
		if x.Parent() != nil || x.Name() == "init" {
			continue
		}
		g := plainDelegate(x)
		if g == nil || g.Pkg != x.Pkg || g.Parent() != nil || sites[g] != 1 || taken[g] || g == x {
			continue
		}
		if _, has := w.alias[g]; has {
			continue
		}
		key := w.FuncKey(x)
		w.alias[g] = key
		w.alias[x] = key + "~wrapper"
		w.wrapperOf[g] = x
		wrapperImpl[x] = g
		implWrapper[g] = x
	}
	if len(w.wrapperOf) > 0 {
		// wrappers leave the function list; keys of implementations and of their closures are recomputed
		var keep []*ssa.Function
		w.funcBy = map[string]*ssa.Function{}
		for _, fn := range w.Funcs {
			if wrapperImpl[fn] != nil {
				continue
			}
			keep = append(keep, fn)
			w.funcBy[w.FuncKey(fn)] = fn
		}
		w.Funcs = keep
	}
}

// NameOf: the name rules know a function by - the wrapper's name for an implementation (resolveWrappers), closures
// of the implementation accordingly.
func (w *World) NameOf(fn *ssa.Function) string {
	if fn == nil {
		return ""
	}
	root := fn
	for root.Parent() != nil {
		root = root.Parent()
	}
	if x := w.wrapperOf[root]; x != nil {
		return x.Name() + strings.TrimPrefix(fn.Name(), root.Name())
	}
	return fn.Name()
}

// IsWrapper: fn is the wrapper half of a wrapper / implementation pair.
func (w *World) IsWrapper(fn *ssa.Function) bool {
	for _, x := range w.wrapperOf {
		if x == fn {
			return true
		}
	}
	return false
}

package main

import (
	"fmt"
	"go/ast"
	"go/token"
	"go/types"
	"os"
	"path/filepath"
	"sort"
	"strings"

	"golang.org/x/tools/go/packages"
	"golang.org/x/tools/go/ssa"
	"golang.org/x/tools/go/ssa/ssautil"
)

const modPath = "github.com/zitadel/saml"

// World is the resolved program: type-checked syntax, SSA and indexes, built
// from the working tree of the repository on every run.
type World struct {
	RepoDir string
	Fset    *token.FileSet
	Pkgs    []*packages.Package          // module packages, sorted by path
	PkgBy   map[string]*packages.Package // by import path (all, incl. deps)
	Prog    *ssa.Program
	SSAPkg  map[string]*ssa.Package // module packages by short name ("provider", "xml", ...)
	Funcs   []*ssa.Function         // all module functions incl. anonymous, excl. mock
	funcBy  map[string]*ssa.Function
	declOf  map[*ssa.Function]ast.Node
	NFiles  int
	infra   []string // infrastructure problems (type errors, ...)
	fx      *Facts   // set once the facts are built: lets refClosure follow function values kept in variables
}

func shortPkg(path string) string {
	if i := strings.LastIndex(path, "/"); i >= 0 {
		return path[i+1:]
	}
	return path
}

func isModulePath(p string) bool {
	return p == modPath || strings.HasPrefix(p, modPath+"/")
}

func isMockPath(p string) bool { return strings.HasSuffix(p, "/mock") }

func loadWorld(repo string) (*World, error) {
	abs, err := filepath.Abs(repo)
	if err != nil {
		return nil, err
	}
	w := &World{RepoDir: abs, PkgBy: map[string]*packages.Package{}, SSAPkg: map[string]*ssa.Package{},
		funcBy: map[string]*ssa.Function{}, declOf: map[*ssa.Function]ast.Node{}}
	cfg := &packages.Config{
		Mode:       packages.LoadAllSyntax,
		Dir:        abs,
		Tests:      false,
		BuildFlags: []string{"-mod=readonly"},
		Env:        append(os.Environ(), "GOWORK=off"),
	}
	pkgs, err := packages.Load(cfg, "./...")
	if err != nil {
		return nil, fmt.Errorf("packages.Load: %w", err)
	}
	if len(pkgs) == 0 {
		return nil, fmt.Errorf("no packages loaded from %s", abs)
	}
	var errs []string
	packages.Visit(pkgs, nil, func(p *packages.Package) {
		w.PkgBy[p.PkgPath] = p
		for _, e := range p.Errors {
			errs = append(errs, e.Error())
		}
	})
	if len(errs) > 0 {
		sort.Strings(errs)
		if len(errs) > 10 {
			errs = errs[:10]
		}
		return nil, fmt.Errorf("the tree does not type-check: %s", strings.Join(errs, "; "))
	}
	w.Fset = pkgs[0].Fset
	for _, p := range pkgs {
		if isModulePath(p.PkgPath) {
			w.Pkgs = append(w.Pkgs, p)
			w.NFiles += len(p.Syntax)
		}
	}
	sort.Slice(w.Pkgs, func(i, j int) bool { return w.Pkgs[i].PkgPath < w.Pkgs[j].PkgPath })
	if len(w.Pkgs) == 0 {
		return nil, fmt.Errorf("no module packages (%s) among %d loaded", modPath, len(pkgs))
	}
	prog, _ := ssautil.AllPackages(pkgs, ssa.InstantiateGenerics)
	prog.Build()
	w.Prog = prog
	for _, p := range w.Pkgs {
		sp := prog.Package(p.Types)
		if sp == nil {
			return nil, fmt.Errorf("no SSA for %s", p.PkgPath)
		}
		if !isMockPath(p.PkgPath) {
			w.SSAPkg[shortPkg(p.PkgPath)] = sp
		}
	}
	for fn := range ssautil.AllFunctions(prog) {
		if fn.Pkg == nil || fn.Synthetic != "" && fn.Name() != "init" {
			continue
		}
		pp := fn.Pkg.Pkg.Path()
		if !isModulePath(pp) || isMockPath(pp) {
			continue
		}
		if fn.Blocks == nil {
			continue
		}
		w.Funcs = append(w.Funcs, fn)
		w.funcBy[w.FuncKey(fn)] = fn
	}
	sort.Slice(w.Funcs, func(i, j int) bool { return w.FuncKey(w.Funcs[i]) < w.FuncKey(w.Funcs[j]) })
	return w, nil
}

// FuncKey is the stable name of a module function: "provider.(*IdentityProvider).ssoHandleFunc",
// "provider.checkCertificate", "provider.checkCertificate$1".
func (w *World) FuncKey(fn *ssa.Function) string {
	if fn == nil {
		return "<nil>"
	}
	if fn.Parent() != nil {
		// anonymous: parentKey$N
		name := fn.Name() // e.g. checkCertificate$1 or ssoHandleFunc$3
		pk := w.FuncKey(fn.Parent())
		if i := strings.LastIndex(name, "$"); i >= 0 {
			return pk + name[i:]
		}
		return pk + "$" + name
	}
	pkg := ""
	if fn.Pkg != nil {
		pkg = shortPkg(fn.Pkg.Pkg.Path())
	} else if fn.Object() != nil && fn.Object().Pkg() != nil {
		pkg = shortPkg(fn.Object().Pkg().Path())
	}
	if recv := fn.Signature.Recv(); recv != nil {
		t := recv.Type()
		star := ""
		if p, ok := t.(*types.Pointer); ok {
			t = p.Elem()
			star = "*"
		}
		tn := t.String()
		if n, ok := t.(*types.Named); ok {
			tn = n.Obj().Name()
		}
		return fmt.Sprintf("%s.(%s%s).%s", pkg, star, tn, fn.Name())
	}
	return pkg + "." + fn.Name()
}

// Func resolves a function by key; nil when the anchor no longer exists.
func (w *World) Func(key string) *ssa.Function { return w.funcBy[key] }

func (w *World) Pos(p token.Pos) string {
	if !p.IsValid() {
		return "-"
	}
	pos := w.Fset.Position(p)
	rel, err := filepath.Rel(w.RepoDir, pos.Filename)
	if err != nil || strings.HasPrefix(rel, "..") {
		rel = pos.Filename
		if i := strings.Index(rel, "/pkg/mod/"); i >= 0 {
			rel = rel[i+len("/pkg/mod/"):]
		}
	}
	return fmt.Sprintf("%s:%d", rel, pos.Line)
}

func (w *World) FnPos(fn *ssa.Function) string {
	if fn == nil {
		return "-"
	}
	return w.Pos(fn.Pos())
}

func (w *World) InstrPos(i ssa.Instruction) string {
	p := i.Pos()
	if !p.IsValid() {
		if v, ok := i.(ssa.Value); ok {
			_ = v
		}
		// fall back to the closest positioned instruction in the block
		b := i.Block()
		if b != nil {
			for _, j := range b.Instrs {
				if j.Pos().IsValid() {
					p = j.Pos()
					if j == i {
						break
					}
				}
			}
		}
		if !p.IsValid() && i.Parent() != nil {
			p = i.Parent().Pos()
		}
	}
	return w.Pos(p)
}

// calleeOf returns the statically known callee of a call (function, method or
// closure literal), or nil for interface / dynamic calls.
func calleeOf(c ssa.CallInstruction) *ssa.Function {
	com := c.Common()
	if com.IsInvoke() {
		return nil
	}
	switch v := com.Value.(type) {
	case *ssa.Function:
		return v
	case *ssa.MakeClosure:
		if f, ok := v.Fn.(*ssa.Function); ok {
			return f
		}
	}
	return nil
}

// calleeName renders any call target: "net/http.Error", "(*net/http.Request).FormValue",
// "iface:provider.AuthStorage.CreateAuthRequest", "dyn".
func calleeName(c ssa.CallInstruction) string {
	com := c.Common()
	if com.IsInvoke() {
		recv := com.Value.Type()
		tn := recv.String()
		if n, ok := recv.(*types.Named); ok {
			if n.Obj().Pkg() != nil {
				tn = shortPkg(n.Obj().Pkg().Path()) + "." + n.Obj().Name()
			} else {
				tn = n.Obj().Name()
			}
		}
		return "iface:" + tn + "." + com.Method.Name()
	}
	if f := calleeOf(c); f != nil {
		return fnFullName(f)
	}
	if b, ok := com.Value.(*ssa.Builtin); ok {
		return "builtin:" + b.Name()
	}
	return "dyn"
}

func fnFullName(f *ssa.Function) string {
	if f.Object() != nil {
		if fo, ok := f.Object().(*types.Func); ok {
			return fo.FullName()
		}
	}
	return f.String()
}

// ifaceMethod returns the method name if c is an interface call, else "".
func ifaceMethod(c ssa.CallInstruction) string {
	if c.Common().IsInvoke() {
		return c.Common().Method.Name()
	}
	return ""
}

// namedOf unwraps pointers and returns the named type, or nil.
func namedOf(t types.Type) *types.Named {
	for {
		switch x := t.(type) {
		case *types.Pointer:
			t = x.Elem()
		case *types.Named:
			return x
		case *types.Alias:
			t = types.Unalias(x)
		default:
			return nil
		}
	}
}

func typeKey(t types.Type) string {
	n := namedOf(t)
	if n == nil || n.Obj().Pkg() == nil {
		return t.String()
	}
	return shortPkg(n.Obj().Pkg().Path()) + "." + n.Obj().Name()
}

// isXMLModelPkg reports packages under pkg/provider/xml/ that declare wire structs.
func isXMLModelPkg(p *types.Package) bool {
	return p != nil && strings.HasPrefix(p.Path(), modPath+"/pkg/provider/xml/")
}

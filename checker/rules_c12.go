package main

import (
	"fmt"
	"go/token"
	"go/types"
	"reflect"
	"strings"

	"golang.org/x/tools/go/ssa"
)

func init() { register("C12", checkC12) }

type attrKeys struct {
	ch                                                *Chain
	body, decode, sp, cert, sig, dest, userinfo, sign *Step
}

func (cx *Ctx) attrChain(r *Report) *attrKeys {
	ch := cx.chain(r, kAttr)
	if ch == nil {
		return nil
	}
	w := cx.W
	k := &attrKeys{ch: ch}
	one := func(name string, ss []*Step) *Step {
		if len(ss) == 1 {
			r.Ok("R-STEP", "attr:"+name, ss[0].Pos, "step recognised")
			return ss[0]
		}
		if len(ss) == 0 {
			r.Fail("R-STEP", "attr:"+name, w.FnPos(ch.Fn), "the attribute-query chain has no step '"+name+"' any more")
		} else {
			r.Undecided("R-STEP", "attr:"+name, ss[1].Pos, fmt.Sprintf("%d steps match '%s'", len(ss), name))
		}
		return nil
	}
	k.body = one("body", cx.stepsReaching(ch, matchCallee("io/ioutil.ReadAll", "io.ReadAll")))
	k.decode = one("decode", cx.stepsReaching(ch, matchDecoder(w, "samlp.AttributeQueryType")))
	k.sp = one("sp", cx.stepsReaching(ch, matchStorage("GetEntityByID")))
	k.cert = one("cert", cx.stepsByFactory(ch, "logic", "provider.checkCertificate"))
	k.sig = one("sig", cx.stepsByFactory(ch, "logic", "provider.verifyPostSignature"))
	k.dest = one("dest", cx.stepsReaching(ch, matchFnKey(w, "provider.verifyRequestDestinationOfAttrQuery")))
	k.userinfo = one("userinfo", cx.stepsReaching(ch, matchStorage("SetUserinfoWithLoginName")))
	k.sign = one("sign", cx.stepsReaching(ch, matchFnKey(w, "provider.createPostSignature")))
	return k
}

// xmlTagOf returns the xml struct tag of field name in the named struct type.
func (w *World) xmlTagOf(pkgShort, typeName, field string) (string, bool) {
	for _, p := range w.Pkgs {
		if shortPkg(p.PkgPath) != pkgShort || !isModulePath(p.PkgPath) {
			continue
		}
		obj := p.Types.Scope().Lookup(typeName)
		if obj == nil {
			continue
		}
		st, ok := obj.Type().Underlying().(*types.Struct)
		if !ok {
			continue
		}
		for i := 0; i < st.NumFields(); i++ {
			if st.Field(i).Name() == field {
				return reflect.StructTag(st.Tag(i)).Get("xml"), true
			}
		}
	}
	return "", false
}

func checkC12(cx *Ctx, r *Report) {
	w, fx := cx.W, cx.Fx
	// storage is asked with the request's context (which carries the issuer / tenant in effect): keys, providers and
	// users are those of this request
	cx.checkStorageContext(r)
	cx.checkStorageIsTheApplications(r)
	// request data must not be shared between requests through recycled buffers (R-POOL, see C15)
	cx.checkPoolEscape(r)
	r.Clauses = []string{
		"guards precede disclosure: user-info lookup, the Success constructor and signing happen only after decode, SP lookup by Issuer, certificate, signature and destination steps; the response is emitted only after the chain",
		"the Destination is decodable (unqualified attribute like its siblings) and compared with the AttributeService locations of this request's metadata",
		"filter: an attribute is added to the answer only when nothing was requested, or its Name and NameFormat both equal a requested attribute's; the added element is the user's attribute",
		"wiring: InResponseTo <- query ID; audience <- entity ID of the looked-up requester; user lookup by the query's subject NameID; the signed object is the response built from that user",
	}
	r.NotDec = []string{"set semantics of duplicate requested attributes", "validity of the signature itself (C04/C05 clauses)"}
	r.Assume = []string{"chain semantics (C20, re-checked)"}
	if !cx.requireC20(r) {
		return
	}
	k := cx.attrChain(r)
	if k == nil {
		return
	}
	ch := k.ch
	cx.checkNoPassWithoutProvider(r, ch, "attr")
	before := func(name string, a, b *Step) {
		if a == nil || b == nil {
			return
		}
		r.Check(a.Idx < b.Idx, "R-ORDER", "attr:"+name, a.Pos, "order holds", "step order violated ("+name+"): user data can be looked up, built or signed before the guard ran")
	}
	before("body<decode", k.body, k.decode)
	before("decode<sp", k.decode, k.sp)
	for _, g := range []struct {
		n string
		s *Step
	}{{"cert", k.cert}, {"sig", k.sig}, {"dest", k.dest}} {
		before("sp<"+g.n, k.sp, g.s)
		before(g.n+"<userinfo", g.s, k.userinfo)
	}
	before("userinfo<sign", k.userinfo, k.sign)
	// conditions of cert / sig steps
	if k.cert != nil {
		r.Check(k.cert.Kind == "WithConditionalLogicStep" && cx.roleFactory(k.cert, "cond") == "provider.certificateCheckNecessary", "R-ORDER", "attr:cert:cond", k.cert.Pos, "conditioned by certificateCheckNecessary", "the certificate step is not conditioned by certificateCheckNecessary")
	}
	if k.sig != nil {
		r.Check(k.sig.Kind == "WithConditionalLogicStep" && cx.roleFactory(k.sig, "cond") == "provider.signaturePostProvided", "R-ORDER", "attr:sig:cond", k.sig.Pos, "runs whenever a signature value is provided", "the signature step is not conditioned by signaturePostProvided: a provided signature value may go unverified")
		if cf := k.sig.Fn("cond"); cf != nil {
			// the signature inspected is the query's
			if mc, isCall := k.sig.Arg["cond"].(*ssa.Call); isCall && len(mc.Call.Args) == 1 {
				r.Check(cx.getterSuffix(mc.Call.Args[0], "<samlp.AttributeQueryType>.Signature"), "R-VFG", "attr:sig:subject", k.sig.Pos, "inspects attrQuery.Signature", "the 'signature provided' test does not look at the query's Signature element")
			}
		}
	}
	// disclosure effects only in their steps
	hscope := w.scopeOf(ch.Fn)
	for _, eff := range []struct {
		name  string
		match func(ssa.CallInstruction) bool
		step  *Step
	}{
		{"SetUserinfoWithLoginName", matchStorage("SetUserinfoWithLoginName"), k.userinfo},
		{"makeAttributeQueryResponse", matchFnKey(w, "provider.makeAttributeQueryResponse"), k.userinfo},
		{"createPostSignature", matchFnKey(w, "provider.createPostSignature"), k.sign},
	} {
		cs := w.callsTo(hscope, eff.match)
		for _, c := range cs {
			s, inErr := stepOfFn(ch, c.Parent())
			r.Check(s != nil && s == eff.step && !inErr, "R-ORDER", "attr:effect:"+eff.name+"@"+w.FuncKey(c.Parent()), w.InstrPos(c), "occurs only inside its step", eff.name+" is called outside the step that follows all guards")
		}
	}
	// emission only after the chain; callbacks answer with HTTP errors
	for _, c := range w.callsTo(hscope, matchFnKey(w, "xml.WriteXMLMarshalled")) {
		r.Check(cx.onlyAfterPass(ch, hscope, c, 0), "R-ORDER", "attr:emit@"+w.InstrPos(c), w.InstrPos(c), "the response is written only after the chain passed", "the response is written before the whole chain passed")
	}
	for _, s := range ch.Steps {
		ef := s.Fn("errorFunc")
		if ef == nil {
			continue
		}
		cx.checkEmitExactlyOne(r, "R-EMIT", "attr:callback:"+stepName(cx, s), ef)
		for _, c := range callsIn(ef) {
			if cx.Fx.replyAct(c) == "" {
				continue
			}
			st, ok := httpErrorStatus(c)
			r.Check(ok && st >= 400, "R-EMIT", "attr:callback-status:"+stepName(cx, s), w.InstrPos(c), "plain HTTP error >= 400", "an error callback of the attribute-query chain does not answer with an HTTP error status")
		}
	}
	checkChainHandlerEmit(cx, r, "R-EMIT", "attr", ch)

	// --- destination -------------------------------------------------------------------
	cx.checkDestination(r, "provider.verifyRequestDestinationOfAttrQuery", "AttributeService")
	cx.checkDestinationContent(r, kAttr, "attr", "provider.verifyRequestDestinationOfAttrQuery")
	vf := cx.vflow(kAttr)
	lsm, ms := vf.CallArgSources(matchFnKey(w, "provider.verifyRequestDestinationOfAttrQuery"), 0)
	if len(ms) > 0 {
		r.checkSources("R-VFG", "attr:destination:metadata", w.InstrPos(ms[0]), lsm, []string{"alloc:{md.AttributeAuthorityDescriptorType}*"}, []string{"alloc:{md.AttributeAuthorityDescriptorType}*"}, false)
		lq, _ := vf.CallArgSources(matchFnKey(w, "provider.verifyRequestDestinationOfAttrQuery"), 1)
		r.checkSources("R-VFG", "attr:destination:query", w.InstrPos(ms[0]), lq, []string{"decoded:soap.AttributeQueryEnvelope.Body.AttributeQuery"}, []string{"decoded:soap.AttributeQueryEnvelope.Body.AttributeQuery"}, true)
	}
	// the AttributeService locations are the attribute endpoint
	lloc, lsites := vf.StoreSourcesIn("provider.(*IdentityProviderConfig).getMetadata", "md.EndpointType", "Location")
	_ = lloc
	if len(lsites) == 0 {
		r.Fail("R-VFG", "attr:AttributeService.Location", "", "getMetadata no longer fills endpoint locations")
	}
	// tag: Destination decodable, like its siblings
	tag, ok := w.xmlTagOf("samlp", "AttributeQueryType", "Destination")
	sib, ok2 := w.xmlTagOf("samlp", "AuthnRequestType", "Destination")
	name := strings.Split(tag, ",")[0]
	r.Check(ok && ok2 && name == "Destination" && strings.Contains(tag, ",attr") && strings.Split(sib, ",")[0] == name, "R-TAG", "samlp.AttributeQueryType.Destination", "", "unqualified attribute 'Destination', as in the sibling request types", fmt.Sprintf("the Destination attribute of AttributeQuery is declared as %q: SAML attributes are unqualified, so it is never decoded and the destination check is skipped for every query", tag))
	for _, f := range []string{"ID", "Version", "IssueInstant", "Consent"} {
		fieldName := map[string]string{"ID": "Id"}[f]
		if fieldName == "" {
			fieldName = f
		}
		t, ok := w.xmlTagOf("samlp", "AttributeQueryType", fieldName)
		if ok {
			r.Check(strings.Split(t, ",")[0] == f && strings.Contains(t, ",attr"), "R-TAG", "samlp.AttributeQueryType."+fieldName, "", "attribute "+f, fmt.Sprintf("attribute %s of AttributeQuery is declared as %q", f, t))
		}
	}

	cx.checkTags(r, "R-TAG", "samlp.AttributeQueryType", "soap.AttributeQueryEnvelope", "soap.AttributeQueryBody", "saml.AttributeType", "saml.SubjectType", "saml.NameIDType")

	// every requested attribute reaches the filter: the list handed to the constructor is built by unconditional appends
	if k.userinfo != nil {
		for f := range k.userinfo.Scope {
			if f.Parent() == nil {
				continue // only the step's own closures, not the helpers it calls
			}
			for _, c := range callsIn(f) {
				call, ok := c.(*ssa.Call)
				if !ok {
					continue
				}
				if b, isB := call.Call.Value.(*ssa.Builtin); !isB || b.Name() != "append" {
					continue
				}
				skip := iterationCanSkip(fx.info(f), call.Block())
				r.Check(!skip, "R-GUARD", "attr:queried-list-append@"+w.InstrPos(call), w.InstrPos(call), "every requested attribute is passed on to the filter (no iteration skips the append)", "an iteration of the loop can skip a requested attribute: if all are dropped the 'nothing requested - return everything' branch discloses the whole record")
			}
		}
	}
	// ... also when the list is prepared by a helper (`requestedAttributes(attrQuery.Attribute)`): a helper that can
	// leave a requested attribute out can leave all of them out
	if k.userinfo != nil {
		for f := range k.userinfo.Scope {
			for _, c := range callsIn(f) {
				g := calleeOf(c)
				if g == nil || !strings.HasSuffix(w.FuncKey(g), "makeAttributeQueryResponse") && !strings.HasSuffix(w.FuncKey(throughDelegation(g)), "makeAttributeQueryResponse") {
					continue
				}
				// candidates: a helper whose result is handed in as the list, and a helper the response builder (or one of
				// its private pieces) applies to the list it was given (`queried = sanitize(queried)`)
				var listArgs []ssa.Value
				for _, a := range c.Common().Args {
					listArgs = append(listArgs, a)
				}
				for _, piece := range cx.privateHelpers(throughDelegation(g)) {
					for _, pc := range callsIn(piece) {
						pcall, isPC := pc.(*ssa.Call)
						if !isPC || calleeOf(pcall) == nil || calleeOf(pcall).Blocks == nil {
							continue
						}
						takes := false
						for _, pa := range pcall.Call.Args {
							if psl, isPSl := pa.Type().Underlying().(*types.Slice); isPSl && typeKey(psl.Elem()) == "saml.AttributeType" {
								takes = true
							}
						}
						// (what comes back must be a list of requested attributes again - values, as decoded -, not the
						// selection from the user's attributes, which are pointers)
						if rsl, isRSl := pcall.Type().Underlying().(*types.Slice); !isRSl {
							takes = false
						} else if _, isPtr := rsl.Elem().Underlying().(*types.Pointer); isPtr {
							takes = false
						}
						if takes {
							listArgs = append(listArgs, pcall)
						}
					}
				}
				for _, a := range listArgs {
					sl, isSl := a.Type().Underlying().(*types.Slice)
					if !isSl || typeKey(sl.Elem()) != "saml.AttributeType" {
						continue
					}
					hc, isCall := a.(*ssa.Call)
					if !isCall {
						continue
					}
					h := calleeOf(hc)
					if h == nil || h.Blocks == nil || h.Pkg == nil || !isModulePath(h.Pkg.Pkg.Path()) {
						continue
					}
					for _, c2 := range callsIn(h) {
						call, ok := c2.(*ssa.Call)
						if !ok {
							continue
						}
						if b, isB := call.Call.Value.(*ssa.Builtin); !isB || b.Name() != "append" {
							continue
						}
						// leaving out an entry because the same designator was taken before (a set of what was already
						// appended, filled at the append) cannot empty a non-empty request: the first entry is always kept
						seenBefore := func(b *ssa.BasicBlock) bool {
							for _, a := range fx.AtomsAtBlock(b) {
								if a.Op != "TRUE" || a.Neg {
									continue
								}
								ex, isE := stripNot(a.Cond).(*ssa.Extract)
								if !isE || ex.Index != 1 {
									continue
								}
								lk, isL := ex.Tuple.(*ssa.Lookup)
								if !isL || !lk.CommaOk {
									continue
								}
								if _, isMake := lk.X.(*ssa.MakeMap); !isMake {
									continue
								}
								// every insertion into the set happens in the block of the append
								okSet := false
								for _, ref := range *lk.X.Referrers() {
									if mu, isMU := ref.(*ssa.MapUpdate); isMU {
										okSet = mu.Block() == call.Block()
										if !okSet {
											break
										}
									}
								}
								if okSet {
									return true
								}
							}
							return false
						}
						isSetHit := func(cond ssa.Value) bool {
							ex, isE := cond.(*ssa.Extract)
							if !isE || ex.Index != 1 {
								return false
							}
							lk, isL := ex.Tuple.(*ssa.Lookup)
							if !isL || !lk.CommaOk {
								return false
							}
							if _, isMake := lk.X.(*ssa.MakeMap); !isMake {
								return false
							}
							okSet := false
							for _, ref := range *lk.X.Referrers() {
								if mu, isMU := ref.(*ssa.MapUpdate); isMU {
									okSet = mu.Block() == call.Block()
									if !okSet {
										break
									}
								}
							}
							return okSet
						}
						seenBeforeEdge := func(b *ssa.BasicBlock, k int) bool {
							if len(b.Instrs) == 0 {
								return false
							}
							ifi, isIf := b.Instrs[len(b.Instrs)-1].(*ssa.If)
							if !isIf {
								return false
							}
							c, pol := ifi.Cond, k == 0
							for {
								u, isU := c.(*ssa.UnOp)
								if !isU || u.Op != token.NOT {
									break
								}
								c, pol = u.X, !pol
							}
							return pol && isSetHit(c)
						}
						skip := iterationCanSkipUnlessEdge(fx.info(h), call.Block(), seenBefore, seenBeforeEdge)
						r.Check(!skip, "R-GUARD", "attr:queried-list-append@"+w.InstrPos(call), w.InstrPos(call), "every requested attribute is passed on to the filter (no iteration skips the append)", "the helper that prepares the list of requested attributes can leave one out: if all are dropped the 'nothing requested - return everything' branch discloses the whole record")
					}
				}
			}
		}
	}
	// the signature is the last thing done to the answer: the signing step is the last step and nothing stores into
	// the message after the chain
	if k.sign != nil {
		r.Check(k.sign.Idx == len(ch.Steps)-1, "R-ORDER", "attr:sign-last", k.sign.Pos, "signing is the last step", "a step after the signing step can still change the signed answer")
		bad := ""
		for _, b := range ch.suffixBlocks() {
			for _, in := range b.Instrs {
				if st, ok := in.(*ssa.Store); ok {
					if fa, ok := st.Addr.(*ssa.FieldAddr); ok && isXMLModelPkg(pkgOfNamed(fa.X.Type())) && !strings.HasPrefix(fieldOwner(fa.X.Type()), "soap.") {
						bad = "stores to " + fieldOwner(fa.X.Type()) + "." + fname(fieldVar(fa.X.Type(), fa.Field)) + " at " + w.InstrPos(st)
					}
				}
			}
		}
		r.Check(bad == "", "R-ORDER", "attr:untouched-after-signing", w.FnPos(ch.Fn), "the signed answer is only wrapped into the SOAP envelope after the chain", "after the answer was signed the handler "+bad)
	}

	// --- filter ------------------------------------------------------------------------
	cx.checkAttrFilter(r)
	cx.errDisciplineOfHandler(r, kAttr)

	// --- the attributes the filter compares and the answer carries are the user's, unchanged --------------------
	// (name and name format of an emitted attribute are exactly what storage set: a defaulted or rewritten format
	// would make the filter match attributes whose stored format differs from the requested one, and miss those it equals)
	{
		setterIdx := map[string]int{"value": 1, "name": 1, "friendlyName": 2, "nameFormat": 3, "attributeValue": 4}
		setter := func(m, p string) string { return fmt.Sprintf("param:provider.(*Attributes).%s/#%d", m, setterIdx[p]) }
		stdValues := []string{setter("SetEmail", "value"), setter("SetFullName", "value"), setter("SetGivenName", "value"), setter("SetSurname", "value"), setter("SetUserID", "value"), setter("SetUsername", "value"), setter("SetCustomAttribute", "attributeValue")}
		cx.checkFieldSinks(r, "R-VFG", "attr", vf, []fieldSink{
			// (the metadata this handler renders for the destination check blanks the values of its attribute list: const:empty)
			{"saml.AttributeType", "AttributeValue", append([]string{"const:empty"}, stdValues...), stdValues, true, ""},
			{"saml.AttributeType", "Name", []string{"const:Email", "const:SurName", "const:FirstName", "const:FullName", "const:UserName", "const:UserID", "const:zero[key]", setter("SetCustomAttribute", "name")}, []string{setter("SetCustomAttribute", "name")}, true, ""},
			{"saml.AttributeType", "NameFormat", []string{"const:urn:oasis:names:tc:SAML:2.0:attrname-format:basic", setter("SetCustomAttribute", "nameFormat")}, []string{setter("SetCustomAttribute", "nameFormat")}, true, ""},
		})
	}
	// --- wiring -------------------------------------------------------------------------
	q := "decoded:soap.AttributeQueryEnvelope.Body.AttributeQuery"
	type sink struct {
		key   string
		ls    LabelSet
		n     int
		allow []string
		req   []string
		unch  bool
	}
	var sinks []sink
	add := func(key string, ls LabelSet, n int, allow, req []string, unch bool) {
		sinks = append(sinks, sink{key, ls, n, allow, req, unch})
	}
	if lsc, sc := vf.FieldStoreSources("samlp.StatusCodeType", "Value"); len(sc) > 0 {
		r.checkSources("R-VFG", "attr:StatusCode.Value", w.InstrPos(sc[0]), vf.Deep(lsc), []string{"global:provider.StatusCodeSuccess"}, []string{"global:provider.StatusCodeSuccess"}, true)
	} else {
		r.Fail("R-VFG", "attr:StatusCode.Value", "", "the answer gets no status code")
	}
	cx.checkStoresUnconditional(r, "R-MUST", "attr", vf, []fieldSink{
		{"samlp.ResponseType", "InResponseTo", nil, []string{q + ".Id"}, true, ""},
		{"saml.SubjectConfirmationDataType", "InResponseTo", nil, []string{q + ".Id"}, true, ""},
		{"saml.AudienceRestrictionType", "Audience", nil, []string{"ext:iface:provider.IDPStorage.GetEntityByID#0.Metadata.EntityID"}, true, ""},
	})
	ls, s1 := vf.FieldStoreSources("samlp.ResponseType", "InResponseTo")
	add("ResponseType.InResponseTo", ls, len(s1), []string{q + ".Id"}, []string{q + ".Id"}, true)
	ls, s2 := vf.FieldStoreSources("saml.SubjectConfirmationDataType", "InResponseTo")
	add("SubjectConfirmationData.InResponseTo", ls, len(s2), []string{q + ".Id"}, []string{q + ".Id"}, true)
	ls, s3 := vf.FieldStoreSources("saml.AudienceRestrictionType", "Audience")
	add("Audience", vf.Deep(ls), len(s3), []string{"ext:iface:provider.IDPStorage.GetEntityByID#0.Metadata.EntityID"}, []string{"ext:iface:provider.IDPStorage.GetEntityByID#0.Metadata.EntityID"}, true)
	ls, c1 := vf.CallArgSources(matchStorage("SetUserinfoWithLoginName"), 2)
	add("SetUserinfoWithLoginName:loginName", ls, len(c1), []string{q + ".Subject.NameID.Text"}, []string{q + ".Subject.NameID.Text"}, true)
	ls, c2 := vf.CallArgSources(matchStorage("GetEntityByID"), 1)
	add("GetEntityByID:entityID", ls, len(c2), []string{q + ".Issuer.Text"}, []string{q + ".Issuer.Text"}, true)
	ls, c3 := vf.CallArgSources(matchFnKey(w, "provider.createPostSignature"), 0)
	add("createPostSignature:response", ls, len(c3), []string{"alloc:{samlp.ResponseType}*"}, []string{"alloc:{samlp.ResponseType}*"}, false)
	isAttrsT := func(t types.Type) bool { return typeKey(t) == "provider.Attributes" && isPtrLike(t) }
	isQueriedT := func(t types.Type) bool {
		sl, ok := t.Underlying().(*types.Slice)
		return ok && typeKey(sl.Elem()) == "saml.AttributeType" && !isPtrLike(sl.Elem())
	}
	ls, c4 := vf.CallArgSourcesByType(matchFnKey(w, "provider.makeAttributeQueryResponse"), isAttrsT)
	add("makeAttributeQueryResponse:attributes", ls, len(c4), []string{"alloc:{provider.Attributes}*"}, nil, false)
	ls, c5 := vf.CallArgSources(matchStorage("SetUserinfoWithLoginName"), 1)
	add("SetUserinfoWithLoginName:setter", ls, len(c5), []string{"alloc:{provider.Attributes}*"}, nil, false)
	ls, c6 := vf.CallArgSourcesByType(matchFnKey(w, "provider.makeAttributeQueryResponse"), isQueriedT)
	add("makeAttributeQueryResponse:queried", vf.Deep(ls), len(c6), []string{q + ".Attribute[]", q + ".Attribute", "alloc:*"}, []string{q + ".Attribute*"}, false)
	ls, s7 := vf.FieldStoreSources("soap.ResponseBody", "Response")
	add("soap.ResponseBody.Response", ls, len(s7), []string{"alloc:{samlp.ResponseType}*"}, []string{"alloc:{samlp.ResponseType}*"}, false)
	for _, s := range sinks {
		if s.n == 0 {
			r.Fail("R-VFG", "attr:"+s.key, "", "sink not found in the attribute-query handler's scope")
			continue
		}
		r.checkSources("R-VFG", "attr:"+s.key, "", s.ls, s.allow, s.req, s.unch)
	}
	// the same Attributes object is filled by storage and read by the constructor
	if len(c4) == 1 && len(c5) == 1 {
		la, _ := vf.CallArgSourcesByType(matchFnKey(w, "provider.makeAttributeQueryResponse"), isAttrsT)
		a, b := la.leaves(), vf.Labels(c5[0].Common().Args[1]).leaves()
		r.Check(len(a) == 1 && len(b) == 1 && a[0] == b[0], "R-VFG", "attr:same-attributes-object", w.InstrPos(c4[0]), "the response is built from the object storage filled for the queried subject", "the response is built from a different Attributes object than the one storage filled")
	}
	_ = fx
	r.Min("R-VFG", 8)
	r.Min("R-ORDER", 6)
}

// checkAttrFilter: in makeAttributeQueryResponse every append to the provided list is under
// EMPTY(queried) or under EQ(Name) && EQ(NameFormat) of the same pair, and appends the user's attribute.
func (cx *Ctx) checkAttrFilter(r *Report) {
	w, fx := cx.W, cx.Fx
	fn := w.Func("provider.makeAttributeQueryResponse")
	if fn == nil {
		r.Fail("R-GUARD", "makeAttributeQueryResponse", "", "anchor function not found")
		return
	}
	lvf := cx.newVFlow("provider.makeAttributeQueryResponse", fn)
	// the value passed as `attributes` to makeAssertion
	// (the argument of that type, or the field of that type of a parameter object built for the call)
	var provided ssa.Value
	isAttrList := func(t types.Type) bool {
		sl, ok := t.Underlying().(*types.Slice)
		if !ok {
			return false
		}
		return typeKey(sl.Elem()) == "saml.AttributeType" || strings.HasSuffix(typeKey(sl.Elem()), "saml.AttributeType")
	}
	for _, c := range callsIn(fn) {
		if f := calleeOf(c); f != nil && w.FuncKey(f) == "provider.makeAssertion" {
			for _, a := range c.Common().Args {
				if isAttrList(a.Type()) {
					provided = a
				}
				// a struct value: the fields stored into the literal it was loaded from
				if al := paramObjectOf(a); al != nil {
					{
						for _, ref := range nonDebugRefs(al) {
							if fa, isFA := ref.(*ssa.FieldAddr); isFA {
								for _, r2 := range nonDebugRefs(fa) {
									if st, isSt := r2.(*ssa.Store); isSt && st.Addr == ssa.Value(fa) && isAttrList(st.Val.Type()) {
										provided = st.Val
									}
								}
							}
						}
					}
				}
			}
		}
	}
	if provided == nil {
		r.Fail("R-GUARD", "makeAttributeQueryResponse:provided", w.FnPos(fn), "the attribute list handed to makeAssertion was not found")
		return
	}
	// collect append calls contributing to it
	var appends []*ssa.Call
	seen := map[ssa.Value]bool{}
	var walk func(v ssa.Value)
	walk = func(v ssa.Value) {
		if v == nil || seen[v] {
			return
		}
		seen[v] = true
		switch x := v.(type) {
		case *ssa.Phi:
			for _, e := range x.Edges {
				walk(e)
			}
		case *ssa.Call:
			if b, ok := x.Call.Value.(*ssa.Builtin); ok && b.Name() == "append" {
				appends = append(appends, x)
				walk(x.Call.Args[0])
			} else if g := calleeOf(x); g != nil && g.Blocks != nil && g.Pkg == fn.Pkg && g.Signature.Recv() == nil && g.Signature.Results().Len() == 1 {
				// the selection moved into a helper (`selectAttributes(user, queried)`): what it returns
				for _, ret := range returnsOf(g) {
					walk(ret.Results[0])
				}
			}
		case *ssa.UnOp:
			if cell, ok := x.X.(*ssa.Alloc); ok {
				for _, s := range fx.storesToCell(cell) {
					walk(s)
				}
			}
		case *ssa.Slice:
			walk(x.X)
		}
	}
	walk(provided)
	if len(appends) == 0 {
		r.Fail("R-GUARD", "makeAttributeQueryResponse:provided", w.FnPos(fn), "the provided list is not built by appends (shape not recognised)")
		return
	}
	nUnfiltered, nMatched := 0, 0
	defer func() {
		r.Check(nUnfiltered >= 1 && nMatched >= 1, "R-GUARD", "makeAttributeQueryResponse:stages", w.FnPos(fn), "both stages present: everything for an empty request, the matching attributes otherwise", fmt.Sprintf("the answer is built by %d 'everything' and %d 'matching' stages: one of the two cases of the filter is gone (requested attributes that match are not returned, or an empty request gets nothing)", nUnfiltered, nMatched))
	}()
	for i, ap := range appends {
		key := fmt.Sprintf("makeAttributeQueryResponse:append#%d", i+1)
		// every path reaching the append must carry the filter condition
		pts, okp := fx.atomPathsTo(ap.Block(), 4096)
		if !okp || len(pts) == 0 {
			r.Undecided("R-GUARD", key, w.InstrPos(ap), "paths to the append not enumerable")
			continue
		}
		unfiltered, matched := true, true
		var atoms []Atom
		for _, pt := range pts {
			u, eqName, eqFmt := false, false, false
			var nameOther, fmtOther string
			for _, a := range pt.Atoms {
				if (a.Op == "EMPTY" || a.Op == "NIL") && !a.Neg && isQueriedAtom(a) {
					u = true
				}
				if a.Op == "EQ" && !a.Neg {
					x, y := a.A, a.B
					if strings.HasSuffix(x, ".Name") && strings.HasSuffix(y, ".Name") {
						eqName = true
						nameOther = strings.TrimSuffix(x, ".Name") + "|" + strings.TrimSuffix(y, ".Name")
					}
					if strings.HasSuffix(x, ".NameFormat") && strings.HasSuffix(y, ".NameFormat") {
						eqFmt = true
						fmtOther = strings.TrimSuffix(x, ".NameFormat") + "|" + strings.TrimSuffix(y, ".NameFormat")
					}
				}
			}
			if !u {
				unfiltered = false
			}
			if !(eqName && eqFmt && nameOther == fmtOther) {
				matched = false
				atoms = pt.Atoms
			}
			if !u && !(eqName && eqFmt && nameOther == fmtOther) {
				atoms = pt.Atoms
			}
		}
		// what is appended: elements of attributes.GetSAML()
		var elemL []string
		if sl, ok := ap.Call.Args[1].(*ssa.Slice); ok {
			elemL = lvf.Deep(lvf.Labels(sl.X)).leaves()
		} else {
			elemL = lvf.Deep(lvf.Labels(ap.Call.Args[1])).leaves()
		}
		userOnly := len(elemL) > 0
		for _, l := range elemL {
			if !strings.HasPrefix(l, "alloc:{saml.AttributeType}") {
				userOnly = false
			}
		}
		switch {
		case !userOnly:
			r.Fail("R-GUARD", key, w.InstrPos(ap), "an element that is not one of the user's attributes (attributes.GetSAML()) is added to the answer: "+strings.Join(elemL, ", "))
		case unfiltered:
			nUnfiltered++
			// every attribute of the user is passed on: no iteration of the loop skips the append
			// (one loop may serve both cases: an iteration that goes another way only where something WAS requested is the other case)
			requestedSide := func(b *ssa.BasicBlock) bool {
				for _, a := range fx.AtomsAtBlock(b) {
					if a.Op == "EMPTY" && a.Neg && isQueriedAtom(a) {
						return true
					}
				}
				return false
			}
			if iterationCanSkipUnless(fx.info(ap.Parent()), ap.Block(), requestedSide) {
				r.Fail("R-GUARD", key, w.InstrPos(ap), "with nothing requested an iteration over the user's attributes can skip the append: the answer does not contain all of them")
			} else {
				r.Ok("R-GUARD", key, w.InstrPos(ap), "all user attributes, only when no attribute was requested")
			}
		case matched:
			nMatched++
			// the filter stage is entered only for a non-empty request (else an empty request gets nothing instead of everything)
			nonEmpty := true
			for _, pt := range pts {
				has := false
				for _, a := range pt.Atoms {
					if a.Op == "EMPTY" && a.Neg && isQueriedAtom(a) {
						has = true
					}
				}
				if !has {
					nonEmpty = false
				}
			}
			if !nonEmpty {
				r.Fail("R-GUARD", key+":stage", w.InstrPos(ap), "the matching stage can be entered although the list of requested attributes is empty (the 'nothing requested' test does not cover every empty list): such a query is answered with no attributes instead of all")
			}
			r.Ok("R-GUARD", key, w.InstrPos(ap), "only under Name and NameFormat equal to the same requested attribute")
		default:
			r.Fail("R-GUARD", key, w.InstrPos(ap), "a user attribute is disclosed without both its Name and NameFormat matching a requested attribute (guards: "+strings.Join(atomStrings(atoms), " & ")+")")
		}
	}
	r.Min("R-GUARD", 3)
}

// isQueriedAtom: the atom is about the list of requested attributes - a []saml.AttributeType value (the user's own
// list is []*saml.AttributeType), whether it is a parameter or a field of a parameter object.
func isQueriedAtom(a Atom) bool {
	if strings.HasPrefix(a.TA, "<#") && strings.HasSuffix(a.TA, "[]saml.AttributeType>") {
		return true
	}
	return strings.HasSuffix(a.TA, ".queriedAttrs") || strings.HasSuffix(a.TA, ".queried") || strings.HasSuffix(a.TA, ".QueriedAttributes") || atomSubjectIsQueriedList(a)
}

func atomSubjectIsQueriedList(a Atom) bool {
	v := emptySubject(a)
	if v == nil {
		if x, _, ok := nilTest(a.Cond); ok {
			v = x
		}
	}
	if v == nil {
		return false
	}
	sl, ok := v.Type().Underlying().(*types.Slice)
	return ok && typeKey(sl.Elem()) == "saml.AttributeType" && !isPtrLike(sl.Elem())
}
